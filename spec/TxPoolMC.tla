------------------------------ MODULE TxPoolMC ------------------------------
(***************************************************************************)
(* Exhaustive exploration of the pool/chain contract: submissions, packing *)
(* a block from the pool, marking it executed, reorganisations.  Also the  *)
(* generator of call histories replayed on the real pool (hist, Dump).     *)
(***************************************************************************)
EXTENDS TxPool, SequencesExt, Json

CONSTANTS Depth,    \* length of generated call histories (0: no history recorded)
          MaxBlocks \* bound on the chain length

(* universe: two senders with state nonce 0; sender 1: nonces 0, 1, 1 (two distinct txs), sender 2:
   nonce 1 (ahead of its state nonce); two request-id transactions *)
T == << [id |-> 1, sender |-> 1, nonce |-> 0, rid |-> 0],
        [id |-> 2, sender |-> 1, nonce |-> 1, rid |-> 0],
        [id |-> 3, sender |-> 1, nonce |-> 1, rid |-> 0],
        [id |-> 4, sender |-> 2, nonce |-> 1, rid |-> 0],
        [id |-> 5, sender |-> 9, nonce |-> 0, rid |-> 7],
        [id |-> 6, sender |-> 9, nonce |-> 0, rid |-> 8] >>
Ids == 1..Len(T)
NonceOf == [s \in {1, 2, 9} |-> 0]

VARIABLES pending, executed, blocks, hist
vars == <<pending, executed, blocks, hist>>

(* Transactions.Less below Proposal023: request-id txs by rid after the nonce-checked ones
   (rid 0 sorts first), nonce-checked by sender (descending address), then nonce *)
Less(a, b) ==
  IF T[a].rid = 0 /\ T[b].rid = 0
    THEN IF T[a].sender = T[b].sender THEN T[a].nonce < T[b].nonce \/ (T[a].nonce = T[b].nonce /\ a < b)
         ELSE T[a].sender > T[b].sender
    ELSE T[a].rid < T[b].rid
RefPack == LET s == SortSeq(SetToSeq(PackSet(T, SeqSet(pending), NonceOf)), Less)
           IN IF Len(s) > Cap THEN SubSeq(s, 1, Cap) ELSE s

Init == pending = <<>> /\ executed = {} /\ blocks = <<>> /\ hist = <<>>

Rec(o, t) == [op |-> o, t |-> t]
Grow(o, t) == hist' = IF Depth = 0 THEN hist ELSE Append(hist, Rec(o, t))
Room == Depth = 0 \/ Len(hist) < Depth

Add(t) == /\ Room
          /\ pending' = AddPost(pending, executed, t)
          /\ UNCHANGED <<executed, blocks>> /\ Grow("Add", t)

(* cast a block from the pool and put it on the chain *)
PackMark == /\ Room /\ Len(blocks) < MaxBlocks
            /\ LET out == RefPack  post == MarkPost(pending, executed, SeqSet(out), {}) IN
                 /\ pending' = post.pending /\ executed' = post.executed
                 /\ blocks' = Append(blocks, out)
            /\ Grow("PackMark", 0)

(* a block from another proposer containing t (whether or not t is in the pool) *)
MarkOne(t) == /\ Room /\ t \notin executed /\ Len(blocks) < MaxBlocks
              /\ LET post == MarkPost(pending, executed, {t}, {}) IN
                   pending' = post.pending /\ executed' = post.executed
              /\ blocks' = Append(blocks, <<t>>)
              /\ Grow("MarkOne", t)

UnMarkLast == /\ Room /\ blocks # <<>>
              /\ LET post == UnMarkPost(pending, executed, blocks[Len(blocks)]) IN
                   pending' = post.pending /\ executed' = post.executed
              /\ blocks' = SubSeq(blocks, 1, Len(blocks) - 1)
              /\ Grow("UnMarkLast", 0)

Next == (\E t \in Ids : Add(t) \/ MarkOne(t)) \/ PackMark \/ UnMarkLast
Spec == Init /\ [][Next]_vars

(* --- the property on the model ------------------------------------------ *)
ChainTxs == UNION {SeqSet(blocks[i]) : i \in 1..Len(blocks)}
InvAtMostOnce   == SeqSet(pending) \cap executed = {} /\ NoDup(pending)
InvExecutedIsChain == executed = ChainTxs
InvNoDoubleExecution == \A i, j \in 1..Len(blocks) : i # j => SeqSet(blocks[i]) \cap SeqSet(blocks[j]) = {}
InvPack == LET out == RefPack IN
             /\ PackNoDup(out) /\ PackCap(out) /\ PackFromPool(SeqSet(pending), out)
             /\ PackNoExecuted(executed, out) /\ PackAscending(T, out) /\ PackNotAhead(T, NonceOf, out)

Dump == (Depth > 0 /\ Len(hist) = Depth) => PrintT(<<"HIST", ToJson(hist)>>)
=============================================================================
