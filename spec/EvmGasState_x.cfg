SPECIFICATION XSpec
CONSTANTS
  GasLimit = 1
  DepthLimit = 1
  Costs = {1}
  Requests = {0}
  Values = {0}
  MaxWrites = 0
INVARIANTS XDump
CHECK_DEADLOCK FALSE
