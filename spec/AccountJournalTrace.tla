------------------------ MODULE AccountJournalTrace ------------------------
(***************************************************************************)
(* Trace validation for AccountJournal (property C04).  Every line of      *)
(* trace.ndjson is one call made on a real *account.AccountDB with the     *)
(* complete observable projection of the real state after the call         *)
(* (harness/cmd/c04; the projection is taken on a clone, so observing does *)
(* not disturb the history).                                               *)
(*                                                                         *)
(* The specification's `st` is bound to the observed state and `snaps` to  *)
(* the stack of <<real snapshot id, state observed when it was taken>>.    *)
(* Judgements (all clauses of the property, hence "Inv."):                 *)
(*   Snapshot()            leaves every query unchanged                    *)
(*   RevertToSnapshot(id)  every query answers as when id was taken        *)
(*                         (one tag per query, so that different journal   *)
(*                         defects have different signatures)              *)
(*   Cut / Final           at every transaction end inside the history and *)
(*                         at its end: the real root (IntermediateRoot(true)*)
(*                         and Commit(true)) of the calls so far equals the*)
(*                         real root of a twin that ran only the surviving *)
(*                         calls; judged up to the first difference of a   *)
(*                         history (later cuts would only repeat it)       *)
(* The mutators themselves are not judged: their observed effect is bound. *)
(* `stats` counts how often a revert really had to restore each query.     *)
(***************************************************************************)
EXTENDS AccountJournal, Json, SequencesExt

Trace == ndJsonDeserialize("trace.ndjson")

VARIABLES l, bad, stats, tainted
tvars == <<vars, l, bad, stats, tainted>>

Tag(c, t) == IF c THEN <<>> ELSE <<t>>

(* failed judgements are reported at most 20 times per signature (tag, event): the state stays small *)
Fresh(ev, j) == LET Occ(t) == Cardinality({i \in 1..Len(bad) : bad[i][2] = ev /\ bad[i][3] = t})
                    keep == SelectSeq(j, LAMBDA t : Occ(t) < 20)
                IN  [i \in 1..Len(keep) |-> <<l, ev, keep[i]>>]

AcctFields == <<"ex", "empty", "nonce", "code", "csize", "chash", "st", "sui", "bal">>
GlobFields == <<"refund", "logs", "logIdx", "accA", "accS", "tr">>
AllFields  == AcctFields \o GlobFields
NF == Len(AllFields)

(* is query number f answered identically in the two observed states *)
SameField(s1, s2, f) ==
  IF f <= Len(AcctFields)
    THEN \A a \in 1..Len(s1.acct) : s1.acct[a][AcctFields[f]] = s2.acct[a][AcctFields[f]]
    ELSE s1[AllFields[f]] = s2[AllFields[f]]

RestoreTag(f) ==
  CASE f = 1 -> "Inv.RevertRestores.existence"   [] f = 2 -> "Inv.RevertRestores.empty"
    [] f = 3 -> "Inv.RevertRestores.nonce"       [] f = 4 -> "Inv.RevertRestores.code"
    [] f = 5 -> "Inv.RevertRestores.codeSize"    [] f = 6 -> "Inv.RevertRestores.codeHash"
    [] f = 7 -> "Inv.RevertRestores.storage"     [] f = 8 -> "Inv.RevertRestores.suicided"
    [] f = 9 -> "Inv.RevertRestores.balance"     [] f = 10 -> "Inv.RevertRestores.refund"
    [] f = 11 -> "Inv.RevertRestores.logs"       [] f = 12 -> "Inv.RevertRestores.logIndex"
    [] f = 13 -> "Inv.RevertRestores.accessAddresses" [] f = 14 -> "Inv.RevertRestores.accessSlots"
    [] f = 15 -> "Inv.RevertRestores.transient"

SnapIndex(id) == IF \E i \in 1..Len(snaps) : snaps[i][1] = id
                 THEN CHOOSE i \in 1..Len(snaps) : snaps[i][1] = id ELSE 0

JudgeRevert(e) ==
  LET i == SnapIndex(e.id) IN
  IF i = 0 THEN <<"Revert.unknownSnapshot">>
  ELSE LET saved == snaps[i][2]
           fs == SelectSeq([f \in 1..NF |-> IF SameField(saved, e.state, f) THEN 0 ELSE f], LAMBDA x : x # 0)
       IN  [k \in 1..Len(fs) |-> RestoreTag(fs[k])]

(* the root oracle; a difference is classified by the account leaves that differ between  *)
(* the two committed tries (logged by the driver), so that different defects get          *)
(* different signatures                                                                   *)
DiffClass(d) ==
  IF d.realKind = "absent"
    THEN (CASE d.twinKind = "storageOnly" -> "Inv.RootAsIfNeverExecuted.missingStorageOnlyAccount"
            [] d.twinKind = "empty"       -> "Inv.RootAsIfNeverExecuted.missingEmptyAccount"
            [] OTHER                      -> "Inv.RootAsIfNeverExecuted.missingAccount")
  ELSE IF d.twinKind = "absent"
    THEN (CASE d.realKind = "empty"       -> "Inv.RootAsIfNeverExecuted.extraEmptyAccount"
            [] d.realKind = "storageOnly" -> "Inv.RootAsIfNeverExecuted.extraStorageOnlyAccount"
            [] OTHER                      -> "Inv.RootAsIfNeverExecuted.extraAccount")
  ELSE "Inv.RootAsIfNeverExecuted.differentAccount"
JudgeRoots(e) ==
  IF e.rootReal = e.rootTwin /\ e.commitReal = e.commitTwin THEN <<>>
  ELSE IF e.leafDiff = <<>> THEN <<"Inv.RootAsIfNeverExecuted.unclassified">>
  ELSE SetToSeq({DiffClass(e.leafDiff[i]) : i \in 1..Len(e.leafDiff)})

(* the same comparison on the queries: after the calls so far every query answers as it    *)
(* does on the twin that ran only the surviving calls (a reverted call leaves no trace,    *)
(* not even one that only a later call reveals, such as the index of the next log)         *)
TwinTag(f) ==
  CASE f = 1 -> "Inv.QueriesAsIfNeverExecuted.existence"   [] f = 2 -> "Inv.QueriesAsIfNeverExecuted.empty"
    [] f = 3 -> "Inv.QueriesAsIfNeverExecuted.nonce"       [] f = 4 -> "Inv.QueriesAsIfNeverExecuted.code"
    [] f = 5 -> "Inv.QueriesAsIfNeverExecuted.codeSize"    [] f = 6 -> "Inv.QueriesAsIfNeverExecuted.codeHash"
    [] f = 7 -> "Inv.QueriesAsIfNeverExecuted.storage"     [] f = 8 -> "Inv.QueriesAsIfNeverExecuted.suicided"
    [] f = 9 -> "Inv.QueriesAsIfNeverExecuted.balance"     [] f = 10 -> "Inv.QueriesAsIfNeverExecuted.refund"
    [] f = 11 -> "Inv.QueriesAsIfNeverExecuted.logs"       [] f = 12 -> "Inv.QueriesAsIfNeverExecuted.logIndex"
    [] f = 13 -> "Inv.QueriesAsIfNeverExecuted.accessAddresses" [] f = 14 -> "Inv.QueriesAsIfNeverExecuted.accessSlots"
    [] f = 15 -> "Inv.QueriesAsIfNeverExecuted.transient"
JudgeTwinQueries(e) ==
  IF e.stateReal.panic # "" \/ e.stateTwin.panic # "" THEN <<"Inv.CallCompletes">>
  ELSE LET fs == SelectSeq([f \in 1..NF |-> IF SameField(e.stateReal, e.stateTwin, f) THEN 0 ELSE f], LAMBDA x : x # 0)
       IN  [k \in 1..Len(fs) |-> TwinTag(fs[k])]

BalStr(n) == ToString(n)
StartCoherent(e) ==
  LET m == Start(e.a) IN
  /\ \A a \in 1..2 : /\ e.state.acct[a].ex = m.acct[a].ex /\ e.state.acct[a].nonce = m.acct[a].nonce
                     /\ e.state.acct[a].code = m.acct[a].code /\ e.state.acct[a].st = m.acct[a].st
                     /\ e.state.acct[a].sui = m.acct[a].sui /\ e.state.acct[a].bal = BalStr(m.acct[a].bal)
  /\ e.state.refund = 0 /\ e.state.logs = <<0, 0>> /\ e.state.tr = <<0, 0>>

Judge(e) ==
  Tag(e.panicked = "" /\ (e.event \in {"Cut", "Final"} \/ e.state.panic = ""), "Inv.CallCompletes") \o
  CASE e.event = "Reset" -> Tag(StartCoherent(e), "Proj.startState")
    [] e.event = "SNAP"  -> Tag(\A f \in 1..NF : SameField(st, e.state, f), "Inv.SnapshotIsPure")
    [] e.event = "REV"   -> JudgeRevert(e)
    [] e.event \in {"Cut", "Final"} -> IF tainted THEN <<>> ELSE JudgeRoots(e) \o JudgeTwinQueries(e)
    [] OTHER -> <<>>

(* how often a revert had to restore query f (vacuity counters) *)
Restored(e) ==
  LET i == SnapIndex(e.id) IN
  IF e.event # "REV" \/ i = 0 THEN [f \in 1..NF |-> 0]
  ELSE [f \in 1..NF |-> IF SameField(snaps[i][2], st, f) THEN 0 ELSE 1]

TraceInit == /\ start = 1 /\ st = <<>> /\ snaps = <<>> /\ nextId = 0 /\ hist = <<>> /\ surv = <<>>
             /\ l = 1 /\ bad = <<>> /\ stats = [f \in 1..(NF + 2) |-> 0] /\ tainted = FALSE

TraceNext ==
  /\ l <= Len(Trace)
  /\ l' = l + 1
  /\ LET e == Trace[l]
         j == Judge(e)
         r == Restored(e)
     IN  /\ st' = IF e.event \in {"Cut", "Final"} THEN st ELSE e.state
         /\ tainted' = IF e.event = "Reset" THEN FALSE
                        ELSE tainted \/ (e.event \in {"Cut", "Final"} /\ JudgeRoots(e) \o JudgeTwinQueries(e) # <<>>)
         /\ start' = IF e.event = "Reset" THEN e.a ELSE start
         /\ snaps' = CASE e.event \in {"Reset", "FIN", "Final"} -> <<>>
                       [] e.event = "Cut" -> snaps
                       [] e.event = "SNAP" -> Append(snaps, <<e.id, e.state>>)
                       [] e.event = "REV" -> SubSeq(snaps, 1, IF SnapIndex(e.id) = 0 THEN Len(snaps) ELSE SnapIndex(e.id) - 1)
                       [] OTHER -> snaps
         /\ nextId' = IF e.event = "SNAP" THEN e.id + 1 ELSE IF e.event = "Reset" THEN 0 ELSE nextId
         /\ UNCHANGED <<hist, surv>>
         /\ bad' = bad \o Fresh(e.event, j)
         /\ stats' = [f \in 1..(NF + 2) |->
                        IF f <= NF THEN stats[f] + r[f]
                        ELSE IF f = NF + 1 THEN stats[f] + (IF e.event = "REV" THEN 1 ELSE 0)
                        ELSE stats[f] + (IF \E g \in 1..NF : r[g] = 1 THEN 1 ELSE 0)]

TraceSpec == TraceInit /\ [][TraceNext]_tvars

Report == (l = Len(Trace) + 1) =>
            /\ PrintT(<<"STATS", ToJson(stats)>>)
            /\ PrintT(<<"VERDICT", Len(Trace), ToJson(bad)>>)
=============================================================================
