------------------------ MODULE AccountJournalTrace ------------------------
(***************************************************************************)
(* Trace validation for AccountJournal (property C04).  Every line of      *)
(* trace.ndjson is one call made on a real *account.AccountDB with the     *)
(* complete observable projection of the real state after the call         *)
(* (harness/cmd/c04; the projection is taken on a clone, so observing does *)
(* not disturb the history).                                               *)
(*                                                                         *)
(* The specification's `st` is bound to the observed state and `snaps` to  *)
(* the stack of <<real snapshot id, state observed when it was taken>>.    *)
(* Judgements (all clauses of the property, hence "Inv."):                 *)
(*   Snapshot()            leaves every query unchanged                    *)
(*   RevertToSnapshot(id)  every query answers as when id was taken        *)
(*                         (one tag per query, so that different journal   *)
(*                         defects have different signatures)              *)
(*   Cut / Final           at every transaction end inside the history and *)
(*                         at its end: the real root (IntermediateRoot(true)*)
(*                         and Commit(true)) of the calls so far equals the*)
(*                         real root of a twin that ran only the surviving *)
(*                         calls; judged up to the first difference of a   *)
(*                         history (later cuts would only repeat it)       *)
(* The mutators themselves are not judged: their observed effect is bound. *)
(* `stats` counts how often a revert really had to restore each query.     *)
(***************************************************************************)
EXTENDS AccountJournal, Json, SequencesExt

Trace == ndJsonDeserialize("trace.ndjson")

VARIABLES l, bad, stats, tainted,
          ntouch,    \* AddFT(a, ft, 0) calls so far in this history (the only caller of accountObject.touch())
          revTouch,  \* a revert of this history undid such a call
          ngc,       \* GetCommittedState calls so far in this history
          revGC      \* a revert of this history spanned such a call
tvars == <<vars, l, bad, stats, tainted, ntouch, revTouch, ngc, revGC>>

Tag(c, t) == IF c THEN <<>> ELSE <<t>>

(* failed judgements are reported at most 20 times per signature (tag, event): the state stays small *)
Fresh(ev, j) == LET Occ(t) == Cardinality({i \in 1..Len(bad) : bad[i][2] = ev /\ bad[i][3] = t})
                    keep == SelectSeq(j, LAMBDA t : Occ(t) < 20)
                IN  [i \in 1..Len(keep) |-> <<l, ev, keep[i]>>]

AcctFields == <<"ex", "empty", "nonce", "code", "csize", "chash", "st", "sui", "bal", "ss", "ssC", "canT", "ft">>
GlobFields == <<"refund", "logs", "logIdx", "accA", "accS", "tr", "bind", "bindEx">>
AllFields  == AcctFields \o GlobFields
NF == Len(AllFields)
(* the query each field is the answer of (used in the tags) *)
FieldName == <<"existence", "empty", "nonce", "code", "codeSize", "codeHash", "storage", "suicided", "balance",
               "stateWord", "committedWord", "canTransfer", "ft",
               "refund", "logs", "logIndex", "accessAddresses", "accessSlots", "transient", "binding", "bindingAccount">>

(* is query number f answered identically in the two observed states *)
SameField(s1, s2, f) ==
  IF f <= Len(AcctFields)
    THEN \A a \in 1..Len(s1.acct) : s1.acct[a][AcctFields[f]] = s2.acct[a][AcctFields[f]]
    ELSE s1[AllFields[f]] = s2[AllFields[f]]

RestoreTag(f) == "Inv.RevertRestores." \o FieldName[f]

SnapIndex(id) == IF \E i \in 1..Len(snaps) : snaps[i][1] = id
                 THEN CHOOSE i \in 1..Len(snaps) : snaps[i][1] = id ELSE 0

JudgeRevert(e) ==
  LET i == SnapIndex(e.id) IN
  IF i = 0 THEN <<"Revert.unknownSnapshot">>
  ELSE LET saved == snaps[i][2]
           fs == SelectSeq([f \in 1..NF |-> IF SameField(saved, e.state, f) THEN 0 ELSE f], LAMBDA x : x # 0)
           (* a GetCommittedState inside the reverted span is a known defect of its own (it overwrites
              the cached pending value un-journaled); it gets its own signature so that other failures
              to restore the EVM word keep theirs *)
           gc == snaps[i][4] < ngc
       IN  [k \in 1..Len(fs) |-> IF gc /\ FieldName[fs[k]] = "stateWord"
                                   THEN "Inv.RevertRestores.stateWordAfterCommittedRead" ELSE RestoreTag(fs[k])]

(* the root oracle; a difference is classified by the account leaves that differ between  *)
(* the two committed tries (logged by the driver), so that different defects get          *)
(* different signatures                                                                   *)
DiffClass(d) ==
  IF d.realKind = "absent"
    THEN (CASE d.twinKind = "storageOnly" -> "Inv.RootAsIfNeverExecuted.missingStorageOnlyAccount"
            [] d.twinKind = "empty"       -> "Inv.RootAsIfNeverExecuted.missingEmptyAccount"
            [] OTHER                      -> "Inv.RootAsIfNeverExecuted.missingAccount")
  ELSE IF d.twinKind = "absent"
    THEN (CASE d.realKind = "empty"       -> "Inv.RootAsIfNeverExecuted.extraEmptyAccount"
            [] d.realKind = "storageOnly" -> "Inv.RootAsIfNeverExecuted.extraStorageOnlyAccount"
            [] OTHER                      -> "Inv.RootAsIfNeverExecuted.extraAccount")
  ELSE "Inv.RootAsIfNeverExecuted.differentAccount"
(* A reverted touch() is a known defect of its own (touchChange.undo removes the address from  *)
(* the dirty set but cannot re-arm the object's onDirty callback: every later write to that    *)
(* object is lost at Finalise).  Whatever a history shows after it is filed under one tag, so  *)
(* that lost writes in histories WITHOUT a reverted touch keep their own signature.            *)
JudgeRoots(e) ==
  IF e.rootReal = e.rootTwin /\ e.commitReal = e.commitTwin THEN <<>>
  ELSE IF revTouch THEN <<"Inv.RootAsIfNeverExecuted.afterRevertedTouch">>
  ELSE IF e.leafDiff = <<>>
         THEN (IF e.commitReal = e.commitTwin THEN <<"Inv.RootAsIfNeverExecuted.intermediateRootOnly">>
               ELSE <<"Inv.RootAsIfNeverExecuted.unclassified">>)
  ELSE SetToSeq({DiffClass(e.leafDiff[i]) : i \in 1..Len(e.leafDiff)})

(* the same comparison on the queries: after the calls so far every query answers as it    *)
(* does on the twin that ran only the surviving calls (a reverted call leaves no trace,    *)
(* not even one that only a later call reveals, such as the index of the next log)         *)
TwinTag(f) == "Inv.QueriesAsIfNeverExecuted." \o FieldName[f]
JudgeTwinQueries(e) ==
  IF e.stateReal.panic # "" \/ e.stateTwin.panic # "" THEN <<"Inv.CallCompletes">>
  ELSE LET fs == SelectSeq([f \in 1..NF |-> IF SameField(e.stateReal, e.stateTwin, f) THEN 0 ELSE f], LAMBDA x : x # 0)
       IN  [k \in 1..Len(fs) |-> IF revGC /\ FieldName[fs[k]] = "stateWord"
                                   THEN "Inv.QueriesAsIfNeverExecuted.stateWordAfterCommittedRead" ELSE TwinTag(fs[k])]

BalStr(n) == ToString(n)
StartCoherent(e) ==
  LET m == Start(e.a) IN
  /\ \A a \in 1..2 : /\ e.state.acct[a].ex = m.acct[a].ex /\ e.state.acct[a].nonce = m.acct[a].nonce
                     /\ e.state.acct[a].code = m.acct[a].code /\ e.state.acct[a].st = m.acct[a].st
                     /\ e.state.acct[a].sui = m.acct[a].sui /\ e.state.acct[a].bal = BalStr(m.acct[a].bal)
                     /\ e.state.acct[a].ft = BalStr(m.acct[a].ftOwn) /\ e.state.acct[a].ss = m.acct[a].ss
                     /\ e.state.acct[a].ssC = m.acct[a].ss
  /\ e.state.refund = 0 /\ e.state.logs = <<0, 0>> /\ e.state.tr = <<0, 0>>
  /\ e.state.bind = <<FALSE, 0>> /\ ~e.state.bindEx

Judge(e) ==
  (* Snapshot, RevertToSnapshot and the root computations must complete.  A mutator or query that
     panics (the token-level calls dereference a nil object for an account that Finalise deleted
     earlier on the same AccountDB) is an observation like any other: its effect is bound. *)
  Tag(e.event \in {"SNAP", "REV", "FIN", "Cut", "Final"} => e.panicked = "", "Inv.CallCompletes") \o
  Tag(e.event \in {"Cut", "Final"} \/ e.state.panic = "", "Proj.queriesComplete") \o
  CASE e.event = "Reset" -> Tag(StartCoherent(e), "Proj.startState")
    [] e.event = "SNAP"  -> Tag(\A f \in 1..NF : SameField(st, e.state, f), "Inv.SnapshotIsPure")
    [] e.event = "REV"   -> JudgeRevert(e)
    [] e.event \in {"Cut", "Final"} -> IF tainted THEN <<>> ELSE JudgeRoots(e) \o JudgeTwinQueries(e)
    [] OTHER -> <<>>

(* how often a revert had to restore query f (vacuity counters) *)
Restored(e) ==
  LET i == SnapIndex(e.id) IN
  IF e.event # "REV" \/ i = 0 THEN [f \in 1..NF |-> 0]
  ELSE [f \in 1..NF |-> IF SameField(snaps[i][2], st, f) THEN 0 ELSE 1]

TraceInit == /\ start = 1 /\ st = <<>> /\ snaps = <<>> /\ nextId = 0 /\ hist = <<>> /\ surv = <<>>
             /\ l = 1 /\ bad = <<>> /\ stats = [f \in 1..(NF + 2) |-> 0] /\ tainted = FALSE
             /\ ntouch = 0 /\ revTouch = FALSE /\ ngc = 0 /\ revGC = FALSE

TraceNext ==
  /\ l <= Len(Trace)
  /\ l' = l + 1
  /\ LET e == Trace[l]
         j == Judge(e)
         r == Restored(e)
     IN  /\ st' = IF e.event \in {"Cut", "Final"} THEN st ELSE e.state
         /\ tainted' = IF e.event = "Reset" THEN FALSE
                        ELSE tainted \/ (e.event \in {"Cut", "Final"} /\ JudgeRoots(e) \o JudgeTwinQueries(e) # <<>>)
         /\ start' = IF e.event = "Reset" THEN e.a ELSE start
         /\ snaps' = CASE e.event \in {"Reset", "FIN", "Final"} -> <<>>
                       [] e.event = "Cut" -> snaps
                       [] e.event = "SNAP" -> Append(snaps, <<e.id, e.state, ntouch, ngc>>)
                       [] e.event = "REV" -> SubSeq(snaps, 1, IF SnapIndex(e.id) = 0 THEN Len(snaps) ELSE SnapIndex(e.id) - 1)
                       [] OTHER -> snaps
         /\ nextId' = IF e.event = "SNAP" THEN e.id + 1 ELSE IF e.event = "Reset" THEN 0 ELSE nextId
         /\ UNCHANGED <<hist, surv>>
         /\ ntouch' = IF e.event = "Reset" THEN 0 ELSE IF e.event = "AF" /\ e.x = 0 THEN ntouch + 1 ELSE ntouch
         /\ ngc' = IF e.event = "Reset" THEN 0 ELSE IF e.event = "GC" THEN ngc + 1 ELSE ngc
         /\ revGC' = IF e.event = "Reset" THEN FALSE
                     ELSE revGC \/ (e.event = "REV" /\ SnapIndex(e.id) # 0 /\ snaps[SnapIndex(e.id)][4] < ngc)
         /\ revTouch' = IF e.event = "Reset" THEN FALSE
                        ELSE revTouch \/ (e.event = "REV" /\ SnapIndex(e.id) # 0 /\ snaps[SnapIndex(e.id)][3] < ntouch)
         /\ bad' = bad \o Fresh(e.event, j)
         /\ stats' = [f \in 1..(NF + 2) |->
                        IF f <= NF THEN stats[f] + r[f]
                        ELSE IF f = NF + 1 THEN stats[f] + (IF e.event = "REV" THEN 1 ELSE 0)
                        ELSE stats[f] + (IF \E g \in 1..NF : r[g] = 1 THEN 1 ELSE 0)]

TraceSpec == TraceInit /\ [][TraceNext]_tvars

Report == (l = Len(Trace) + 1) =>
            /\ PrintT(<<"STATS", ToJson(stats)>>)
            /\ PrintT(<<"VERDICT", Len(Trace), ToJson(bad)>>)
=============================================================================
