SPECIFICATION Spec
CONSTANTS
  N = 3
  MaxDeliver = 3
  MaxCrash = 1
  Forks = TRUE
  Gaps = FALSE
INVARIANTS InvHeadLinked InvIndex InvHeadState InvMarks InvExecuted InvWeightMonotone InvWeightMonotoneFork
CHECK_DEADLOCK FALSE
