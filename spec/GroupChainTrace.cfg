SPECIFICATION TraceSpec
CONSTANTS
  Ids = {1, 2, 3, 4, 5}
  MaxCount = 6
  AsCoded = FALSE
  Crashes = FALSE
  Batched = TRUE
  Recheck = TRUE
INVARIANT Report
CHECK_DEADLOCK FALSE
