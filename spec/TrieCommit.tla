----------------------------- MODULE TrieCommit -----------------------------
(***************************************************************************)
(* Persisting tries: NodeDatabase of src/storage/trie/database.go between  *)
(* the tries and the disk store, at the level of its batch writes.         *)
(*                                                                         *)
(* Everything stored is a node of a hash-DAG: a trie node references its   *)
(* child nodes; the node holding an account leaf additionally references   *)
(* the account's storage root and its code blob (the two external          *)
(* references AccountDB.Commit creates through the onleaf callback).       *)
(* `children` is that reference relation; it is chosen freely in Init, so  *)
(* TLC explores every DAG over Nodes (children have smaller ids), with any *)
(* sharing between roots.                                                  *)
(*                                                                         *)
(*   mem     NodeDatabase.nodes (the write-back cache of new nodes)        *)
(*   disk    the persistent key space                                      *)
(*   batch   the xdb.Batch being filled by commit()                        *)
(*   stack   the recursion of commit(): <<node, children still to visit>>  *)
(*   durable roots whose Commit reported success                           *)
(*                                                                         *)
(* Actions: InsertTrie (Trie.Commit -> hasher.store puts a trie's new      *)
(* nodes into mem), CommitBegin / Descend / PutNode / Flush / CommitEnd    *)
(* (NodeDatabase.Commit: post-order walk, a batch write whenever the batch *)
(* holds Ideal puts, a final write, uncache only after it), Crash (process *)
(* death: mem, batch and the walk are lost, disk stays), WriteFails (a     *)
(* physical write returns an error - transient I/O error, disk full - and  *)
(* the process goes on: nothing of that batch reaches the disk, Commit     *)
(* reports the failure, the memory layer keeps its nodes, and further      *)
(* commits follow: a retry of the same root or the next block on top).     *)
(*                                                                         *)
(* Several states share the memory layer: InsertTrie(r) is the AccountDB-   *)
(* level commit of a state (its new nodes enter mem, in flush-list order    *)
(* flist), CommitBegin(r) .. CommitEnd is NodeDatabase.Commit(r) (persist); *)
(* any number of states (siblings on one parent: disjoint, overlapping or   *)
(* identical sub-DAGs, Init chooses the DAG freely) may be inserted before  *)
(* any of them is persisted, and they are persisted in any order, with      *)
(* crashes and failing writes in between.  NodeDatabase.Commit of a root    *)
(* that is not (any more) in mem writes nothing and reports success - as    *)
(* the code does ("previously committed node").                             *)
(* Uncache = "walk" is the code (uncache removes exactly the persisted      *)
(* trie); "prefix" is a third negative control (drop the flush-list up to   *)
(* the root): TLC must find a reported-durable root that is not on disk.    *)
(*                                                                         *)
(* Dedup = TRUE is a second negative control: a "put each shared node only *)
(* once" flag kept on the cached node (set when the node is put into a     *)
(* batch, the walk skips flagged nodes, the flags die with uncache / a     *)
(* crash).  It is equivalent as long as no write fails; with WriteFails    *)
(* TLC must find CommitDurable violated.                                   *)
(*                                                                         *)
(* Order selects the walk: "post" is what the code does and the property   *)
(* needs (children are put before their parent, the root last); "pre" is   *)
(* the negative control: TLC must find Closed violated for it.             *)
(***************************************************************************)
EXTENDS Naturals, Sequences, FiniteSets, TLC

CONSTANTS Nodes,      \* 1..N
          Ideal,      \* puts per batch before it is written (IdealBatchSize)
          MaxCommits, \* bound on the number of Commit calls
          Crashes,    \* BOOLEAN: explore process death at any point
          Order,      \* "post" | "pre"
          WriteFailures, \* BOOLEAN: explore physical writes that return an error
          Dedup,      \* BOOLEAN: the flagged-node shortcut (negative control)
          Uncache     \* "walk" | "prefix" (negative control)

VARIABLES children, mem, disk, batch, stack, durable, pc, commits, target, flushed,
          inserted,   \* roots whose AccountDB-level commit returned in this process life
          flist       \* mem in insertion order (the flush-list)
vars == <<children, mem, disk, batch, stack, durable, pc, commits, target, flushed, inserted, flist>>

RECURSIVE ClosureOf(_, _)
ClosureOf(ch, n) == {n} \cup UNION {ClosureOf(ch, c) : c \in ch[n]}
Closure(n) == ClosureOf(children, n)

Init == /\ children \in [Nodes -> SUBSET Nodes]
        /\ \A n \in Nodes : \A c \in children[n] : c < n
        /\ mem = {} /\ disk = {} /\ batch = {} /\ stack = <<>>
        /\ durable = {} /\ pc = "idle" /\ commits = 0 /\ target = 0 /\ flushed = {}
        /\ inserted = {} /\ flist = <<>>

(* Trie.Commit: every node of the trie that is not known yet enters mem *)
RECURSIVE PostOrder(_, _)
(* the nodes of todo (a set) and below, children before parents, each once, skipping `have` *)
PostOrder(todo, have) ==
  IF todo = {} THEN <<>>
  ELSE LET n == CHOOSE x \in todo : \A y \in todo : x <= y
       IN  IF n \in have THEN PostOrder(todo \ {n}, have)
           ELSE LET below == PostOrder(children[n], have)
                    seen  == have \cup {below[i] : i \in 1..Len(below)}
                IN  below \o <<n>> \o PostOrder(todo \ {n}, seen \cup {n})

InsertTrie(r) ==
  /\ pc = "idle"
  /\ r \notin inserted
  /\ LET new == PostOrder({r}, mem \cup disk)        \* hasher.store: children first, known nodes skipped
     IN  /\ mem' = mem \cup {new[i] : i \in 1..Len(new)}
         /\ flist' = flist \o new
  /\ inserted' = inserted \cup {r}
  /\ UNCHANGED <<children, disk, batch, stack, durable, pc, commits, target, flushed>>

CommitBegin(r) ==
  /\ pc = "idle" /\ commits < MaxCommits
  /\ r \in inserted
  /\ pc' = "walk" /\ target' = r /\ commits' = commits + 1
  /\ batch' = {}
  /\ stack' = << <<r, children[r]>> >>
  /\ UNCHANGED <<children, mem, disk, durable, flushed, inserted, flist>>

Top == stack[Len(stack)]
Pop == SubSeq(stack, 1, Len(stack) - 1)

(* commit(hash): "if the node does not exist, it's a previously committed node" *)
SkipKnown ==
  /\ pc = "walk" /\ stack # <<>> /\ (Top[1] \notin mem \/ (Dedup /\ Top[1] \in flushed))
  /\ stack' = Pop
  /\ UNCHANGED <<children, mem, disk, batch, durable, pc, commits, target, flushed, inserted, flist>>

PutIt(n) == /\ batch' = batch \cup {n}
            /\ flushed' = IF Dedup THEN flushed \cup {n} ELSE flushed
            /\ pc' = IF Cardinality(batch') >= Ideal THEN "flush" ELSE "walk"
Walkable(n) == n \in mem /\ ~(Dedup /\ n \in flushed)

Descend ==
  /\ pc = "walk" /\ stack # <<>> /\ Walkable(Top[1]) /\ Top[2] # {}
  /\ \E c \in Top[2] :
       stack' = Append([stack EXCEPT ![Len(stack)] = <<Top[1], Top[2] \ {c}>>], <<c, children[c]>>)
  /\ (IF Order = "pre" /\ Top[2] = children[Top[1]]
        THEN PutIt(Top[1])            \* negative control: parent before its children
        ELSE UNCHANGED <<batch, pc, flushed>>)
  /\ UNCHANGED <<children, mem, disk, durable, commits, target, inserted, flist>>

PutNode ==
  /\ pc = "walk" /\ stack # <<>> /\ Walkable(Top[1]) /\ Top[2] = {}
  /\ stack' = Pop
  /\ (IF Order = "pre" /\ children[Top[1]] # {} THEN UNCHANGED <<batch, pc, flushed>> ELSE PutIt(Top[1]))
  /\ UNCHANGED <<children, mem, disk, durable, commits, target, inserted, flist>>

(* batch.Write(): atomic *)
Flush ==
  /\ pc = "flush"
  /\ disk' = disk \cup batch /\ batch' = {} /\ pc' = "walk"
  /\ UNCHANGED <<children, mem, stack, durable, commits, target, flushed, inserted, flist>>

(* the final batch.Write(), then uncache, then Commit returns nil *)
Position(n) == CHOOSE i \in 1..Len(flist) : flist[i] = n
Dropped ==   \* what uncache removes from the memory layer
  IF Uncache = "walk" THEN mem \cap Closure(target)
  ELSE IF target \in mem THEN {flist[i] : i \in 1..Position(target)} ELSE {}
CommitEnd ==
  /\ pc = "walk" /\ stack = <<>>
  /\ disk' = disk \cup batch /\ batch' = {}
  /\ mem' = mem \ Dropped
  /\ flist' = SelectSeq(flist, LAMBDA n : n \notin Dropped)
  /\ durable' = durable \cup {target}
  /\ pc' = "idle"
  /\ flushed' = flushed \ Dropped                  \* the flags go with the uncached nodes
  /\ UNCHANGED <<children, stack, commits, target, inserted>>

(* a physical write (one in the middle of the walk, or the final one) returns an error: *)
(* nothing of the batch is on disk, Commit returns the error without uncaching          *)
WriteFails ==
  /\ WriteFailures
  /\ (pc = "flush" \/ (pc = "walk" /\ stack = <<>>))
  /\ batch' = {} /\ stack' = <<>> /\ pc' = "idle"
  /\ UNCHANGED <<children, mem, disk, durable, commits, target, flushed, inserted, flist>>

Crash ==
  /\ Crashes
  /\ (pc # "idle" \/ mem # {})
  /\ mem' = {} /\ batch' = {} /\ stack' = <<>> /\ pc' = "idle" /\ flushed' = {}
  /\ inserted' = {} /\ flist' = <<>>
  /\ UNCHANGED <<children, disk, durable, commits, target>>

Next ==
  \/ \E r \in Nodes : InsertTrie(r)
  \/ \E r \in Nodes : CommitBegin(r)
  \/ SkipKnown \/ Descend \/ PutNode \/ Flush \/ CommitEnd \/ Crash \/ WriteFails

Spec == Init /\ [][Next]_vars

-----------------------------------------------------------------------------
(* The property                                                            *)

(* every root whose top node is on disk is fully resolvable - at every     *)
(* instant, i.e. for every prefix of the sequence of batch writes          *)
Closed == \A n \in disk : children[n] \subseteq disk
(* a root that was reported committed stays fully resolvable *)
DurableKept == \A r \in durable : Closure(r) \subseteq disk
(* whatever is readable is either on disk or still cached: uncache never   *)
(* drops a node that is not on disk                                        *)
NothingLost == \A n \in mem \cup disk : children[n] \subseteq mem \cup disk
(* history is append-only (no production caller of Dereference / Cap)      *)
AppendOnly == [][disk \subseteq disk']_vars

TypeOK == /\ mem \subseteq Nodes /\ disk \subseteq Nodes /\ batch \subseteq Nodes
          /\ pc \in {"idle", "walk", "flush"} /\ commits \in 0..MaxCommits
=============================================================================
