----------------------------- MODULE TrieCommit -----------------------------
(***************************************************************************)
(* Persisting tries: NodeDatabase of src/storage/trie/database.go between  *)
(* the tries and the disk store, at the level of its batch writes.         *)
(*                                                                         *)
(* Everything stored is a node of a hash-DAG: a trie node references its   *)
(* child nodes; the node holding an account leaf additionally references   *)
(* the account's storage root and its code blob (the two external          *)
(* references AccountDB.Commit creates through the onleaf callback).       *)
(* `children` is that reference relation; it is chosen freely in Init, so  *)
(* TLC explores every DAG over Nodes (children have smaller ids), with any *)
(* sharing between roots.                                                  *)
(*                                                                         *)
(*   mem     NodeDatabase.nodes (the write-back cache of new nodes)        *)
(*   disk    the persistent key space                                      *)
(*   batch   the xdb.Batch being filled by commit()                        *)
(*   stack   the recursion of commit(): <<node, children still to visit>>  *)
(*   durable roots whose Commit reported success                           *)
(*                                                                         *)
(* Actions: InsertTrie (Trie.Commit -> hasher.store puts a trie's new      *)
(* nodes into mem), CommitBegin / Descend / PutNode / Flush / CommitEnd    *)
(* (NodeDatabase.Commit: post-order walk, a batch write whenever the batch *)
(* holds Ideal puts, a final write, uncache only after it), Crash (process *)
(* death: mem, batch and the walk are lost, disk stays).                   *)
(*                                                                         *)
(* Order selects the walk: "post" is what the code does and the property   *)
(* needs (children are put before their parent, the root last); "pre" is   *)
(* the negative control: TLC must find Closed violated for it.             *)
(***************************************************************************)
EXTENDS Naturals, Sequences, FiniteSets, TLC

CONSTANTS Nodes,      \* 1..N
          Ideal,      \* puts per batch before it is written (IdealBatchSize)
          MaxCommits, \* bound on the number of Commit calls
          Crashes,    \* BOOLEAN: explore process death at any point
          Order       \* "post" | "pre"

VARIABLES children, mem, disk, batch, stack, durable, pc, commits, target
vars == <<children, mem, disk, batch, stack, durable, pc, commits, target>>

RECURSIVE ClosureOf(_, _)
ClosureOf(ch, n) == {n} \cup UNION {ClosureOf(ch, c) : c \in ch[n]}
Closure(n) == ClosureOf(children, n)

Init == /\ children \in [Nodes -> SUBSET Nodes]
        /\ \A n \in Nodes : \A c \in children[n] : c < n
        /\ mem = {} /\ disk = {} /\ batch = {} /\ stack = <<>>
        /\ durable = {} /\ pc = "idle" /\ commits = 0 /\ target = 0

(* Trie.Commit: every node of the trie that is not known yet enters mem *)
InsertTrie(r) ==
  /\ pc = "idle"
  /\ r \notin mem \cup disk
  /\ mem' = mem \cup (Closure(r) \ disk)
  /\ UNCHANGED <<children, disk, batch, stack, durable, pc, commits, target>>

CommitBegin(r) ==
  /\ pc = "idle" /\ commits < MaxCommits
  /\ r \in mem
  /\ pc' = "walk" /\ target' = r /\ commits' = commits + 1
  /\ batch' = {}
  /\ stack' = << <<r, children[r]>> >>
  /\ mem' = mem
  /\ UNCHANGED <<children, disk, durable>>

Top == stack[Len(stack)]
Pop == SubSeq(stack, 1, Len(stack) - 1)

(* commit(hash): "if the node does not exist, it's a previously committed node" *)
SkipKnown ==
  /\ pc = "walk" /\ stack # <<>> /\ Top[1] \notin mem
  /\ stack' = Pop
  /\ UNCHANGED <<children, mem, disk, batch, durable, pc, commits, target>>

PutIt(n) == /\ batch' = batch \cup {n}
            /\ pc' = IF Cardinality(batch') >= Ideal THEN "flush" ELSE "walk"

Descend ==
  /\ pc = "walk" /\ stack # <<>> /\ Top[1] \in mem /\ Top[2] # {}
  /\ \E c \in Top[2] :
       stack' = Append([stack EXCEPT ![Len(stack)] = <<Top[1], Top[2] \ {c}>>], <<c, children[c]>>)
  /\ (IF Order = "pre" /\ Top[2] = children[Top[1]]
        THEN PutIt(Top[1])            \* negative control: parent before its children
        ELSE UNCHANGED <<batch, pc>>)
  /\ UNCHANGED <<children, mem, disk, durable, commits, target>>

PutNode ==
  /\ pc = "walk" /\ stack # <<>> /\ Top[1] \in mem /\ Top[2] = {}
  /\ stack' = Pop
  /\ (IF Order = "pre" /\ children[Top[1]] # {} THEN UNCHANGED <<batch, pc>> ELSE PutIt(Top[1]))
  /\ UNCHANGED <<children, mem, disk, durable, commits, target>>

(* batch.Write(): atomic *)
Flush ==
  /\ pc = "flush"
  /\ disk' = disk \cup batch /\ batch' = {} /\ pc' = "walk"
  /\ UNCHANGED <<children, mem, stack, durable, commits, target>>

(* the final batch.Write(), then uncache, then Commit returns nil *)
CommitEnd ==
  /\ pc = "walk" /\ stack = <<>>
  /\ disk' = disk \cup batch /\ batch' = {}
  /\ mem' = mem \ Closure(target)
  /\ durable' = durable \cup {target}
  /\ pc' = "idle"
  /\ UNCHANGED <<children, stack, commits, target>>

Crash ==
  /\ Crashes
  /\ (pc # "idle" \/ mem # {})
  /\ mem' = {} /\ batch' = {} /\ stack' = <<>> /\ pc' = "idle"
  /\ UNCHANGED <<children, disk, durable, commits, target>>

Next ==
  \/ \E r \in Nodes : InsertTrie(r)
  \/ \E r \in Nodes : CommitBegin(r)
  \/ SkipKnown \/ Descend \/ PutNode \/ Flush \/ CommitEnd \/ Crash

Spec == Init /\ [][Next]_vars

-----------------------------------------------------------------------------
(* The property                                                            *)

(* every root whose top node is on disk is fully resolvable - at every     *)
(* instant, i.e. for every prefix of the sequence of batch writes          *)
Closed == \A n \in disk : children[n] \subseteq disk
(* a root that was reported committed stays fully resolvable *)
DurableKept == \A r \in durable : Closure(r) \subseteq disk
(* whatever is readable is either on disk or still cached: uncache never   *)
(* drops a node that is not on disk                                        *)
NothingLost == \A n \in mem \cup disk : children[n] \subseteq mem \cup disk
(* history is append-only (no production caller of Dereference / Cap)      *)
AppendOnly == [][disk \subseteq disk']_vars

TypeOK == /\ mem \subseteq Nodes /\ disk \subseteq Nodes /\ batch \subseteq Nodes
          /\ pc \in {"idle", "walk", "flush"} /\ commits \in 0..MaxCommits
=============================================================================
