SPECIFICATION LayoutSpec
CONSTANTS
  GasLimit = 200
  DepthLimit = 2
  Costs = {1}
  Requests = {0}
  NCalls = 0
  GasArgs = {"0"}
  Targets = {"empty"}
  CallValues = {"0"}
  Presents = {0, 1, 2, 3, 4, 5, 6, 7, 8, 9, 10, 11, 12, 13, 14, 15, 16, 17, 18, 19, 20, 21, 22, 23, 24, 25, 26, 27, 28, 29, 30, 31}
INVARIANTS LayoutInv LayoutDump
CHECK_DEADLOCK FALSE
