------------------------------- MODULE TxPool -------------------------------
(***************************************************************************)
(* The transaction pool of go-rangers (src/service/transaction_pool.go,    *)
(* simple_container.go) and its contract with the chain (C17).             *)
(*                                                                         *)
(* A transaction is a record [id, sender, nonce, rid]: rid # 0 marks a     *)
(* request-id (gate) transaction, ordered by rid and not nonce-checked;    *)
(* rid = 0 marks a nonce-checked (json-rpc) transaction.                   *)
(*                                                                         *)
(* State: pending  insertion-ordered sequence of tx ids (received)         *)
(*        executed set of tx ids with an executed record                   *)
(* Operations (one per exported call): Add, Pack, Mark (MarkExecuted of a  *)
(* block's transactions + evicted list), UnMark (block removed by reorg).  *)
(***************************************************************************)
EXTENDS Integers, Sequences, FiniteSets, TLC

CONSTANTS Cap,      \* per-block limit (txCountPerBlock)
          Limit     \* pool size limit (rcvTxPoolSize)

SeqSet(s) == {s[i] : i \in 1..Len(s)}
NoDup(s) == \A i, j \in 1..Len(s) : i # j => s[i] # s[j]

RECURSIVE Without(_, _)
Without(s, X) == IF s = <<>> THEN <<>>
                 ELSE IF Head(s) \in X THEN Without(Tail(s), X) ELSE <<Head(s)>> \o Without(Tail(s), X)

(* --- Add ------------------------------------------------------------- *)
Exists(p, ex, t) == t \in SeqSet(p) \/ t \in ex
AddOk(p, ex, t) == ~Exists(p, ex, t)
AddPost(p, ex, t) == IF AddOk(p, ex, t) /\ Len(p) < Limit THEN Append(p, t) ELSE p

(* --- Mark / UnMark --------------------------------------------------- *)
MarkPost(p, ex, txs, evicted) == [pending |-> Without(p, txs \cup evicted), executed |-> ex \cup txs]

(* the re-add of a reorged block's transaction ignores the pool's size limit: it must become
   pending again *)
ReAddPost(p, ex, t) == IF AddOk(p, ex, t) THEN Append(p, t) ELSE p
RECURSIVE AppendAll(_, _, _)
AppendAll(p, ex, s) ==      \* UnMark re-adds in block order through add()
  IF s = <<>> THEN p ELSE AppendAll(ReAddPost(p, ex, Head(s)), ex, Tail(s))

(* --- expiry: the container's ticker ages every pending transaction once a minute and drops
   those that reach ExpiredRing ticks without having been booked -------------------------- *)
ExpiredRing == 5
TickPost(p, age) == SelectSeq(p, LAMBDA t : age[t] + 1 < ExpiredRing)
UnMarkPost(p, ex, txseq) ==
  LET ex2 == ex \ SeqSet(txseq) IN [pending |-> AppendAll(p, ex2, txseq), executed |-> ex2]

(* --- Pack -------------------------------------------------------------
   T: tx id -> record.  nonceOf: sender -> state nonce.                   *)

(* The nonce walk of checkNonce: transactions are sorted so that a sender's nonce-checked
   transactions come in ascending nonce order; a transaction is let through iff its nonce is not
   above the expected nonce at that point (state nonce + in-sequence transactions already placed).
   Hence it passes iff nonce <= RunEnd, the end of the maximal run  start, start+1, ...  of
   nonces present in the pool for that sender. *)
RECURSIVE RunEnd(_, _)
RunEnd(N, e) == IF e \in N THEN RunEnd(N, e + 1) ELSE e
NoncesOf(T, P, s) == {T[t].nonce : t \in {x \in P : T[x].sender = s /\ T[x].rid = 0}}
Passes(T, P, nonceOf, t) ==
  T[t].rid # 0 \/ T[t].nonce <= RunEnd(NoncesOf(T, P, T[t].sender), nonceOf[T[t].sender])

(* the property's clauses on a packed batch `out` (sequence of ids) *)
PackNoDup(out) == NoDup(out)
PackCap(out) == Len(out) <= Cap
PackFromPool(P, out) == SeqSet(out) \subseteq P
PackNoExecuted(ex, out) == SeqSet(out) \cap ex = {}
PackAscending(T, out) ==
  \A i, j \in 1..Len(out) :
    (i < j /\ T[out[i]].rid = 0 /\ T[out[j]].rid = 0 /\ T[out[i]].sender = T[out[j]].sender)
      => T[out[i]].nonce <= T[out[j]].nonce
(* none ahead: walking the batch itself, a nonce-checked tx never exceeds state nonce + that
   sender's already placed in-sequence transactions *)
RECURSIVE NotAheadR(_, _, _, _)
NotAheadR(T, out, i, exp) ==     \* exp: sender -> expected nonce
  IF i > Len(out) THEN TRUE
  ELSE LET t == T[out[i]] IN
       IF t.rid # 0 THEN NotAheadR(T, out, i + 1, exp)
       ELSE /\ t.nonce <= exp[t.sender]
            /\ NotAheadR(T, out, i + 1,
                         IF t.nonce = exp[t.sender] THEN [exp EXCEPT ![t.sender] = @ + 1] ELSE exp)
PackNotAhead(T, nonceOf, out) == NotAheadR(T, out, 1, nonceOf)

(* reference content of the batch when the cap is not reached *)
PackSet(T, P, nonceOf) ==
  LET fe == [s \in DOMAIN nonceOf |-> RunEnd(NoncesOf(T, P, s), nonceOf[s])]
  IN {t \in P : T[t].rid # 0 \/ T[t].nonce <= fe[T[t].sender]}
=============================================================================
