SPECIFICATION Spec
CONSTANTS
  WB = 1
  AVals = {0, 1, 2, 3, 7, 8, 9, 15, 16, 31, 32, 63, 64, 100, 126, 127, 128, 129, 130, 200, 253, 254, 255}
  BVals = {0, 1, 2, 3, 7, 8, 9, 15, 16, 31, 32, 63, 64, 100, 126, 127, 128, 129, 130, 200, 253, 254, 255}
  CVals = {0, 1, 2, 3, 127, 128, 255}
INVARIANT Agree
CHECK_DEADLOCK FALSE
