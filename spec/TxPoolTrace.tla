---------------------------- MODULE TxPoolTrace ----------------------------
(***************************************************************************)
(* Trace validation for TxPool.  Events (one per call on the real pool):   *)
(*   Reset(txs, nonces, state)  new history: transaction universe (id,     *)
(*        sender, nonce, rid), state nonce of every sender                 *)
(*   Add(t, ok, state)          AddTransaction                             *)
(*   Pack(out, state)           PackForCast returned the ids `out`         *)
(*   Mark(txs, evicted, state)  MarkExecuted for a block                   *)
(*   UnMark(txs, state)         UnMarkExecuted (reorg)                     *)
(* state = pending ids in container order, executed / existed / found per  *)
(* tx (GetExecuted, IsExisted, GetTransaction).                            *)
(* Inv.* judgements are the clauses of the property on real observations;  *)
(* the other tags compare with the reference operators of TxPool.          *)
(***************************************************************************)
EXTENDS TxPool, Json

Trace == ndJsonDeserialize("trace.ndjson")

VARIABLES l, bad, T, nonceOf, pending, executed, readded, age
tvars == <<l, bad, T, nonceOf, pending, executed, readded, age>>

Tag(c, t) == IF c THEN <<>> ELSE <<t>>
Set(sq) == {sq[i] : i \in 1..Len(sq)}
ObsExecuted(st) == {i \in 1..Len(st.executed) : st.executed[i]}

TOf(e) == [i \in 1..Len(e.txs) |-> [id |-> i, sender |-> e.txs[i].sender, nonce |-> e.txs[i].nonce, rid |-> e.txs[i].rid]]
NonceFn(e) == [s \in {e.txs[i].sender : i \in 1..Len(e.txs)} |-> e.nonces[s]]

(* coherence of the pool, whatever the call *)
JudgeState(st) ==
  LET p == st.pending  ex == ObsExecuted(st) IN
  Tag(NoDup(p), "Inv.PendingNoDuplicates") \o
  Tag(Set(p) \cap ex = {}, "Inv.ExecutedNotPending") \o
  (* (lookupSkipped: the projection did not call IsExisted - the state before a scheduled lock-free
     lookup must not have been looked up by the observer itself) *)
  Tag(st.lookupSkipped \/ \A i \in 1..Len(st.existed) : st.existed[i] = (i \in Set(p) \/ i \in ex), "Inv.LookupAgrees") \o
  Tag(\A i \in 1..Len(st.found) : st.found[i] = (i \in Set(p) \/ i \in ex), "Inv.GetTransactionAgrees")

JudgeAdd(e) ==
  Tag(e.ok => e.t \notin executed, "Inv.ExecutedNeverAdmitted") \o
  Tag(e.ok => e.t \notin Set(pending), "Inv.NoDuplicateAdmission") \o
  Tag(e.ok = AddOk(pending, executed, e.t), "Add.ok") \o
  Tag(e.state.pending = AddPost(pending, executed, e.t), "Add.pending") \o
  Tag(ObsExecuted(e.state) = executed, "Add.executed-changed")

JudgePack(e) ==
  LET out == e.out  P == Set(pending)  ref == PackSet(T, P, nonceOf) IN
  Tag(PackNoDup(out), "Inv.PackNoDup") \o
  Tag(PackCap(out), "Inv.PackCap") \o
  Tag(PackNoExecuted(executed, out), "Inv.PackNoExecuted") \o
  Tag(PackFromPool(P, out), "Inv.PackFromPool") \o
  (* the nonce rules come with Proposal018; below that height a pack is the head of the pending list *)
  (IF e.pre018 THEN Tag(Len(out) = (IF Len(pending) > Cap THEN Cap ELSE Len(pending)), "Pack.pre018-size")
   ELSE
  Tag(PackAscending(T, out), "Inv.PackAscending") \o
  Tag(PackNotAhead(T, nonceOf, out), "Inv.PackNotAhead") \o
  (* a transaction put back by a reorg can be packed once more *)
  Tag(Cardinality(ref) <= Cap => (readded \cap ref) \subseteq Set(out), "Inv.ReorgedTxPackable") \o
  Tag(Cardinality(ref) <= Cap => Set(out) = ref, "Pack.set") \o
  Tag(Cardinality(ref) > Cap => Len(out) = Cap, "Pack.fills-cap")) \o
  Tag(e.state.pending = pending /\ ObsExecuted(e.state) = executed, "Pack.state-changed")

JudgeMark(e) ==
  LET txs == Set(e.txs)  post == MarkPost(pending, executed, txs, Set(e.evicted)) IN
  Tag(txs \subseteq ObsExecuted(e.state), "Inv.MarkedAreExecuted") \o
  Tag(Set(e.state.pending) \cap txs = {}, "Inv.MarkedNotPending") \o
  Tag(e.state.pending = post.pending, "Mark.pending") \o
  Tag(ObsExecuted(e.state) = post.executed, "Mark.executed")

JudgeUnMark(e) ==
  LET txs == Set(e.txs)  post == UnMarkPost(pending, executed, e.txs) IN
  Tag(txs \subseteq Set(e.state.pending), "Inv.ReorgPending") \o
  Tag(txs \cap ObsExecuted(e.state) = {}, "Inv.ReorgNotExecuted") \o
  Tag(e.state.pending = post.pending, "UnMark.pending") \o
  Tag(ObsExecuted(e.state) = post.executed, "UnMark.executed")

(* one pass of the ageing ticker: pending transactions that reach ExpiredRing ticks are dropped,
   nothing else changes (age: ticks since the transaction was last pushed) *)
JudgeTick(e) ==
  Tag(e.state.pending = TickPost(pending, age), "Tick.pending") \o
  Tag(ObsExecuted(e.state) = executed, "Inv.TickKeepsExecuted")

(* two overlapping calls on transaction 1 (thread 1: AddTransaction; thread 2: e.op2): what was
   observed - both results and the final pool - must be what one of the two sequential orders
   of the same calls gives from the prepared state (the pool is not corrupted by concurrency) *)
SeqOp(p, ex, op) ==      \* <<ok, pending', executed'>> of one call on transaction 1
  CASE op = "Add"    -> <<AddOk(p, ex, 1), AddPost(p, ex, 1), ex>>
    [] op = "Mark"   -> LET q == MarkPost(p, ex, {1}, {}) IN <<TRUE, q.pending, q.executed>>
    [] op = "UnMark" -> LET q == UnMarkPost(p, ex, <<1>>) IN <<TRUE, q.pending, q.executed>>
JudgeConc(e) ==
  LET a1 == SeqOp(pending, executed, "Add")
      a2 == SeqOp(a1[2], a1[3], e.op2)                    \* thread 1 first
      b2 == SeqOp(pending, executed, e.op2)
      b1 == SeqOp(b2[2], b2[3], "Add")                    \* thread 2 first
      obs == <<e.ok1, e.ok2, Set(e.state.pending), ObsExecuted(e.state)>>
  IN Tag(obs = <<a1[1], a2[1], Set(a2[2]), a2[3]>> \/ obs = <<b1[1], b2[1], Set(b1[2]), b1[3]>>,
         "Inv.ConcEquivalentToSequential." \o e.op2)

Judge(e) ==
  (CASE e.event = "Add" -> JudgeAdd(e)
     [] e.event = "Conc" -> JudgeConc(e)
     [] e.event = "Pack" -> JudgePack(e)
     [] e.event = "Mark" -> JudgeMark(e)
     [] e.event = "UnMark" -> JudgeUnMark(e)
     [] e.event = "Tick" -> JudgeTick(e)
     [] e.event = "TickRace" ->      \* bookings + reorgs with the ageing ticker running alongside (compact event)
          Tag(e.lost = 0, "Inv.ReorgPending.tick-race") \o
          Tag(e.stillExecuted = 0, "Inv.ReorgNotExecuted.tick-race") \o
          Tag(e.lookupWrong = 0, "Inv.LookupAgrees.tick-race")
     [] e.event = "FullPoolReorg" ->     \* a reorg while the pool is at its size limit (compact event)
          Tag(e.pendingAgain = e.block, "Inv.ReorgPending.full-pool") \o
          Tag(e.stillExecuted = 0, "Inv.ReorgNotExecuted.full-pool")
     [] OTHER -> <<>>) \o JudgeState(e.state)

TraceInit == /\ l = 1 /\ bad = <<>> /\ T = <<>> /\ nonceOf = <<>> /\ pending = <<>> /\ executed = {}
             /\ readded = {} /\ age = <<>>

TraceNext ==
  /\ l <= Len(Trace)
  /\ l' = l + 1
  /\ LET e == Trace[l]  J == Judge(e) IN
       /\ bad' = bad \o [i \in 1..Len(J) |-> <<l, e.event, J[i]>>]
       /\ pending' = e.state.pending
       /\ executed' = ObsExecuted(e.state)
       /\ age' = IF e.event = "Reset" THEN [i \in 1..Len(e.txs) |-> 0]
                 ELSE IF e.event = "Tick" THEN [i \in DOMAIN age |-> IF i \in Set(pending) THEN age[i] + 1 ELSE age[i]]
                 ELSE [i \in DOMAIN age |-> IF i \in Set(e.state.pending) /\ i \notin Set(pending) THEN 0 ELSE age[i]]
       /\ IF e.event = "Reset" THEN T' = TOf(e) /\ nonceOf' = NonceFn(e) /\ readded' = {}
          ELSE /\ UNCHANGED <<T, nonceOf>>
               /\ readded' = IF e.event = "UnMark" THEN readded \cup Set(e.txs)
                             ELSE IF e.event = "Mark" THEN readded \ Set(e.txs) ELSE readded

TraceSpec == TraceInit /\ [][TraceNext]_tvars
Report == (l = Len(Trace) + 1) => PrintT(<<"VERDICT", Len(Trace), ToJson(bad)>>)
=============================================================================
