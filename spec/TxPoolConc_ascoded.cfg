SPECIFICATION Spec
CONSTANTS
  Atomic = FALSE
  Readers = 0
  Lookups = 0
  NegCache = FALSE
  CachedView = FALSE
INVARIANT InvAtMostOnce
CHECK_DEADLOCK FALSE
