SPECIFICATION Spec
CONSTANTS
  Atomic = FALSE
  Readers = 0
  CachedView = FALSE
INVARIANT InvAtMostOnce
CHECK_DEADLOCK FALSE
