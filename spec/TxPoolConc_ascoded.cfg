SPECIFICATION Spec
CONSTANT Atomic = FALSE
INVARIANT InvAtMostOnce
CHECK_DEADLOCK FALSE
