SPECIFICATION Spec
CONSTANTS
  Accounts = {1, 2, 3}
  MaxAmt = 2
  Depth = 0
INVARIANTS InvNonNegative InvEverything
PROPERTY DeltaRule
CHECK_DEADLOCK FALSE
