SPECIFICATION TraceSpec
CONSTANTS
  Cap = 200
  Limit = 50000
INVARIANT Report
CHECK_DEADLOCK FALSE
