------------------------------ MODULE RlpGen ------------------------------
(***************************************************************************)
(* Exhaustive small-domain check of the RLP reference (Rlp.tla) and case   *)
(* generator for harness/cmd/c08.                                          *)
(*                                                                         *)
(* State space: phase 0 holds one seed per first byte / shape family /     *)
(* type; phase 1 holds one case per state:                                 *)
(*   [op |-> "dec", in |-> bytes]          every byte string of length     *)
(*        <= MaxLen over the boundary alphabet Alphabet,                   *)
(*   [op |-> "shape", h, fill, n, tr]      long-form / size-boundary       *)
(*        shapes: header bytes h, n copies of fill, trailing bytes tr,     *)
(*   [op |-> "enc", t, v]                  typed values of the driver's    *)
(*        type catalogue (boundary values of every kind),                  *)
(*   [op |-> "encseq", t1, v1, t2, v2]     an encode that fails after it   *)
(*        produced output (v1), directly followed by an ordinary one (v2). *)
(* Theorems (invariants over all cases):                                   *)
(*   Canonical:  Dec(b) # Err => Enc(Dec(b)) = b, and for every type T     *)
(*               TDec(T,b) # Err => TEnc(T, TDec(T,b)) = b                 *)
(*   Lossless:   TDec(T, TEnc(T, v)) = NormV(T, v)   (Dec(Enc(x)) = x)     *)
(*   Coherent:   Split/Count/FirstLen agree with Dec.                      *)
(* Every case is printed as JSON (Dump) and replayed on the real code.     *)
(***************************************************************************)
EXTENDS Rlp, TLC, Json, FiniteSets

CONSTANTS Alphabet,      \* set of byte values
          MaxLen,        \* byte strings up to this length
          MaxStrFill,    \* largest declared string size that is materialised
          MaxListFill,   \* largest declared list size that is materialised
          MaxWrap        \* nesting depth of shapes

VARIABLES phase, c
vars == <<phase, c>>

Rep(x, n) == [i \in 1..n |-> x]
Expand(sh) == sh.h \o Rep(sh.fill, sh.n) \o sh.tr

(* ------------------------------------------------------------- byte strings *)
StringsFrom(a) == { <<a>> \o s : s \in UNION {[1..n -> Alphabet] : n \in 0..(MaxLen - 1)} }

(* ------------------------------------------------------------------ shapes *)
Sizes == {0, 1, 2, 54, 55, 56, 57, 255, 256, 257, 1024, 65535, 65536}
HugeLens == { <<127, 255, 255, 255>>, <<128, 0, 0, 0>>, <<255, 255, 255, 255>>, <<1, 0, 0, 0, 0>>,
              <<127, 255, 255, 255, 255, 255, 255, 255>>, <<128, 0, 0, 0, 0, 0, 0, 0>>,
              <<255, 255, 255, 255, 255, 255, 255, 255>> }

LenBytes(d) == IF d = 0 THEN <<0>> ELSE BE(d)
Deltas(d) == IF d = 0 THEN {0, 1} ELSE {-1, 0, 1}

(* the body of a shape: kind "s" (string) or "l" (list) *)
LongShapeSet(kind) ==
  LET off == IF kind = "s" THEN 183 ELSE 247
      mx  == IF kind = "s" THEN MaxStrFill ELSE MaxListFill
      fills == IF kind = "s" THEN {0, 200} ELSE {0, 128, 192, 129} IN
  UNION { UNION { UNION { { [h |-> <<off + z + Len(LenBytes(d))>> \o Rep(0, z) \o LenBytes(d),
                             fill |-> f, n |-> d + dl, tr |-> <<>>] : f \in fills }
                          : dl \in Deltas(d) } : z \in {0, 1} } : d \in {s \in Sizes : s <= mx} }

ShortShapeSet(kind) ==
  LET off == IF kind = "s" THEN 128 ELSE 192
      fills == IF kind = "s" THEN {0, 127, 128} ELSE {0, 128, 192, 129} IN
  UNION { UNION { { [h |-> <<off + d>>, fill |-> f, n |-> d + dl, tr |-> <<>>] : f \in fills }
                  : dl \in Deltas(d) } : d \in {0, 1, 2, 54, 55} }

HugeShapeSet ==
  UNION { UNION { { [h |-> <<off + Len(lb)>> \o lb, fill |-> 0, n |-> n, tr |-> <<>>] : n \in {0, 1, 100} }
                  : lb \in HugeLens } : off \in {183, 247} }

(* wrap a shape in w correct list headers, or in one whose size is off by one *)
RECURSIVE Wrap(_, _)
Wrap(sh, w) == IF w = 0 THEN sh
               ELSE LET inner == Wrap(sh, w - 1)
                        total == Len(inner.h) + inner.n + Len(inner.tr) IN
                    [inner EXCEPT !.h = EncHead(total, 192) \o inner.h]
WrapBad(sh, d) == LET total == Len(sh.h) + sh.n + Len(sh.tr) IN
                  IF total + d < 0 THEN sh ELSE [sh EXCEPT !.h = EncHead(total + d, 192) \o sh.h]

BaseShapes(kind) == LongShapeSet(kind) \cup ShortShapeSet(kind)
ShapesOf(fam) ==
  CASE fam = "s"    -> BaseShapes("s")
    [] fam = "l"    -> BaseShapes("l")
    [] fam = "huge" -> HugeShapeSet \cup { Wrap(sh, 1) : sh \in HugeShapeSet }
    [] fam = "ws"   -> UNION { { Wrap(sh, w) : sh \in BaseShapes("s") } : w \in 1..MaxWrap }
    [] fam = "wl"   -> UNION { { Wrap(sh, w) : sh \in BaseShapes("l") } : w \in 1..MaxWrap }
    [] fam = "wb"   -> UNION { { WrapBad(sh, d) : sh \in {q \in BaseShapes("s") \cup BaseShapes("l") : q.n <= 1100} }
                               : d \in {-1, 1} }
    [] fam = "tr"   -> { [sh EXCEPT !.tr = <<128>>] : sh \in {q \in BaseShapes("s") \cup BaseShapes("l") : q.n <= 300} }
ShapeFamilies == {"s", "l", "huge", "ws", "wl", "wb", "tr"}

(* ------------------------------------------------------------ typed values *)
Fix8(b) == Rep(0, 8 - Len(b)) \o b
UintBytes == { <<>>, <<1>>, <<127>>, <<128>>, <<255>>, <<1, 0>>, <<255, 255>>, <<1, 0, 0>>,
               <<255, 255, 255, 255>>, <<1, 0, 0, 0, 0>>, <<128, 0, 0, 0, 0, 0, 0, 0>>,
               <<255, 255, 255, 255, 255, 255, 255, 255>> }
BigBytes == { <<>>, <<1>>, <<127>>, <<128>>, <<1, 0>>, <<1, 0, 0, 0, 0, 0, 0, 0, 0>>, Rep(255, 32), <<1>> \o Rep(0, 32),
              Rep(200, 55), Rep(200, 56) }
ByteStrings == { <<>>, <<0>>, <<1>>, <<127>>, <<128>>, <<255>>, <<0, 0>>, <<128, 0>>, <<1, 2, 3>>,
                 Rep(170, 55), Rep(170, 56), Rep(0, 255), Rep(9, 256), Rep(7, 1024) }
UV(b) == [k |-> "u", b |-> b]
BV(b) == [k |-> "b", b |-> b]
LV(e) == [k |-> "l", e |-> e]
Z == [k |-> "z"]

SmallItems == LET s == {Str(<<>>), Str(<<5>>), Str(<<128>>), Str(<<1, 2>>)}
                  l1 == {Lst(<<>>)} \cup {Lst(<<x>>) : x \in s} \cup {Lst(<<x, y>>) : x \in {Str(<<>>), Str(<<5>>)}, y \in s}
              IN s \cup l1 \cup {Lst(<<x>>) : x \in l1} \cup {Lst(<<Str(<<7>>), x>>) : x \in l1}

(* values of the self-referential types, to depth 2-3 (the recursion is followed at least once) *)
U8v(n) == UV(Fix8(<<n>>))
L1 == LV(<<U8v(1), Z>>)
L2 == LV(<<U8v(200), L1>>)
L3 == LV(<<UV(Fix8(<<>>)), L2>>)
T0 == LV(<<BV(<<1>>), LV(<<>>)>>)
T1 == LV(<<BV(<<2, 3>>), LV(<<T0>>)>>)
T2 == LV(<<BV(<<>>), LV(<<T0, T1>>)>>)
A0 == LV(<<U8v(1), Z>>)
B0 == LV(<<BV(<<7>>), LV(<<>>)>>)
B1 == LV(<<BV(<<>>), LV(<<A0, A0>>)>>)
A1 == LV(<<U8v(2), B1>>)
B2 == LV(<<BV(<<200>>), LV(<<A1>>)>>)
R0 == LV(<<U8v(1), LV(<<LV(<<>>)>>)>>)
R1 == LV(<<U8v(2), LV(<<LV(<<R0>>)>>)>>)
R2 == LV(<<U8v(0), LV(<<LV(<<R0, R1>>)>>)>>)
RecNames == {"RList", "RTree", "RA", "RB", "RArr"}
RefVals(name) ==
  CASE name = "RList" -> {L1, L2, L3}
    [] name = "RTree" -> {T0, T1, T2}
    [] name = "RA" -> {A0, A1}
    [] name = "RB" -> {B0, B1, B2}
    [] name = "RArr" -> {R0, R1, R2}
RefDef(name) ==
  CASE name = "RList" -> L1 [] name = "RTree" -> T0 [] name = "RA" -> A0 [] name = "RB" -> B0 [] name = "RArr" -> R0

RECURSIVE Def(_), Few(_), Vals(_)
(* one default value per type *)
Def(T) ==
  CASE T.t = "uint" -> UV(Fix8(<<1>>))
    [] T.t = "big" -> UV(<<0, 2>>)
    [] T.t = "bool" -> [k |-> "o", v |-> TRUE]
    [] T.t = "bytes" -> BV(<<3, 4>>)
    [] T.t = "arr" -> BV([i \in 1..T.n |-> i])
    [] T.t = "list" -> LV(<<Def(T.of)>>)
    [] T.t = "larr" -> LV([i \in 1..T.n |-> Def(T.of)])
    [] T.t = "struct" -> LV([i \in 1..Len(T.f) |-> Def(T.f[i])])
    [] T.t = "ptr" -> Def(T.of)
    [] T.t = "iface" -> BV(<<9>>)
    [] T.t = "raw" -> [k |-> "r", b |-> <<193, 128>>]
    [] T.t = "ref" -> IF T.name \in RecNames THEN RefDef(T.name) ELSE Def(TypeOf[T.name])
(* a few representatives, used in nested positions *)
Few(T) ==
  CASE T.t = "uint" -> {UV(Fix8(<<>>)), UV(Fix8(<<128>>))} \cup (IF T.w >= 16 THEN {UV(Fix8(<<1, 0>>))} ELSE {})
    [] T.t = "big" -> {UV(<<0>>), UV(<<0, 1, 0, 0, 0, 0, 0, 0, 0, 0>>)}
    [] T.t = "bool" -> {[k |-> "o", v |-> TRUE], [k |-> "o", v |-> FALSE]}
    [] T.t = "bytes" -> {BV(<<>>), BV(<<5>>), BV(<<200, 1>>)}
    [] T.t = "arr" -> {BV(Rep(0, T.n)), BV([i \in 1..T.n |-> 200 + i])}
    [] T.t = "list" -> {LV(<<>>), LV(<<Def(T.of)>>)}
    [] T.t = "larr" -> {LV([i \in 1..T.n |-> Def(T.of)])}
    [] T.t = "struct" -> {Def(T)}
    [] T.t = "ptr" -> (IF T.nilok \/ T.of.t \in {"uint", "big", "bytes"} THEN {Z} ELSE {}) \cup {Def(T.of)}
    [] T.t = "iface" -> {BV(<<>>), LV(<<BV(<<1>>)>>)}
    [] T.t = "raw" -> {[k |-> "r", b |-> <<128>>], [k |-> "r", b |-> <<193, 128>>]}
    [] T.t = "ref" -> IF T.name \in RecNames THEN {RefDef(T.name)} ELSE {Def(TypeOf[T.name])}
(* the boundary values of a type *)
Vals(T) ==
  CASE T.t = "uint" -> {UV(Fix8(b)) : b \in {x \in UintBytes : Len(x) <= T.w \div 8}}
    [] T.t = "big" -> {UV(<<0>> \o b) : b \in BigBytes}
    [] T.t = "bool" -> Few(T)
    [] T.t = "bytes" -> {BV(b) : b \in ByteStrings}
    [] T.t = "arr" -> Few(T) \cup (IF T.n = 1 THEN {BV(<<127>>), BV(<<128>>)} ELSE {})
    [] T.t = "list" -> {LV(<<>>)} \cup {LV(<<v>>) : v \in Vals(T.of)} \cup {LV(<<v, w>>) : v, w \in Few(T.of)}
                       \cup {LV(Rep(v, n)) : v \in Few(T.of), n \in {55, 56}}
    [] T.t = "larr" -> {LV(f) : f \in [1..T.n -> Few(T.of)]}
    [] T.t = "struct" ->
         LET n == Len(T.f) IN
         UNION { { LV([j \in 1..n |-> IF j = i THEN v ELSE Def(T.f[j])]) : v \in Vals(T.f[i]) } : i \in 1..n }
         \cup (IF n <= 3 THEN { LV(f) : f \in { g \in [1..n -> UNION {Few(T.f[j]) : j \in 1..n}] :
                                                    \A j \in 1..n : g[j] \in Few(T.f[j]) } } ELSE {})
    [] T.t = "ptr" -> (IF T.nilok \/ T.of.t \in {"uint", "big", "bytes"} THEN {Z} ELSE {}) \cup Vals(T.of)
    [] T.t = "iface" -> {Z} \cup {IfaceVal(x) : x \in SmallItems}
    [] T.t = "raw" -> {[k |-> "r", b |-> Enc(x)] : x \in SmallItems}
    [] T.t = "ref" -> IF T.name \in RecNames THEN RefVals(T.name) ELSE Few(TypeOf[T.name])

(* encode sequences: a value whose encoding fails after output was produced (a negative
   integer behind an encodable field of a struct), directly followed by an ordinary value;
   the encoding of the second must be what it is without the history *)
NEG == [k |-> "neg", b |-> <<0, 5>>]
BadVals ==
  { [t |-> "Sptr", v |-> LV(<<UV(Fix8(<<1, 44>>)), NEG, BV(<<3>>)>>)],
    [t |-> "Sptr", v |-> LV(<<Z, NEG, Z>>)],
    [t |-> "EthTx", v |-> LV(<<UV(Fix8(<<7>>)), UV(<<0, 1>>), UV(Fix8(<<82, 8>>)), Z, NEG, BV(<<1, 2, 3>>),
                              UV(<<0, 27>>), UV(<<0, 1>>), UV(<<0, 1>>)>>)],
    [t |-> "big", v |-> NEG] }
SeqTypes == {"u64", "u8", "bytes", "str", "big", "S1", "lu64", "iface", "EthTx", "Stail", "raw"}
EncSeqs == UNION { UNION { { [op |-> "encseq", t1 |-> bd.t, v1 |-> bd.v, t2 |-> t, v2 |-> v]
                              : v \in Few(TypeOf[t]) \cup {Def(TypeOf[t])} } : t \in SeqTypes } : bd \in BadVals }

(* encodings of typed values with one empty string swapped for an empty list or back *)
SwapAt(b, i) == [b EXCEPT ![i] = IF b[i] = 128 THEN 192 ELSE 128]
SwapsOf(t) == UNION { LET b == TEnc(TypeOf[t], v) IN
                      IF Len(b) > 80 THEN {} ELSE { SwapAt(b, i) : i \in {j \in 1..Len(b) : b[j] \in {128, 192}} }
                      : v \in Vals(TypeOf[t]) }

(* ------------------------------------------------------------- state space *)
Seeds == { [op |-> "seed", fam |-> "bytes", a |-> a] : a \in Alphabet \cup {-1} }
         \cup { [op |-> "seed", fam |-> f] : f \in ShapeFamilies }
         \cup { [op |-> "seed", fam |-> "vals", t |-> t] : t \in TypeNames }
         \cup { [op |-> "seed", fam |-> "swap", t |-> t] : t \in TypeNames }
         \cup { [op |-> "seed", fam |-> "encseq"] }

CasesOf(s) ==
  IF s.fam = "bytes" THEN
       (IF s.a = -1 THEN {[op |-> "dec", in |-> <<>>]} ELSE {[op |-> "dec", in |-> b] : b \in StringsFrom(s.a)})
  ELSE IF s.fam = "encseq" THEN EncSeqs
  ELSE IF s.fam = "swap" THEN {[op |-> "dec", in |-> b] : b \in SwapsOf(s.t)}
  ELSE IF s.fam = "vals" THEN {[op |-> "enc", t |-> s.t, v |-> v] : v \in Vals(TypeOf[s.t])}
  ELSE {[op |-> "shape", h |-> sh.h, fill |-> sh.fill, n |-> sh.n, tr |-> sh.tr] : sh \in ShapesOf(s.fam)}

Init == phase = 0 /\ c \in Seeds
Next == phase = 0 /\ phase' = 1 /\ c' \in CasesOf(c)
Spec == Init /\ [][Next]_vars

(* ---------------------------------------------------------------- theorems *)
BytesOf(cs) == IF cs.op = "dec" THEN cs.in ELSE Expand(cs)

CanonicalAt(b) ==
  LET x == Dec(b) IN
  /\ (~IsErr(x) => /\ Enc(x) = b
                   /\ FirstLen(b) = Len(b)
                   /\ CountRef(b) = 1
                   /\ ~IsErr(SplitRef(b)) /\ SplitRef(b).rest = <<>>)
  /\ \A t \in TypeNames :
       LET v == IF IsErr(x) THEN Err ELSE View(TypeOf[t], x) IN
       ~IsErr(v) => TEnc(TypeOf[t], v) = b /\ NormV(TypeOf[t], v) = v

LosslessAt(t, v) ==
  LET T == TypeOf[t]
      b == TEnc(T, v) IN
  /\ TDec(T, b) = NormV(T, v)
  /\ ~IsErr(Dec(b)) /\ Enc(Dec(b)) = b

Theorems == phase = 1 =>
  IF c.op = "enc" THEN LosslessAt(c.t, c.v)
  ELSE IF c.op = "encseq" THEN LosslessAt(c.t2, c.v2)      \* Enc is a function of the value alone
  ELSE CanonicalAt(BytesOf(c))

(* Dec(Enc(x)) = x on the untyped level *)
ASSUME \A x \in SmallItems : Dec(Enc(x)) = x

Dump == phase = 1 => PrintT(<<"CASE", ToJson(c)>>)
=============================================================================
