---------------------------- MODULE ReqQueueGen ----------------------------
(* Call histories of the gateway request queue, enumerated by TLC and replayed on the real
   middleware.PriorityQueue by harness/cmd/xreqqueue. *)
EXTENDS ReqQueue, Json

VARIABLE hist
gvars == <<vars, hist>>

GenNext ==
  \/ \E n \in Ids : Push(n) /\ hist' = Append(hist, [op |-> "Push", n |-> n])
  \/ \E v \in Ids : SetThreshold(v) /\ hist' = Append(hist, [op |-> "SetThreshold", n |-> v])

GenSpec == Init /\ hist = <<>> /\ [][GenNext]_gvars
Dump == (nops = MaxOps) => PrintT(<<"HIST", ToJson(hist)>>)
GenInv == InOrder /\ Settled /\ NothingDueWaits
=============================================================================
