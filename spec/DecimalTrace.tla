---------------------------- MODULE DecimalTrace ----------------------------
(***************************************************************************)
(* Trace monitor of C18.  Every line of trace.ndjson is one call of the    *)
(* real conversion functions made by harness/cmd/c18; integers are logged  *)
(* as sign + big-endian magnitude bytes and converted to decimal digits    *)
(* here (BigNat), the reference result is recomputed from Decimal.tla.     *)
(*                                                                         *)
(* Verdict tags (clauses of the statement):                                *)
(*   Inv.Parse.exact      a literal with <= 18 fractional and <= 78        *)
(*                        integer digits parses to exactly the integer it  *)
(*                        denotes (plain literals: digits[.digits])        *)
(*   Inv.Parse.exact:<class> / Inv.Parse.rejected:<class> /                *)
(*   Ext.Parse.nondecimal-accepted:<class>   strings offered as they are   *)
(*       (a string that is NOT a decimal amount and is accepted all the     *)
(*       same: outside C18's statement, which speaks of decimal strings -   *)
(*       an extension observation, not a verdict)                           *)
(*                        (zero-padded, Go/C literal syntaxes, exponents,  *)
(*                        signs, blanks, words): the exact decimal value   *)
(*                        or a rejection, never another number             *)
(*   Inv.RoundTrip        StrToBigInt(BigIntToStr(n)) = n                  *)
(*   Inv.Rescale.identity rescaling at 18 decimals is the identity         *)
(*   Inv.EthValue         the value of a wrapped transaction is unchanged  *)
(*   Inv.EthValue.callvalue / .credited:<recipient>:<p015|pre015>  what    *)
(*                        the EVM's outer frame received / the recipient    *)
(*                        was credited when the transaction was executed    *)
(*   Inv.EthValue.argument-unchanged:<fn>  a *big.Int handed to a converter*)
(*                        or the account state keeps its value             *)
(*   Inv.Total.panic      a call panicked                                  *)
(* Conformance tags (the reference says more than the statement):          *)
(*   format-text          exact text of BigIntToStr                        *)
(*   rescale-shift        exact digit shift at decimals # 18               *)
(*   parse-unusual        literals written with an empty integer part or   *)
(*                        a trailing dot                                   *)
(*   Proj.*               the logged projection is incoherent              *)
(***************************************************************************)
EXTENDS Decimal, TLC, Json

Trace == ndJsonDeserialize("trace.ndjson")

VARIABLES l, bad
tvars == <<l, bad>>

Tag(c, t) == IF c THEN <<>> ELSE <<t>>

NumOf(x) == NumOfBytes(x.neg, x.b)
Coherent(x) == ~x.nil /\ (x.b = <<>> \/ x.b[1] # 0) /\ (x.neg => x.b # <<>>)

JudgeParse(e) ==
  LET lit == e.lit
      plain == lit.int # <<>> /\ (lit.dot => lit.frac # <<>>)
      ref == Parse(lit, 18)
      tag == IF plain THEN "Inv.Parse.exact" ELSE "parse-unusual"
  IN  Tag(e.s = Render(lit), "Proj.literal") \o
      Tag(Len(lit.frac) <= 18 /\ Len(lit.int) <= 78, "Proj.scope") \o
      Tag(~e.panic, "Inv.Total.panic") \o
      (IF e.panic THEN <<>>
       ELSE IF ~e.ok THEN <<tag>>
       ELSE Tag(Coherent(e.out), "Proj.out") \o Tag(NumOf(e.out) = ref, tag))

JudgeFormat(e) ==
  LET n == NumOf(e.n)
      ref == Render(FormatAmount(n))
  IN  Tag(Coherent(e.n), "Proj.in") \o
      Tag(~e.panic, "Inv.Total.panic") \o
      (IF e.panic THEN <<>> ELSE Tag(e.s = ref, "format-text"))

JudgeRoundTrip(e) ==
  LET n == NumOf(e.n) IN
  Tag(Coherent(e.n), "Proj.in") \o
  Tag(~e.panic, "Inv.Total.panic") \o
  (IF e.panic THEN <<>>
   ELSE Tag(e.ok /\ Coherent(e.out) /\ NumOf(e.out) = n, "Inv.RoundTrip"))

JudgeRescale(e) ==
  LET n == NumOf(e.n)
      ref == IF e.dir = "erc20" THEN ToErc20(n, e.dec) ELSE ToLedger(n, e.dec)
  IN  Tag(Coherent(e.n), "Proj.in") \o
      Tag(e.dec \in 0..18, "Proj.scope") \o
      Tag(~e.panic, "Inv.Total.panic") \o
      (IF e.panic THEN <<>>
       ELSE Tag(Coherent(e.out), "Proj.out") \o
            (IF e.dec = 18 THEN Tag(NumOf(e.out) = n, "Inv.Rescale.identity")
             ELSE Tag(NumOf(e.out) = ref, "rescale-shift")))

JudgeEthValue(e) ==
  LET n == NumOf(e.n) IN
  Tag(Coherent(e.n) /\ ~e.n.neg, "Proj.in") \o
  Tag(~e.panic, "Inv.Total.panic") \o
  (IF e.panic THEN <<>>
   ELSE Tag(e.ok /\ Coherent(e.out) /\ NumOf(e.out) = n, "Inv.EthValue") \o
        Tag(e.s = Render(FormatAmount(n)), "format-text"))

(* a string offered as it is (codes: its code points).  Either it is read as the exact decimal
   value it denotes (leading zeros insignificant, an exponent shifts the point) or it is rejected:
   never another number.  A plain decimal string (digits[.digits], optional "-") must be accepted. *)
JudgeParseRaw(e) ==
  LET lit == ReadLiteral(e.codes)
      plain == lit.ok /\ ~lit.plus /\ lit.int # <<>> /\ (lit.dot => lit.frac # <<>>) /\ ~lit.hasExp
  IN  Tag(~e.panic, "Inv.Total.panic") \o
      (IF e.panic THEN <<>>
       ELSE IF ~lit.ok THEN Tag(~e.ok, "Ext.Parse.nondecimal-accepted:" \o e.cls)
       ELSE LET dn == Denoted(lit) IN
            IF ~dn.inScope THEN <<>>
            ELSE IF ~e.ok THEN (IF plain THEN <<"Inv.Parse.rejected:" \o e.cls>> ELSE <<>>)
            ELSE Tag(Coherent(e.out), "Proj.out") \o Tag(NumOf(e.out) = dn.n, "Inv.Parse.exact:" \o e.cls))

(* the EVM end: a wrapped Ethereum transaction with value n was executed through the node's executor
   against a contract that stores CALLVALUE; out = the CALLVALUE the outer frame received, credited =
   what the recipient's balance grew by.  Identity at 18 decimals: both are n, whether the recipient
   was fresh or already funded, below and above Proposal015. *)
JudgeEvmValue(e) ==
  LET n == NumOf(e.n)
      who == e.recipient \o (IF e.p015 THEN ":p015" ELSE ":pre015") IN
  Tag(Coherent(e.n) /\ ~e.n.neg, "Proj.in") \o
  Tag(~e.panic, "Inv.Total.panic") \o
  (IF e.panic \/ ~e.ok THEN <<>>
   ELSE Tag(Coherent(e.out) /\ NumOf(e.out) = n, "Inv.EthValue.callvalue:" \o who) \o
        Tag(Coherent(e.credited) /\ NumOf(e.credited) = n, "Inv.EthValue.credited:" \o who))

(* the integer a caller hands to a converter / to the account state still holds its value afterwards *)
JudgeAlias(e) ==
  Tag(~e.panic, "Inv.Total.panic") \o
  (IF e.panic THEN <<>> ELSE Tag(e.after = e.n, "Inv.EthValue.argument-unchanged:" \o e.fn))

Judge(e) ==
  CASE e.event = "Parse" -> JudgeParse(e)
    [] e.event = "EvmValue" -> JudgeEvmValue(e)
    [] e.event = "Alias" -> JudgeAlias(e)
    [] e.event = "ParseRaw" -> JudgeParseRaw(e)
    [] e.event = "Format" -> JudgeFormat(e)
    [] e.event = "RoundTrip" -> JudgeRoundTrip(e)
    [] e.event = "Rescale" -> JudgeRescale(e)
    [] e.event = "EthValue" -> JudgeEthValue(e)
    [] OTHER -> <<"unknown-event">>

TraceInit == l = 1 /\ bad = <<>>
TraceNext ==
  /\ l <= Len(Trace)
  /\ l' = l + 1
  /\ LET e == Trace[l]
         j == Judge(e) IN
     bad' = bad \o [i \in 1..Len(j) |-> <<l, e.event, j[i]>>]
TraceSpec == TraceInit /\ [][TraceNext]_tvars

Report == (l = Len(Trace) + 1) => PrintT(<<"VERDICT", Len(Trace), ToJson(bad)>>)
=============================================================================
