SPECIFICATION TraceSpec
CONSTANTS
  WB = 32
  StackLimit = 1024
  Alphabet = {0}
  MaxLen = 1
  Datas <- NoDatas
INVARIANT Report
CHECK_DEADLOCK FALSE
