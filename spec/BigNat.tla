------------------------------- MODULE BigNat -------------------------------
(***************************************************************************)
(* Natural numbers of arbitrary size as little-endian sequences of digits  *)
(* in an explicit base B (B = 256: bytes, B = 10: decimal digits).  TLC's  *)
(* integers are 32-bit; every quantity that matters in go-rangers (256-bit *)
(* EVM words, 18-decimal balances, VRF ratios) is larger, so all reference *)
(* arithmetic of the specifications goes through this module.              *)
(*                                                                         *)
(* Canonical form: no high-order zero digits; zero is <<>>.  All operators *)
(* return canonical values and accept non-canonical arguments.             *)
(* Bounds: B <= 256 and operands up to ~64 digits keep every intermediate  *)
(* column sum below 2^31.                                                  *)
(***************************************************************************)
EXTENDS Integers, Sequences

RECURSIVE NormR(_)
NormR(a) == IF a = <<>> THEN <<>>
            ELSE IF a[Len(a)] = 0 THEN NormR(SubSeq(a, 1, Len(a) - 1)) ELSE a
Norm(a) == NormR(a)

Zero == <<>>
IsZero(a) == Norm(a) = <<>>

Digit(a, i) == IF i >= 1 /\ i <= Len(a) THEN a[i] ELSE 0

Max(x, y) == IF x >= y THEN x ELSE y
Min(x, y) == IF x <= y THEN x ELSE y

(* small TLC integer (>= 0) -> digits *)
RECURSIVE FromNat(_, _)
FromNat(n, B) == IF n = 0 THEN <<>> ELSE <<n % B>> \o FromNat(n \div B, B)

(* digits -> TLC integer; only for values known to be < 2^31 *)
RECURSIVE ToNatR(_, _, _)
ToNatR(a, B, i) == IF i > Len(a) THEN 0 ELSE a[i] + B * ToNatR(a, B, i + 1)
ToNat(a, B) == ToNatR(Norm(a), B, 1)

(* comparison: -1, 0, 1 *)
RECURSIVE CmpR(_, _, _)
CmpR(a, b, i) == IF i = 0 THEN 0
                 ELSE IF a[i] < b[i] THEN -1
                 ELSE IF a[i] > b[i] THEN 1
                 ELSE CmpR(a, b, i - 1)
Cmp(x, y) == LET a == Norm(x)  b == Norm(y) IN
             IF Len(a) < Len(b) THEN -1
             ELSE IF Len(a) > Len(b) THEN 1
             ELSE CmpR(a, b, Len(a))
Lt(x, y) == Cmp(x, y) = -1
Le(x, y) == Cmp(x, y) <= 0
Eq(x, y) == Cmp(x, y) = 0

(* carry propagation over a sequence of column values (each < 2^31 - B) *)
RECURSIVE CarryR(_, _, _, _)
CarryR(cols, B, i, c) ==
  IF i > Len(cols) THEN FromNat(c, B)
  ELSE LET v == cols[i] + c IN <<v % B>> \o CarryR(cols, B, i + 1, v \div B)
Carry(cols, B) == Norm(CarryR(cols, B, 1, 0))

Add(a, b, B) == Carry([i \in 1..Max(Len(a), Len(b)) |-> Digit(a, i) + Digit(b, i)], B)

(* a - b, requires a >= b *)
RECURSIVE SubR(_, _, _, _, _)
SubR(a, b, B, i, borrow) ==
  IF i > Len(a) THEN <<>>
  ELSE LET v == a[i] - Digit(b, i) - borrow IN
       IF v < 0 THEN <<v + B>> \o SubR(a, b, B, i + 1, 1)
       ELSE <<v>> \o SubR(a, b, B, i + 1, 0)
Sub(a, b, B) == Norm(SubR(a, b, B, 1, 0))

MulSmall(a, k, B) == Carry([i \in 1..Len(a) |-> a[i] * k], B)

(* schoolbook product by columns *)
RECURSIVE ColSum(_, _, _, _)
ColSum(a, b, k, i) ==   \* sum over i..min(k, Len(a)) of a[i] * b[k - i + 1]
  IF i > Len(a) \/ i > k THEN 0
  ELSE (IF k - i + 1 <= Len(b) THEN a[i] * b[k - i + 1] ELSE 0) + ColSum(a, b, k, i + 1)
Mul(a, b, B) ==
  IF a = <<>> \/ b = <<>> THEN <<>>
  ELSE Carry([k \in 1..(Len(a) + Len(b) - 1) |-> ColSum(a, b, k, Max(1, k - Len(b) + 1))], B)

(* shift by whole digits *)
ShiftUp(a, n) == IF Norm(a) = <<>> THEN <<>> ELSE [i \in 1..n |-> 0] \o a
ShiftDown(a, n) == IF n >= Len(a) THEN <<>> ELSE Norm(SubSeq(a, n + 1, Len(a)))
LowDigits(a, n) == Norm(SubSeq(a, 1, Min(n, Len(a))))       \* a mod B^n

(* division by a small number: <<quotient, remainder (TLC int)>> *)
RECURSIVE DivSmallR(_, _, _, _, _)
DivSmallR(a, k, B, i, r) ==      \* from the most significant digit down
  IF i = 0 THEN <<<<>>, r>>
  ELSE LET cur == r * B + a[i]
           rest == DivSmallR(a, k, B, i - 1, cur % k)
       IN <<rest[1] \o <<cur \div k>>, rest[2]>>
DivModSmall(a, k, B) == LET r == DivSmallR(a, k, B, Len(a), 0) IN <<Norm(r[1]), r[2]>>

(* largest q in lo..hi with b*q <= r  (b*lo <= r assumed) *)
RECURSIVE QDigit(_, _, _, _, _)
QDigit(r, b, B, lo, hi) ==
  IF lo = hi THEN lo
  ELSE LET mid == (lo + hi + 1) \div 2 IN
       IF Le(MulSmall(b, mid, B), r) THEN QDigit(r, b, B, mid, hi)
       ELSE QDigit(r, b, B, lo, mid - 1)

(* long division: <<quotient, remainder>>, b # 0 *)
RECURSIVE DivModR(_, _, _, _, _)
DivModR(a, b, B, i, r) ==
  IF i = 0 THEN <<<<>>, r>>
  ELSE LET cur  == Norm(<<a[i]>> \o r)
           q    == QDigit(cur, b, B, 0, B - 1)
           rem  == Sub(cur, MulSmall(b, q, B), B)
           rest == DivModR(a, b, B, i - 1, rem)
       IN <<rest[1] \o <<q>>, rest[2]>>
DivMod(x, y, B) == LET a == Norm(x)  b == Norm(y)
                       r == DivModR(a, b, B, Len(a), <<>>)
                   IN <<Norm(r[1]), Norm(r[2])>>
Div(x, y, B) == DivMod(x, y, B)[1]
Mod(x, y, B) == DivMod(x, y, B)[2]

(* x^e for a TLC-integer exponent, optionally reduced to n digits (mod B^n); n = 0: exact *)
RECURSIVE PowR(_, _, _, _)
PowR(x, e, B, n) ==
  IF e = 0 THEN <<1>>
  ELSE LET h  == PowR(x, e \div 2, B, n)
           h2 == IF n = 0 THEN Mul(h, h, B) ELSE LowDigits(Mul(h, h, B), n)
       IN IF e % 2 = 0 THEN h2
          ELSE IF n = 0 THEN Mul(h2, x, B) ELSE LowDigits(Mul(h2, x, B), n)
Pow(x, e, B) == PowR(Norm(x), e, B, 0)
PowModDigits(x, e, B, n) == PowR(LowDigits(x, n), e, B, n)

(* base conversion through repeated division (used for decimal <-> bytes) *)
RECURSIVE ConvertR(_, _, _)
ConvertR(a, B, B2) ==
  IF a = <<>> THEN <<>>
  ELSE LET qr == DivModSmall(a, B2, B) IN <<qr[2]>> \o ConvertR(qr[1], B, B2)
Convert(a, B, B2) == Norm(ConvertR(Norm(a), B, B2))
=============================================================================
