----------------------------- MODULE EvmStackGen -----------------------------
(***************************************************************************)
(* Boundary sweep of the operand stack limit (1024 items) for C10: stack   *)
(* height 1022, 1023, 1024 x every instruction of the computational set    *)
(* whose net effect on the stack is +1 (DUP1..DUP16, PUSH0, PUSHn, PC,     *)
(* MSIZE, CALLDATASIZE, CODESIZE, RETURNDATASIZE).  A program is           *)
(* `PUSH0 x height, instruction, STOP`; the reference machine runs the     *)
(* instruction from the filled state (FillState; that h PUSH0 steps lead   *)
(* there is asserted by running the machine for a small h) and the         *)
(* predicted end - the 1025th item is a stack overflow - is printed with   *)
(* the program.  The driver does not record the filling steps one by one   *)
(* (`skip`): it records the complete state after them (Sync).              *)
(***************************************************************************)
EXTENDS Evm, Json, TLC

VARIABLE sc
svars2 == <<vars, sc>>
StackDatas == {<<>>}

PlusOne == {DUP1 + k : k \in 0..15} \cup {PUSH0, PUSH1, PUSH32, PCOP, MSIZE, CALLDATASIZE, CODESIZE, RETURNDATASIZE}
Heights == {1022, 1023, 1024}
InstrBytes(op) == IF IsPush(op) THEN <<op>> \o [i \in 1..PushLen(op) |-> 7] ELSE <<op>>
CodeOf(h, op) == [i \in 1..h |-> PUSH0] \o InstrBytes(op) \o <<STOP>>
FillState(h) == [pc |-> h, stack |-> [i \in 1..h |-> <<>>], mem |-> <<>>, rd |-> <<>>]

(* run the machine from s until it stops (at most 3 instructions here) *)
RECURSIVE RunFrom(_, _, _)
RunFrom(c, s, n) ==
  LET r == Exec(c, <<>>, s, Digest) IN
  IF r.kind = "ok" /\ n > 0 THEN RunFrom(c, r.st, n - 1)
  ELSE [st |-> r.st, status |-> IF r.kind = "halt" THEN r.how ELSE IF r.kind = "fault" THEN "fault:" \o r.how ELSE "run", ret |-> r.ret]

SInit2 == /\ sc \in [h : Heights, op : PlusOne]
          /\ code = CodeOf(sc.h, sc.op) /\ data = <<>> /\ st = FillState(sc.h) /\ status = "run" /\ jumped = FALSE /\ ret = <<>>
SSpec2 == SInit2 /\ [][FALSE]_svars2

Outcome == RunFrom(code, st, 3)
SDump2 == PrintT(<<"PROG", ToJson([code |-> code, data |-> data, stack |-> Outcome.st.stack, mem |-> Outcome.st.mem,
                                   status |-> Outcome.status, ret |-> Outcome.ret, skip |-> sc.h])>>)
(* the limit itself: the instruction goes through iff the stack holds fewer than 1024 items before it *)
SInv2 == /\ (Outcome.status = "fault:overflow") = (sc.h = 1024)
         /\ (Outcome.status = "stop") = (sc.h < 1024)
         /\ RunFrom([i \in 1..5 |-> PUSH0], InitState, 4).st = FillState(5)
=============================================================================
