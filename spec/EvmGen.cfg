SPECIFICATION GenSpec
CONSTANTS
  WB = 32
  StackLimit = 1024
  Alphabet = {0}
  MaxLen = 1
  Datas <- GenDatas
  MaxInstr = 14
INVARIANTS GenInv Dump
CHECK_DEADLOCK FALSE
