SPECIFICATION Spec
CONSTANTS
  N = 3
  P = 7
  IdSeq <- Ids3
  Coefs = {1, 4}
  FreshRedeal = TRUE
  HSet = {2}
INVARIANTS PiecesOnOnePolynomial GpkAllEqual
CHECK_DEADLOCK FALSE
