SPECIFICATION Spec
CONSTANTS
  NMem = 4
  KThr = 3
  Byz = {4}
  MaxByz = 2
  MaxDup = 1
  MaxLen = 6
  Focus = "shares"
  AsCoded = FALSE
INVARIANTS TypeOK OnlyValidShares ThresholdImpliesValidGroupSig OneFaultTolerated BeaconFollowsBlock KeyTableGenuine
CHECK_DEADLOCK FALSE
