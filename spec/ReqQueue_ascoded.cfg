SPECIFICATION Spec
CONSTANTS
  MaxId = 5
  MaxOps = 7
  AsCoded = TRUE
INVARIANTS TypeOK InOrder Settled
PROPERTIES NoStaleAfterSet
CHECK_DEADLOCK FALSE
