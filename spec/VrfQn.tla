------------------------------- MODULE VrfQn -------------------------------
(***************************************************************************)
(* Exhaustive small-domain check of the qualification / quality-number     *)
(* rule of Vrf.tla: lottery values of one byte (VMax = 255), every stake   *)
(* and working-miner count of the configuration.  Checks (a) the range     *)
(* claim of the property on the reference, (b) agreement of the BigNat     *)
(* formulation with the same rule in TLC's native integers, (c) that the   *)
(* quality number is monotone in the lottery value.                        *)
(***************************************************************************)
EXTENDS Vrf

CONSTANTS SSet, WSet, MaxQN

VARIABLE q     \* [v, S, W, active]
qvars == <<w, q>>

QInit == /\ w = [x |-> 1, hh |-> 1, k |-> 1, t |-> 0, e |-> 0, c |-> 0]
         /\ q \in [v : 0..254, S : SSet, W : WSet, active : BOOLEAN]
QNext == UNCHANGED qvars
QSpec == QInit /\ [][QNext]_qvars

V1 == <<255>>
bn(n) == FromNat(n, 256)

(* the same rule in native integers *)
NatPP(S) == LET raw == (S * 20) \div 100 IN IF raw < 3 THEN 3 ELSE IF raw > 5 THEN 5 ELSE raw
NatD(S, W, a) == IF a /\ W # 0 THEN S \div W ELSE 1
NatStakeNum(S, W, a) == NatD(S, W, a) * NatPP(S)
NatQualified(v, S, W, a) == v * S < NatStakeNum(S, W, a) * 255
NatQn(v, S, W, a) == IF S < NatStakeNum(S, W, a) THEN (v * MaxQN) \div 255 + 1
                     ELSE (v * MaxQN * S) \div (255 * NatStakeNum(S, W, a)) + 1

RangeInv == QnRangeOK(bn(q.v), bn(q.S), bn(q.W), q.active, V1, MaxQN)
AgreeInv ==
  /\ Qualified(bn(q.v), bn(q.S), bn(q.W), q.active, V1) = NatQualified(q.v, q.S, q.W, q.active)
  /\ (NatStakeNum(q.S, q.W, q.active) > 0 /\ NatQn(q.v, q.S, q.W, q.active) <= MaxQN + 2) =>
        QnRef(bn(q.v), bn(q.S), bn(q.W), q.active, V1, MaxQN) = NatQn(q.v, q.S, q.W, q.active)
MonotoneInv ==
  (q.v < 254 /\ NatStakeNum(q.S, q.W, q.active) > 0) =>
     QnRef(bn(q.v), bn(q.S), bn(q.W), q.active, V1, MaxQN) <= QnRef(bn(q.v + 1), bn(q.S), bn(q.W), q.active, V1, MaxQN)
=============================================================================
