------------------------- MODULE BlockStoreTrace -------------------------
(***************************************************************************)
(* Trace validation for BlockStore.  trace.ndjson holds, per scenario:     *)
(*   Reset(tree, txIds, state)   fresh chain, the block tree with the real *)
(*                               hash ranks, projection of the stores      *)
(*   Deliver(b, res, state)      AddBlockOnChain(block b) returned res     *)
(*   Crash(b, phase)             the process died inside Deliver(b)        *)
(*                               (phase "deliver") or inside the recovery  *)
(*                               (phase "recover") before some store write *)
(*   Stop                        the process stopped at a quiescent point  *)
(*   Restart(state)              a fresh process re-ran the chain          *)
(*                               initialisation over the same stores       *)
(*   End                                                                    *)
(* The model state `ms` is re-bound to the observed projection after every *)
(* call (future/verified caches are not observable and are carried from    *)
(* the reference).  Judgements:                                            *)
(*   Inv.*        the property's predicates on the observed stores         *)
(*   Crash.Head*  the crash clause of the property                         *)
(*   Deliver.* / Crash.outcome-not-in-model / Proj.*                       *)
(*                conformance of the code to the model (not verdicts)      *)
(***************************************************************************)
EXTENDS BlockStore, Json

Trace == ndJsonDeserialize("trace.ndjson")

VARIABLES l, bad, tr, txIds, ms, pend, cheads
tvars == <<l, bad, tr, txIds, ms, pend, cheads>>

SeqToSet(sq) == {sq[i] : i \in 1..Len(sq)}
TreeOf(e) == [i \in 1..Len(e.tree) |->
                [parent |-> e.tree[i].parent, height |-> e.tree[i].height, tqn |-> e.tree[i].tqn,
                 pv |-> e.tree[i].pv, rank |-> e.tree[i].rank, txs |-> SeqToSet(e.tree[i].txs)]]

(* observed projection -> model state; caches carried *)
Obs(t, ids, o, fut, ver, r) ==
  [hashDB   |-> {i \in Ids0(t) : o.hashDB[i + 1]},
   hidx     |-> [h \in 0..(MaxH(t) + 1) |-> o.hidx[h + 1]],
   vidx     |-> {h \in 0..(MaxH(t) + 1) : o.vidx[h + 1]},
   headRec  |-> o.headRec,
   addMark  |-> None, rmMark |-> None, reorg |-> None,
   stateDisk |-> {i \in Ids0(t) : o.stateDisk[i + 1]},
   executed |-> {ids[i] : i \in {j \in 1..Len(ids) : o.executed[j]}},
   latest   |-> o.latest,
   future   |-> fut, verified |-> ver,
   pending  |-> {ids[i] : i \in {j \in 1..Len(ids) : o.pending[j]}},
   todo |-> <<>>, res |-> r, fork |-> <<>>, sub |-> "none",
   cache    |-> [h \in 0..(MaxH(t) + 1) |-> o.cache[h + 1]]]

Tag(c, t) == IF c THEN <<>> ELSE <<t>>

(* the property on the observed stores s (a model-state record) and the API answers o *)
JudgeInv(t, s, o) ==
  Tag(HeadLinked(t, s), "Inv.HeadLinked") \o
  Tag(HeightIndexAgrees(t, s), "Inv.HeightIndexAgrees") \o
  Tag(NothingAboveHead(t, s), "Inv.NothingAboveHead") \o
  Tag(HeadStateDurable(t, s), "Inv.HeadStateDurable") \o
  Tag(HeadRecorded(t, s), "Inv.HeadRecorded") \o
  Tag(ExecutedAgrees(t, s), "Inv.ExecutedAgrees") \o
  (* the LRU in front of the height index never contradicts it *)
  Tag(CacheCoherent(t, s), "Inv.CacheCoherent") \o
  (* the exported queries (which go through the in-memory caches) agree with the chain *)
  (* (not asked right after the restart of a reader scenario: o.apiSkipped) *)
  Tag(o.apiSkipped \/ \A b \in Canon(t, s) : o.apiBlock[Hgt(t, b) + 1] = b /\ o.apiHash[Hgt(t, b) + 1] = b /\ o.byHash[b + 1],
      "Inv.ApiReturnsChain") \o
  Tag(o.apiSkipped \/ \A h \in 0..(MaxH(t) + 1) : h > Hgt(t, s.latest) => (o.apiBlock[h + 1] = None /\ o.apiHash[h + 1] = None),
      "Inv.ApiNothingAboveHead")

Same(a, b) == /\ a.hashDB = b.hashDB /\ a.hidx = b.hidx /\ a.headRec = b.headRec /\ a.latest = b.latest
              /\ a.executed = b.executed /\ (a.stateDisk \cap a.hashDB) = (b.stateDisk \cap b.hashDB)

JudgeDeliver(e) ==
  LET b    == e.b
      pre  == [ms EXCEPT !.pending = @ \cup (TxsOf(tr, b) \ ms.executed)]
      exp  == Deliver(tr, pre, b)
      obs  == Obs(tr, txIds, e.state, exp.future, exp.verified, e.res)
      removed == Canon(tr, pre) \ Canon(tr, obs)
  IN  JudgeInv(tr, obs, e.state) \o
      Tag(NotLower(tr, obs.latest, pre.latest), "Inv.WeightMonotone") \o
      Tag(\A x \in removed : (TxsOf(tr, x) \ obs.executed) \subseteq obs.pending, "Inv.RemovedTxsPending") \o
      Tag(~e.state.addMark /\ ~e.state.rmMark /\ ~e.state.reorgMark, "Model.MarksLeft") \o
      Tag(Ended(exp), "Model.diverges") \o
      Tag(e.res = exp.res, "Deliver.res") \o
      Tag(obs.hashDB = exp.hashDB, "Deliver.hashDB") \o
      Tag(obs.hidx = exp.hidx, "Deliver.hidx") \o
      Tag(obs.latest = exp.latest /\ obs.headRec = exp.headRec, "Deliver.head") \o
      Tag(obs.executed = exp.executed, "Deliver.executed") \o
      Tag(obs.pending = exp.pending, "Deliver.pending") \o
      Tag(obs.cache = exp.cache, "Deliver.cache") \o
      Tag((obs.stateDisk \cap obs.hashDB) = (exp.stateDisk \cap exp.hashDB), "Deliver.stateDisk")

(* fork switch of the sync processor (extension beyond C05's quantifier: the store clauses are
   judged as for any quiescent point; the weight clause is reported as an Ext. observation) *)
ForkExp(e) == IF e.a \in ms.hashDB THEN ForkSwitch(tr, ms, PathDown(tr, e.a, e.b)) ELSE ms
JudgeFork(e) ==
  LET exp == ForkExp(e)
      obs == Obs(tr, txIds, e.state, exp.future, exp.verified, "none")
      removed == Canon(tr, ms) \ Canon(tr, obs)
  IN  JudgeInv(tr, obs, e.state) \o
      Tag(NotLower(tr, obs.latest, ms.latest), "Ext.WeightMonotone.fork-path") \o
      Tag(~e.state.addMark /\ ~e.state.rmMark /\ ~e.state.reorgMark, "Model.MarksLeft") \o
      Tag(Ended(exp), "Model.diverges") \o
      Tag(obs.hashDB = exp.hashDB, "Fork.hashDB") \o
      Tag(obs.hidx = exp.hidx, "Fork.hidx") \o
      Tag(obs.latest = exp.latest /\ obs.headRec = exp.headRec, "Fork.head") \o
      Tag(obs.executed = exp.executed, "Fork.executed") \o
      Tag(obs.cache = exp.cache, "Fork.cache") \o
      Tag((obs.stateDisk \cap obs.hashDB) = (exp.stateDisk \cap exp.hashDB), "Fork.stateDisk")

CallBegin(e) ==      \* the state right after the call started (Crash / Died events)
  IF e.kind = "F"
    THEN (IF e.a \in ms.hashDB THEN BeginFork(tr, ms, PathDown(tr, e.a, e.b)) ELSE ms)
    ELSE Begin(tr, [ms EXCEPT !.pending = @ \cup (TxsOf(tr, e.b) \ ms.executed)], e.b)

CrashStates(e) ==
  IF e.phase = "deliver"
    THEN LET s0 == CallBegin(e) IN {RunK(tr, s0, j) : j \in 0..StepsToEnd(tr, s0)}
    ELSE UNION { {RunK(tr, CrashState(s), j) : j \in 0..StepsToEnd(tr, CrashState(s))} : s \in pend }

JudgeRestart(e) ==
  LET outcomes == {RunAll(tr, CrashState(s)) : s \in pend}
      obs == Obs(tr, txIds, e.state, [i \in Ids0(tr) |-> None], {}, "none")
  IN  JudgeInv(tr, obs, e.state) \o
      Tag(\E o \in outcomes : Same(o, obs), "Crash.outcome-not-in-model") \o
      Tag(\E o \in outcomes : Same(o, obs) /\ o.cache = obs.cache, "Restart.cache") \o
      Tag(~e.state.addMark /\ ~e.state.rmMark /\ ~e.state.reorgMark, "Model.MarksLeft") \o
      (IF obs.latest \in CrashHeadStrict(tr, cheads.h) THEN <<>>
       ELSE IF obs.latest \in CrashHeadWeak(tr, cheads.h)
         THEN (IF cheads.f THEN <<>>   \* the death was inside a fork switch of the sync processor: an extension
                                      \* beyond C05's entry point, whose uninterrupted run can itself end at an
                                      \* ancestor of the old head (Ext.WeightMonotone.fork-path): only a head that is
                                      \* not even an ancestor of a head of the call is a verdict there
               ELSE <<"Crash.HeadStrict.ancestor-of-old-head">>)
       ELSE <<"Crash.HeadNotAllowed">>)

Judge(e) ==
  CASE e.event = "Deliver" -> JudgeDeliver(e)
    [] e.event = "Fork" -> JudgeFork(e)
    [] e.event = "Restart" -> JudgeRestart(e)
    [] e.event = "RestartFailed" -> <<"Inv.NodeCannotRestart">>   \* chain initialisation died over these stores
    [] e.event = "Died" -> <<"Model.NodeDiedOnItsOwn">>            \* not a planned crash: the code panicked
    [] OTHER -> <<>>

TraceInit == /\ l = 1 /\ bad = <<>> /\ tr = <<>> /\ txIds = <<>>
             /\ ms = [todo |-> <<>>] /\ pend = {} /\ cheads = [h |-> <<0>>, f |-> FALSE]

TraceNext ==
  /\ l <= Len(Trace)
  /\ l' = l + 1
  /\ LET e == Trace[l]  J == Judge(e) IN
       /\ bad' = bad \o [i \in 1..Len(J) |-> <<l, e.event, J[i]>>]
       /\ CASE e.event = "Reset" ->
                 /\ tr' = TreeOf(e) /\ txIds' = e.txIds
                 /\ ms' = Obs(TreeOf(e), e.txIds, e.state, [i \in Ids0(TreeOf(e)) |-> None], {}, "none")
                 /\ pend' = {} /\ cheads' = [h |-> <<0>>, f |-> FALSE]
            [] e.event = "Deliver" ->
                 LET pre == [ms EXCEPT !.pending = @ \cup (TxsOf(tr, e.b) \ ms.executed)]
                     exp == Deliver(tr, pre, e.b)
                 IN /\ ms' = Obs(tr, txIds, e.state, exp.future, exp.verified, e.res)
                    /\ UNCHANGED <<tr, txIds, pend, cheads>>
            [] e.event = "Fork" ->
                 LET exp == ForkExp(e) IN
                 /\ ms' = Obs(tr, txIds, e.state, exp.future, exp.verified, "none")
                 /\ UNCHANGED <<tr, txIds, pend, cheads>>
            [] e.event \in {"Crash", "Died"} ->
                 /\ pend' = CrashStates(e)
                 /\ cheads' = IF e.phase # "deliver" THEN cheads
                              ELSE [h |-> HeadsOfCall(tr, CallBegin(e)), f |-> e.kind = "F"]
                 /\ UNCHANGED <<tr, txIds, ms>>
            [] e.event = "Stop" ->      \* a clean stop at a quiescent point: the next event is a Restart
                 /\ pend' = {ms} /\ cheads' = [h |-> <<ms.latest>>, f |-> FALSE]
                 /\ UNCHANGED <<tr, txIds, ms>>
            [] e.event = "Restart" ->
                 /\ ms' = Obs(tr, txIds, e.state, [i \in Ids0(tr) |-> None], {}, "none")
                 /\ pend' = {}
                 /\ UNCHANGED <<tr, txIds, cheads>>
            [] OTHER -> UNCHANGED <<tr, txIds, ms, pend, cheads>>

TraceSpec == TraceInit /\ [][TraceNext]_tvars

Report == (l = Len(Trace) + 1) => PrintT(<<"VERDICT", Len(Trace), ToJson(bad)>>)
=============================================================================
