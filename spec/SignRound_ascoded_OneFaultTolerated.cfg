SPECIFICATION Spec
CONSTANTS
  NMem = 4
  KThr = 3
  Byz = {4}
  MaxByz = 2
  MaxDup = 1
  MaxLen = 8
  Focus = "shares"
  AsCoded = TRUE
INVARIANTS OneFaultTolerated
CHECK_DEADLOCK FALSE
