--------------------------- MODULE ExecOrderTrace ---------------------------
(***************************************************************************)
(* Trace validation for C01.  One event per input:                         *)
(*   Replicas(class, bal, targets, runs, transferOk)                       *)
(* runs[r][k] is the outcome digest (state root, receipts root, evicted    *)
(* list, executed order, statuses, texts, gas, logs) of block k in the     *)
(* r-th independent execution of the same input.                           *)
(*   Inv.ReplicaDeterministic   all runs produced the same outcomes        *)
(*   Order.outcome-not-in-model the transfer's success is one the model    *)
(*                              (ExecOrder!Outcomes over all orders) allows*)
(***************************************************************************)
EXTENDS ExecOrder, SequencesExt

Trace == ndJsonDeserialize("trace.ndjson")

VARIABLES l, bad
tvars == <<l, bad, input>>

Tag(c, t) == IF c THEN <<>> ELSE <<t>>
InputOf(e) == [bal |-> e.bal, targets |-> {[who |-> e.targets[i].who, amt |-> e.targets[i].amt] : i \in 1..Len(e.targets)}]

Judge(e) ==
  IF e.event # "Replicas" THEN <<>>
  ELSE LET same == \A r \in 1..Len(e.runs) : e.runs[r] = e.runs[1]
           in   == InputOf(e)
       IN (IF same THEN <<>>
           ELSE IF e.class = "transfer" /\ Sensitive(in)
             THEN <<"Inv.ReplicaDeterministic.transfer-with-sender-among-targets">>
             ELSE <<"Inv.ReplicaDeterministic." \o e.class>>) \o
          (IF e.class = "transfer"
             THEN Tag(\A r \in 1..Len(e.transferOk) : e.transferOk[r] \in Outcomes(in), "Order.outcome-not-in-model")
             ELSE <<>>)

TraceInit == l = 1 /\ bad = <<>> /\ input = [bal |-> 0, targets |-> {}]
TraceNext ==
  /\ l <= Len(Trace)
  /\ l' = l + 1
  /\ UNCHANGED input
  /\ LET e == Trace[l]  J == Judge(e) IN bad' = bad \o [i \in 1..Len(J) |-> <<l, e.event, J[i]>>]
TraceSpec == TraceInit /\ [][TraceNext]_tvars
Report == (l = Len(Trace) + 1) => PrintT(<<"VERDICT", Len(Trace), ToJson(bad)>>)
=============================================================================
