SPECIFICATION Spec
CONSTANTS
  Accts = {1, 2}
  MaxDepth = 2
  MaxFrames = 2
  MaxTx = 2
  MaxMuts = 1
  AsCoded = TRUE
INVARIANTS TypeOK FailRestores StaticPure TxClean ReceiptOwn Conservation
VIEW NoHist
CHECK_DEADLOCK FALSE
