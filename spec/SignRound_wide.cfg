SPECIFICATION Spec
CONSTANTS
  NMem = 4
  KThr = 3
  Byz = {3, 4}
  MaxByz = 2
  MaxDup = 1
  AsCoded = FALSE
INVARIANTS TypeOK OnlyValidShares ThresholdImpliesValidGroupSig OneFaultTolerated BeaconFollowsBlock
CHECK_DEADLOCK FALSE
