-------------------------- MODULE SignPartyTrace --------------------------
(***************************************************************************)
(* Trace monitor for the SignParty extension.  harness/cmd/c15p replays    *)
(* every generated sequence of handler calls on the real Processor (cast   *)
(* admission through the real round 0 with VRF, castor, group and block    *)
(* verification on a real chain; share counting in round 1; finalisation   *)
(* in round 2) and logs, once the processor is quiescent after each call,  *)
(* the party table (key, round, block, counted shares with the verdict of  *)
(* the real VerifySig on each stored share), the finished-party cache, the *)
(* per-hash buffers, the node's own shares sent and the blocks handed to   *)
(* the chain.  The spec variables are bound to that projection (the        *)
(* content of the buffers, which is not observable, follows the reference).*)
(*                                                                         *)
(* Everything here lies outside C15's quantifier and is tagged "Ext."      *)
(* (informational), except the literal restatement of C15's first clause   *)
(* on this path (only shares valid for the party's block are counted).     *)
(***************************************************************************)
EXTENDS SignParty, Json

Trace == ndJsonDeserialize("trace.ndjson")

VARIABLES l, bad
tvars == <<vars, l, bad>>

Tag(c, t) == IF c THEN <<>> ELSE <<t>>

ObsParties(st) == [h \in {st.parties[i].key : i \in 1..Len(st.parties)} |->
                     LET i == CHOOSE j \in 1..Len(st.parties) : st.parties[j].key = h
                     IN {st.parties[i].shares[k].m : k \in 1..Len(st.parties[i].shares)}]
ObsFinished(st) == {st.finished[i] : i \in 1..Len(st.finished)}
ObsEmitted(st)  == {st.ownSent[i] : i \in 1..Len(st.ownSent)}
ObsBufferedOK(st, ref) == \A h \in Hashes : st.buffered[h] = Len(ref[h])
AllSharesValid(st) == \A i \in 1..Len(st.parties) : \A k \in 1..Len(st.parties[i].shares) : st.parties[i].shares[k].valid
(* every live party has finished round 0, knows its block and is filed under that block's hash *)
PartyShape(st) == \A i \in 1..Len(st.parties) :
                    LET p == st.parties[i] IN p.round = 1 /\ p.block = p.key /\ p.id = p.key /\ p.future = 0

AtMostOncePerBlock(a) == Cardinality(Range(a)) = Len(a)
OnePerKey(a) == \A i, j \in 1..Len(a) : (a[i] \in Hashes /\ a[j] \in Hashes /\ KeyOf(PropOfHash(a[i])) = KeyOf(PropOfHash(a[j]))) => a[i] = a[j]

JudgeCall(e) ==
  LET m   == e.m
      st  == e.state
      ref == Post(Cur, m)
      ty  == IF m.type = "cast" /\ m.v = 1 THEN "castWhileShareOverPartyKeyArrives" ELSE m.type
  IN  (* C15's clause on the full path: a counted share is the sender's valid share for the party's block *)
      Tag(AllSharesValid(st), "Inv.OnlyValidShares:" \o ty) \o
      (* ... and at this entry point too a member's valid share for the block of a live party that can still
         take it is counted (or completes the threshold), whatever was filed under that member's id before:
         otherwise threshold-many honest answers do not finalise the block (last clause) *)
      Tag((m.type = "verify" /\ m.filed \in DOMAIN parties /\ Counts(parties[m.filed], m.filed, m))
            => \/ (m.filed \in DOMAIN ObsParties(st) /\ m.sender \in ObsParties(st)[m.filed])
               \/ m.filed \in Range(st.added),
          "Inv.ValidShareIsCounted:honest") \o
      (* conformance of the real handlers with the reference, component by component *)
      Tag(~e.panicked, "Ext.Panic:" \o ty) \o
      Tag(ObsParties(st) = ref.parties, "Ext.Step.parties:" \o ty) \o
      Tag(ObsFinished(st) = ref.finished, "Ext.Step.finished:" \o ty) \o
      Tag(ObsBufferedOK(st, ref.buffered), "Ext.Step.buffered:" \o ty) \o
      Tag(st.added = ref.added, "Ext.Step.added:" \o ty) \o
      Tag(ObsEmitted(st) = ref.emitted, "Ext.Step.ownShare:" \o ty) \o
      Tag(PartyShape(st), "Ext.PartyShape:" \o ty) \o
      Tag(st.generated = Len(st.added), "Ext.GenerateBlockPerFinalisation") \o
      (* finalisation *)
      Tag(AtMostOncePerBlock(st.added), "Ext.FinalisedAtMostOncePerBlock") \o
      Tag(OnePerKey(st.added), "Ext.OneBlockPerProposalKey") \o
      Tag(Len(st.added) <= 1, "Ext.OneFinalisationPerSlot")

(* LateSharesCount with the admission taken from the observation: the node sent its own share for p,
   i.e. its round 0 accepted the block *)
ObservedLateSharesCount ==
  \A p \in Props : (p \in emitted /\ Admitted(p) /\ Cardinality(SendersBeforeTimeout(HashOf(p))) >= KThr)
                      => HashOf(p) \in Range(added)
(* every proposal that the reference admits was admitted by the node (the harness' proposals are valid) *)
ProposalsAdmitted == \A p \in Props : Admitted(p) => p \in emitted

(* at the end of a sequence: nothing moved after quiescence; shares that arrived early counted.
   A replay that took longer than the party time-out allows (the machine was starved) is not judged. *)
JudgeEnd(e) ==
  IF e.slow THEN <<>>
  ELSE
  Tag(/\ ObsParties(e.state) = parties /\ ObsFinished(e.state) = finished /\ e.state.added = added, "Ext.ChangeAfterQuiescence") \o
  Tag(ProposalsAdmitted, "Ext.ValidProposalAdmitted") \o
  (* with messages of a faulty member in the sequence this is C15's third clause: a faulty member cannot
     keep a block from finalising that the node accepted and threshold-many members validly signed;
     without them it is the extension's statement about early shares *)
  Tag(ObservedLateSharesCount, IF FaultyPresent THEN "Inv.FaultyMemberCannotBlockFinalisation" ELSE "Ext.LateSharesCount")

JudgeStart(e) == Tag(e.k = KThr, "Ext.Start.threshold")

Judge(e) ==
  CASE e.event = "Start" -> JudgeStart(e)
    [] e.event = "Call"  -> JudgeCall(e)
    [] e.event = "End"   -> JudgeEnd(e)
    [] OTHER             -> <<"unknown-event">>

TraceInit == Init /\ l = 1 /\ bad = <<>>

TraceNext ==
  /\ l <= Len(Trace)
  /\ l' = l + 1
  /\ LET e == Trace[l] IN
       /\ bad' = bad \o [i \in 1..Len(Judge(e)) |-> <<l, e.event, Judge(e)[i]>>]
       /\ IF e.event = "Start"
            THEN /\ parties' = <<>> /\ finished' = {} /\ buffered' = [h \in Hashes |-> <<>>]
                 /\ emitted' = {} /\ added' = <<>> /\ hist' = <<>>
            ELSE IF e.event = "Call"
            THEN /\ parties' = ObsParties(e.state)
                 /\ finished' = ObsFinished(e.state)
                 /\ emitted' = ObsEmitted(e.state)
                 /\ added' = e.state.added
                 /\ buffered' = Post(Cur, e.m).buffered
                 /\ hist' = Append(hist, e.m)
            ELSE UNCHANGED vars

TraceSpec == TraceInit /\ [][TraceNext]_tvars

Report == (l = Len(Trace) + 1) => PrintT(<<"VERDICT", Len(Trace), ToJson(bad)>>)
=============================================================================
