SPECIFICATION LayoutSpec
CONSTANTS
  GasLimit = 200
  DepthLimit = 2
  Costs = {1}
  Requests = {0}
  NCalls = 0
  GasArgs = {"0"}
  Targets = {"empty"}
  CallValues = {"0"}
  Presents = {0, 1, 2, 7, 8, 9, 15, 16, 24, 30, 31}
INVARIANTS LayoutInv LayoutDump
CHECK_DEADLOCK FALSE
