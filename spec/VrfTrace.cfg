SPECIFICATION TraceSpec
CONSTANTS
  Q = 5
  CMax = 8
  AsCoded = FALSE
INVARIANT Report
CHECK_DEADLOCK FALSE
