INIT Init
NEXT Next
