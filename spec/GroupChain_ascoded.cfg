SPECIFICATION Spec
CONSTANTS
  Ids = {1, 2, 3}
  MaxCount = 4
  AsCoded = TRUE
  Crashes = FALSE
  Batched = TRUE
  Recheck = TRUE
INVARIANTS TypeOK InvLinked InvCountIsLength InvIndexExact InvById InvHeights InvRecords
