-------------------------------- MODULE Evm --------------------------------
(***************************************************************************)
(* Reference machine for one EVM call frame over the computational opcode  *)
(* set (Yellow Paper section 9 / appendix H, EIP-145, EIP-211, EIP-3855,   *)
(* EIP-5656): program counter, operand stack, byte memory, return data.    *)
(* One definition per opcode class; Exec dispatches on the opcode at pc.   *)
(* The same definitions are used                                           *)
(*   - as a specification that TLC explores exhaustively on small words    *)
(*     (Evm.cfg: all programs up to a length over an alphabet),            *)
(*   - by the generator EvmGen (programs + predicted final state), and     *)
(*   - by the trace monitor EvmTrace, which recomputes every recorded step *)
(*     of the real interpreter from its recorded pre-state.                *)
(*                                                                         *)
(* Stack: sequence of words, top first.  Memory, code, call data, return   *)
(* data: sequences of bytes (index 1 = offset 0).  Words: see EvmWord.     *)
(* Gas is not part of this module (EvmGas); an access whose memory         *)
(* requirement does not fit in MemHuge bytes is reported as fault "oog".   *)
(***************************************************************************)
EXTENDS EvmWord

CONSTANT StackLimit              \* 1024 in the EVM

(* opcodes (byte values) *)
STOP == 0  SHA3 == 32
CALLDATALOAD == 53  CALLDATASIZE == 54  CALLDATACOPY == 55  CODESIZE == 56  CODECOPY == 57
RETURNDATASIZE == 61  RETURNDATACOPY == 62
POP == 80  MLOAD == 81  MSTORE == 82  MSTORE8 == 83  JUMP == 86  JUMPI == 87  PCOP == 88
MSIZE == 89  JUMPDEST == 91  MCOPY == 94  PUSH0 == 95  PUSH1 == 96  PUSH32 == 127
DUP1 == 128  DUP16 == 143  SWAP1 == 144  SWAP16 == 159  RETURN == 243  REVERT == 253

IsPush(op) == op >= PUSH1 /\ op <= PUSH32
IsDup(op)  == op >= DUP1 /\ op <= DUP16
IsSwap(op) == op >= SWAP1 /\ op <= SWAP16
PushLen(op) == IF IsPush(op) THEN op - PUSH0 ELSE 0

(* the computational opcode set this machine defines *)
Defined(op) ==
  \/ op \in WordOps
  \/ op \in {STOP, SHA3, CALLDATALOAD, CALLDATASIZE, CALLDATACOPY, CODESIZE, CODECOPY,
             RETURNDATASIZE, RETURNDATACOPY, POP, MLOAD, MSTORE, MSTORE8, JUMP, JUMPI, PCOP,
             MSIZE, JUMPDEST, MCOPY, PUSH0, RETURN, REVERT}
  \/ IsPush(op) \/ IsDup(op) \/ IsSwap(op)

(* items taken from / put on the stack *)
Pops(op) ==
  IF op \in UnaryOps THEN 1 ELSE IF op \in BinaryOps THEN 2 ELSE IF op \in TernaryOps THEN 3
  ELSE IF op \in {CALLDATALOAD, POP, MLOAD, JUMP} THEN 1
  ELSE IF op \in {SHA3, MSTORE, MSTORE8, JUMPI, RETURN, REVERT} THEN 2
  ELSE IF op \in {CALLDATACOPY, CODECOPY, RETURNDATACOPY, MCOPY} THEN 3
  ELSE IF IsDup(op) THEN op - DUP1 + 1           \* DUPn: n items must be present, n + 1 afterwards
  ELSE IF IsSwap(op) THEN op - SWAP1 + 2
  ELSE 0
Pushes(op) ==
  IF op \in WordOps \/ op \in {SHA3, CALLDATALOAD, MLOAD} THEN 1
  ELSE IF op \in {CALLDATASIZE, CODESIZE, RETURNDATASIZE, PCOP, MSIZE, PUSH0} \/ IsPush(op) THEN 1
  ELSE IF IsDup(op) THEN op - DUP1 + 2
  ELSE IF IsSwap(op) THEN op - SWAP1 + 2
  ELSE 0

(* ---------------------------------------------------------------- code *)
OpAt(code, pc) == IF pc < Len(code) THEN code[pc + 1] ELSE STOP

(* d is the start of an instruction (not inside push data): scan from 0 *)
RECURSIVE InstrStartR(_, _, _)
InstrStartR(code, i, d) == IF i = d THEN TRUE ELSE IF i > d THEN FALSE
                           ELSE InstrStartR(code, i + 1 + PushLen(code[i + 1]), d)
InstrStart(code, d) == d < Len(code) /\ InstrStartR(code, 0, d)
(* the definition itself: position d lies inside the immediate data of some PUSHn (n = 1..32) that is    *)
(* an instruction of the code; a jump destination is valid iff it is a JUMPDEST byte (0x5b) of the code  *)
(* that does not lie inside push data.  DestDefsAgree (checked on every program of the exhaustive       *)
(* configurations) states that the scan used by the machine decides exactly this.                        *)
InPushData(code, d) == \E i \in (IF d > 32 THEN d - 32 ELSE 0)..(d - 1) :      \* push data reaches at most 32 bytes
                         /\ InstrStartR(code, 0, i) /\ IsPush(code[i + 1]) /\ d <= i + PushLen(code[i + 1])
ValidDestDecl(code, d) == d >= 0 /\ d < Len(code) /\ code[d + 1] = JUMPDEST /\ ~InPushData(code, d)
ValidDest(code, w) == LET d == SmallVal(w) IN
                      d < Len(code) /\ code[d + 1] = JUMPDEST /\ InstrStartR(code, 0, d)

(* --------------------------------------------------------------- memory *)
MemHuge == 16777216              \* 2^24: SmallVal's range; anything beyond is unaffordable

(* bytes needed for an access of len bytes at off (words); 0 when len = 0 *)
Need(off, len) == IF len = <<>> THEN 0
                  ELSE IF SmallVal(off) = Big \/ SmallVal(len) = Big THEN Big
                  ELSE IF SmallVal(off) + SmallVal(len) > MemHuge THEN Big
                  ELSE SmallVal(off) + SmallVal(len)
NeedK(off, k) == IF SmallVal(off) = Big \/ SmallVal(off) + k > MemHuge THEN Big ELSE SmallVal(off) + k
MaxI(x, y) == IF x >= y THEN x ELSE y
RoundUp(n) == ((n + WB - 1) \div WB) * WB
Grow(mem, need) == IF need <= Len(mem) THEN mem
                   ELSE mem \o [i \in 1..(RoundUp(need) - Len(mem)) |-> 0]
(* len bytes of src from offset off (TLC integers), zero padded on the right *)
Slice(src, off, len) == [i \in 1..len |-> IF off + i <= Len(src) THEN src[off + i] ELSE 0]
(* same with a word offset that may be huge *)
SliceW(src, offW, len) == IF SmallVal(offW) = Big THEN [i \in 1..len |-> 0] ELSE Slice(src, SmallVal(offW), len)
Store(mem, off, bytes) == [i \in 1..Len(mem) |-> IF i > off /\ i <= off + Len(bytes) THEN bytes[i - off] ELSE mem[i]]

(* memory requirement of the instruction op on stack s (top first) *)
MemNeed(op, s) ==
  CASE op \in {MLOAD, MSTORE}                        -> NeedK(s[1], WB)
    [] op = MSTORE8                                  -> NeedK(s[1], 1)
    [] op \in {SHA3, RETURN, REVERT}                 -> Need(s[1], s[2])
    [] op \in {CALLDATACOPY, CODECOPY, RETURNDATACOPY} -> Need(s[1], s[3])
    [] op = MCOPY                                    -> IF Lt(s[1], s[2]) THEN Need(s[2], s[3]) ELSE Need(s[1], s[3])
    [] OTHER                                         -> 0

(* ----------------------------------------------------------------- step *)
(* st = [pc, stack, mem, rd]; frame constants: code, data.                 *)
(* Result: [kind |-> "ok" | "halt" | "fault", st |-> state after,          *)
(*          how |-> "" | "stop" | "return" | "revert" | fault class,       *)
(*          ret |-> returned bytes]                                        *)
Rest(s, k) == SubSeq(s, k + 1, Len(s))
Ok(st) == [kind |-> "ok", st |-> st, how |-> "", ret |-> <<>>]
Fault(st, class) == [kind |-> "fault", st |-> st, how |-> class, ret |-> <<>>]
Halt(st, how, ret) == [kind |-> "halt", st |-> st, how |-> how, ret |-> ret]

(* KECCAK256 is out of TLA+'s reach: the machine takes the digest function as a  *)
(* parameter.  The model uses an arbitrary word-valued function of the bytes;   *)
(* the monitor binds it to the digest the harness computes with x/crypto over   *)
(* the slice selected here.                                                     *)
RECURSIVE SumBytes(_, _)
SumBytes(bs, i) == IF i > Len(bs) THEN 0 ELSE (bs[i] + 3 * SumBytes(bs, i + 1)) % 251
(* the one digest that is a published constant: KECCAK256 of the empty string (little-endian digits of *)
(* c5d2460186f7233c927e7db2dcc703c0e500b653ca82273b7bfad8045d85a470)                                  *)
KeccakEmpty == <<112, 164, 133, 93, 4, 216, 250, 123, 59, 39, 130, 202, 83, 182, 0, 229, 192, 3, 199, 220, 178, 125,
                 126, 146, 60, 35, 247, 134, 1, 70, 210, 197>>
Digest(bytes) == IF bytes = <<>> /\ WB = 32 THEN KeccakEmpty
                 ELSE FromNat((Len(bytes) + SumBytes(bytes, 1)) % 256, 256)

ExecOp(code, data, st, op, digest(_)) ==
  LET s   == st.stack
      pc  == st.pc
      m   == Grow(st.mem, MemNeed(op, s))
      nxt(stack2, mem2) == Ok([pc |-> pc + 1, stack |-> stack2, mem |-> mem2, rd |-> st.rd])
  IN
  CASE op \in UnaryOps   -> nxt(<<Unary(op, s[1])>> \o Rest(s, 1), m)
    [] op \in BinaryOps  -> nxt(<<Binary(op, s[1], s[2])>> \o Rest(s, 2), m)
    [] op \in TernaryOps -> nxt(<<Ternary(op, s[1], s[2], s[3])>> \o Rest(s, 3), m)
    [] op = STOP         -> Halt(st, "stop", <<>>)
    [] op = POP          -> nxt(Rest(s, 1), m)
    [] op = PUSH0        -> nxt(<<W0>> \o s, m)
    [] IsPush(op)        -> LET n == PushLen(op)
                                v == Wrap(FromBytesBE(Slice(code, pc + 1, n)))
                            IN Ok([pc |-> pc + 1 + n, stack |-> <<v>> \o s, mem |-> m, rd |-> st.rd])
    [] IsDup(op)         -> nxt(<<s[op - DUP1 + 1]>> \o s, m)
    [] IsSwap(op)        -> LET n == op - SWAP1 + 2 IN
                            nxt([i \in 1..Len(s) |-> IF i = 1 THEN s[n] ELSE IF i = n THEN s[1] ELSE s[i]], m)
    [] op = MLOAD        -> nxt(<<FromBytesBE(Slice(m, SmallVal(s[1]), WB))>> \o Rest(s, 1), m)
    [] op = MSTORE       -> nxt(Rest(s, 2), Store(m, SmallVal(s[1]), ToBytesBE(s[2])))
    [] op = MSTORE8      -> nxt(Rest(s, 2), Store(m, SmallVal(s[1]), <<Digit(s[2], 1)>>))
    [] op = MSIZE        -> nxt(<<FromNat(Len(st.mem), 256)>> \o s, m)
    [] op = MCOPY        -> nxt(Rest(s, 3),
                                IF s[3] = <<>> THEN m
                                ELSE Store(m, SmallVal(s[1]), Slice(m, SmallVal(s[2]), SmallVal(s[3]))))
    [] op = SHA3         -> nxt(<<digest(IF s[2] = <<>> THEN <<>> ELSE Slice(m, SmallVal(s[1]), SmallVal(s[2])))>> \o Rest(s, 2), m)
    [] op = CALLDATALOAD -> nxt(<<FromBytesBE(SliceW(data, s[1], WB))>> \o Rest(s, 1), m)
    [] op = CALLDATASIZE -> nxt(<<FromNat(Len(data), 256)>> \o s, m)
    [] op = CODESIZE     -> nxt(<<FromNat(Len(code), 256)>> \o s, m)
    [] op = RETURNDATASIZE -> nxt(<<FromNat(Len(st.rd), 256)>> \o s, m)
    [] op = CALLDATACOPY -> nxt(Rest(s, 3), IF s[3] = <<>> THEN m
                                            ELSE Store(m, SmallVal(s[1]), SliceW(data, s[2], SmallVal(s[3]))))
    [] op = CODECOPY     -> nxt(Rest(s, 3), IF s[3] = <<>> THEN m
                                            ELSE Store(m, SmallVal(s[1]), SliceW(code, s[2], SmallVal(s[3]))))
    [] op = RETURNDATACOPY ->
         (* EIP-211: reading beyond the return data buffer is an exceptional halt, also for length 0 *)
         IF SmallVal(s[2]) = Big \/ SmallVal(s[3]) = Big \/ SmallVal(s[2]) + SmallVal(s[3]) > Len(st.rd)
           THEN Fault(st, "returndata")
           ELSE nxt(Rest(s, 3), IF s[3] = <<>> THEN m
                                ELSE Store(m, SmallVal(s[1]), Slice(st.rd, SmallVal(s[2]), SmallVal(s[3]))))
    [] op = JUMP         -> IF ValidDest(code, s[1])
                              THEN Ok([pc |-> SmallVal(s[1]), stack |-> Rest(s, 1), mem |-> m, rd |-> st.rd])
                              ELSE Fault(st, "jump")
    [] op = JUMPI        -> IF s[2] = <<>> THEN nxt(Rest(s, 2), m)
                            ELSE IF ValidDest(code, s[1])
                              THEN Ok([pc |-> SmallVal(s[1]), stack |-> Rest(s, 2), mem |-> m, rd |-> st.rd])
                              ELSE Fault(st, "jump")
    [] op = PCOP         -> nxt(<<FromNat(pc, 256)>> \o s, m)
    [] op = JUMPDEST     -> nxt(s, m)
    [] op \in {RETURN, REVERT} ->
         Halt([st EXCEPT !.mem = m, !.stack = Rest(s, 2)], IF op = RETURN THEN "return" ELSE "revert",
              IF s[2] = <<>> THEN <<>> ELSE Slice(m, SmallVal(s[1]), SmallVal(s[2])))

(* validation in the order of the interpreter: opcode, stack, memory size *)
Exec(code, data, st, digest(_)) ==
  LET op == OpAt(code, st.pc) IN
  IF ~Defined(op) THEN Fault(st, "opcode")
  ELSE IF Len(st.stack) < Pops(op) THEN Fault(st, "underflow")
  ELSE IF Len(st.stack) - Pops(op) + Pushes(op) > StackLimit THEN Fault(st, "overflow")
  ELSE IF MemNeed(op, st.stack) = Big THEN Fault(st, "oog")
  ELSE ExecOp(code, data, st, op, digest)

InitState == [pc |-> 0, stack |-> <<>>, mem |-> <<>>, rd |-> <<>>]

(* ============================ the machine as a specification ============ *)
CONSTANTS Alphabet,              \* set of byte values programs are made of
          MaxLen,                \* programs: all byte sequences of length 1..MaxLen
          Datas                  \* set of call data byte sequences
VARIABLES code, data, st, status, jumped, ret
vars == <<code, data, st, status, jumped, ret>>

Programs == UNION {[1..n -> Alphabet] : n \in 1..MaxLen}

Init == /\ code \in Programs /\ data \in Datas
        /\ st = InitState /\ status = "run" /\ jumped = FALSE /\ ret = <<>>

Step == /\ status = "run"
        /\ LET r == Exec(code, data, st, Digest) IN
             /\ st' = r.st /\ ret' = r.ret
             /\ status' = IF r.kind = "ok" THEN "run" ELSE IF r.kind = "halt" THEN r.how ELSE "fault:" \o r.how
             /\ jumped' = (r.kind = "ok" /\ OpAt(code, st.pc) \in {JUMP, JUMPI} /\ r.st.pc # st.pc + 1)
        /\ UNCHANGED <<code, data>>
Next == Step
Spec == Init /\ [][Next]_vars

(* ------------------------------------------------------------ properties *)
TypeOK == /\ st.pc \in 0..(Len(code) + 32)
          /\ Len(st.stack) <= StackLimit
          /\ \A i \in 1..Len(st.stack) : IsWord(st.stack[i])
          /\ Len(st.mem) % WB = 0
          /\ \A i \in 1..Len(st.mem) : st.mem[i] \in 0..255
(* the machine only ever executes instruction starts, never push data *)
PcOnInstr == status = "run" => (st.pc >= Len(code) \/ InstrStart(code, st.pc))
(* a taken jump lands on a JUMPDEST byte that is an instruction start *)
JumpLanding == jumped => (st.pc < Len(code) /\ code[st.pc + 1] = JUMPDEST /\ InstrStart(code, st.pc))
(* memory only grows, in whole words, and only as far as the largest access *)
MemMonotone == [][Len(st'.mem) >= Len(st.mem)]_vars
DestDefsAgree == \A d \in 0..(Len(code) + 1) : ValidDest(code, FromNat(d, 256)) <=> ValidDestDecl(code, d)
=============================================================================
