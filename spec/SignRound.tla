----------------------------- MODULE SignRound -----------------------------
(***************************************************************************)
(* Share collection of a signing round (consensus/logical round1): a group *)
(* member that accepted a proposed block collects the other members'       *)
(* signature shares for the block hash and for the random beacon, recovers *)
(* the group signatures at the threshold, and hands the block to the       *)
(* finaliser, which checks both recovered signatures under the group key.  *)
(*                                                                         *)
(* Code this follows:                                                      *)
(*   logical/round_sign_piece.go   round1.Update, groupSignGenerator       *)
(*   logical/round_sign_finalizer.go  round2.checkSignature                *)
(*   model/message.go              SignInfo.VerifySign                     *)
(*                                                                         *)
(* A verify message is [sender, kind].  What matters about its content is  *)
(* captured by four facts: the sender is a group member; the hash the      *)
(* share signs (signed); the block share is the sender's valid share for   *)
(* that hash (sigOK); the beacon share is the sender's valid share for the *)
(* previous beacon value (randOK).  Honest members sign the block hash H.  *)
(* Byzantine members may sign another hash, replay another member's        *)
(* shares, send garbage points or a bad beacon share, or corrupt the two   *)
(* shares in a correlated way (swap them; add a point D to one and         *)
(* subtract it from the other) so that each is invalid although their sum  *)
(* is the sum of the valid ones; outsiders may send anything.  Every message is filed under H (that is how it reaches this  *)
(* round).                                                                 *)
(*                                                                         *)
(* Handle is the rule the property demands.  AsCoded = TRUE selects what   *)
(* the pinned tree does: the share is verified against the hash the sender *)
(* supplied and nothing compares that hash with H.                         *)
(***************************************************************************)
EXTENDS Integers, Sequences, FiniteSets, TLC

CONSTANTS NMem,        \* members 1..NMem; NMem + 1 is an outsider
          KThr,        \* threshold
          Byz,         \* members that may send Byzantine messages
          MaxByz,      \* bound on Byzantine / outsider messages in a round
          MaxDup,      \* bound on re-sent honest messages
          AsCoded      \* BOOLEAN

Members == 1..NMem
Outsider == NMem + 1
H == 1
OtherHash == 2

ByzKinds == {"otherHash", "replay", "garbage", "offcurve", "badRand", "emptyRand",
             (* correlated corruptions of the two shares: each field invalid on its own, their sum right *)
             "swapped", "shiftRandom", "shiftSmall"}

Msg(s, k, src) == [sender |-> s, kind |-> k, src |-> src]

Alphabet ==
  {Msg(s, "honest", 0) : s \in Members} \cup
  {Msg(s, k, 0) : s \in Byz, k \in ByzKinds \ {"replay"}} \cup
  UNION {{Msg(s, "replay", t) : t \in Members \ {s}} : s \in Byz} \cup
  {Msg(Outsider, "nonMember", 0)}

(* the four facts *)
IsMember(m)  == m.sender \in Members
Signed(m)    == IF m.kind = "otherHash" THEN OtherHash ELSE H
SigOK(m)     == m.kind \in {"honest", "otherHash", "badRand", "emptyRand", "nonMember"}
RandOK(m)    == m.kind \in {"honest", "otherHash", "garbage", "offcurve", "nonMember"}
ValidForH(m) == SigOK(m) /\ Signed(m) = H
Honest(m)    == m.kind = "honest"

VARIABLES counted,    \* sender -> "the counted block share is valid for H"
          rcounted,   \* senders whose beacon share is counted
          recovered,  \* the block signature has been recovered
          sigValid,   \* ... and it verifies under the group key (finaliser's check)
          hist        \* messages handled so far
vars == <<counted, rcounted, recovered, sigValid, hist>>

Init == /\ counted = <<>> /\ rcounted = {} /\ recovered = FALSE /\ sigValid = FALSE /\ hist = <<>>

Dom(f) == DOMAIN f

(* would the handler add the share of m in a state (cnt, rec)? *)
Accepts(cnt, rec, m, ascoded) ==
  /\ ~rec
  /\ IsMember(m)
  /\ m.sender \notin Dom(cnt)
  /\ (ascoded \/ Signed(m) = H)
  /\ SigOK(m)
  /\ RandOK(m)

Extend(cnt, s, v) == [x \in Dom(cnt) \cup {s} |-> IF x = s THEN v ELSE cnt[x]]

(* Lagrange recovery gives the group signature iff all K shares used are valid
   shares for H (property C13) *)
AllValid(cnt) == \A s \in Dom(cnt) : cnt[s]

Handle(m) ==
  /\ hist' = Append(hist, m)
  /\ IF Accepts(counted, recovered, m, AsCoded)
       THEN /\ counted' = Extend(counted, m.sender, ValidForH(m))
            /\ rcounted' = rcounted \cup {m.sender}
            /\ IF Cardinality(Dom(counted')) >= KThr
                 THEN recovered' = TRUE /\ sigValid' = AllValid(counted')
                 ELSE UNCHANGED <<recovered, sigValid>>
       ELSE UNCHANGED <<counted, rcounted, recovered, sigValid>>

Count(P(_)) == Cardinality({i \in 1..Len(hist) : P(hist[i])})
NotHonest(m) == ~Honest(m)
Delivered(m) == \E i \in 1..Len(hist) : hist[i] = m

CanDeliver(m) ==
  IF Honest(m)
    THEN ~Delivered(m) \/ Cardinality({i \in 1..Len(hist) : Honest(hist[i])})
                            - Cardinality({s \in Members : Delivered(Msg(s, "honest", 0))}) < MaxDup
    ELSE ~Delivered(m) /\ Count(NotHonest) < MaxByz

Next == \E m \in Alphabet : CanDeliver(m) /\ Handle(m)

Spec == Init /\ [][Next]_vars

-----------------------------------------------------------------------------
(* The property *)
OnlyValidShares == AllValid(counted)
ThresholdImpliesValidGroupSig == recovered => sigValid
FaultyMembers == {hist[i].sender : i \in {j \in 1..Len(hist) : ~Honest(hist[j]) /\ IsMember(hist[j])}}
AllHonestDelivered == \A s \in Members \ FaultyMembers : Delivered(Msg(s, "honest", 0))
OneFaultTolerated ==
  (Cardinality(FaultyMembers) <= 1 /\ AllHonestDelivered) => (recovered /\ sigValid)
BeaconFollowsBlock == rcounted = Dom(counted)
TypeOK == Dom(counted) \subseteq Members /\ Cardinality(Dom(counted)) <= KThr

ASSUME KThr <= NMem - 1 /\ Byz \subseteq Members
=============================================================================
