----------------------------- MODULE SignRound -----------------------------
(***************************************************************************)
(* Share collection of a signing round (consensus/logical round1): a group *)
(* member that accepted a proposed block collects the other members'       *)
(* signature shares for the block hash and for the random beacon, recovers *)
(* the group signatures at the threshold, and hands the block to the       *)
(* finaliser, which checks both recovered signatures under the group key.  *)
(*                                                                         *)
(* Code this follows:                                                      *)
(*   logical/round_sign_piece.go   round1.Update, groupSignGenerator       *)
(*   logical/round_sign_finalizer.go  round2.checkSignature                *)
(*   model/message.go              SignInfo.VerifySign                     *)
(*                                                                         *)
(* A verify message is [sender, kind].  What matters about its content is  *)
(* captured by four facts: the sender is a group member; the hash the      *)
(* share signs (signed); the block share is the sender's valid share for   *)
(* that hash (sigOK); the beacon share is the sender's valid share for the *)
(* previous beacon value (randOK).  Honest members sign the block hash H.  *)
(* Byzantine members may sign another hash, replay another member's        *)
(* shares, send garbage points or a bad beacon share, or corrupt the two   *)
(* shares in a correlated way (swap them; add a point D to one and         *)
(* subtract it from the other) so that each is invalid although their sum  *)
(* is the sum of the valid ones; outsiders may send anything.  Every message is filed under H (that is how it reaches this  *)
(* round).                                                                 *)
(*                                                                         *)
(* Handle is the rule the property demands.  AsCoded = TRUE selects what   *)
(* the pinned tree does: the share is verified against the hash the sender *)
(* supplied and nothing compares that hash with H.                         *)
(***************************************************************************)
EXTENDS Integers, Sequences, FiniteSets, TLC

CONSTANTS NMem,        \* members 1..NMem; NMem + 1 is an outsider
          KThr,        \* threshold
          Byz,         \* members that may send Byzantine messages
          MaxByz,      \* bound on Byzantine / outsider messages in a round
          MaxDup,      \* bound on re-sent honest messages
          AsCoded,     \* BOOLEAN
          MaxLen,      \* bound on the number of messages explored
          Focus        \* "shares": Byzantine share messages; "keys": announcements of members' share keys

Members == 1..NMem
Outsider == NMem + 1
H == 1
OtherHash == 2

ByzKinds == {"otherHash", "replay", "garbage", "offcurve", "badRand", "emptyRand",
             (* correlated corruptions of the two shares: each field invalid on its own, their sum right *)
             "swapped", "shiftRandom", "shiftSmall",
             (* the sender's own valid share of an EARLIER block's round (verified there by this node),
                re-sent with the data hash rewritten to this block's hash, with a valid beacon share *)
             "staleShare"}

(* messages filed under the RECEIVER's own id (this node is member 1): garbage points, another
   member's valid shares, the faulty sender's own valid shares *)
Self == 1
SelfKinds == {"selfGarbage", "selfOther", "selfSender"}

(* the table (group, member) -> share key that shares are checked against.  A member announces its
   key; a member may announce it again; someone may announce ANOTHER key for a member -- before or
   after the genuine one -- and then file shares made with that key under the member's id.  The
   late member's key is not known when the round starts (focus "keys"). *)
LateMember == 2
KeyedMember == 3
KeyKinds == {"announce", "announceOther", "announceOutsider"}   \* the last: a node that is no member announces a key for its own id
KeyHolders == Members \cup {Outsider}

Msg(s, k, src) == [sender |-> s, kind |-> k, src |-> src]

Alphabet ==
  IF Focus = "keys"
    THEN {Msg(s, "honest", 0) : s \in Members} \cup
         {Msg(LateMember, "announce", 0)} \cup
         {Msg(s, k, 0) : s \in {LateMember, KeyedMember}, k \in {"announceOther", "underOtherKey"}} \cup
         {Msg(Outsider, "announceOutsider", 0), Msg(Outsider, "nonMember", 0)}
    ELSE {Msg(s, "honest", 0) : s \in Members} \cup
         {Msg(s, k, 0) : s \in Byz, k \in ByzKinds \ {"replay"}} \cup
         UNION {{Msg(s, "replay", t) : t \in Members \ {s}} : s \in Byz} \cup
         {Msg(Self, k, 0) : k \in (IF Byz = {} THEN {} ELSE SelfKinds)} \cup
         {Msg(Outsider, "nonMember", 0)}

(* the four facts *)
IsMember(m)  == m.sender \in Members
Signed(m)    == IF m.kind = "otherHash" THEN OtherHash ELSE H
SigOK(m)     == m.kind \in {"honest", "otherHash", "badRand", "emptyRand", "nonMember"}        \* under the GENUINE key
RandOK(m)    == m.kind \in {"honest", "otherHash", "garbage", "offcurve", "nonMember", "staleShare"}
ValidForH(m) == SigOK(m) /\ Signed(m) = H
Honest(m)    == m.kind = "honest"
IsKeyMsg(m)  == m.kind \in KeyKinds
(* validity is always meant against the member's GENUINE key: a share made with a key somebody else
   announced for the member is not the member's share *)

VARIABLES keys,       \* member -> "none" | "genuine" | "other": the share key the node holds for it
          counted,    \* sender -> "the counted block share is valid for H"
          rcounted,   \* senders whose beacon share is counted
          recovered,  \* the block signature has been recovered
          sigValid,   \* ... and it verifies under the group key (finaliser's check)
          hist        \* messages handled so far
vars == <<keys, counted, rcounted, recovered, sigValid, hist>>

InitKeys == [s \in KeyHolders |-> IF s = Outsider \/ (Focus = "keys" /\ s = LateMember) THEN "none" ELSE "genuine"]

Init == /\ keys = InitKeys
        /\ counted = <<>> /\ rcounted = {} /\ recovered = FALSE /\ sigValid = FALSE /\ hist = <<>>

Dom(f) == DOMAIN f

(* the key table after an announcement.  The property's rule: the table only ever holds a member's
   genuine key and the first stored key stays.  As coded at the pinned tree: whoever announces first
   wins (the announcer is not authenticated), later announcements change nothing. *)
KeysAfter(ks, m, ascoded) ==
  IF ~IsKeyMsg(m) \/ ks[m.sender] # "none" THEN ks
  ELSE IF m.kind = "announce" THEN [ks EXCEPT ![m.sender] = "genuine"]
  ELSE IF m.kind = "announceOutsider" /\ ~ascoded THEN ks          \* not a member: nothing to store
  ELSE IF ascoded THEN [ks EXCEPT ![m.sender] = "other"] ELSE ks

(* is the share checked against a key under which it can pass? *)
KeyAdmits(ks, m) == IF m.sender \notin Members THEN FALSE ELSE IF m.kind = "underOtherKey" THEN ks[m.sender] = "other" ELSE ks[m.sender] = "genuine"

(* would the handler add the share of m in a state (ks, cnt, rec)? *)
Accepts(ks, cnt, rec, m, ascoded) ==
  /\ ~rec
  /\ ~IsKeyMsg(m)
  /\ IsMember(m)
  /\ KeyAdmits(ks, m)
  /\ m.sender \notin Dom(cnt)
  /\ (ascoded \/ Signed(m) = H)
  /\ (SigOK(m) \/ m.kind = "underOtherKey")      \* valid under the key the table holds
  /\ (RandOK(m) \/ m.kind = "underOtherKey")

Extend(cnt, s, v) == [x \in Dom(cnt) \cup {s} |-> IF x = s THEN v ELSE cnt[x]]

(* Lagrange recovery gives the group signature iff all K shares used are valid
   shares for H (property C13) *)
AllValid(cnt) == \A s \in Dom(cnt) : cnt[s]

Handle(m) ==
  /\ hist' = Append(hist, m)
  /\ keys' = KeysAfter(keys, m, AsCoded)
  /\ IF Accepts(keys, counted, recovered, m, AsCoded)
       THEN /\ counted' = Extend(counted, m.sender, ValidForH(m))
            /\ rcounted' = rcounted \cup {m.sender}
            /\ IF Cardinality(Dom(counted')) >= KThr
                 THEN recovered' = TRUE /\ sigValid' = AllValid(counted')
                 ELSE UNCHANGED <<recovered, sigValid>>
       ELSE UNCHANGED <<counted, rcounted, recovered, sigValid>>

Count(P(_)) == Cardinality({i \in 1..Len(hist) : P(hist[i])})
NotHonest(m) == ~Honest(m) /\ m.kind # "announce"
Delivered(m) == \E i \in 1..Len(hist) : hist[i] = m

CanDeliver(m) ==
  IF m.kind = "announce" THEN Cardinality({i \in 1..Len(hist) : hist[i] = m}) < 2     \* announce, re-announce
  ELSE IF Honest(m)
    THEN (* a member sends its share after it announced its key *)
         keys[m.sender] # "none" /\
         (~Delivered(m) \/ Cardinality({i \in 1..Len(hist) : Honest(hist[i])})
                            - Cardinality({s \in Members : Delivered(Msg(s, "honest", 0))}) < MaxDup)
    ELSE ~Delivered(m) /\ Count(NotHonest) < MaxByz

Next == Len(hist) < MaxLen /\ \E m \in Alphabet : CanDeliver(m) /\ Handle(m)

Spec == Init /\ [][Next]_vars

-----------------------------------------------------------------------------
(* The property *)
OnlyValidShares == AllValid(counted)
ThresholdImpliesValidGroupSig == recovered => sigValid
FaultyMembers == {hist[i].sender : i \in {j \in 1..Len(hist) : NotHonest(hist[j]) /\ IsMember(hist[j])}}
OutsiderActive == \E i \in 1..Len(hist) : NotHonest(hist[i]) /\ ~IsMember(hist[i])
AllHonestDelivered == \A s \in Members \ FaultyMembers : Delivered(Msg(s, "honest", 0))
OneFaultTolerated ==
  (Cardinality(FaultyMembers) <= 1 /\ AllHonestDelivered) => (recovered /\ sigValid)
BeaconFollowsBlock == rcounted = Dom(counted)
(* shares are checked against the member's own key: the table never holds another one, and a stored
   key is never replaced *)
KeyTableGenuine == /\ \A s \in Members : keys[s] \in {"none", "genuine"}
                   /\ keys[Outsider] = "none"
TypeOK == Dom(counted) \subseteq Members /\ Cardinality(Dom(counted)) <= KThr

ASSUME KThr <= NMem - 1 /\ Byz \subseteq Members
=============================================================================
