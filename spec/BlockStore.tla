----------------------------- MODULE BlockStore -----------------------------
(***************************************************************************)
(* The block store of go-rangers (src/core/blockchain*.go) at the level of *)
(* its individual store writes.                                            *)
(*                                                                         *)
(* One record `st` holds the node:                                         *)
(*  persistent  hashDB  (blocks stored by hash; only canonical blocks),    *)
(*              hidx    (height index -> block), vidx (verify-hash index), *)
(*              headRec ("bcurrent"), addMark / rmMark (intent marks),     *)
(*              reorg (intent mark of a multi-block removal: the height of *)
(*              the common ancestor, None when absent),                    *)
(*              stateDisk (blocks whose post-state root is on disk),       *)
(*              executed (tx pool's executed store)                        *)
(*  volatile    latest (chain.latestBlock), future (futureBlocks LRU,      *)
(*              keyed by parent), verified (verifiedBlocks LRU),           *)
(*              pending (tx pool's received container),                    *)
(*              cache (topBlocks LRU in front of the height index: block,  *)
(*              None = cached "no block at this height", Miss = no entry), *)
(*              todo (the micro-operations still to run in the current     *)
(*              call: the code's program counter), res (call result).      *)
(*                                                                         *)
(* Every store write of insertBlock / remove / ensureChainConsistency is   *)
(* one micro-operation, in code order, so a crash can be placed between    *)
(* any two.  AddBlockOnChain(b) = Begin(st, b) followed by Step until todo *)
(* is empty (RunAll).  Trace validation (BlockStoreTrace) uses RunAll as   *)
(* the reference for a whole call and CrashOutcomes for a crashed call.    *)
(***************************************************************************)
EXTENDS Integers, Sequences, FiniteSets, TLC

CONSTANT ReorgMarked   \* BOOLEAN: TRUE = the repaired tree (removeFromCommonAncestor records the
                       \* ancestor's height before its first removal and the restart finishes the
                       \* removal); FALSE = the pinned tree (negative control for the crash clause)

None == 99
Miss == 97          \* height not in the topBlocks LRU (None in the LRU = a cached "no block")

(* A tree: function over 1..N of [parent, height, tqn, pv, rank, txs];      *)
(* block 0 is genesis.                                                      *)
NBlocks(t) == Len(t)
Ids0(t) == 0..NBlocks(t)
Par(t, b) == IF b = 0 THEN None ELSE t[b].parent
Hgt(t, b) == IF b = 0 THEN 0 ELSE t[b].height
Qn(t, b)  == IF b = 0 THEN 0 ELSE t[b].tqn
Pv(t, b)  == IF b = 0 THEN 0 ELSE t[b].pv
Rank(t, b) == IF b = 0 THEN 0 ELSE t[b].rank
TxsOf(t, b) == IF b = 0 THEN {} ELSE t[b].txs
MaxH(t) == LET S == {Hgt(t, b) : b \in Ids0(t)} IN CHOOSE m \in S : \A x \in S : x <= m

RECURSIVE Ancestors(_, _)
Ancestors(t, b) == IF b = 0 \/ b = None THEN {0} ELSE {b} \cup Ancestors(t, Par(t, b))

(* chainPvGreatThanRemote(local next block ln, coming block b) *)
PvGreater(t, ln, b) == Pv(t, ln) > Pv(t, b) \/ (Pv(t, ln) = Pv(t, b) /\ Rank(t, ln) > Rank(t, b))

-----------------------------------------------------------------------------
InsertOps(b) == << <<"MarkAdd", b, 0>>, <<"PutHash", b, 0>>, <<"PutHeight", b, 0>>,
                   <<"CommitState", b, 0>>, <<"PutVerify", b, 0>>, <<"MarkExec", b, 0>>,
                   <<"PutHead", b, 0>>, <<"EraseAdd", b, 0>>, <<"Callback", b, 0>> >>

RemoveOps(b) == << <<"MarkRm", b, 0>>, <<"DelHash", b, 0>>, <<"DelHeight", b, 0>>,
                   <<"DelVerify", b, 0>>, <<"HeadPre", b, 0>>, <<"UnMark", b, 0>>,
                   <<"EraseRm", b, 0>> >>

InitState(t) ==
  [hashDB |-> {0}, hidx |-> [h \in 0..(MaxH(t) + 1) |-> IF h = 0 THEN 0 ELSE None],
   vidx |-> {0}, headRec |-> 0, addMark |-> None, rmMark |-> None, reorg |-> None, stateDisk |-> {0},
   executed |-> {}, latest |-> 0, future |-> [i \in Ids0(t) |-> None], verified |-> {},
   pending |-> {}, todo |-> <<>>, res |-> "none", fork |-> <<>>, sub |-> "none",
   cache |-> [h \in 0..(MaxH(t) + 1) |-> Miss]]

(* a height lookup through the cache: QueryBlockHeaderByHeight(h, true) *)
Lookup(s, h) == IF s.cache[h] # Miss THEN s.cache[h] ELSE s.hidx[h]

(* AddBlockOnChain(b): consensusVerify, then addBlockOnChain under the lock *)
Begin(t, s, b) ==
  IF Par(t, b) \notin s.hashDB
    THEN [s EXCEPT !.future[Par(t, b)] = b, !.res = "NoPre"]
  ELSE IF b \in s.hashDB THEN [s EXCEPT !.res = "Existed"]
  ELSE [s EXCEPT !.todo = << <<"AddOn", b, 0>> >>, !.res = "none"]

(* removeFromCommonAncestor(a): the intent mark (repaired tree), the removals from the head's
   height down to the ancestor's, the mark erased *)
RemDown(t, s, a) ==
  (IF ReorgMarked /\ Hgt(t, s.latest) > Hgt(t, a) THEN << <<"MarkReorg", Hgt(t, a), 0>> >> ELSE <<>>)
  \o << <<"RemLoop", Hgt(t, a), Hgt(t, s.latest)>> >>
  \o (IF ReorgMarked /\ Hgt(t, s.latest) > Hgt(t, a) THEN << <<"EraseReorg", 0, 0>> >> ELSE <<>>)

(* decision structure of addBlockOnChain; cb = 1 when called from the on-chain callback for a
   future block (its result is not the result of the call) *)
SetRes(s, cb, r) == IF cb = 0 THEN r ELSE s.res
SetSub(s, cb, r) == IF cb = 2 THEN r ELSE s.sub
AddOn(t, s, b, rest, cb) ==
  IF b = s.latest \/ b \in s.hashDB THEN [s EXCEPT !.todo = rest, !.res = SetRes(s, cb, "Existed"), !.sub = SetSub(s, cb, "Existed")]
  ELSE IF b \notin s.verified /\ Par(t, b) \notin s.hashDB
    THEN [s EXCEPT !.todo = rest, !.res = SetRes(s, cb, "Failed"), !.sub = SetSub(s, cb, "Failed"), !.future[Par(t, b)] = b]
  ELSE IF b \notin s.verified /\ TxsOf(t, b) \cap s.executed # {}
    THEN [s EXCEPT !.todo = rest, !.res = SetRes(s, cb, "Failed"), !.sub = SetSub(s, cb, "Failed")]
  ELSE LET s1 == [s EXCEPT !.verified = @ \cup {b}] IN
    IF Par(t, b) = s1.latest THEN [s1 EXCEPT !.todo = InsertOps(b) \o rest, !.res = SetRes(s, cb, "Succ"), !.sub = SetSub(s, cb, "Succ")]
    ELSE IF Qn(t, b) < Qn(t, s1.latest) THEN [s1 EXCEPT !.todo = rest, !.res = SetRes(s, cb, "LessQN"), !.sub = SetSub(s, cb, "LessQN")]
    ELSE IF Par(t, b) \notin s1.hashDB THEN [s1 EXCEPT !.todo = rest, !.res = SetRes(s, cb, "Failed"), !.sub = SetSub(s, cb, "Failed")]
    ELSE IF Qn(t, b) > Qn(t, s1.latest)
      THEN [s1 EXCEPT !.todo = RemDown(t, s1, Par(t, b)) \o << <<"AddOn", b, cb>> >> \o rest]
    ELSE LET ln == s1.hidx[Hgt(t, Par(t, b)) + 1] IN
      IF ln = None THEN [s1 EXCEPT !.todo = rest, !.res = SetRes(s, cb, "Failed"), !.sub = SetSub(s, cb, "Failed")]
      ELSE IF PvGreater(t, ln, b) THEN [s1 EXCEPT !.todo = rest, !.res = SetRes(s, cb, "LessQN"), !.sub = SetSub(s, cb, "LessQN")]
      ELSE [s1 EXCEPT !.todo = RemDown(t, s1, Par(t, b)) \o << <<"AddOn", b, cb>> >> \o rest]

RECURSIVE PathDown(_, _, _)
PathDown(t, a, x) == IF x = a THEN <<a>> ELSE PathDown(t, a, Par(t, x)) \o <<x>>     \* a ancestor of x

(* --- fork switch of the sync processor (fork_block.go: triggerOnChain) -------------------
   p = <<a, b1, ..., bk>>: the fork, rooted at block a of the local chain; the fork database is
   indexed by height. *)
ForkBlockAt(t, p, h) == IF \E i \in 1..Len(p) : Hgt(t, p[i]) = h
                          THEN p[CHOOSE i \in 1..Len(p) : Hgt(t, p[i]) = h] ELSE None
RECURSIVE CommonIdx(_, _, _, _)
CommonIdx(t, s, p, i) ==       \* how many leading blocks of the fork are on the local chain
  IF i > Len(p) THEN Len(p)
  ELSE IF s.hidx[Hgt(t, p[i])] = p[i] THEN CommonIdx(t, s, p, i + 1) ELSE i - 1
BeginFork(t, s, p) ==
  LET top == p[Len(p)]  i == CommonIdx(t, s, p, 1) IN
  IF Qn(t, top) < Qn(t, s.latest) \/ i = 0 THEN [s EXCEPT !.res = "ForkNoop"]
  ELSE LET ca == p[i]
           fb == ForkBlockAt(t, p, Hgt(t, ca) + 1)
           lb == s.hidx[Hgt(t, ca) + 1]
           keep == IF Hgt(t, ca) < Hgt(t, top) /\ Hgt(t, ca) < Hgt(t, s.latest) /\ fb # None /\ lb # None
                     THEN PvGreater(t, lb, fb) ELSE TRUE
       IN IF Qn(t, top) = Qn(t, s.latest) /\ keep THEN [s EXCEPT !.res = "ForkNoop"]
          ELSE [s EXCEPT !.fork = p, !.res = "none", !.sub = "none",
                         !.todo = RemDown(t, s, ca) \o << <<"ForkAdd", Hgt(t, p[1]) + 1, 0>> >>]

(* one micro-operation *)
Step(t, s) ==
  LET op == s.todo[1]  rest == Tail(s.todo)  b == op[2] IN
  CASE op[1] = "AddOn" -> AddOn(t, s, b, rest, op[3])
    [] op[1] = "MarkReorg"   -> [s EXCEPT !.reorg = b, !.todo = rest]
    [] op[1] = "EraseReorg"  -> [s EXCEPT !.reorg = None, !.todo = rest]
    [] op[1] = "RemLoop" ->         \* removeFromCommonAncestor: heights from op[3] down to the ancestor's (op[2])
         IF op[3] > b
           THEN LET x == s.hidx[op[3]] IN
                [s EXCEPT !.todo = (IF x # None /\ x \in s.hashDB THEN RemoveOps(x) ELSE <<>>)
                                   \o << <<"RemLoop", b, op[3] - 1>> >> \o rest]
           ELSE [s EXCEPT !.todo = rest]
    [] op[1] = "MarkAdd"     -> [s EXCEPT !.addMark = b, !.todo = rest]
    [] op[1] = "PutHash"     -> [s EXCEPT !.hashDB = @ \cup {b}, !.todo = rest]
    [] op[1] = "PutHeight"   -> [s EXCEPT !.hidx[Hgt(t, b)] = b, !.todo = rest]
    [] op[1] = "CommitState" -> [s EXCEPT !.stateDisk = @ \cup {b}, !.todo = rest]
    [] op[1] = "PutVerify"   -> [s EXCEPT !.vidx = @ \cup {Hgt(t, b)}, !.todo = rest]
    [] op[1] = "MarkExec"    -> [s EXCEPT !.executed = @ \cup TxsOf(t, b), !.pending = @ \ TxsOf(t, b), !.todo = rest,
                                         !.cache[Hgt(t, b)] = b]            \* + topBlocks.Add
    [] op[1] = "PutHead"     -> [s EXCEPT !.headRec = b, !.latest = b, !.todo = rest]
    [] op[1] = "EraseAdd"    -> [s EXCEPT !.addMark = None, !.todo = rest]
    [] op[1] = "Callback"    -> IF s.future[b] # None
                                  THEN [s EXCEPT !.todo = << <<"AddOn", s.future[b], 1>> >> \o rest]
                                  ELSE [s EXCEPT !.todo = rest]
    [] op[1] = "MarkRm"      -> [s EXCEPT !.rmMark = b, !.todo = rest]
    [] op[1] = "DelHash"     -> [s EXCEPT !.hashDB = @ \ {b}, !.verified = @ \ {b}, !.todo = rest]
    [] op[1] = "DelHeight"   -> [s EXCEPT !.hidx[Hgt(t, b)] = None, !.todo = rest]
    [] op[1] = "DelVerify"   -> [s EXCEPT !.vidx = @ \ {Hgt(t, b)}, !.todo = rest,
                                         !.cache[Hgt(t, b)] = Miss]         \* + topBlocks.Remove
    [] op[1] = "HeadPre"     -> IF Par(t, b) \in s.hashDB
                                  THEN [s EXCEPT !.headRec = Par(t, b), !.latest = Par(t, b), !.todo = rest]
                                  ELSE \* remove() returns false: the rest of remove() is skipped, the mark stays
                                       [s EXCEPT !.todo = IF Len(rest) >= 2 THEN SubSeq(rest, 3, Len(rest)) ELSE <<>>]
    [] op[1] = "UnMark"      -> IF TxsOf(t, b) = {} THEN [s EXCEPT !.todo = rest]
                                ELSE [s EXCEPT !.executed = @ \ TxsOf(t, b), !.pending = @ \cup TxsOf(t, b), !.todo = rest]
    [] op[1] = "EraseRm"     -> [s EXCEPT !.rmMark = None, !.todo = rest]
    [] op[1] = "ForkAdd" ->         \* triggerOnChain: add the fork's block of height op[2], then go on
         IF op[2] > Hgt(t, s.fork[Len(s.fork)]) THEN [s EXCEPT !.todo = rest, !.res = "ForkDone"]
         ELSE LET x == ForkBlockAt(t, s.fork, op[2]) IN
              IF x = None THEN [s EXCEPT !.todo = rest, !.res = "ForkFail"]
              ELSE IF Par(t, x) \notin s.hashDB             \* tryAddBlockOnChain -> consensusVerify
                THEN [s EXCEPT !.todo = rest, !.res = "ForkFail", !.future[Par(t, x)] = x]
              ELSE IF x \in s.hashDB THEN [s EXCEPT !.todo = rest, !.res = "ForkFail"]
              ELSE [s EXCEPT !.sub = "none",
                             !.todo = << <<"AddOn", x, 2>>, <<"ForkNext", op[2] + 1, 0>> >> \o rest]
    [] op[1] = "ForkNext" ->
         IF s.sub = "Succ" THEN [s EXCEPT !.todo = << <<"ForkAdd", op[2], 0>> >> \o rest]
         ELSE [s EXCEPT !.todo = rest, !.res = "ForkFail"]
    [] op[1] = "RecRm"       -> IF s.rmMark # None
                                  THEN [s EXCEPT !.todo = RemoveOps(s.rmMark) \o << <<"EraseRm", 0, 0>> >> \o rest]
                                  ELSE [s EXCEPT !.todo = rest]
    [] op[1] = "RecReorg"    ->     \* ensureChainConsistency: a reorganisation was under way - finish its removals
         IF s.reorg # None
           THEN [s EXCEPT !.todo = (IF s.hidx[s.reorg] # None THEN RemDown(t, s, s.hidx[s.reorg]) ELSE <<>>)
                                   \o << <<"EraseReorg", 0, 0>> >> \o rest]
           ELSE [s EXCEPT !.todo = rest]
    [] op[1] = "BuildCache"  ->     \* initBlockChain after the recovery: heights below the head, the head itself left out
         [s EXCEPT !.todo = rest,
                   !.cache = [h \in DOMAIN s.cache |-> IF h < Hgt(t, s.latest) THEN s.hidx[h] ELSE Miss]]

RECURSIVE RunK(_, _, _)
RunK(t, s, k) == IF s.todo = <<>> \/ k = 0 THEN s ELSE RunK(t, Step(t, s), k - 1)

(* Every call is run with a bound on its micro-operations.  From the states the model itself
   reaches a call ends long before it (BlockStoreMC checks CallsEnd); a trace monitor, however,
   starts calls from OBSERVED stores, and from an inconsistent store the recursion of
   addBlockOnChain need not end (the real node then recurses until it dies): there the run
   stops with todo # <<>>, which the monitor reports as "Model.diverges". *)
Fuel == 400
RunAll(t, s) == RunK(t, s, Fuel)
Ended(s) == s.todo = <<>>

RECURSIVE StepsF(_, _, _)
StepsF(t, s, k) == IF s.todo = <<>> \/ k = 0 THEN 0 ELSE 1 + StepsF(t, Step(t, s), k - 1)
StepsToEnd(t, s) == StepsF(t, s, Fuel)

(* process death: volatile state is lost; then initBlockChain + ensureChainConsistency *)
CrashState(s) ==
  [s EXCEPT !.latest = s.headRec, !.future = [i \in DOMAIN s.future |-> None], !.verified = {},
            !.pending = {}, !.res = "none", !.fork = <<>>, !.sub = "none",
            !.cache = [h \in DOMAIN s.cache |-> Miss],
            !.todo = (IF s.addMark # None THEN RemoveOps(s.addMark) \o << <<"EraseAdd", 0, 0>> >> ELSE <<>>)
                     \o << <<"RecRm", 0, 0>>, <<"RecReorg", 0, 0>>, <<"BuildCache", 0, 0>> >>]

Deliver(t, s, b) == RunAll(t, Begin(t, s, b))
ForkSwitch(t, s, p) == RunAll(t, BeginFork(t, s, p))

(* every state the stores can be in after AddBlockOnChain(b) was interrupted by a process death
   before its j-th micro-operation and the node restarted (recovery itself uninterrupted) *)
CrashOutcomes(t, s, b) ==
  LET s0 == Begin(t, s, b) IN
  { RunAll(t, CrashState(RunK(t, s0, j))) : j \in 0..StepsToEnd(t, s0) }

-----------------------------------------------------------------------------
(* The property, on a quiescent state                                        *)

Canon(t, s) == Ancestors(t, s.latest)

HeadLinked(t, s) == Canon(t, s) \subseteq s.hashDB
HeightIndexAgrees(t, s) == \A b \in Canon(t, s) : s.hidx[Hgt(t, b)] = b
NothingAboveHead(t, s) ==
  /\ \A h \in DOMAIN s.hidx : h > Hgt(t, s.latest) => s.hidx[h] = None
  /\ \A h \in DOMAIN s.hidx : s.hidx[h] # None => s.hidx[h] \in Canon(t, s)
  /\ s.hashDB \subseteq Canon(t, s)
HeadStateDurable(t, s) == s.latest \in s.stateDisk
HeadRecorded(t, s) == s.headRec = s.latest
NoMarks(t, s) == s.addMark = None /\ s.rmMark = None /\ s.reorg = None
ExecutedAgrees(t, s) == s.executed = UNION {TxsOf(t, b) : b \in Canon(t, s)}

(* the cache never contradicts the height index, so lookups through it return the chain *)
CacheCoherent(t, s) == \A h \in DOMAIN s.cache : s.cache[h] # Miss => s.cache[h] = s.hidx[h]
LookupsReturnChain(t, s) ==
  /\ \A b \in Canon(t, s) : Lookup(s, Hgt(t, b)) = b
  /\ \A h \in DOMAIN s.hidx : h > Hgt(t, s.latest) => Lookup(s, h) = None

StoreOK(t, s) == /\ HeadLinked(t, s) /\ HeightIndexAgrees(t, s) /\ NothingAboveHead(t, s)
                 /\ HeadStateDurable(t, s) /\ HeadRecorded(t, s) /\ NoMarks(t, s)
                 /\ ExecutedAgrees(t, s)

(* fork-choice order: new head not lower than old head *)
ChildToward(t, a, b) == CHOOSE c \in Ancestors(t, b) : c # 0 /\ Par(t, c) = a
NotLower(t, new, old) ==
  \/ new = old
  \/ Qn(t, new) > Qn(t, old)
  \/ /\ Qn(t, new) = Qn(t, old)
     /\ LET common == Ancestors(t, new) \cap Ancestors(t, old)
            a == CHOOSE c \in common : \A d \in common : Hgt(t, d) <= Hgt(t, c)
        IN IF a = old \/ a = new THEN a = old
           ELSE ~PvGreater(t, ChildToward(t, a, old), ChildToward(t, a, new))

(* Heads the call would reach: the value of latest after every PutHead of the uninterrupted
   run.  A call can perform several head changes (insert b, then the future child of b from
   the callback, ...): change i goes from heads[i-1] (heads[0] = the head at call start) to
   heads[i]. *)
RECURSIVE CollectHeads(_, _, _, _)
CollectHeads(t, s, acc, k) ==
  IF s.todo = <<>> \/ k = 0 THEN acc
  ELSE LET s2 == Step(t, s) IN
       CollectHeads(t, s2, IF s.todo[1][1] = "PutHead" THEN Append(acc, s2.latest) ELSE acc, k - 1)
HeadsOfCall(t, s0) == <<s0.latest>> \o CollectHeads(t, s0, <<>>, Fuel)

(* the statement, literally: after a crash in the middle of a head change the head is the old
   head, the new head or a common ancestor of both *)
CrashHeadStrict(t, heads) ==
  UNION { {heads[i], heads[i + 1]} \cup (Ancestors(t, heads[i]) \cap Ancestors(t, heads[i + 1])) :
            i \in 1..(Len(heads) - 1) } \cup {heads[1]}
(* what the write order of the code guarantees: additionally any ancestor of an old head
   (a multi-block reorg removes block by block, each removal separately marked) *)
CrashHeadWeak(t, heads) ==
  CrashHeadStrict(t, heads) \cup UNION { Ancestors(t, heads[i]) : i \in 1..Len(heads) }
-----------------------------------------------------------------------------
(* trees built block by block: parent among the earlier blocks, height = parent's + 1 (or + 2
   with Gaps), cumulative QN = parent's + 1 or + 2, prove value 1 or 2, hash rank = id; the
   first two blocks carry one transaction each (the same one when TxShare) *)
RECURSIVE TreesUpTo(_, _)
TreesUpTo(k, gaps) ==
  IF k = 0 THEN {<<>>}
  ELSE { Append(t, [parent |-> p, height |-> Hgt(t, p) + g, tqn |-> Qn(t, p) + q, pv |-> v, rank |-> k,
                    txs |-> x]) :
           t \in TreesUpTo(k - 1, gaps), p \in 0..(k - 1), g \in (IF gaps THEN {1, 2} ELSE {1}), q \in {1, 2}, v \in {1, 2},
           x \in (IF k <= 2 THEN {{k}, {1}} ELSE {{}}) }
=============================================================================
