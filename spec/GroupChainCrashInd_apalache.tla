--------------------- MODULE GroupChainCrashInd_apalache ---------------------
(* GroupChainCrashInd with concrete constants, for Apalache:
     apalache-mc check --init=Init    --inv=IndInv --length=0 ...
     apalache-mc check --init=IndInit --inv=IndInv --length=1 ...
     apalache-mc check --init=IndInit --next=NextUnbatched --inv=IndInv --length=2 ...   (must FAIL) *)
Ids == {1, 2, 3, 4}
MaxH == 4
VARIABLES
  \* @type: Int -> { pre: Int, height: Int, present: Bool };
  store,
  \* @type: Int -> Int;
  hidx,
  \* @type: Int;
  countRec,
  \* @type: Int;
  lastRec,
  \* @type: Int;
  count,
  \* @type: Int;
  last,
  \* @type: Str;
  pc
INSTANCE GroupChainCrashInd
IndInit == IndInv
=============================================================================
