------------------------------ MODULE ReqQueue ------------------------------
(***************************************************************************)
(* The gateway request queue of go-rangers                                 *)
(* (src/middleware/priority_queue.go, fed by AccountDBManager.loop, drained *)
(* into GameExecutor.runWrite): client transactions arrive from the gateway *)
(* with a request id ("nonce") in any order and are handed to the executor  *)
(* strictly in request-id order, each at most once; a block that is added   *)
(* to the chain moves the threshold to the highest request id it contains   *)
(* (AccountDBManager.SetLatestStateDB -> SetThreshold).                     *)
(*                                                                         *)
(*   heap      bag of waiting request ids (id -> multiplicity)              *)
(*   thr       threshold: every id <= thr is settled                        *)
(*   handled   ids handed to the handler, in order                          *)
(*                                                                         *)
(* heapPush(n):  n # 0 and n <= thr: dropped; otherwise inserted, tryPop.   *)
(* SetThreshold(v): thr := max(thr, v), tryPop.                             *)
(* tryPop: (1) everything <= thr is popped; of these only id 0 (requests    *)
(*         without ordering) goes to the handler; (2) while the smallest    *)
(*         waiting id is thr + 1: thr := thr + 1, pop ONE, hand it over.    *)
(* This is an extension beyond the listed properties (it feeds the pool of  *)
(* C17); judgements of the trace monitor are tagged Ext.ReqQueue.x.          *)
(***************************************************************************)
EXTENDS Naturals, Sequences, FiniteSets, TLC

CONSTANTS MaxId,     \* request ids 0..MaxId
          MaxOps,    \* operations per behaviour
          AsCoded    \* BOOLEAN: TRUE = phase 2 as the code runs it (it looks at the top of the heap
                     \* only, so a duplicate of an id that was just handed over hides the next due id
                     \* until the next call); FALSE = the ideal queue

Ids == 0..MaxId

VARIABLES heap, thr, handled, nops, maxThrSet
vars == <<heap, thr, handled, nops, maxThrSet>>

EmptyHeap == [i \in Ids |-> 0]

(* ---- reference semantics as operators (used by ReqQueueTrace as well) ---- *)
RECURSIVE Rep(_, _)
Rep(x, k) == IF k = 0 THEN <<>> ELSE <<x>> \o Rep(x, k - 1)

(* phase 1: pop everything <= t; the zeros are handled *)
Phase1(h, t) == [heap |-> [i \in DOMAIN h |-> IF i <= t THEN 0 ELSE h[i]],
                 out  |-> Rep(0, h[0])]

(* phase 2: consecutive ids from t + 1 *)
Top(h) == IF \E i \in DOMAIN h : h[i] > 0
            THEN CHOOSE i \in DOMAIN h : h[i] > 0 /\ \A j \in DOMAIN h : h[j] > 0 => i <= j
            ELSE MaxId + 1
RECURSIVE Phase2(_, _, _)
Phase2(h, t, out) ==
  IF (t + 1) \in DOMAIN h /\ h[t + 1] > 0 /\ (AsCoded => Top(h) = t + 1)
    THEN Phase2([h EXCEPT ![t + 1] = @ - 1], t + 1, Append(out, t + 1))
    ELSE [heap |-> h, thr |-> t, out |-> out]

TryPop(h, t) == LET p1 == Phase1(h, t) IN Phase2(p1.heap, t, p1.out)

PushPost(h, t, n) ==
  IF n # 0 /\ n <= t THEN [heap |-> h, thr |-> t, out |-> <<>>]
  ELSE TryPop([h EXCEPT ![n] = @ + 1], t)

SetThrPost(h, t, v) == TryPop(h, IF v >= t THEN v ELSE t)

(* ---- the state machine ---- *)
Init == heap = EmptyHeap /\ thr = 0 /\ handled = <<>> /\ nops = 0 /\ maxThrSet = 0

Push(n) ==
  /\ nops < MaxOps
  /\ LET r == PushPost(heap, thr, n) IN
       /\ heap' = r.heap /\ thr' = r.thr /\ handled' = handled \o r.out
  /\ nops' = nops + 1
  /\ UNCHANGED maxThrSet

SetThreshold(v) ==
  /\ nops < MaxOps
  /\ LET r == SetThrPost(heap, thr, v) IN
       /\ heap' = r.heap /\ thr' = r.thr /\ handled' = handled \o r.out
  /\ nops' = nops + 1
  /\ maxThrSet' = IF v > maxThrSet THEN v ELSE maxThrSet

Next == (\E n \in Ids : Push(n)) \/ (\E v \in Ids : SetThreshold(v))
Spec == Init /\ [][Next]_vars

(* ---- what the executor relies on ---- *)
NonZero(sq) == SelectSeq(sq, LAMBDA x : x # 0)

(* ordered ids are handed over in strictly increasing order, so none twice *)
InOrder == LET s == NonZero(handled) IN \A i \in 1..(Len(s) - 1) : s[i] < s[i + 1]
(* nothing at or below a threshold that a block has set is handed over afterwards:
   checked as an action property *)
NoStaleAfterSet == [][\A i \in (Len(handled) + 1)..Len(handled') :
                         handled'[i] = 0 \/ handled'[i] > maxThrSet']_vars
(* every handed-over ordered id was the successor of the threshold at that moment *)
Settled == \A i \in 1..Len(NonZero(handled)) : NonZero(handled)[i] <= thr
(* nothing that is due stays behind: the successor of the threshold is never left waiting *)
NothingDueWaits == (thr + 1) \in Ids => heap[thr + 1] = 0
(* ids at or below the threshold that remain are duplicates and never reach the handler *)
TypeOK == thr \in Ids /\ \A i \in Ids : heap[i] \in 0..MaxOps
=============================================================================
