SPECIFICATION Spec
CONSTANT Atomic = FALSE
INVARIANT Dump
CHECK_DEADLOCK FALSE
