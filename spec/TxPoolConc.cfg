SPECIFICATION Spec
CONSTANTS
  Atomic = FALSE
  Readers = 1
  Lookups = 1
  NegCache = FALSE
  CachedView = FALSE
INVARIANT Dump
CHECK_DEADLOCK FALSE
