SPECIFICATION Spec
CONSTANTS
  Accts = {1}
  MaxDepth = 3
  MaxFrames = 3
  MaxTx = 1
  MaxMuts = 1
  AsCoded = FALSE
INVARIANTS GenInv Dump
CHECK_DEADLOCK FALSE
