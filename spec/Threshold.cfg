SPECIFICATION Spec
CONSTANTS
  N = 3
  P = 7
  IdSeq <- Ids3
  Coefs = {1, 4}
  FreshRedeal = FALSE
  HSet = {2}
INVARIANTS TypeOK ShareValid GpkAgree RecoverUnique AnySubsetAnyOrder VerifiesUnderGpk PiecesOnOnePolynomial GpkAllEqual
CHECK_DEADLOCK FALSE
