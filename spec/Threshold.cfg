SPECIFICATION Spec
CONSTANTS
  N = 3
  P = 7
  IdSeq <- Ids3
  Coefs = {1, 4}
  HSet = {2}
INVARIANTS TypeOK ShareValid GpkAgree RecoverUnique AnySubsetAnyOrder VerifiesUnderGpk
CHECK_DEADLOCK FALSE
