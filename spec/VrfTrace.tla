------------------------------ MODULE VrfTrace ------------------------------
(***************************************************************************)
(* Trace monitor for C16.  harness/cmd/c16 drives the real VRF             *)
(* (vrf.VRFGenProve / VRFVerify / VRFProof2Hash, the header transport of   *)
(* the proof, verifyBlockVRF, validateProve) and an adversarial prover     *)
(* built from hook H5, and logs one event per call.  Curve arithmetic and  *)
(* hashes stay in the driver; this module owns: the byte-level transport   *)
(* rule, which adversarial (torsion-shifted) proofs verify, uniqueness of  *)
(* the lottery output among accepted proofs, rejection of every single-bit *)
(* mutation, and the qualification / quality-number rule recomputed in     *)
(* exact BigNat arithmetic from the logged 32-byte lottery value, stake,   *)
(* working miners and height.                                              *)
(* Verdict tags ("Inv.") are clauses of the property; the others are       *)
(* conformance with the reference rules.                                   *)
(***************************************************************************)
EXTENDS Vrf, Json

Trace == ndJsonDeserialize("trace.ndjson")

VARIABLES l, bad, seen, outs     \* outs: the lottery output (class id) of the honest proof for the current key and message
tvars == <<vars, l, bad, seen, outs>>

Tag(c, t) == IF c THEN <<>> ELSE <<t>>

PL == 80
Max256 == [i \in 1..32 |-> 255]

JudgeProve(e) == Tag(e.deterministic /\ e.len = PL, "Inv.Deterministic")

JudgeTransport(e) ==
  Tag(e.verifyDirect, "Inv.Complete") \o
  Tag(e.verifyAfter /\ e.blockVrfOk /\ e.qualAfter = e.qualDirect /\ e.headerCodecSame,
      "Inv.SurvivesTransport:z" \o ToString(LeadingZeros(e.pi))) \o
  Tag(e.transported = Transport(e.pi), "Transport.bytes") \o
  Tag(Restore(e.transported, PL) = e.pi, "Transport.restore") \o
  Tag(e.z = LeadingZeros(e.pi), "Transport.z") \o
  (* beyond the statement: the helper that turns the header field into the lottery value for the
     chain's log line (ConsensusHelperImpl.VRFProve2Value) does not pad *)
  Tag(e.helperValueSame, "Ext.HelperProveValueAfterTransport:z" \o ToString(LeadingZeros(e.pi)))

JudgeMutate(e) == Tag(~e.accepted, "Inv.MutationRejected:" \o e.part)
(* the same lattice at the node's own entry point verifyBlockVRF, with a stake under which every lottery
   value qualifies and the quality number the header claims computed for the presented proof: only the
   verification of the proof can refuse.  The unchanged proof is the control. *)
JudgeBlockVRF(e) == IF e.part = "none" THEN Tag(e.accepted /\ e.qualified, "BlockVRF.control")
                    ELSE Tag(~e.accepted, "Inv.MutationRejected:" \o e.part) \o Tag(e.qualified, "BlockVRF.qualified")

JudgeTorsion(e) ==
  Tag(e.accepted = TorsionRule(e.cmod8, e.t, e.e), "Torsion.rule") \o
  Tag(e.accepted => e.outClass \in outs,
      "Inv.UniqueLotteryOutput:" \o (IF e.t = 0 THEN "unshifted" ELSE "torsionShifted"))

(* qualification and quality number are a function of (proof, stake figures, height): the same
   question asked again, whatever was asked in between, gets the same answer.  seen: id of the
   question (assigned by the generator's case list) -> inputs and first answer *)
Question(e) == <<e.v, e.S, e.W, e.height>>
Answer(e) == <<e.ok, e.qn>>
JudgeAgain(e) ==
  IF e.kid \in DOMAIN seen
    THEN Tag(seen[e.kid][1] = Question(e), "Proj.sameQuestion") \o
         Tag(seen[e.kid][2] = Answer(e), "Inv.QualificationIsAFunction")
    ELSE <<>>

JudgeValidate(e) ==
  IF e.again THEN JudgeAgain(e) ELSE
  JudgeAgain(e) \o
  LET v == ValBE(e.v)
      S == Norm(e.S)
      W == Norm(e.W)
      active == e.height > e.p025 + e.rewardBlocks
      mq == e.maxQN
      num == QNum(v, S, W, active, mq)
      den == QDen(S, W, active, Max256)
  IN  Tag(e.ok = Qualified(v, S, W, active, Max256), "Qual.rule") \o
      Tag(e.ok = e.ok2 /\ e.qn = e.qn2, "Inv.QnDeterministic") \o
      Tag(e.ok => (e.qn >= 1 /\ e.qn <= mq),
          "Inv.QnRange:" \o (IF JustBelow(num, den, mq) THEN "justBelowThreshold" ELSE "general")) \o
      Tag(e.ok => QnAdmissible(e.qn, v, S, W, active, Max256, mq), "Qn.exact")

(* a proof is a value: generating other proofs later (other key, other message, this or another
   goroutine) changes nothing about it -- it still verifies for its key and message and for no other,
   survives the header transport, and carries the lottery output it carried when it was made *)
JudgeRetain(e) ==
  Tag(e.verifyKept, "Inv.Complete:retained/" \o e.kind) \o
  Tag(e.transportKept, "Inv.SurvivesTransport:retained/" \o e.kind) \o
  Tag(e.bytesSame /\ e.outputSame, "Inv.Deterministic:retained/" \o e.kind) \o
  Tag(~e.verifiesForLatest, "Inv.VerifiesOnlyItsMessage:retained/" \o e.kind)

(* provers running at the same time each obtain the proof they obtain alone, and it verifies *)
JudgeConcurrent(e) ==
  Tag(e.mismatches = 0, "Inv.Deterministic:concurrent") \o
  Tag(e.verifyFailures = 0, "Inv.Complete:concurrent")

(* beyond the statement: proposer (height of the block built on) and verifier (height of the proposed
   block) evaluate the same rule with different height arguments *)
JudgeBoundary(e) ==
  Tag(e.verifierAccepts, "Ext.ProverAndVerifierAgree:activationHeight") \o
  Tag(e.controlProverOk => e.controlVerifierAccepts, "Ext.ProverAndVerifierAgree:pastActivation")

(* a related pair of messages of one key, back to back: each proof verifies for its message and not
   for the other; proving the second message again after unrelated messages gives the same proof *)
JudgeVrfMsgPair(e) ==
  LET same == ExpectedForMessage(e.ms, e.mo) IN
  Tag(e.selfFirst /\ e.selfSecond, "Inv.Complete:msgpair/" \o e.rel) \o
  Tag(e.crossFirstProofSecondMsg = same /\ e.crossSecondProofFirstMsg = same, "Inv.VerifiesOnlyItsMessage:" \o e.rel) \o
  Tag(e.secondProofSameLater /\ e.firstProofSameLater, "Inv.Deterministic:msgpair/" \o e.rel) \o
  Tag(e.proofsEqual = same, "Inv.ProofBindsMessage:" \o e.rel)

(* an encoding longer than a proof (proof followed by bytes): whether it is accepted at all is an
   observation; single-bit flips of its tail are judged with the other mutations (part "trailingByte") *)
JudgeOverlong(e) == Tag(~e.accepted /\ ~e.acceptedThroughHeader, "Ext.ProofHasOneLength:extra" \o ToString(e.extra))

(* another encoding of the same proof: observation; its lottery output must be the same (verdict) *)
JudgeAltEncoding(e) ==
  Tag(~e.accepted, "Ext.ProofHasOneEncoding:" \o e.kind) \o
  Tag(e.accepted => e.sameOutput, "Inv.UniqueLotteryOutput:" \o e.kind)

(* qualification is defined for every stake / working-miner / height combination *)
JudgeTotal(e) == Tag(~e.panicked, "Inv.QualificationIsTotal:" \o (IF e.active THEN "workingMinersAboveStakeAfterActivation" ELSE "workingMinersAboveStake"))

Judge(e) ==
  CASE e.event = "VrfCase"       -> <<>>
    [] e.event = "Overlong"      -> JudgeOverlong(e)
    [] e.event = "AltEncoding"   -> JudgeAltEncoding(e)
    [] e.event = "Total"         -> JudgeTotal(e)
    [] e.event = "VrfMsgPair"    -> JudgeVrfMsgPair(e)
    [] e.event = "Retain"        -> JudgeRetain(e)
    [] e.event = "Concurrent"    -> JudgeConcurrent(e)
    [] e.event = "Boundary"      -> JudgeBoundary(e)
    [] e.event = "Prove"         -> JudgeProve(e)
    [] e.event = "Transport"     -> JudgeTransport(e)
    [] e.event = "Mutate"        -> JudgeMutate(e)
    [] e.event = "BlockVRF"      -> JudgeBlockVRF(e)
    [] e.event = "Torsion"       -> JudgeTorsion(e)
    [] e.event = "ValidateProve" -> JudgeValidate(e)
    [] OTHER                     -> <<"unknown-event">>

TraceInit == w = 0 /\ l = 1 /\ bad = <<>> /\ outs = {} /\ seen = <<>>

TraceNext ==
  /\ l <= Len(Trace)
  /\ l' = l + 1
  /\ LET e == Trace[l] IN
       /\ bad' = bad \o [i \in 1..Len(Judge(e)) |-> <<l, e.event, Judge(e)[i]>>]
       /\ seen' = IF e.event = "ValidateProve" /\ e.kid \notin DOMAIN seen
                    THEN [k \in DOMAIN seen \cup {e.kid} |-> IF k = e.kid THEN <<Question(e), Answer(e)>> ELSE seen[k]]
                    ELSE seen
       /\ outs' = CASE e.event = "VrfCase" -> {}
                    [] e.event = "Prove" -> {e.outClass}
                    [] OTHER -> outs
  /\ UNCHANGED w

TraceSpec == TraceInit /\ [][TraceNext]_tvars

Report == (l = Len(Trace) + 1) => PrintT(<<"VERDICT", Len(Trace), ToJson(bad)>>)
=============================================================================
