---------------------- MODULE GroupChainCrashIndProof ----------------------
EXTENDS GroupChainCrashInd, TLAPS

ASSUME Assm == /\ Ids \subseteq Nat \ {0}
               /\ MaxH \in Nat

THEOREM InitInv == Init => IndInv
  BY Assm DEF Init, IndInv, TypeOK, Structure, AllIds, Heights, Genesis, None, Absent

LEMMA AddInv == ASSUME IndInv, NEW g \in Ids, AddBatch(g) PROVE IndInv'
  BY Assm DEF AddBatch, IndInv, TypeOK, Structure, AllIds, Heights, Genesis, None, Absent

LEMMA RemInv == ASSUME IndInv, RemBatch PROVE IndInv'
  BY Assm DEF RemBatch, IndInv, TypeOK, Structure, AllIds, Heights, Genesis, None, Absent

LEMMA MirrorInv == ASSUME IndInv, Mirror PROVE IndInv'
  BY Assm DEF Mirror, IndInv, TypeOK, Structure, AllIds, Heights, Genesis, None, Absent

LEMMA CrashInv == ASSUME IndInv, Crash PROVE IndInv'
  BY Assm DEF Crash, IndInv, TypeOK, Structure, AllIds, Heights, Genesis, None, Absent

THEOREM NextInv == IndInv /\ [Next]_vars => IndInv'
  <1>1. ASSUME IndInv, UNCHANGED vars PROVE IndInv'
    BY <1>1 DEF vars, IndInv, TypeOK, Structure, AllIds, Heights, Genesis, None, Absent
  <1> QED BY <1>1, AddInv, RemInv, MirrorInv, CrashInv DEF Next

THEOREM ImpliedByInv == IndInv => Implied
  BY DEF IndInv, Implied
=============================================================================
