----------------------------- MODULE TxPoolConc -----------------------------
(***************************************************************************)
(* Concurrent use of the transaction pool at the grain of its unlocked     *)
(* critical sections.  Thread 1 submits transaction 1 (AddTransaction, no  *)
(* lock in production: network goroutine / game executor); thread 2 is a   *)
(* second submission of the same transaction, or block bookkeeping for a   *)
(* block containing it (MarkExecuted / UnMarkExecuted, under the chain     *)
(* lock, which AddTransaction does not take).                              *)
(*   Add     a1: existed := in pending or executed; a2: push unless existed *)
(*   Mark    m1: write executed record; m2: remove from pending            *)
(*   UnMark  u1: delete executed record; u2: existed := ...; u3: push       *)
(* Atomic = TRUE makes every call one step (what a pool-level lock gives). *)
(* TLC explores every interleaving from every initial pool state; each     *)
(* complete schedule is printed and replayed on the real pool with the     *)
(* gate hook H7 (harness/cmd/c17 conc mode).                               *)
(***************************************************************************)
EXTENDS Integers, Sequences, FiniteSets, TLC, Json

CONSTANTS Atomic,
          Readers,      \* how many lock-free reads (PackForCast / GetReceived: no pool lock) may interleave
          Lookups,      \* how many lock-free existence lookups (IsExisted: pending container, then the executed
                        \* store; no pool lock) may interleave, each in two steps: the store read, the return
          NegCache,     \* BOOLEAN, FALSE = as coded; TRUE = a variant in which a lookup that found nothing
                        \* remembers "not executed" when it returns, and bookkeeping forgets such entries
                        \* when it writes (negative control)
          CachedView    \* BOOLEAN, FALSE = as coded: a reader looks at the container itself; TRUE = a
                        \* variant in which readers build a pending view once and mutators drop it when
                        \* they TAKE the lock, i.e. before their mutation (negative control)

VARIABLES inPending, inExecuted, op2, pc, seen, sched, init, view, nread, lk, nlook, negc
vars == <<inPending, inExecuted, op2, pc, seen, sched, init, view, nread, lk, nlook, negc>>
(* lk: "idle" / "found" / "missing": a lookup in flight and what its store read answered;
   negc: a remembered "not executed" (NegCache variant) *)
(* view: "none" or what a cached pending view holds: "with" / "without" the transaction *)

Ops2 == {"Add", "Mark", "UnMark"}
Inits == {"absent", "pending", "executed"}
Steps(o) == CASE o = "Add" -> 2 [] o = "Mark" -> 2 [] o = "UnMark" -> 3
OpOf(th) == IF th = 1 THEN "Add" ELSE op2

Init == /\ init \in Inits
        /\ inPending = (init = "pending") /\ inExecuted = (init = "executed")
        /\ op2 \in Ops2
        /\ pc = [th \in {1, 2} |-> 0]
        /\ seen = [th \in {1, 2} |-> FALSE]
        /\ sched = <<>>
        /\ view = "none" /\ nread = 0
        /\ lk = "idle" /\ nlook = 0 /\ negc = FALSE

Exists == inPending \/ inExecuted

(* one unlocked critical section of thread th *)
Micro(th) ==
  LET o == OpOf(th)  k == pc[th] + 1 IN
  /\ pc[th] < Steps(o)
  /\ pc' = [pc EXCEPT ![th] = k]
  /\ sched' = Append(sched, th)
  /\ UNCHANGED <<op2, init, nread, lk, nlook>>
  /\ view' = IF k = 1 THEN "none" ELSE view
  /\ negc' = IF (o = "Mark" /\ k = 1) THEN FALSE ELSE negc      \* the executed write forgets the negative entry
  /\ CASE o = "Add" /\ k = 1 -> seen' = [seen EXCEPT ![th] = Exists] /\ UNCHANGED <<inPending, inExecuted>>
       [] o = "Add" /\ k = 2 -> inPending' = (inPending \/ ~seen[th]) /\ UNCHANGED <<inExecuted, seen>>
       [] o = "Mark" /\ k = 1 -> inExecuted' = TRUE /\ UNCHANGED <<inPending, seen>>
       [] o = "Mark" /\ k = 2 -> inPending' = FALSE /\ UNCHANGED <<inExecuted, seen>>
       [] o = "UnMark" /\ k = 1 -> inExecuted' = FALSE /\ UNCHANGED <<inPending, seen>>
       [] o = "UnMark" /\ k = 2 -> seen' = [seen EXCEPT ![th] = Exists] /\ UNCHANGED <<inPending, inExecuted>>
       [] o = "UnMark" /\ k = 3 -> inPending' = (inPending \/ ~seen[th]) /\ UNCHANGED <<inExecuted, seen>>

(* the whole call in one step *)
Whole(th) ==
  LET o == OpOf(th) IN
  /\ pc[th] = 0
  /\ pc' = [pc EXCEPT ![th] = Steps(o)]
  /\ sched' = sched \o [i \in 1..Steps(o) |-> th]
  /\ UNCHANGED <<op2, init, seen, nread, lk, nlook>>
  /\ view' = "none"
  /\ negc' = IF o = "Mark" THEN FALSE ELSE negc
  /\ CASE o = "Add" -> inPending' = (inPending \/ ~Exists) /\ UNCHANGED inExecuted
       [] o = "Mark" -> inExecuted' = TRUE /\ inPending' = FALSE
       [] o = "UnMark" -> inExecuted' = FALSE /\ inPending' = TRUE

(* a lock-free reader (thread 3 in the schedule): sees the container; in the CachedView variant it
   builds the view if there is none *)
Read ==
  /\ nread < Readers /\ ~Atomic
  /\ nread' = nread + 1
  /\ sched' = Append(sched, 3)
  /\ view' = IF CachedView /\ view = "none" THEN (IF inPending THEN "with" ELSE "without") ELSE view
  /\ UNCHANGED <<inPending, inExecuted, op2, pc, seen, init, lk, nlook, negc>>

(* a lock-free existence lookup (thread 4), two steps *)
LookRead ==
  /\ nlook < Lookups /\ ~Atomic /\ lk = "idle"
  /\ nlook' = nlook + 1
  /\ sched' = Append(sched, 4)
  /\ lk' = IF inPending \/ (inExecuted /\ ~negc) THEN "found" ELSE "missing"
  /\ UNCHANGED <<inPending, inExecuted, op2, pc, seen, init, view, nread, negc>>
LookReturn ==
  /\ lk # "idle"
  /\ sched' = Append(sched, 4)
  /\ lk' = "idle"
  /\ negc' = IF NegCache /\ lk = "missing" THEN TRUE ELSE negc
  /\ UNCHANGED <<inPending, inExecuted, op2, pc, seen, init, view, nread, nlook>>

Next == (\E th \in {1, 2} : IF Atomic THEN Whole(th) ELSE Micro(th)) \/ Read \/ LookRead \/ LookReturn
Spec == Init /\ [][Next]_vars

Done == (\A th \in {1, 2} : pc[th] = Steps(OpOf(th))) /\ lk = "idle"
(* a lookup after all calls returned knows every pending or executed transaction *)
InvLookupKnows == Done => ((inPending \/ (inExecuted /\ ~negc)) = (inPending \/ inExecuted))
(* what a pack after all calls returned is built from *)
PackSees == IF CachedView /\ view # "none" THEN view = "with" ELSE inPending
InvPackSeesPool == Done => (PackSees = inPending)
(* an executed transaction is never (also) in the pool *)
InvAtMostOnce == Done => ~(inPending /\ inExecuted)
Dump == Done => PrintT(<<"SCHED", ToJson([init |-> init, op2 |-> op2, sched |-> sched])>>)
=============================================================================
