------------------------------ MODULE Decimal ------------------------------
(***************************************************************************)
(* Reference model of the decimal-string <-> scaled-integer conversions of *)
(* go-rangers (src/utility/data_convert.go) for property C18.              *)
(*                                                                         *)
(* Everything is done on sequences of decimal digits as they are written   *)
(* (most significant first); no binary arithmetic is involved, which is    *)
(* the point of the property: the integer a decimal string denotes at      *)
(* scale S is its digits with the fractional part padded to S places.      *)
(*                                                                         *)
(*   number   [neg |-> BOOLEAN, d |-> digits without leading zeros]        *)
(*            (zero is [neg |-> FALSE, d |-> <<>>])                        *)
(*   literal  [neg, int, frac, dot]  the string  -int.frac  (dot: whether  *)
(*            a "." is written; frac = <<>> when it is not)                *)
(*                                                                         *)
(*   Format(n, S)   the literal BigIntToStr/bigIntToStr writes for n       *)
(*   Parse(l, S)    the number a literal denotes at scale S (fraction      *)
(*                  digits beyond S are cut: truncation toward zero)       *)
(*   ToErc20(n, d)  = Parse(Format(n, 18), d)   ledger unit -> token unit  *)
(*   ToLedger(n, d) = Parse(Format(n, d), 18)   token unit -> ledger unit  *)
(***************************************************************************)
EXTENDS Integers, Sequences, BigNat

Zeros(n) == [i \in 1..n |-> 0]

RECURSIVE StripLZ(_)
StripLZ(s) == IF s # <<>> /\ s[1] = 0 THEN StripLZ(Tail(s)) ELSE s

Num(neg, d) == LET s == StripLZ(d) IN [neg |-> neg /\ s # <<>>, d |-> s]
ZeroNum == [neg |-> FALSE, d |-> <<>>]

(* the literal written for n with S fractional places *)
Format(n, S) ==
  LET L == Len(n.d) IN
  IF S = 0 THEN [neg |-> n.neg, int |-> IF L = 0 THEN <<0>> ELSE n.d, frac |-> <<>>, dot |-> FALSE]
  ELSE IF L <= S THEN [neg |-> n.neg, int |-> <<0>>, frac |-> Zeros(S - L) \o n.d, dot |-> TRUE]
  ELSE [neg |-> n.neg, int |-> SubSeq(n.d, 1, L - S), frac |-> SubSeq(n.d, L - S + 1, L), dot |-> TRUE]

(* BigIntToStr: zero is written "0" *)
FormatAmount(n) == IF n.d = <<>> THEN [neg |-> FALSE, int |-> <<0>>, frac |-> <<>>, dot |-> FALSE]
                   ELSE Format(n, 18)

(* the integer denoted at scale S *)
Parse(l, S) ==
  LET f == IF Len(l.frac) >= S THEN SubSeq(l.frac, 1, S) ELSE l.frac \o Zeros(S - Len(l.frac))
  IN Num(l.neg, l.int \o f)

ToErc20(n, d)  == IF n.d = <<>> THEN ZeroNum ELSE Parse(FormatAmount(n), d)
ToLedger(n, d) == IF n.d = <<>> THEN ZeroNum ELSE Parse(Format(n, d), 18)

(* ------------------------------------------------- rendering and bytes *)
DigitChar == <<"0", "1", "2", "3", "4", "5", "6", "7", "8", "9">>
RECURSIVE DigitsStr(_)
DigitsStr(ds) == IF ds = <<>> THEN "" ELSE DigitChar[ds[1] + 1] \o DigitsStr(Tail(ds))
Render(l) == (IF l.neg THEN "-" ELSE "") \o DigitsStr(l.int) \o (IF l.dot THEN "." ELSE "") \o DigitsStr(l.frac)

Rev(s) == [i \in 1..Len(s) |-> s[Len(s) + 1 - i]]
(* big-endian magnitude bytes (as big.Int.Bytes()) <-> digits *)
BytesOfDigits(d) == Rev(Convert(Rev(d), 10, 256))
DigitsOfBytes(b) == Rev(Convert(Rev(b), 256, 10))
NumOfBytes(neg, b) == Num(neg, DigitsOfBytes(b))
=============================================================================
