------------------------------ MODULE Decimal ------------------------------
(***************************************************************************)
(* Reference model of the decimal-string <-> scaled-integer conversions of *)
(* go-rangers (src/utility/data_convert.go) for property C18.              *)
(*                                                                         *)
(* Everything is done on sequences of decimal digits as they are written   *)
(* (most significant first); no binary arithmetic is involved, which is    *)
(* the point of the property: the integer a decimal string denotes at      *)
(* scale S is its digits with the fractional part padded to S places.      *)
(*                                                                         *)
(*   number   [neg |-> BOOLEAN, d |-> digits without leading zeros]        *)
(*            (zero is [neg |-> FALSE, d |-> <<>>])                        *)
(*   literal  [neg, int, frac, dot]  the string  -int.frac  (dot: whether  *)
(*            a "." is written; frac = <<>> when it is not)                *)
(*                                                                         *)
(*   Format(n, S)   the literal BigIntToStr/bigIntToStr writes for n       *)
(*   Parse(l, S)    the number a literal denotes at scale S (fraction      *)
(*                  digits beyond S are cut: truncation toward zero)       *)
(*   ToErc20(n, d)  = Parse(Format(n, 18), d)   ledger unit -> token unit  *)
(*   ToLedger(n, d) = Parse(Format(n, d), 18)   token unit -> ledger unit  *)
(***************************************************************************)
EXTENDS Integers, Sequences, BigNat

Zeros(n) == [i \in 1..n |-> 0]
Rev(s) == [i \in 1..Len(s) |-> s[Len(s) + 1 - i]]

RECURSIVE StripLZ(_)
StripLZ(s) == IF s # <<>> /\ s[1] = 0 THEN StripLZ(Tail(s)) ELSE s

Num(neg, d) == LET s == StripLZ(d) IN [neg |-> neg /\ s # <<>>, d |-> s]
ZeroNum == [neg |-> FALSE, d |-> <<>>]

(* the literal written for n with S fractional places *)
Format(n, S) ==
  LET L == Len(n.d) IN
  IF S = 0 THEN [neg |-> n.neg, int |-> IF L = 0 THEN <<0>> ELSE n.d, frac |-> <<>>, dot |-> FALSE]
  ELSE IF L <= S THEN [neg |-> n.neg, int |-> <<0>>, frac |-> Zeros(S - L) \o n.d, dot |-> TRUE]
  ELSE [neg |-> n.neg, int |-> SubSeq(n.d, 1, L - S), frac |-> SubSeq(n.d, L - S + 1, L), dot |-> TRUE]

(* BigIntToStr: zero is written "0" *)
FormatAmount(n) == IF n.d = <<>> THEN [neg |-> FALSE, int |-> <<0>>, frac |-> <<>>, dot |-> FALSE]
                   ELSE Format(n, 18)

(* the integer denoted at scale S *)
Parse(l, S) ==
  LET f == IF Len(l.frac) >= S THEN SubSeq(l.frac, 1, S) ELSE l.frac \o Zeros(S - Len(l.frac))
  IN Num(l.neg, l.int \o f)

ToErc20(n, d)  == IF n.d = <<>> THEN ZeroNum ELSE Parse(FormatAmount(n), d)
ToLedger(n, d) == IF n.d = <<>> THEN ZeroNum ELSE Parse(Format(n, d), 18)

(* ------------------------------------------------------- string grammar *)
(* What a string of characters (code points) denotes when it is read as a decimal amount:
     [sign] digits [ "." digits ] [ ("e" | "E") [sign] digits ]      with at least one mantissa digit
   Leading zeros are insignificant, "+" is a sign, the integer or the fraction part may be empty,
   an exponent shifts the decimal point.  Anything else (radix prefixes 0x 0b 0o, digit separators,
   binary exponents "p", blanks, words like Inf, digits outside ASCII) does not denote an amount. *)
IsDigit(ch) == ch >= 48 /\ ch <= 57
RECURSIVE DigitsFrom(_, _)
(* the maximal run of digits of cs starting at position p *)
DigitsFrom(cs, p) == IF p <= Len(cs) /\ IsDigit(cs[p]) THEN <<cs[p] - 48>> \o DigitsFrom(cs, p + 1) ELSE <<>>
NotDecimal == [ok |-> FALSE]
ReadLiteral(cs) ==
  LET hasSign == Len(cs) >= 1 /\ cs[1] \in {43, 45}
      neg == hasSign /\ cs[1] = 45
      p1 == IF hasSign THEN 2 ELSE 1
      ip == DigitsFrom(cs, p1)
      p2 == p1 + Len(ip)
      hasDot == p2 <= Len(cs) /\ cs[p2] = 46
      fp == IF hasDot THEN DigitsFrom(cs, p2 + 1) ELSE <<>>
      p3 == IF hasDot THEN p2 + 1 + Len(fp) ELSE p2
      hasExp == p3 <= Len(cs) /\ cs[p3] \in {101, 69}
      eSign == hasExp /\ p3 + 1 <= Len(cs) /\ cs[p3 + 1] \in {43, 45}
      eNeg == eSign /\ cs[p3 + 1] = 45
      p4 == IF ~hasExp THEN p3 ELSE IF eSign THEN p3 + 2 ELSE p3 + 1
      ed == IF hasExp THEN DigitsFrom(cs, p4) ELSE <<>>
      p5 == p4 + Len(ed)
  IN  IF p5 # Len(cs) + 1 \/ (ip = <<>> /\ fp = <<>>) \/ (hasExp /\ (ed = <<>> \/ Len(ed) > 3)) THEN NotDecimal
      ELSE [ok |-> TRUE, neg |-> neg, plus |-> hasSign /\ ~neg, int |-> ip, frac |-> fp, dot |-> hasDot,
            hasExp |-> hasExp, exp |-> (IF eNeg THEN 0 - ToNat(Rev(ed), 10) ELSE ToNat(Rev(ed), 10))]

(* the amount (scale 18) a literal with exponent denotes; inScope = FALSE when it has more than 18
   fractional digits or more than 78 integer digits (outside the statement) *)
Denoted(l) ==
  LET d == l.int \o l.frac
      e18 == 18 - Len(l.frac) + l.exp
      cut == IF e18 >= 0 THEN <<>> ELSE SubSeq(d, Max(1, Len(d) + e18 + 1), Len(d))
      kept == IF e18 >= 0 THEN d \o Zeros(e18) ELSE SubSeq(d, 1, Max(0, Len(d) + e18))
      n == Num(l.neg, kept)
  IN  [n |-> n, inScope |-> StripLZ(cut) = <<>> /\ (e18 >= 0 \/ Len(d) + e18 >= 0) /\ Len(n.d) <= 96]

(* ------------------------------------------------- rendering and bytes *)
DigitChar == <<"0", "1", "2", "3", "4", "5", "6", "7", "8", "9">>
RECURSIVE DigitsStr(_)
DigitsStr(ds) == IF ds = <<>> THEN "" ELSE DigitChar[ds[1] + 1] \o DigitsStr(Tail(ds))
Render(l) == (IF l.neg THEN "-" ELSE "") \o DigitsStr(l.int) \o (IF l.dot THEN "." ELSE "") \o DigitsStr(l.frac)

(* big-endian magnitude bytes (as big.Int.Bytes()) <-> digits *)
BytesOfDigits(d) == Rev(Convert(Rev(d), 10, 256))
DigitsOfBytes(b) == Rev(Convert(Rev(b), 256, 10))
NumOfBytes(neg, b) == Num(neg, DigitsOfBytes(b))
=============================================================================
