------------------------------- MODULE EvmGen -------------------------------
(***************************************************************************)
(* Program generator for C10 (direction model -> code).  A behaviour grows *)
(* a program instruction by instruction: when the machine of Evm.tla has   *)
(* reached the end of the code written so far, Next appends one macro      *)
(* (a push of a boundary operand, a word operation, a stack / memory /     *)
(* call-data instruction, a forward jump over bytes that look like         *)
(* JUMPDESTs inside push data, a RETURN / REVERT) and the machine then     *)
(* executes it.  Appended bytes never change what was already executed     *)
(* (CODESIZE / CODECOPY are left to the Go generator), so at the end of a  *)
(* behaviour <<code, st>> is the program together with the final state the *)
(* reference predicts for it.  TLC runs this in simulation mode; every     *)
(* finished behaviour is printed and replayed on the real EVM.             *)
(***************************************************************************)
EXTENDS Evm, Json, TLC

CONSTANT MaxInstr                \* macros per program
VARIABLE ninstr
gvars == <<vars, ninstr>>

GenDatas == {<<>>, <<1, 2, 3, 4, 91, 255, 0, 9, 17>>,
             [i \in 1..40 |-> (i * 37) % 256]}

P255 == WSignBit
Vals == {<<>>, <<1>>, <<2>>, <<3>>, <<7>>, <<8>>, <<31>>, <<32>>, <<33>>, <<64>>, <<255>>, <<0, 1>>, <<1, 1>>,
         WMax, [i \in 1..WB |-> IF i = 1 THEN 254 ELSE 255], P255,
         [i \in 1..WB |-> IF i = WB THEN 127 ELSE 255],                 \* 2^255 - 1
         [i \in 1..WB |-> IF i = 1 THEN 1 ELSE IF i = WB THEN 128 ELSE 0], \* 2^255 + 1
         [i \in 1..WB |-> (i * 73 + 11) % 256],
         [i \in 1..16 |-> (i * 29 + 200) % 256],
         [i \in 1..9 |-> IF i = 9 THEN 1 ELSE 0]}                        \* 2^64
PushOf(w) == <<PUSH0 + Len(w)>> \o RevSeq(w)

Top(i) == st.stack[i]
Has(n) == Len(st.stack) >= n
SmallTop(i, bound) == Has(i) /\ SmallVal(Top(i)) < bound

Push32Max == <<PUSH32>> \o [i \in 1..32 |-> 255]
Push9(lowbyte) == <<PUSH1 + 8, 1, 0, 0, 0, 0, 0, 0, 0, lowbyte>>          \* 2^64 + lowbyte

(* JUMPI whose condition is zero: the destination operand is irrelevant, whatever it is - beyond the    *)
(* code, a byte that is not a JUMPDEST, a 0x5b inside push data, a value that does not fit in 64 bits  *)
NotTaken ==
  {<<PUSH0, PUSH1, 250, JUMPI>>,
   <<PUSH0, PUSH0, JUMPI>>,
   <<PUSH1, JUMPDEST, POP, PUSH0, PUSH1, Len(code) + 1, JUMPI>>,
   <<PUSH0>> \o Push9(3) \o <<JUMPI>>,
   <<PUSH0>> \o Push32Max \o <<JUMPI>>,
   (* and the same destinations with a non-zero condition: an invalid jump ends the program *)
   <<PUSH1, 1>> \o Push9(3) \o <<JUMPI>>,
   <<PUSH1, JUMPDEST, POP, PUSH1, 7, PUSH1, Len(code) + 1, JUMPI>>}

(* copy instructions into memory that already holds non-zero bytes, the source range lying beyond or   *)
(* straddling the end of the source: the window must be filled with zeros.  (CODECOPY: only offsets    *)
(* beyond any code this generator can produce, so that appended code cannot change the result.)        *)
DirtyCopy ==
  LET dirty == Push32Max \o <<PUSH0, MSTORE>> \o Push32Max \o <<PUSH1, 32, MSTORE>>
      dl == Len(data)
  IN {dirty \o <<PUSH1, 40, PUSH1 + 2, 1, 0, 0, PUSH1, 8, CODECOPY>>,
      dirty \o <<PUSH1, 33>> \o Push9(0) \o <<PUSH1, 3, CODECOPY>>,
      dirty \o <<PUSH1, 7>> \o Push32Max \o <<PUSH0, CODECOPY>>,
      dirty \o <<PUSH1, 20, PUSH1, IF dl >= 3 THEN dl - 3 ELSE 0, PUSH1, 4, CALLDATACOPY>>,
      dirty \o <<PUSH1, 32, PUSH1, dl, PUSH1, 1, CALLDATACOPY>>,
      dirty \o <<PUSH1, 9>> \o Push9(1) \o <<PUSH1, 30, CALLDATACOPY>>,
      dirty \o <<PUSH1, 40, PUSH1, 1, PUSH0, MCOPY>>,
      dirty \o <<PUSH1, IF dl >= 5 THEN dl - 5 ELSE 0, CALLDATALOAD>>}

(* zero-length ranges at any offset are no-ops: the hash of the empty string, memory and its size unchanged, *)
(* an empty result                                                                                            *)
ZeroLen ==
  LET offs == {<<PUSH0>>, <<PUSH1 + 4, 1, 0, 0, 0, 0>>, Push9(0), <<PUSH1 + 7>> \o [i \in 1..8 |-> 255], Push32Max,
               <<PUSH32, 128>> \o [i \in 1..31 |-> 0]}
  IN UNION {{<<PUSH0>> \o o \o <<SHA3>>,
             <<PUSH0, PUSH0>> \o o \o <<CALLDATACOPY, MSIZE>>,
             <<PUSH0>> \o o \o <<PUSH0, CALLDATACOPY>>,
             <<PUSH0>> \o o \o o \o <<MCOPY, MSIZE>>,
             <<PUSH0, PUSH0>> \o o \o <<RETURNDATACOPY>>,
             <<PUSH0>> \o o \o <<RETURN>>,
             <<PUSH0>> \o o \o <<REVERT>>} : o \in offs}

(* operands the implementation narrows to 64 bits: a wide value whose low 64 bits are a perfectly valid *)
(* small operand (2^64 + x, 2^255 + x) must behave as the wide value it is                                *)
WideLow ==
  LET W255(low) == <<PUSH32, 128>> \o [i \in 1..30 |-> 0] \o <<low>>
      wides(low) == {Push9(low), W255(low)}
  IN UNION {{Push32Max \o w \o <<OpSHL>>, Push32Max \o w \o <<OpSHR>>, Push32Max \o w \o <<OpSAR>>} : w \in wides(1)} \cup
     UNION {{Push32Max \o w \o <<OpBYTE>>, <<PUSH1, 128>> \o w \o <<OpSIGNEXTEND>>} : w \in wides(0)} \cup
     UNION {{w \o <<CALLDATALOAD>>,
             <<PUSH1, 8>> \o w \o <<PUSH0, CALLDATACOPY>>,
             <<PUSH1, 8>> \o W255(0) \o <<PUSH0, CODECOPY>>} : w \in wides(1)} \cup
     (* and the ones that must end the frame: the memory range does not exist, the return data is not that long *)
     UNION {{w \o <<MLOAD>>, <<PUSH1, 1>> \o w \o <<MSTORE>>, <<PUSH1, 1>> \o w \o <<MSTORE8>>,
             <<PUSH1, 1>> \o w \o <<SHA3>>, <<PUSH1, 1>> \o w \o <<RETURN>>,
             <<PUSH1, 1, PUSH0>> \o w \o <<CALLDATACOPY>>, w \o <<PUSH0, PUSH0, CALLDATACOPY>>,
             <<PUSH1, 1>> \o w \o <<PUSH0, MCOPY>>, <<PUSH0>> \o w \o <<PUSH0, RETURNDATACOPY>>} : w \in wides(0)}

Macros ==
  (IF Len(st.stack) < 8 THEN {PushOf(v) : v \in Vals} ELSE {}) \cup
  {<<op>> : op \in {o \in WordOps : Has(Pops(o)) /\ (o = OpEXP => Len(Top(2)) <= 1)}} \cup
  {<<DUP1 + n - 1>> : n \in {k \in 1..3 : Has(k) /\ Len(st.stack) < 9}} \cup
  {<<SWAP1 + n - 1>> : n \in {k \in 1..3 : Has(k + 1)}} \cup
  (IF Has(1) THEN {<<POP>>, <<CALLDATALOAD>>} ELSE {}) \cup
  {<<MSIZE>>, <<PCOP>>, <<CALLDATASIZE>>, <<JUMPDEST>>, <<RETURNDATASIZE>>} \cup
  (IF SmallTop(1, 128) /\ Has(2) THEN {<<MSTORE>>, <<MSTORE8>>} ELSE {}) \cup
  (IF SmallTop(1, 128) THEN {<<MLOAD>>} ELSE {}) \cup
  (IF SmallTop(1, 96) /\ SmallTop(2, 96) /\ SmallTop(3, 64) THEN {<<MCOPY>>} ELSE {}) \cup
  (IF SmallTop(1, 96) /\ Has(2) /\ SmallTop(3, 64) THEN {<<CALLDATACOPY>>} ELSE {}) \cup
  (IF SmallTop(1, 96) /\ SmallTop(2, 64) THEN {<<RETURN>>, <<REVERT>>} ELSE {}) \cup
  (IF Len(code) < 200
     THEN {<<PUSH1, Len(code) + 5, JUMP, PUSH1, JUMPDEST, JUMPDEST>>,                 \* jump over a fake JUMPDEST
           <<PUSH1, Len(code) + 3, JUMP, JUMPDEST>>} \cup
          (IF Has(1) THEN {<<PUSH1, Len(code) + 6, JUMPI, PUSH1 + 1, JUMPDEST, JUMPDEST, JUMPDEST>>} ELSE {}) \cup
          NotTaken \cup DirtyCopy \cup ZeroLen \cup WideLow
     ELSE {})

GenInit == /\ code = <<>> /\ data \in GenDatas /\ st = InitState /\ status = "run" /\ jumped = FALSE /\ ret = <<>>
           /\ ninstr = 0

GrowCode == /\ status = "run" /\ st.pc >= Len(code) /\ ninstr < MaxInstr
          /\ \E m \in Macros : code' = code \o m
          /\ ninstr' = ninstr + 1
          /\ UNCHANGED <<data, st, status, jumped, ret>>
Run == /\ status = "run" /\ (st.pc < Len(code) \/ ninstr = MaxInstr)
       /\ Step /\ UNCHANGED ninstr

GenNext == GrowCode \/ Run
GenSpec == GenInit /\ [][GenNext]_gvars

Final == [code |-> code, data |-> data, stack |-> st.stack, mem |-> st.mem, status |-> status, ret |-> ret]
Dump == status # "run" => PrintT(<<"PROG", ToJson(Final)>>)
GenInv == TypeOK /\ PcOnInstr /\ JumpLanding
=============================================================================
