SPECIFICATION Spec
CONSTANTS
  Depth = 2
  Seeded = FALSE
  MaxOps = 0
INVARIANT Dump
CHECK_DEADLOCK FALSE
