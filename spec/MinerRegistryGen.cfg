SPECIFICATION Spec
CONSTANTS
  Depth = 2
  MaxOps = 0
INVARIANT Dump
CHECK_DEADLOCK FALSE
