SPECIFICATION GSpec
CONSTANTS
  Q = 5
  CMax = 8
  AsCoded = FALSE
  StakeDecs <- StakeDecsQuick
  WorkDecs <- WorkDecsQuick
  MaxQN = 5
INVARIANTS GenRangeInv Dump
CHECK_DEADLOCK FALSE
