SPECIFICATION Spec
CONSTANTS
  Alphabet = {0, 1, 127, 128, 129, 130, 183, 184, 185, 192, 193, 194, 247, 248, 249, 255}
  MaxLen = 3
  MaxStrFill = 1024
  MaxListFill = 1024
  MaxWrap = 1
INVARIANTS Theorems
CHECK_DEADLOCK FALSE
