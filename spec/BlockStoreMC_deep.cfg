SPECIFICATION Spec
CONSTANTS
  N = 3
  MaxDeliver = 3
  MaxCrash = 2
  Gaps = TRUE
INVARIANTS InvHeadLinked InvIndex InvHeadState InvMarks InvExecuted InvWeightMonotone InvCrashHeadWeak
CHECK_DEADLOCK FALSE
