SPECIFICATION Spec
CONSTANTS
  ReorgMarked = TRUE
  N = 3
  MaxDeliver = 3
  MaxCrash = 2
  Readers = 0
  ReadFill = FALSE
  Forks = FALSE
  Gaps = TRUE
INVARIANTS InvCache InvHeadLinked InvIndex InvHeadState InvMarks InvExecuted InvWeightMonotone InvCrashHeadStrict
CHECK_DEADLOCK FALSE
