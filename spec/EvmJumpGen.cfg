SPECIFICATION JSpec
CONSTANTS
  WB = 32
  StackLimit = 1024
  Alphabet = {0}
  MaxLen = 1
  Datas <- GenDatasJ
  Widths = {1, 2, 3, 4, 5, 6, 7, 8, 9, 10, 11, 12, 13, 14, 15, 16, 17, 18, 19, 20, 21, 22, 23, 24, 25, 26, 27, 28, 29, 30, 31, 32}
  Aligns = {0, 1, 2, 3, 4, 5, 6, 7}
INVARIANTS JInv JDump
CHECK_DEADLOCK FALSE
