SPECIFICATION Spec
CONSTANTS
  KeyScalars = {1, 2, 3, 121, 122}
  VDeltas = {1, 2, 27, 54, 56, 60}
  DataLens = {0, 1, 54, 55, 56, 64}
  HashBits = {0, 1, 7, 8, 128, 255}
  SignBits = {0, 7, 255, 256, 511, 512, 519}
  SourceBits = {0, 16, 17, 100, 335}
  FieldBits = {0, 9}
  EdBits = {0, 8, 9, 100, 300, 500, 700}
  CtxAll = FALSE
INVARIANTS Theorems
CHECK_DEADLOCK FALSE
