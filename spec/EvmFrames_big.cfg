SPECIFICATION Spec
CONSTANTS
  Accts = {1, 2}
  MaxDepth = 3
  MaxFrames = 4
  MaxTx = 1
  MaxMuts = 3
  AsCoded = FALSE
INVARIANTS TypeOK FailRestores StaticPure TxClean ReceiptOwn Conservation
VIEW NoHist
CHECK_DEADLOCK FALSE
