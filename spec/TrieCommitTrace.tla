--------------------------- MODULE TrieCommitTrace ---------------------------
(***************************************************************************)
(* Trace validation for TrieCommit (property C03).  trace.ndjson is the    *)
(* real sequence of physical writes that account.AccountDB.Commit +        *)
(* trie.NodeDatabase.Commit issued on a recording xdb.Database             *)
(* (harness/cmd/c03), one event per Batch.Write:                           *)
(*   Write      the nodes written: new nodes are numbered consecutively    *)
(*              from `first` in write order and carry the ids they         *)
(*              reference (decoded from the stored blobs), `again` lists   *)
(*              nodes written once more, `deleted` nodes removed           *)
(*   Committed  NodeDatabase.Commit(root) returned nil                     *)
(*   Reopen     what the real code answered when every state root so far   *)
(*              was opened from a store holding exactly the writes so far  *)
(*   FailedWrite a physical write returned an (injected) error: nothing of *)
(*              it reached the store, the process went on                  *)
(*   Aborted    the real code failed to build / commit the next block on   *)
(*              its own committed state (conformance: the writes made so   *)
(*              far carry the verdict)                                     *)
(* The specification's children / disk / durable are bound to the          *)
(* observation and the property is evaluated after EVERY write, i.e. for   *)
(* every prefix of the write sequence (a crash leaves exactly a prefix).   *)
(***************************************************************************)
EXTENDS TrieCommit, Json, SequencesExt

Trace == ndJsonDeserialize("trace.ndjson")

VARIABLES l, bad
tvars == <<vars, l, bad>>

Tag(c, t) == IF c THEN <<>> ELSE <<t>>

(* failed judgements are reported at most 20 times per signature (tag, event): the state stays small *)
Fresh(ev, j) == LET Occ(t) == Cardinality({i \in 1..Len(bad) : bad[i][2] = ev /\ bad[i][3] = t})
                    keep == SelectSeq(j, LAMBDA t : Occ(t) < 20)
                IN  [i \in 1..Len(keep) |-> <<l, ev, keep[i]>>]

Kids(ch, n)   == IF n \in 1..Len(ch) THEN ch[n] ELSE {}
ClosedOn(ch, d) == \A n \in d : Kids(ch, n) \subseteq d
RECURSIVE Reach(_, _, _)
Reach(ch, todo, acc) ==
  IF todo = {} THEN acc
  ELSE LET new == (UNION {Kids(ch, n) : n \in todo}) \ acc IN Reach(ch, new, acc \cup new)
ClosureIn(ch, r) == Reach(ch, {r}, {r})
(* fully resolvable: when the store is closed this is membership of the top node *)
Resolvable(ch, d, r) == r \in d /\ (ClosedOn(ch, d) \/ ClosureIn(ch, r) \subseteq d)

JudgeWrite(e, ch2, d2) ==
  LET closed == ClosedOn(ch2, d2) IN
  Tag(e.deleted = <<>> /\ e.kind # "delete", "Inv.AppendOnly") \o
  Tag(closed, "Inv.ClosedAtEveryPrefix") \o
  Tag(\A r \in durable : r \in d2 /\ (closed \/ ClosureIn(ch2, r) \subseteq d2), "Inv.DurableKept") \o
  Tag(e.first = Len(children) + 1, "Proj.nodeNumbering") \o
  Tag(e.undecodable = 0, "Proj.contentAddressed")

JudgeCommitted(e) ==
  Tag(Resolvable(children, disk, e.root), "Inv.CommitDurable")

JudgeReopen(e) ==
  LET R == e.roots IN
  Tag(\A i \in 1..Len(R) : R[i].present => R[i].resolvable, "Inv.TopOnDiskResolvable") \o
  Tag(\A i \in 1..Len(R) : R[i].present => R[i].contentOK, "Inv.ReopenedContentEqual") \o
  Tag(\A i \in 1..Len(R) : R[i].root \in durable => R[i].present /\ R[i].resolvable /\ R[i].contentOK,
      "Inv.DurableRootOpens") \o
  (* the two evaluations of the same fact - the model on the decoded DAG, the real code on the
     real store - must agree *)
  Tag(\A i \in 1..Len(R) : /\ R[i].present = (R[i].root \in disk)
                           /\ (R[i].present => R[i].resolvable = Resolvable(children, disk, R[i].root)),
      "Reopen.agreesWithModel")

TraceInit == /\ children = <<>> /\ mem = {} /\ disk = {} /\ batch = {} /\ stack = <<>>
             /\ durable = {} /\ pc = "idle" /\ commits = 0 /\ target = 0 /\ flushed = {} /\ inserted = {} /\ flist = <<>>
             /\ l = 1 /\ bad = <<>>

TraceNext ==
  /\ l <= Len(Trace)
  /\ l' = l + 1
  /\ LET e   == Trace[l]
         ch2 == IF e.event = "Reset" THEN <<>>
                ELSE IF e.event = "Write" THEN children \o [i \in 1..Len(e.nodes) |-> ToSet(e.nodes[i])]
                ELSE children
         d2  == IF e.event = "Reset" THEN {}
                ELSE IF e.event = "Write"
                  THEN (disk \cup (e.first..(e.first + Len(e.nodes) - 1)) \cup ToSet(e.again)) \ ToSet(e.deleted)
                ELSE disk
         j   == CASE e.event = "Write" -> JudgeWrite(e, ch2, d2)
                  [] e.event = "Committed" -> JudgeCommitted(e)
                  [] e.event = "Reopen" -> JudgeReopen(e)
                  [] e.event = "Reset" -> <<>>
                  [] e.event = "FailedWrite" -> <<>>     \* nothing reached the store; the process goes on
                  [] e.event = "Aborted" -> <<"Run.realCodeCouldNotContinue">>
                  [] OTHER -> <<"unknown-event">>
     IN  /\ children' = ch2
         /\ disk' = d2
         /\ durable' = IF e.event = "Reset" THEN {} ELSE IF e.event = "Committed" THEN durable \cup {e.root} ELSE durable
         /\ commits' = IF e.event = "Committed" THEN commits + 1 ELSE commits
         /\ UNCHANGED <<mem, batch, stack, pc, target, flushed, inserted, flist>>
         /\ bad' = bad \o Fresh(e.event, j)

TraceSpec == TraceInit /\ [][TraceNext]_tvars

Report == (l = Len(Trace) + 1) => PrintT(<<"VERDICT", Len(Trace), ToJson(bad)>>)
=============================================================================
