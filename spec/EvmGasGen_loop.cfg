SPECIFICATION CallSpec
CONSTANTS
  GasLimit = 200
  DepthLimit = 2
  Costs = {1}
  Requests = {0}
  NCalls = 1
  GasArgs = {"0", "2300", "p64p5", "all"}
  Targets = {"empty", "returner", "reverter"}
  CallValues = {"0", "1", "p255", "p255p1", "max"}
  Presents = {0}
INVARIANTS CallInv CallDump
CHECK_DEADLOCK FALSE
