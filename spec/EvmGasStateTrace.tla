-------------------------- MODULE EvmGasStateTrace --------------------------
(***************************************************************************)
(* Monitor of the state-access gas extension.  trace.ndjson is recorded by *)
(* harness/cmd/c11 (state mode) while the cases printed by EvmGasState run *)
(* on the real interpreter:                                                *)
(*   XBegin - a case starts: family, gas limit, magnification M, P015      *)
(*   XCall  - a call instruction was charged: gas at fetch, cost, facts    *)
(*            about the callee (value, emptiness), requested gas, memory   *)
(*   Enter  - the callee's frame was entered: the gas it starts with       *)
(*   XStep  - a state-access instruction completed: gas at fetch / after   *)
(*            charge / after execution, cost, refund counter before and    *)
(*            after, the values of the slot (original, current, new) ...   *)
(*   XEnd   - the transaction's outermost call returned: gas left, refund  *)
(*            counter, how many of the touched addresses are in the access *)
(*            list                                                         *)
(* Every step is recomputed with the ACTIVE rules of EvmGasState.          *)
(* Tags: Inv. restate clauses of C11 (gas never grows, gas left within the *)
(* limit, no host panic); Ext. are observations of this extension (exact   *)
(* prices; where the active rules differ from the claimed EIP-2200 ones):  *)
(* informational, they never change the exit code.                         *)
(***************************************************************************)
EXTENDS EvmGasState

Trace == ndJsonDeserialize("trace.ndjson")

VARIABLES l, bad, cfgv, pcall
tvars == <<svars, l, bad, cfgv, pcall>>

Tag(c, t) == IF c THEN <<>> ELSE <<t>>
BigReq == 1073741824
ReqOf(e) == IF e.req >= BigReq THEN 2000000000 ELSE e.req

JudgeStep(e) ==
  LET op == e.op
      exp == ActiveCost(op, cfgv, e.pre, e.ml0, e.ml1, e.g0, ReqOf(e))
      dref == e.refund1 - e.refund0
  IN Tag(e.g1 <= e.g0 /\ e.g2 <= e.g0, "Inv.gas-decreases") \o
     Tag(e.cost = exp /\ e.g1 = e.g0 - e.cost, "Ext.cost:" \o e.name) \o
     (IF op \in CallOps THEN <<>> ELSE Tag(dref = ActiveRefund(op, e.pre), "Ext.refund:" \o e.name)) \o
     (* where the rule set the code base names (EIP-2200 net metering) would have priced the write differently *)
     (IF op = OpSSTORE /\ cfgv.m = 1
        THEN LET cl == Claimed2200(e.pre.o, e.pre.c, e.pre.n) IN
             Tag(cl.cost = e.cost, "Ext.claimed-eip2200-cost:" \o cl.class) \o
             Tag(cl.refund = dref, "Ext.claimed-eip2200-refund:" \o cl.class)
        ELSE <<>>)

JudgeEnter(e) ==
  IF pcall = <<>> \/ e.depth # pcall.depth + 1 THEN <<>>
  ELSE Tag(ToNat(e.gas, G256) = CalleeGas(pcall.op, cfgv, pcall.pre, pcall.ml0, pcall.ml1, pcall.g0, ReqOf(pcall)),
           "Ext.callee-gas:op" \o ToString(pcall.op))

JudgeEnd(e) ==
  Tag(~e.panic, "Inv.host-panic") \o
  Tag(e.gasLeft <= e.limit, "Inv.gas-left-bound") \o
  (* claimed: the refund counter is redeemed (capped) when the transaction ends; here nothing reads it *)
  Tag(e.refund = 0, "Ext.claimed-refund-redemption:counter-left-unredeemed")

Judge(e) ==
  CASE e.event = "XStep" -> JudgeStep(e)
    [] e.event = "Enter" -> JudgeEnter(e)
    [] e.event = "XEnd" -> JudgeEnd(e)
    (* EIP-2200 needs the value a slot had when the transaction started (StateDB.GetCommittedState); the probe
       reads a slot, asks for its committed value and reads the slot again: a pure query leaves the answer alone *)
    [] e.event = "XProbe" -> Tag(e.after = e.before, "Ext.committed-state-query-changes-current-value")
    [] e.event \in {"XBegin", "XCall", "Exit", "Fault", "Step"} -> <<>>
    [] OTHER -> <<"Proj.unknown-event">>

TraceInit == /\ Idle /\ xcase = <<>> /\ orig = 0 /\ cur = 0 /\ writes = <<>> /\ spentC = 0 /\ refundC = 0 /\ spentA = 0
             /\ l = 1 /\ bad = <<>> /\ cfgv = [m |-> 1, p015 |-> TRUE] /\ pcall = <<>>

TraceNext ==
  /\ l <= Len(Trace)
  /\ l' = l + 1 /\ UNCHANGED svars
  /\ LET e == Trace[l]
         j == Judge(e)
     IN /\ bad' = bad \o [i \in 1..Len(j) |-> <<l, e.event, j[i]>>]
        /\ CASE e.event = "XBegin" -> cfgv' = [m |-> e.m, p015 |-> e.p015] /\ pcall' = <<>>
             [] e.event = "XCall" -> pcall' = e /\ UNCHANGED cfgv
             [] e.event = "Enter" -> pcall' = <<>> /\ UNCHANGED cfgv
             [] OTHER -> UNCHANGED <<cfgv, pcall>>

TraceSpec == TraceInit /\ [][TraceNext]_tvars
Report == (l = Len(Trace) + 1) => PrintT(<<"VERDICT", Len(Trace), ToJson(bad)>>)
=============================================================================
