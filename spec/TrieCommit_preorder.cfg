SPECIFICATION Spec
CONSTANTS
  Nodes = {1, 2, 3}
  Ideal = 2
  MaxCommits = 2
  Crashes = TRUE
  WriteFailures = TRUE
  Uncache = "walk"
  Dedup = FALSE
  Order = "pre"
INVARIANTS TypeOK Closed DurableKept NothingLost
PROPERTY AppendOnly
CHECK_DEADLOCK FALSE
