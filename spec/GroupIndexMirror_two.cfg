SPECIFICATION Spec
CONSTANTS
  Ids = {1, 2, 3}
  MaxCrash = 2
INVARIANT RowsCoverChain
CHECK_DEADLOCK FALSE
