-------------------------- MODULE BlsVerifyTrace --------------------------
(***************************************************************************)
(* Trace monitor for C14.  harness/cmd/c14 instantiates every case of the  *)
(* class lattice with real keys, messages and curve points and logs what   *)
(* the real groupsig / bn256 code answered.  This module owns the expected *)
(* verdict of every case (BlsVerify!Expected), the round-trip law, the     *)
(* bilinearity / non-degeneracy law and the exact scalar arithmetic behind *)
(* the latter (BigNat, modulo the real group order).                       *)
(* Verdict tags ("Inv.") are clauses of the property; the others are       *)
(* conformance of mechanisms (parse errors, serialized forms).             *)
(***************************************************************************)
EXTENDS BlsVerify, BigNat, Json

Trace == ndJsonDeserialize("trace.ndjson")

VARIABLES l, bad
tvars == <<c, l, bad>>

Tag(cond, t) == IF cond THEN <<>> ELSE <<t>>

(* order of G1/G2/GT of the bn256 curve of the code base, little-endian bytes
   (65000549695646603732796438742359905742570406053903786389881062969044166799969) *)
OrderDec == <<9,6,9,9,9,7,6,6,1,4,4,0,9,6,9,2,6,0,1,8,8,9,8,3,6,8,7,3,0,9,3,5,0,6,0,4,0,7,5,2,4,7,5,0,9,9,5,3,2,4,7,8,3,4,6,9,7,2,3,7,3,0,6,6,4,6,5,9,6,9,4,5,0,0,0,5,6>>
Order == Convert(OrderDec, 10, 256)

Rev(s) == [i \in 1..Len(s) |-> s[Len(s) + 1 - i]]
(* number denoted by a big-endian byte string *)
ValBE(b) == Norm(Rev(b))

JudgeVerify(e) ==
  LET cs == e.case
      exp == Expected(cs)
  IN  IF ~e.applicable \/ ~Judged(cs) THEN <<>>
      ELSE Tag(exp => e.verdict, "Inv.Complete:" \o cs.what) \o
           Tag(e.verdict => exp, "Inv.Sound:" \o cs.what \o "/" \o cs.enc \o "/" \o cs.kind) \o
           Tag(e.eqHonest = exp, "Proj.eqHonest")

(* serialise / parse round trip: the parsed value is the original one *)
JudgeRoundTrip(e) ==
  Tag(e.isEqual /\ (IF e.type \in {"seckey", "id"} THEN ValBE(e.parsed) = ValBE(e.value) ELSE e.parsed = e.value),
      "Inv.RoundTrip:" \o e.type \o "/" \o e.via) \o
  (* as-coded serialized forms (conformance only) *)
  (IF e.via # "bytes" THEN <<>>
   ELSE CASE e.type = "seckey" -> Tag(ValBE(e.serialized) = ValBE(e.value) /\ (Len(e.serialized) = 0 \/ e.serialized[1] # 0), "Ser.form:seckey")
          [] e.type = "id"     -> Tag(Len(e.serialized) = 32 /\ ValBE(e.serialized) = ValBE(e.value), "Ser.form:id")
          [] e.type = "pubkey" -> Tag(Len(e.serialized) = 128, "Ser.form:pubkey")
          [] e.type = "sig"    -> Tag(Len(e.serialized) = 64, "Ser.form:sig")
          [] OTHER -> <<>>)

(* e(aP, bQ) = e(P,Q)^(ab); e(aP + a2P, bQ) = e(aP,bQ) e(a2P,bQ); e(aP,bQ) = 1 iff ab = 0 (mod order) *)
JudgePair(e) ==
  Tag(e.bilinear, "Inv.Bilinear") \o
  Tag(e.additive, "Inv.Bilinear.additive") \o
  Tag(e.isOne = (e.a * e.b = 0), "Inv.NonDegenerate")

JudgePairBig(e) ==
  LET prod == Mod(Mul(Norm(e.a), Norm(e.b), 256), Order, 256) IN
  Tag(e.bilinear, "Inv.Bilinear") \o
  Tag(e.isOne = IsZero(prod), "Inv.NonDegenerate")

(* equality of pairing values must look at all twelve coordinates *)
JudgeGtEq(e) == Tag(e.equal = (e.limb = -1), "Inv.PairingValueCompare")

(* mechanisms (not verdicts): point parsing reports malformed input, validity check *)
JudgeG1Parse(e) ==
  Tag(e.enc = "bitflip" \/ e.err = (e.enc \in {"truncated", "offcurve", "nonreduced"}), "Parse.err:" \o e.enc) \o
  Tag(e.enc = "offcurve" => ~e.isValid, "Parse.isValid:" \o e.enc)

(* a related pair of messages (ms: met / signed first, mo: the other one), full cross table in one process:
   each signature verifies for its own message, for no other, and the two signatures differ *)
JudgeMsgPair(e) ==
  LET same == ExpectedMsg(e.ms, e.mo) IN
  Tag(e.selfFirst /\ e.selfSecond, "Inv.Complete:msg/" \o e.rel) \o
  Tag(e.crossFirstSigSecondMsg = same /\ e.crossSecondSigFirstMsg = same, "Inv.Sound:otherMsg/" \o e.rel) \o
  Tag(e.sigEqual = same, "Inv.SignatureBindsMessage:" \o e.rel)

(* an honest signature verifies no matter what the process hashed before or in between *)
JudgeHistory(e) ==
  Tag(e.before /\ e.after /\ e.sigSame, "Inv.VerdictIndependentOfHistory:" \o e.kind)

(* malformed key x degenerate signature, through every parsing entry point: the verdict is what a
   caller that honours the entry point's error return obtains *)
JudgeKeySig(e) ==
  LET kc == e.case IN
  IF ~e.applicable \/ ~KeySigJudged(kc) THEN <<>>
  ELSE Tag(ExpectedKeySig(kc) => e.verdict, "Inv.Complete:key/" \o kc.keyEntry \o "/" \o kc.sigEntry) \o
       Tag(e.verdict => ExpectedKeySig(kc),
           "Inv.Sound:key/" \o kc.keyEntry \o "/" \o kc.keyClass \o "x" \o kc.sigClass)

(* goroutines signing and verifying different (key, message) pairs at the same time obtain what
   they obtain alone *)
JudgeConcurrent(e) ==
  Tag(e.sigMismatches = 0, "Inv.SignDeterministic:concurrent/" \o e.size) \o
  Tag(e.verifyFailures = 0, "Inv.Complete:concurrent/" \o e.size) \o
  Tag(e.falseAccepts = 0, "Inv.Sound:concurrent/" \o e.size)

(* several goroutines verify with one object that comes straight from Sign / RecoverGroupSignature /
   GeneratePubkey / AggregatePubkeys: the honest signature verifies, and verification leaves its
   arguments as they were *)
JudgeSharedObject(e) ==
  Tag(e.verifyFailures = 0, "Inv.Complete:sharedObject/" \o e.kind) \o
  Tag(e.objectsCorrupted = 0, "Inv.VerificationLeavesItsArguments:" \o e.kind)

(* observations beyond the statement *)
JudgeFailedKeyParse(e) == Tag(e.err /\ ~e.isValidAfterwards, "Ext.FailedKeyParseLeavesNoUsableKey:" \o e.class)
JudgeKeyEncoding(e) == Tag(~e.parses \/ e.reserializesToInput, "Ext.PublicKeyHasOneEncoding:" \o e.enc)
JudgePairNeg(e) == Tag(e.inverse, "Ext.PairingWithNegatedG2IsTheInverse")

Judge(e) ==
  CASE e.event = "Verify"    -> JudgeVerify(e)
    [] e.event = "SharedObject" -> JudgeSharedObject(e)
    [] e.event = "FailedKeyParse" -> JudgeFailedKeyParse(e)
    [] e.event = "KeyEncoding" -> JudgeKeyEncoding(e)
    [] e.event = "PairNeg"   -> JudgePairNeg(e)
    [] e.event = "KeySig"    -> JudgeKeySig(e)
    [] e.event = "Concurrent" -> JudgeConcurrent(e)
    [] e.event = "MsgPair"   -> JudgeMsgPair(e)
    [] e.event = "History"   -> JudgeHistory(e)
    [] e.event = "RoundTrip" -> JudgeRoundTrip(e)
    [] e.event = "Pair"      -> JudgePair(e)
    [] e.event = "PairBig"   -> JudgePairBig(e)
    [] e.event = "GtEq"      -> JudgeGtEq(e)
    [] e.event = "G1Parse"   -> JudgeG1Parse(e)
    [] OTHER                 -> <<"unknown-event">>

TraceInit == c = 0 /\ l = 1 /\ bad = <<>>

TraceNext ==
  /\ l <= Len(Trace)
  /\ l' = l + 1
  /\ LET e == Trace[l] IN
       bad' = bad \o [i \in 1..Len(Judge(e)) |-> <<l, e.event, Judge(e)[i]>>]
  /\ UNCHANGED c

TraceSpec == TraceInit /\ [][TraceNext]_tvars

Report == (l = Len(Trace) + 1) => PrintT(<<"VERDICT", Len(Trace), ToJson(bad)>>)
=============================================================================
