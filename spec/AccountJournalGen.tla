------------------------ MODULE AccountJournalGen ------------------------
(***************************************************************************)
(* Behaviour generator for AccountJournal (direction model -> code).       *)
(*                                                                         *)
(* GenSpec: every history of exactly Depth calls over the selected call    *)
(* kinds in which a RevertToSnapshot undoes at least one call, from each   *)
(* start state (branches that cannot reach a revert any more are pruned).  *)
(* DeepSpec: Runs pseudo-random histories of Depth calls; the choice of    *)
(* the next call is a deterministic function of (Seed, run, position).     *)
(*                                                                         *)
(* A history is printed as {start, ops, surv}: surv is the list of         *)
(* surviving calls maintained by the specification; the Go driver runs ops *)
(* on one real AccountDB and surv on a twin and the monitor compares the   *)
(* two real roots.                                                         *)
(***************************************************************************)
EXTENDS AccountJournal, Json, SequencesExt

CONSTANTS Depth, OpKinds, Seed, Runs
VARIABLE rng
gvars == <<vars, rng>>

HasRev(h) == \E i \in 1..Len(h) : h[i][1] = "REV"
Viable    == HasRev(hist') \/ (Len(snaps') > 0 /\ Len(hist') < Depth) \/ Len(hist') <= Depth - 2

GenNext ==
  /\ Len(hist) < Depth
  /\ \/ \E c \in {m \in Mutators(st) : m[1] \in OpKinds} : DoMut(c)
     \/ Snapshot
     \/ \E i \in 1..Len(snaps) : Revert(i)
     \/ "FIN" \in OpKinds /\ Finalise
     \/ "PRE" \in OpKinds /\ Prepare(2)
  /\ Viable
  /\ UNCHANGED rng

GenSpec == Init /\ rng = <<0, 0, 0>> /\ [][GenNext]_gvars

Out == [start |-> start, ops |-> hist, surv |-> surv]
(* some call was really undone: fewer surviving calls than calls other than SNAP / REV *)
Dropped == Len(surv) < Cardinality({i \in 1..Len(hist) : hist[i][1] \notin {"SNAP", "REV"}})
Dump == (Len(hist) = Depth /\ Dropped) => PrintT(<<"HIST", ToJson(Out)>>)

(* ---- pseudo-random long histories ---- *)
Step(r)  == <<(171 * r[1]) % 30269, (172 * r[2]) % 30307, (170 * r[3]) % 30323>>
Draw(r)  == r[1] + r[2] + r[3]
Start3(i) == <<1 + ((Seed * 7919 + i * 10473) % 30268),
               1 + ((Seed * 104729 + i * 31) % 30306),
               1 + ((Seed * 13 + i * 7907) % 30322)>>
Times(n, x) == [i \in 1..n |-> x]
DeepOps == SetToSeq(Mutators(st)) \o Times(12, <<"SNAP", 0, 0, 0>>) \o Times(11, <<"REV", 0, 0, 0>>)
           \o Times(3, <<"FIN", 0, 0, 0>>) \o Times(1, <<"PRE", 2, 0, 0>>)

DeepInit == /\ rng \in {Start3(i) : i \in 1..Runs}
            /\ start = 1 + (Draw(rng) % 3)
            /\ st = Start(start) /\ snaps = <<>> /\ nextId = 0 /\ hist = <<>> /\ surv = <<>>

DeepNext ==
  /\ Len(hist) < Depth
  /\ rng' = Step(Step(rng))
  /\ LET c == DeepOps[(Draw(Step(rng)) % Len(DeepOps)) + 1]
         d == Draw(rng')
     IN  CASE c[1] = "SNAP" -> Snapshot
           [] c[1] = "REV"  -> IF snaps = <<>> THEN Snapshot ELSE Revert((d % Len(snaps)) + 1)
           [] c[1] = "FIN"  -> Finalise
           [] c[1] = "PRE"  -> IF snaps = <<>> THEN Prepare(2) ELSE Snapshot
           [] OTHER -> IF Callable(st, c) THEN DoMut(c) ELSE Snapshot

DeepSpec == DeepInit /\ [][DeepNext]_gvars
DeepDump == (Len(hist) = Depth) => PrintT(<<"HIST", ToJson(Out)>>)

GenInv == SurvivingEquivalent /\ SnapIdsOrdered
=============================================================================
