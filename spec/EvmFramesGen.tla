---------------------------- MODULE EvmFramesGen ----------------------------
(***************************************************************************)
(* Generator for C12: every behaviour of EvmFrames up to its bounds is a   *)
(* call history (variable hist: tx / enter kind / sstore, tstore, log,     *)
(* transfer, destroy / ok / fail mode).  Finished histories are printed    *)
(* and compiled by harness/cmd/c12 to real byte code, one contract per     *)
(* frame.  The reference keeps every property along every history.         *)
(***************************************************************************)
EXTENDS EvmFrames, Json, TLC

Dump == (phase = "idle" /\ tx = MaxTx) => PrintT(<<"HIST", ToJson(hist)>>)
GenInv == FailRestores /\ StaticPure /\ TxClean /\ ReceiptOwn
=============================================================================
