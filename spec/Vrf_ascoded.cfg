SPECIFICATION Spec
CONSTANTS
  Q = 5
  CMax = 8
  AsCoded = TRUE
INVARIANTS UniqueOutput
CHECK_DEADLOCK FALSE
