SPECIFICATION TraceSpec
CONSTANTS
  Nodes = {}
  Ideal = 0
  MaxCommits = 0
  Crashes = FALSE
  WriteFailures = FALSE
  Uncache = "walk"
  Dedup = FALSE
  Order = "post"
INVARIANT Report
CHECK_DEADLOCK FALSE
