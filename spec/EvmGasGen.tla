----------------------------- MODULE EvmGasGen -----------------------------
(***************************************************************************)
(* Input generator for C11 (direction model -> code).                      *)
(*                                                                         *)
(* CallSpec: behaviours of the abstract machine of EvmGas in which the     *)
(* outermost frame executes a sequence of call instructions; each call is  *)
(* described by its kind, the class of its gas argument (including 0),     *)
(* whether it carries value and how the callee ends.  The reference hands  *)
(* the callee min(request, all-but-one-64th) of gas the caller paid for    *)
(* and keeps its invariants (Conserved, Bounded) along every behaviour;    *)
(* every finished sequence is printed and compiled to byte code by         *)
(* harness/cmd/c11.                                                        *)
(*                                                                         *)
(* MemSpec: the cross product of memory operand classes (offsets around    *)
(* 2^32, 2^63, 2^64, 2^255, 2^256-1; lengths 0, 1, 32) for every           *)
(* instruction with a memory operand; one printed case per initial state.  *)
(***************************************************************************)
EXTENDS EvmGas, Json, TLC

CONSTANTS NCalls,                \* call instructions per sequence
          GasArgs,               \* classes of the gas argument: "0", "1", "2300", "50000", "all"
          Targets,               \* "empty" (no code), "returner", "reverter"
          CallValues             \* classes of the value operand: "0", "1", "p255" (2^255), "p255p1", "max" (2^256-1)

VARIABLES hist, mcase
ggvars == <<gvars, hist, mcase>>

Kinds == {"call", "callcode", "delegatecall", "staticcall"}
ReqOf(g) == CASE g = "0" -> 0 [] g = "1" -> 1 [] g = "2300" -> 5 [] g = "50000" -> 9 [] OTHER -> 1000

CallInit == GInit /\ hist = <<>> /\ mcase = <<>>

(* one call instruction of the outermost frame: the callee runs and ends at once *)
OneCall(k, g, v, t) ==
  /\ Len(hist) < NCalls /\ Depth = 1 /\ ~ended
  /\ (v # "0" => k \in {"call", "callcode"})
  /\ TopGas >= 2
  /\ LET c == 2
         avail == TopGas - c
         want == ReqOf(g)
         child == IF want < avail - (avail \div 64) THEN want ELSE avail - (avail \div 64)
         spent == IF t = "reverter" /\ child > 0 THEN 1 ELSE 0     \* the callee burns something, returns the rest
     IN /\ frames' = <<avail - spent>>
        /\ burnt' = burnt + c + spent
  /\ hist' = Append(hist, [op |-> k, gas |-> g, value |-> v, target |-> t])
  /\ UNCHANGED <<ended, mcase>>

CallNext == \E k \in Kinds, g \in GasArgs, v \in CallValues, t \in Targets : OneCall(k, g, v, t)
CallSpec == CallInit /\ [][CallNext]_ggvars
CallDump == Len(hist) = NCalls => PrintT(<<"CALLS", ToJson(hist)>>)
CallInv == Conserved /\ Bounded /\ DepthOK

(* ---------------------------------------------------------- code layouts *)
(* The jump-destination analysis of the code runs when a jump to a real JUMPDEST is executed.  Layouts:   *)
(* `PUSH1 3, JUMP, JUMPDEST, STOP`, padding, and at the very end of the code a PUSHn (n = 1..32) of which   *)
(* only `present` < n data bytes exist, the whole code having every length modulo 8.  Whatever the layout, *)
(* the run ends at the STOP behind the JUMPDEST.                                                           *)
CONSTANTS Presents               \* how many data bytes of the final PUSH are present (values >= n are skipped)
LayoutCode(n, pr, m) ==
  LET head == <<96, 3, 86, 91, 0>>
      tailLen == 1 + pr
      padLen == CHOOSE k \in 0..7 : (Len(head) + k + tailLen) % 8 = m
  IN head \o [i \in 1..padLen |-> 0] \o <<95 + n>> \o [i \in 1..pr |-> 91]
Layouts == {c \in [n : 1..32, present : Presents, mod : 0..7] : c.present < c.n}
LayoutInit == GInit /\ hist = <<>> /\ mcase \in Layouts
LayoutSpec == LayoutInit /\ [][FALSE]_ggvars
LayoutDump == PrintT(<<"LAYOUT", ToJson([n |-> mcase.n, present |-> mcase.present, mod |-> mcase.mod,
                                         code |-> LayoutCode(mcase.n, mcase.present, mcase.mod)])>>)
LayoutInv == Len(LayoutCode(mcase.n, mcase.present, mcase.mod)) % 8 = mcase.mod

(* --------------------------------------------------------------- memory *)
Offs == {"0", "32", "p32", "p63m1", "p63", "p64m1", "p64", "p64p32", "p255", "p255p32", "p255x", "max"}
Lens == {"0", "1", "32"}
Ops3 == {"mcopy", "calldatacopy", "codecopy", "returndatacopy"}       \* dst, src, len
Ops2 == {"mstore", "mstore8", "mload", "sha3", "log0", "return", "revert", "create", "extcodecopy", "callargs"}
(* AUTH (the node's EIP-3074 opcode) reads signature and commit from memory[offset, offset + length) when  *)
(* length >= 128: offsets inside, at and beyond the 32 bytes of memory the program has, word boundaries,      *)
(* lengths around 128, huge values                                                                            *)
AuthCases == [op : {"auth"}, a : {"0", "1", "31", "32", "33", "p32", "p64", "p255", "max"}, b : {"0"},
              c : {"0", "127", "128", "160", "p32", "p64", "max"}]
MemCases == [op : Ops3, a : Offs, b : Offs, c : Lens] \cup [op : Ops2, a : Offs, b : {"0"}, c : Lens] \cup AuthCases

MemInit == GInit /\ hist = <<>> /\ mcase \in MemCases
MemSpec == MemInit /\ [][FALSE]_ggvars
MemDump == PrintT(<<"MEM", ToJson(mcase)>>)
=============================================================================
