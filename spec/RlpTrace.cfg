SPECIFICATION TraceSpec
CONSTANTS
  AllocBase = 65536
  AllocPerByte = 2048
INVARIANT Report
CHECK_DEADLOCK FALSE
