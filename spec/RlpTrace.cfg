SPECIFICATION TraceSpec
CONSTANTS
  AllocBase = 65536
  AllocPerByte = 3072
INVARIANT Report
CHECK_DEADLOCK FALSE
