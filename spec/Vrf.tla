-------------------------------- MODULE Vrf --------------------------------
(***************************************************************************)
(* The proposer's VRF of go-rangers: proof transport through the header's  *)
(* big-integer ProveValue, verification (with the small-order component of *)
(* the curve made explicit), and the qualification / quality-number rule.  *)
(*                                                                         *)
(* Code this follows:                                                      *)
(*   common/ed25519/vrf.go       ECVRFProve, ECVRFVerify, tryZeroPadding   *)
(*   consensus/vrf/vrf.go        VRFProof2Hash = pi[0..31], Big()          *)
(*   logical/vrf_with_stake.go   verifyBlockVRF, validateProve, calQn      *)
(*                                                                         *)
(* 1. Transport.  A proof is PL bytes (80 in the code).  The header carries*)
(*    big.Int.SetBytes(pi); the verifier takes ProveValue.Bytes(), which   *)
(*    has lost the leading zero bytes, and left-pads to PL before decoding.*)
(* 2. Verification in a symbolic group: a point is <<a, t>>, a in Z_Q the  *)
(*    prime-order component and t in Z_8 the small-order component.  The   *)
(*    challenge hash is a random oracle: the prover commits to (U0, V0),   *)
(*    obtains c, and the verifier accepts iff the (U, V) it recomputes are *)
(*    (U0, V0).  A proof whose Gamma is shifted by t*T8 verifies iff the   *)
(*    prover guessed e = c*t (mod 8) when committing to V0.                *)
(*    The lottery output the property demands is the same for all accepted *)
(*    proofs of one key and message (e.g. the cofactor-cleared Gamma);     *)
(*    AsCoded = TRUE selects what the code does: the raw encoding of Gamma.*)
(* 3. Qualification and quality number in exact arithmetic (BigNat).       *)
(***************************************************************************)
EXTENDS BigNat, FiniteSets, TLC

-----------------------------------------------------------------------------
(* 1. Transport: byte strings are sequences, first byte first *)

RECURSIVE StripLeadingZeros(_)
StripLeadingZeros(b) == IF b = <<>> THEN <<>>
                        ELSE IF b[1] = 0 THEN StripLeadingZeros(SubSeq(b, 2, Len(b))) ELSE b
PadLeft(b, n) == IF Len(b) >= n THEN b ELSE [i \in 1..(n - Len(b)) |-> 0] \o b
PadRight(b, n) == IF Len(b) >= n THEN b ELSE b \o [i \in 1..(n - Len(b)) |-> 0]

RECURSIVE LeadingZeros(_)
LeadingZeros(b) == IF b = <<>> \/ b[1] # 0 THEN 0 ELSE 1 + LeadingZeros(SubSeq(b, 2, Len(b)))

(* header transport: big.Int.SetBytes then Bytes() *)
Transport(pi) == StripLeadingZeros(pi)
(* tryZeroPadding *)
Restore(b, pl) == PadLeft(b, pl)

Rev(s) == [i \in 1..Len(s) |-> s[Len(s) + 1 - i]]
ValBE(b) == Norm(Rev(b))      \* the number a big-endian byte string denotes (BigNat digits)

-----------------------------------------------------------------------------
(* 2. Verification in the symbolic group Z_Q x Z_8 *)

CONSTANTS Q,          \* small prime: order of the prime-order component
          CMax,       \* challenges range over 0..CMax-1
          AsCoded     \* BOOLEAN: lottery output = raw Gamma encoding

Pt(a, t) == <<a % Q, t % 8>>
PAdd(p, q) == Pt(p[1] + q[1], p[2] + q[2])
PNeg(p) == Pt(Q - p[1], 8 - p[2])
PSub(p, q) == PAdd(p, PNeg(q))
PMul(k, p) == Pt(k * p[1], k * p[2])
BasePt == Pt(1, 0)
T8 == Pt(0, 1)

(* an adversarial proof for secret x, message point H = hh*B (cofactor-cleared,
   no torsion), nonce k, torsion shift t, guess e, with the oracle answering c *)
Proof(x, hh, k, t, e, c) ==
  LET Hp == Pt(hh, 0)
      G  == PAdd(PMul(x, Hp), PMul(t, T8))
  IN  [gamma |-> G, c |-> c, s |-> (k + c * x) % Q,
       U0 |-> PMul(k, BasePt), V0 |-> PSub(PMul(k, Hp), PMul(e, T8))]

(* ECVRFVerify: U = s*B - c*Y, V = s*H - c*Gamma, recompute the challenge *)
Verifies(x, hh, p) ==
  LET Y == PMul(x, BasePt)
      Hp == Pt(hh, 0)
      U == PSub(PMul(p.s, BasePt), PMul(p.c, Y))
      V == PSub(PMul(p.s, Hp), PMul(p.c, p.gamma))
  IN  U = p.U0 /\ V = p.V0

(* which adversarial proofs verify *)
TorsionRule(c, t, e) == (c * t) % 8 = e % 8

(* the lottery output *)
Output(p) == IF AsCoded THEN p.gamma ELSE PMul(8, p.gamma)

VARIABLE w     \* [x, hh, k, t, e, c]: one adversarial proving attempt
vars == <<w>>

Attempts == [x : 1..(Q - 1), hh : 1..(Q - 1), k : 1..(Q - 1), t : 0..7, e : 0..7, c : 0..(CMax - 1)]

Init == w \in Attempts
Next == UNCHANGED w
Spec == Init /\ [][Next]_vars

P(a) == Proof(a.x, a.hh, a.k, a.t, a.e, a.c)

(* the honest proof verifies *)
Complete == (w.t = 0 /\ w.e = 0) => Verifies(w.x, w.hh, P(w))
(* an attempt verifies exactly when the guess matches *)
TorsionExact == Verifies(w.x, w.hh, P(w)) <=> TorsionRule(w.c, w.t, w.e)
(* all accepted proofs of one key and message carry the same lottery output *)
UniqueOutput ==
  LET p1 == P(w) IN
    Verifies(w.x, w.hh, p1) =>
      \A t2 \in 0..7, c2 \in 0..(CMax - 1) :
        (* the guess that makes the second attempt verify *)
        LET p2 == Proof(w.x, w.hh, w.k, t2, (c2 * t2) % 8, c2) IN
          Verifies(w.x, w.hh, p2) /\ Output(p1) = Output(p2)
(* a wrong secret does not verify (soundness of the symbolic check) *)
WrongKeyRejected ==
  \A x2 \in 1..(Q - 1) : (x2 # w.x /\ w.c % Q # 0 /\ w.t = 0 /\ w.e = 0) => ~Verifies(x2, w.hh, P(w))

-----------------------------------------------------------------------------
(* 3. Qualification and quality number.  v: the lottery value (BigNat digits),
   S: total stake, W: working miners, active: difficulty adjustment in force,
   VMax: largest lottery value (2^256 - 1 in the code).  B = 256 throughout. *)

PPMin == 3       \* model.Param.PotentialProposal
PPMax == 5       \* model.Param.PotentialProposalMax
PPIndex == 20    \* model.Param.PotentialProposalIndex (per cent)

Small(n) == FromNat(n, 256)

(* calcPotentialProposal: clamp(S * index / 100, min, max) *)
PotentialProposal(S) ==
  LET raw == Div(MulSmall(S, PPIndex, 256), Small(100), 256) IN
    IF Lt(raw, Small(PPMin)) THEN Small(PPMin)
    ELSE IF Lt(Small(PPMax), raw) THEN Small(PPMax) ELSE raw

Difficulty(S, W, active) == IF active /\ ~IsZero(W) THEN Div(S, W, 256) ELSE Small(1)

(* stake ratio = StakeNum / S *)
StakeNum(S, W, active) == Mul(Difficulty(S, W, active), PotentialProposal(S), 256)

(* value ratio < stake ratio  <=>  v * S < StakeNum * VMax *)
Qualified(v, S, W, active, VMax) ==
  ~IsZero(S) /\ Lt(Mul(v, S, 256), Mul(StakeNum(S, W, active), VMax, 256))

(* calQn clamps the stake ratio to 1; quotient = (v/VMax) / (ratio/MaxQN) = QNum / QDen *)
Capped(S, W, active) == Lt(S, StakeNum(S, W, active))
QNum(v, S, W, active, maxQN) ==
  IF Capped(S, W, active) THEN MulSmall(v, maxQN, 256) ELSE MulSmall(Mul(v, S, 256), maxQN, 256)
QDen(S, W, active, VMax) ==
  IF Capped(S, W, active) THEN VMax ELSE Mul(StakeNum(S, W, active), VMax, 256)

(* floor(num/den) when it is known to be at most hi *)
RECURSIVE FloorUpTo(_, _, _)
FloorUpTo(num, den, hi) == IF hi = 0 \/ Le(MulSmall(den, hi, 256), num) THEN hi ELSE FloorUpTo(num, den, hi - 1)

QnRef(v, S, W, active, VMax, maxQN) ==
  FloorUpTo(QNum(v, S, W, active, maxQN), QDen(S, W, active, VMax), maxQN + 1) + 1

(* num/den is below the integer k but within relative 2^-48 of it: a float64
   quotient cannot be told from k there *)
JustBelow(num, den, k) ==
  LET kd == MulSmall(den, k, 256) IN
    Lt(num, kd) /\ Le(ShiftUp(Sub(kd, num, 256), 6), kd)

QnAdmissible(qn, v, S, W, active, VMax, maxQN) ==
  LET num == QNum(v, S, W, active, maxQN)
      den == QDen(S, W, active, VMax)
      ref == QnRef(v, S, W, active, VMax, maxQN)
  IN  qn = ref \/ (qn = ref + 1 /\ JustBelow(num, den, ref))

(* -------------------------------------------------------------------------
   4. The message.  A proof is for exactly one message: hash_to_curve is injective on
   (key, message) as far as anyone can tell, whatever the length of the message and
   however much two messages share.  Pairs of messages of one key that differ in a
   single byte, placed around the 64-byte mark (the beacon value is 64 bytes, the
   derived hashes 32): at offset 0, 63, 64, 65 and in the last byte. *)
MsgBase(salt, n) == [i \in 1..n |-> ((salt * 29 + i * 11) % 255) + 1]
MsgFlip(m, off) == [m EXCEPT ![off + 1] = (m[off + 1] % 255) + 1]        \* off: 0-based offset

VrfMsgPair(rel, len, off) ==
  [rel |-> rel, len |-> len, off |-> off, m1 |-> MsgBase(len + off, len), m2 |-> MsgFlip(MsgBase(len + off, len), off)]

VrfMsgPairs ==
  {VrfMsgPair("diffAt0", n, 0) : n \in {32, 64, 65}} \cup
  {VrfMsgPair("diffAt63", n, 63) : n \in {64, 96}} \cup
  {VrfMsgPair("diffAt64", n, 64) : n \in {65, 96, 128, 1024}} \cup
  {VrfMsgPair("diffAt65", n, 65) : n \in {96, 128, 1024}} \cup
  {VrfMsgPair("diffLast", n, n - 1) : n \in {65, 96, 128, 1024}}

VrfMsgCases == {[pair |-> pr, order |-> o] : pr \in VrfMsgPairs, o \in {"fwd", "rev"}}

(* expected verdict of Verify(pk, Prove(sk, mp), mv) *)
ExpectedForMessage(mp, mv) == mp = mv

ASSUME \A pr \in VrfMsgPairs :
         /\ pr.m1 # pr.m2 /\ Len(pr.m1) = Len(pr.m2)
         /\ Cardinality({i \in 1..Len(pr.m1) : pr.m1[i] # pr.m2[i]}) = 1
         /\ (pr.off >= 64 => SubSeq(pr.m1, 1, 64) = SubSeq(pr.m2, 1, 64))

(* the statement's range claim holds for the reference on every lottery value
   that can occur (v < VMax: the all-ones string is no canonical point encoding) *)
QnRangeOK(v, S, W, active, VMax, maxQN) ==
  Qualified(v, S, W, active, VMax) =>
    LET q == QnRef(v, S, W, active, VMax, maxQN) IN q >= 1 /\ q <= maxQN
=============================================================================
