SPECIFICATION Spec
CONSTANTS
  Q = 5
  CMax = 8
  AsCoded = FALSE
INVARIANTS Complete TorsionExact UniqueOutput WrongKeyRejected
CHECK_DEADLOCK FALSE
