--------------------------- MODULE MinerRegistry ---------------------------
(* MinerRegistryCore (reference semantics of the miner-management transactions; kept free of
   recursive operators so that TLAPS can read it, see MinerRegistryProof) plus the election totals. *)
EXTENDS MinerRegistryCore

RECURSIVE SumStake(_, _)
SumStake(R, X) == IF X = {} THEN 0 ELSE LET x == CHOOSE y \in X : TRUE IN R[x].stake + SumStake(R, X \ {x})
TotalStake(R, type) == SumStake(R, {i \in DOMAIN R : R[i].present /\ R[i].type = type /\ ~R[i].abort})
=============================================================================
