SPECIFICATION TraceSpec
CONSTANTS
  KeyIds = {1, 2, 3, 4, 5, 6, 7, 8, 9, 10, 11, 12, 13, 14, 15, 16}
  ValIds = {1, 2, 3, 4, 5, 6, 7, 8, 9}
INVARIANT Report
CHECK_DEADLOCK FALSE
