SPECIFICATION TraceSpec
CONSTANTS
  KeyIds = {1, 2, 3, 4, 5, 6, 7, 8}
  ValIds = {1, 2, 3, 4, 5, 6, 7, 8}
INVARIANT Report
CHECK_DEADLOCK FALSE
