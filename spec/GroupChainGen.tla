--------------------------- MODULE GroupChainGen ---------------------------
(***************************************************************************)
(* Behaviour generator for GroupChain: the atomic call alphabet of the     *)
(* group chain (add with the right / a wrong predecessor, add of an id     *)
(* already on the chain, remove-last, restart) explored by TLC as a tree   *)
(* of call histories up to depth Depth.  Every maximal history is printed  *)
(* as JSON and replayed on the real core.groupChain by harness/cmd/c19;    *)
(* the recorded trace is then judged by GroupChainTrace.                   *)
(***************************************************************************)
EXTENDS GroupChain, Json

CONSTANTS Depth, Forks, Concs,
          SplitLock,  \* BOOLEAN: FALSE = as coded; TRUE = the fork switch takes the lock per removed group (negative control)
          Early   \* BOOLEAN: FALSE = as coded; TRUE = predecessor compared before the lock (negative control)
VARIABLE hist
gvars == <<vars, hist>>

NoB == [op |-> "none", g |-> 0, pre |-> 0]
Rec(o, g, p) == [op |-> o, g |-> g, pre |-> p, ids |-> <<>>, pres |-> <<>>, b |-> NoB, first |-> "a"]

Apply(post) == /\ store' = post.store /\ hidx' = post.hidx
               /\ count' = post.count /\ last' = post.last
               /\ lastRec' = post.last /\ countRec' = post.count
               /\ UNCHANGED <<pc, work>>

GenAdd(g) ==
  /\ CanAdd(g)
  /\ Apply(AddPost(store, hidx, count, last, g))
  /\ hist' = Append(hist, Rec("Add", g, 98))

(* rejected calls: id already present, or predecessor that is not the last group *)
GenAddRejected(g, p) ==
  /\ pc = "idle" /\ count < MaxCount
  /\ (store[g].present \/ p # last)
  /\ p \in AllIds /\ store[p].present
  /\ UNCHANGED vars
  /\ hist' = Append(hist, Rec("Add", g, p))

GenRemove ==
  /\ pc = "idle"
  /\ IF CanRemove THEN Apply(RemovePost(store, hidx, count, last)) ELSE UNCHANGED vars
  /\ hist' = Append(hist, Rec("Remove", 0, 0))

GenRestart ==
  /\ Restart
  /\ hist' = Append(hist, Rec("Restart", 0, 0))

(* the sync processor switches to a group fork hanging below a group of the local chain *)
GenFork(anc, ids) ==
  /\ pc = "idle" /\ store[anc].present
  /\ Apply(ForkPost(store, hidx, count, last, anc, ids))
  /\ hist' = Append(hist, [op |-> "Fork", g |-> anc, pre |-> 0, ids |-> ids, pres |-> [i \in 1..Len(ids) |-> 98], b |-> NoB, first |-> "a"])

(* a fork that is not a line: its second group names the common ancestor, the genesis group or
   itself... anything but the first group of the fork *)
GenForkBent(anc, ids, p2) ==
  /\ pc = "idle" /\ store[anc].present /\ Len(ids) = 2 /\ p2 # ids[1]
  /\ Apply(ForkPostP(store, hidx, count, last, anc, ids, <<98, p2>>))
  /\ hist' = Append(hist, [op |-> "Fork", g |-> anc, pre |-> 0, ids |-> ids, pres |-> <<98, p2>>, b |-> NoB, first |-> "a"])

(* two overlapping calls (see GroupChain!ConcPost): an add against an add or a removal *)
GenConc(g, p, b, first) ==
  /\ pc = "idle" /\ count < MaxCount - 1 /\ Len(hist) = Depth - 1
  /\ p \in AllIds /\ store[p].present
  /\ (b.op = "Add" => (b.pre \in AllIds /\ store[b.pre].present))
  /\ Apply(ConcPost(store, hidx, count, last, [g |-> g, pre |-> p], b, first, Early).r)
  /\ hist' = Append(hist, [op |-> "Conc", g |-> g, pre |-> p, ids |-> <<>>, pres |-> <<>>, b |-> b, first |-> first])
ConcBs == {[op |-> "Remove", g |-> 0, pre |-> 0]} \cup {[op |-> "Add", g |-> g, pre |-> p] : g \in Ids, p \in AllIds}

(* an add that overlaps a fork switch removing at least two groups (see GroupChain!ConcForkOutcomes);
   it names the group below the top one, the last group once the first removal is done *)
GenConcFork(anc, ids, g, j) ==
  /\ pc = "idle" /\ Len(hist) = Depth - 1 /\ store[anc].present
  /\ count - store[anc].height - 1 >= 2
  /\ LET a == [g |-> g, pre |-> store[last].pre]
         pres == [i \in 1..Len(ids) |-> 98]
     IN /\ IF SplitLock
             THEN Apply(ConcForkSplit(store, hidx, count, last, anc, ids, pres, a))
             ELSE Apply(ConcForkAt(store, hidx, count, last, anc, ids, pres, a, j))
        /\ hist' = Append(hist, [op |-> "ConcFork", g |-> anc, pre |-> 0, ids |-> ids, pres |-> pres,
                                 b |-> [op |-> "Add", g |-> g, pre |-> a.pre], first |-> "park", j |-> j])

ForkSeqs == {<<a>> : a \in Ids} \cup {s \in Ids \X Ids : s[1] # s[2]}

GenNext ==
  /\ Len(hist) < Depth
  /\ \/ \E g \in Ids : GenAdd(g)
     \/ \E anc \in AllIds, ids \in ForkSeqs : Forks /\ GenFork(anc, ids)
     \/ \E anc \in AllIds, ids \in ForkSeqs, p2 \in AllIds : Forks /\ Len(hist) = Depth - 1 /\ GenForkBent(anc, ids, p2)
     \/ \E g \in Ids, p \in AllIds, b \in ConcBs, first \in {"a", "b"} : Concs /\ GenConc(g, p, b, first)
     \/ \E anc \in AllIds, ids \in ForkSeqs, g \in Ids, j \in 0..2 : Concs /\ j <= Len(ids) /\ GenConcFork(anc, ids, g, j)
     \/ \E g \in Ids, p \in AllIds : GenAddRejected(g, p)
     \/ GenRemove
     \/ GenRestart

GenSpec == Init /\ hist = <<>> /\ [][GenNext]_gvars

Dump == (Len(hist) = Depth) => PrintT(<<"HIST", ToJson(hist)>>)

(* the reference keeps every invariant along every generated history *)
GenInv == InvLinked /\ InvCountIsLength /\ InvIndexExact /\ InvById /\ InvHeights /\ InvRecords
=============================================================================
