----------------------------- MODULE MptTrace -----------------------------
(***************************************************************************)
(* Trace validation for Mpt (property C02).  Every line of trace.ndjson is *)
(* one call made on the real trie.Trie together with the complete          *)
(* projection of the real trie after the call (harness/cmd/c02):           *)
(*   gets    TryGet of every key of the universe (value id, 0 = absent)    *)
(*   iter    the pairs trie.Iterator yields, in order                      *)
(*   nit     the nodes trie.NodeIterator yields: <<path length, last nibble,*)
(*           leaf, hashed>>                                                *)
(*   mem     the in-memory node graph (read by reflection before any call) *)
(*   tree    the stored node graph (decoded from the committed blobs with  *)
(*           the harness's own RLP splitter), hashed = paths of the nodes  *)
(*           stored under their own hash                                   *)
(*   hash    Trie.Hash(), commit = Trie.Commit(), ref = digest of `tree`   *)
(*           under the harness's own encoder + keccak, fresh = real root   *)
(*           of a fresh real trie filled with the observed pairs in sorted *)
(*           order                                                         *)
(* The spec variables are bound to the observation; each step is judged:   *)
(* is it a step of the reference action of Mpt, and do content, lookups,   *)
(* iteration order and structure agree with Canon(content), and do all     *)
(* roots agree.  Digests are compared as logged strings.                   *)
(*                                                                         *)
(* Tags "Inv.*" are clauses of the property evaluated on real observations *)
(* (reads, iteration order, canonical stored structure, root equalities);  *)
(* the other tags are conformance judgements (reference step, in-memory    *)
(* graph, embedded/hashed split, node iterator, projection coherence).     *)
(***************************************************************************)
EXTENDS Mpt, Json, SequencesExt

Trace == ndJsonDeserialize("trace.ndjson")

VARIABLES l, bad, prevOK,
          opsSoFar    \* the calls of the current history up to the state the specification is in
tvars == <<vars, l, bad, prevOK, opsSoFar>>

(* A cache outside the state (TLC register 1, the monitor runs with one worker):        *)
(* content -> the first projection observed for that content that passed every          *)
(* judgement.  A later observation of the same content that is identical to the cached  *)
(* one needs no re-evaluation of Canon; one that differs is judged in full and, since   *)
(* the root must depend on the content only, is reported as history dependence.         *)
Cache == TLCGet(1)

EmptyRootHex == "56e81f171bcc55a6ff8345e692c0f86e5b48e01b996cadc001622fb5e363b421"

Tag(c, t) == IF c THEN <<>> ELSE <<t>>

(* failed judgements are reported at most 20 times per signature (tag, event): the state stays small *)
Fresh(ev, j) == LET Occ(t) == Cardinality({i \in 1..Len(bad) : bad[i][2] = ev /\ bad[i][3] = t})
                    keep == SelectSeq(j, LAMBDA t : Occ(t) < 20)
                IN  [i \in 1..Len(keep) |-> <<l, ev, keep[i]>>]

Obs(e)  == [k \in AllKeyIds |-> e.proj.gets[k]]
Sane(c) == \A k \in AllKeyIds : c[k] \in 0..9

RECURSIVE ContentAfter(_, _)
ContentAfter(c, ops) ==
  IF ops = <<>> THEN c
  ELSE LET o == Head(ops)
           c2 == IF o[1] = "U" THEN [c EXCEPT ![o[2]] = o[3]]
                 ELSE IF o[1] = "D" THEN [c EXCEPT ![o[2]] = 0] ELSE c
       IN  ContentAfter(c2, Tail(ops))

Empty == [k \in AllKeyIds |-> 0]

(* --- the step: is (content, call, content') a step of the reference ------ *)
(* Every version the history committed ("C", "R", "X") must keep reading as the content it had:  *)
(* re-opened on the current NodeDatabase as long as that database saw the commit (an "X" starts *)
(* a fresh one) or the version went to disk; re-opened on a fresh NodeDatabase over the disk     *)
(* store once it went to disk ("X" of that version, or a later Cap(0) of the database holding   *)
(* it).  Fold over the calls: <<content, versions, in memory layer, on disk>>.                  *)
RECURSIVE VersionsAfter(_, _)
VersionsAfter(acc, ops) ==
  IF ops = <<>> THEN acc
  ELSE LET o  == Head(ops)
           c  == acc[1]
           c2 == IF o[1] = "U" THEN [c EXCEPT ![o[2]] = o[3]] ELSE IF o[1] = "D" THEN [c EXCEPT ![o[2]] = 0] ELSE c
           n  == Len(acc[2]) + 1
           a2 == CASE o[1] \in {"C", "R"} -> <<c2, Append(acc[2], c2), acc[3] \cup {n}, acc[4]>>
                   [] o[1] = "X" -> <<c2, Append(acc[2], c2), {n}, acc[4] \cup {n}>>
                   [] o[1] = "P" /\ o[3] = 0 -> <<c2, acc[2], acc[3], acc[4] \cup acc[3]>>
                   [] OTHER -> <<c2, acc[2], acc[3], acc[4]>>
       IN  VersionsAfter(a2, Tail(ops))

JudgeVersions(e, ops) ==
  LET va == VersionsAfter(<<Empty, <<>>, {}, {}>>, ops)
      vs == va[2]
      p  == e.proj
  IN  IF Len(p.vsame) # Len(vs) THEN <<"Proj.versions">>
      ELSE Tag(\A i \in 1..Len(vs) : i \in va[3] \cup va[4] => p.vsame[i] = vs[i], "Inv.VersionReadsOnSameDatabase") \o
           Tag(\A i \in 1..Len(vs) : i \in va[3] \cup va[4] => p.vsameIter[i] = IterOf(vs[i]), "Inv.VersionIterationOnSameDatabase") \o
           (* from the disk store alone: once the version went to disk, and whenever its root node is
              in the disk store, whatever put it there (what is on disk is closed under references) *)
           Tag(\A i \in 1..Len(vs) : (i \in va[4] \/ p.vroot[i]) => p.vfresh[i] = vs[i], "Inv.VersionReadsFromDisk")

JudgeStep(e, c2) ==
  CASE e.event = "Reset" ->
         Tag(c2 = ContentAfter(Empty, e.ops), "Inv.ReadsAfterHistory") \o
         Tag(e.keys = <<>> \/ (/\ e.keys = [k \in AllKeyIds |-> PathOf(k)]
                               /\ e.vlen = [v \in AllValIds |-> VLen(v)]
                               /\ \A v \in AllValIds : VLen(v) = 1 => e.vfirst[v] = VFirst(v)),
             "Proj.universe")
    [] e.event = "U" ->
         Tag(~e.err, "Update.error") \o
         Tag(c2 = [content EXCEPT ![e.k] = e.v], "Inv.ReadsAfterUpdate") \o
         Tag(~prevOK \/ e.proj.tree = UpdateTree(tree, e.k, e.v), "Update.step")
    [] e.event = "D" ->
         Tag(~e.err, "Delete.error") \o
         Tag(c2 = [content EXCEPT ![e.k] = 0], "Inv.ReadsAfterDelete") \o
         Tag(~prevOK \/ e.proj.tree = Delete(tree, e.k), "Delete.step")
    [] e.event = "G" ->
         Tag(~e.err, "Get.error") \o
         Tag(e.got = content[e.k], "Inv.GetValue") \o
         Tag(c2 = content, "Inv.ContentKeptByGet")
    [] e.event = "H" ->
         Tag(e.res = e.proj.hash, "Inv.RootReportedByHash") \o Tag(c2 = content, "Inv.ContentKeptByHash")
    [] e.event = "C" ->
         Tag(~e.err /\ e.res = e.proj.hash, "Inv.RootReportedByCommit") \o Tag(c2 = content, "Inv.ContentKeptByCommit")
    [] e.event \in {"R", "X"} ->
         Tag(~e.err /\ e.res = e.proj.hash, "Inv.RootReportedByReopen") \o Tag(c2 = content, "Inv.ContentKeptByReopen")
    [] e.event = "L" -> Tag(c2 = content, "Inv.ContentKeptByCacheLimit")
    [] e.event = "P" -> Tag(~e.err, "Cap.error") \o Tag(c2 = content, "Inv.ContentKeptByCap")
    [] OTHER -> <<"unknown-event">>

(* --- the property in the state after the call ---------------------------- *)
ProjKey(p) == <<p.hash, p.commit, p.ref, p.fresh, p.tree, p.mem, p.hashed, p.nit, p.iter,
                p.iterErr, p.nitErr, p.commitErr, p.storedOK, p.memOK>>

FullInv(e, c2) ==
  LET p  == e.proj
      cn == Canon(c2)
      fl == Flat(cn)
      hashedOf == SelectSeq([i \in 1..Len(fl) |-> IF fl[i][2] # "V" /\ ~fl[i][4] THEN fl[i][1] ELSE <<99>>],
                            LAMBDA x : x # <<99>>)
      nitOf == [i \in 1..Len(fl) |-> <<Len(fl[i][1]), IF fl[i][1] = <<>> THEN 99 ELSE fl[i][1][Len(fl[i][1])],
                                        fl[i][2] = "V", ~fl[i][4]>>]
  IN  Tag(~p.iterErr /\ p.iter = IterOf(c2), "Inv.IterationOrder") \o
      Tag(p.storedOK /\ p.tree = cn, "Inv.StoredStructureCanonical") \o
      Tag(p.memOK /\ p.mem = cn, "Struct.memory") \o
      Tag(p.hashed = hashedOf, "Struct.embedded") \o
      Tag(~p.nitErr /\ (p.nit = nitOf \/ (c2 = Empty /\ p.nit = << <<0, 99, FALSE, FALSE>> >>)),
          "Struct.nodeIterator") \o
      Tag(~p.commitErr /\ p.commit = p.hash, "Inv.RootHashEqualsCommit") \o
      Tag(p.ref = p.hash, "Inv.RootIsMptRootOfStructure") \o
      Tag(p.fresh = p.hash, "Inv.RootOrderIndependent") \o
      Tag((c2 = Empty) <=> (p.hash = EmptyRootHex), "Inv.RootEmpty")

JudgeInv(e, c2) ==
  IF c2 \in DOMAIN Cache
    THEN IF Cache[c2] = ProjKey(e.proj) THEN <<>>
         ELSE Tag(Cache[c2][1] = e.proj.hash, "Inv.RootHistoryIndependent") \o FullInv(e, c2)
    ELSE FullInv(e, c2)

(* A large family (thousands of fixed-length keys, 33-byte values): one NodeDatabase.Commit that  *)
(* spans several batch writes, then the root re-opened on a fresh NodeDatabase over the disk      *)
(* store.  The reload clause of the property on a content the key universe cannot express: every   *)
(* pair reads back, iteration yields exactly the pairs in ascending order, and the root reported   *)
(* before the flush = root of the reloaded trie = digest of the structure found on disk under the  *)
(* harness's own primitives = root of a fresh real trie filled in sorted order.                    *)
JudgeBulk(e) ==
  LET b == e.bulk IN
  Tag(b.panic = "" /\ ~b.commitErr /\ ~b.flushErr, "Inv.CallCompletes") \o
  Tag(~b.openErr /\ b.missing = 0 /\ b.wrong = 0, "Inv.BulkReadsAfterReload") \o
  Tag(~b.openErr /\ b.iterated = b.n /\ b.iterWrong = 0 /\ b.ascending, "Inv.BulkIterationAfterReload") \o
  Tag(b.rootReload = b.rootLive /\ b.ref = b.rootLive /\ b.fresh = b.rootLive, "Inv.BulkRootAfterReload")

Judge(e) ==
  LET c2 == Obs(e) IN
  IF e.event = "Bulk" THEN JudgeBulk(e) ELSE
  Tag(~e.panicked /\ e.proj.panic = "", "Inv.CallCompletes") \o
  (IF ~Sane(c2) THEN <<"Inv.ReadsKnownValue">>
   ELSE JudgeStep(e, c2) \o JudgeInv(e, c2) \o
        JudgeVersions(e, IF e.event = "Reset" THEN e.ops ELSE Append(opsSoFar, <<e.event, e.k, e.v>>)))

(* The iteration clause read literally (ascending order of the key bytes).  Judged apart from  *)
(* the other judgements: it fails on the unchanged code exactly when a live key is a proper    *)
(* prefix of another (known finding), and must neither block the cache nor hide other tags.    *)
JudgeByteOrder(e) ==
  LET c2 == Obs(e) IN
  IF e.event = "Bulk" THEN <<>> ELSE
  IF ~Sane(c2) \/ e.proj.iterErr THEN <<>>
  ELSE Tag(e.proj.iter = IterBytesOf(c2), "Inv.IterationAscendingByteOrder")

TraceInit == /\ content = Empty /\ tree = Nil /\ limit = 0 /\ prov = "built" /\ dbst = "empty"
             /\ l = 1 /\ bad = <<>> /\ prevOK = FALSE /\ opsSoFar = <<>>
             /\ TLCSet(1, [x \in {} |-> <<>>])

TraceNext ==
  /\ l <= Len(Trace)
  /\ l' = l + 1
  /\ LET e  == Trace[l]
         c2 == Obs(e)
         j  == Judge(e)
     IN  (* an event marked `fan` is one of several calls observed from the same state (the
            state of the last Reset): the specification stays in that state *)
         /\ content' = IF e.fan THEN content ELSE c2
         /\ tree' = IF e.fan THEN tree ELSE e.proj.tree
         /\ limit' = IF e.fan THEN limit
                     ELSE IF e.event = "L" THEN e.v ELSE IF e.event \in {"R", "X", "Reset"} THEN 0 ELSE limit
         /\ prevOK' = IF e.fan THEN prevOK ELSE (j = <<>>)
         /\ prov' = "built" /\ dbst' = "empty"
         /\ opsSoFar' = IF e.event = "Reset" THEN e.ops
                         ELSE IF e.fan THEN opsSoFar ELSE Append(opsSoFar, <<e.event, e.k, e.v>>)
         /\ bad' = bad \o Fresh(e.event, j \o JudgeByteOrder(e))
         /\ IF e.event # "Bulk" /\ j = <<>> /\ c2 \notin DOMAIN Cache THEN TLCSet(1, Cache @@ (c2 :> ProjKey(e.proj))) ELSE TRUE

TraceSpec == TraceInit /\ [][TraceNext]_tvars

Report == (l = Len(Trace) + 1) => PrintT(<<"VERDICT", Len(Trace), ToJson(bad)>>)
=============================================================================
