--------------------------- MODULE GroupChain ---------------------------
(***************************************************************************)
(* The group chain of go-rangers (src/core/groupchain.go) at the level of  *)
(* its store writes.                                                       *)
(*                                                                         *)
(* Persistent state (one LevelDB key space "group"):                       *)
(*   store    : id -> [pre, height]   (JSON blob stored under the id)      *)
(*   hidx     : height -> id          (generateKey(height))                *)
(*   lastRec  : id                    ("gcurrent")                         *)
(*   countRec : Nat                   ("gcount")                           *)
(* Volatile state of the running process:                                  *)
(*   count, last                      (chain.count, chain.lastGroup)       *)
(*   pc, work                         (position inside save / remove)      *)
(*                                                                         *)
(* Batched = TRUE (the repaired tree): save() and remove() hand their       *)
(* Puts/Deletes to the store as ONE batch, so a process death leaves either *)
(* all or none of them; the mirror fields follow in a second step.          *)
(* Batched = FALSE (the pinned tree, negative control): they are sequences  *)
(* of independent Puts/Deletes; each is one action here so that TLC can     *)
(* interleave a Crash between any two.                                      *)
(* The atomic operators AddAtomic / RemoveAtomic are the compositions of   *)
(* those writes and are what trace validation binds to the real calls.     *)
(*                                                                         *)
(* AsCoded selects how remove() maintains the height index:                *)
(*   FALSE  the reference the property demands: the removed group's own    *)
(*          height entry disappears;                                       *)
(*   TRUE   the pinned tree before the fix: Put(key(count), pre.Id), i.e.  *)
(*          an entry one past the old top that points at the predecessor,  *)
(*          the removed group's own entry is left dangling.                *)
(***************************************************************************)
EXTENDS Naturals, Sequences, FiniteSets, TLC

CONSTANTS Ids,        \* group ids other than genesis (small naturals >= 1)
          MaxCount,   \* bound on the number of groups on the chain
          AsCoded,    \* BOOLEAN, see above
          Crashes,    \* BOOLEAN: explore a crash between any two writes
          Batched,    \* BOOLEAN: the writes of one save()/remove() are one atomic batch
          Recheck     \* BOOLEAN: AddGroup looks the id up again under chain.lock (the repaired tree);
                      \* FALSE = only before taking it, as in the pinned tree (negative control)

Genesis == 0
None    == 99          \* "no id" (absent index entry / lookup miss)
AllIds  == Ids \cup {Genesis}

VARIABLES store, hidx, lastRec, countRec, count, last, pc, work
vars == <<store, hidx, lastRec, countRec, count, last, pc, work>>

Absent == [pre |-> None, height |-> 0, present |-> FALSE]

Init ==
  /\ store = [i \in AllIds |-> IF i = Genesis
                                THEN [pre |-> None, height |-> 0, present |-> TRUE]
                                ELSE Absent]
  /\ hidx = [h \in 0..(MaxCount + 4) |-> IF h = 0 THEN Genesis ELSE None]
  /\ lastRec = Genesis
  /\ countRec = 1
  /\ count = 1
  /\ last = Genesis
  /\ pc = "idle"
  /\ work = None

-----------------------------------------------------------------------------
(* Lookups, as the API answers them                                        *)

ById(s, g) == IF g \in AllIds /\ s[g].present THEN g ELSE None

(* getGroupByHeight: index entry, then the blob under that id *)
ByHeight(s, hx, h) == IF hx[h] = None THEN None ELSE ById(s, hx[h])

RECURSIVE WalkBack(_, _, _)
WalkBack(s, g, fuel) ==
  IF g = None \/ fuel = 0 \/ ~s[g].present THEN <<>>
  ELSE <<g>> \o WalkBack(s, s[g].pre, fuel - 1)

(* ids from the last group back to genesis, as Iterator/MovePre yields them *)
ListFrom(s, g) == WalkBack(s, g, Cardinality(AllIds) + 1)

-----------------------------------------------------------------------------
(* AddGroup(g): guards of AddGroup, then the four writes of save()         *)

CanAdd(g) == /\ pc = "idle"
             /\ g \in Ids
             /\ ~store[g].present
             /\ count < MaxCount

AddBegin(g) ==
  /\ ~Batched
  /\ CanAdd(g)
  /\ store' = [store EXCEPT ![g] = [pre |-> last, height |-> count, present |-> TRUE]]
  /\ pc' = "add1" /\ work' = g
  /\ UNCHANGED <<hidx, lastRec, countRec, count, last>>

AddPutLast ==
  /\ pc = "add1"
  /\ lastRec' = work
  /\ pc' = "add2"
  /\ UNCHANGED <<store, hidx, countRec, count, last, work>>

AddPutIndex ==
  /\ pc = "add2"
  /\ hidx' = [hidx EXCEPT ![count] = work]
  /\ count' = count + 1
  /\ pc' = "add3"
  /\ UNCHANGED <<store, lastRec, countRec, last, work>>

AddPutCount ==
  /\ pc = "add3"
  /\ countRec' = count
  /\ last' = work
  /\ pc' = "idle" /\ work' = None
  /\ UNCHANGED <<store, hidx, lastRec, count>>

(* RemoveLast: writes of remove() in code order *)
CanRemove == pc = "idle" /\ last # Genesis /\ store[last].present
             /\ store[last].pre # None /\ store[store[last].pre].present

RemDelete ==
  /\ ~Batched
  /\ CanRemove
  /\ work' = store[last].pre
  /\ store' = [store EXCEPT ![last] = Absent]
  /\ pc' = "rem1"
  /\ UNCHANGED <<hidx, lastRec, countRec, count, last>>

RemPutLast ==
  /\ pc = "rem1"
  /\ lastRec' = work
  /\ pc' = "rem2"
  /\ UNCHANGED <<store, hidx, countRec, count, last, work>>

RemIndex ==
  /\ pc = "rem2"
  /\ hidx' = IF AsCoded
               THEN [hidx EXCEPT ![count] = work]          \* Put(key(count), pre.Id)
               ELSE [hidx EXCEPT ![count - 1] = None]      \* Delete(key(count-1))
  /\ count' = count - 1
  /\ pc' = "rem3"
  /\ UNCHANGED <<store, lastRec, countRec, last, work>>

RemPutCount ==
  /\ pc = "rem3"
  /\ countRec' = count
  /\ last' = work
  /\ pc' = "idle" /\ work' = None
  /\ UNCHANGED <<store, hidx, lastRec, count>>

(* the repaired tree: one batch, then the mirror fields *)
AddBatch(g) ==
  /\ Batched
  /\ CanAdd(g)
  /\ store' = [store EXCEPT ![g] = [pre |-> last, height |-> count, present |-> TRUE]]
  /\ lastRec' = g
  /\ hidx' = [hidx EXCEPT ![count] = g]
  /\ countRec' = count + 1
  /\ pc' = "addv" /\ work' = g
  /\ UNCHANGED <<count, last>>

AddMirror ==
  /\ pc = "addv"
  /\ count' = count + 1 /\ last' = work
  /\ pc' = "idle" /\ work' = None
  /\ UNCHANGED <<store, hidx, lastRec, countRec>>

RemBatch ==
  /\ Batched
  /\ CanRemove
  /\ store' = [store EXCEPT ![last] = Absent]
  /\ lastRec' = store[last].pre
  /\ hidx' = [hidx EXCEPT ![count - 1] = None]
  /\ countRec' = count - 1
  /\ pc' = "remv" /\ work' = store[last].pre
  /\ UNCHANGED <<count, last>>

RemMirror ==
  /\ pc = "remv"
  /\ count' = count - 1 /\ last' = work
  /\ pc' = "idle" /\ work' = None
  /\ UNCHANGED <<store, hidx, lastRec, countRec>>

(* Restart at a quiescent point: volatile state is rebuilt from the records *)
Restart ==
  /\ pc = "idle"
  /\ last' = lastRec
  /\ count' = countRec
  /\ UNCHANGED <<store, hidx, lastRec, countRec, pc, work>>

(* Process death anywhere, followed by initGroupChain over the same store *)
Crash ==
  /\ Crashes
  /\ pc # "idle"
  /\ last' = lastRec
  /\ count' = countRec
  /\ pc' = "idle" /\ work' = None
  /\ UNCHANGED <<store, hidx, lastRec, countRec>>

Next ==
  \/ \E g \in Ids : AddBegin(g)
  \/ AddPutLast \/ AddPutIndex \/ AddPutCount
  \/ RemDelete \/ RemPutLast \/ RemIndex \/ RemPutCount
  \/ (\E g \in Ids : AddBatch(g)) \/ AddMirror \/ RemBatch \/ RemMirror
  \/ Restart \/ Crash

Spec == Init /\ [][Next]_vars

-----------------------------------------------------------------------------
(* The property, on any (store, hidx, count, last)                         *)

Linked(s, c, lg)      == LET L == ListFrom(s, lg) IN
                           Len(L) >= 1 /\ L[Len(L)] = Genesis
CountIsLength(s, c, lg) == Len(ListFrom(s, lg)) = c
IndexExact(s, hx, c, lg) ==
  LET L == ListFrom(s, lg) IN
    /\ \A i \in 0..(c - 1) : i < Len(L) => ByHeight(s, hx, i) = L[Len(L) - i]
    /\ \A i \in c..(c + 3) : i \in DOMAIN hx => ByHeight(s, hx, i) = None
AllById(s, lg) == \A i \in 1..Len(ListFrom(s, lg)) :
                     ById(s, ListFrom(s, lg)[i]) = ListFrom(s, lg)[i]
HeightsAgree(s, lg) ==
  LET L == ListFrom(s, lg) IN \A i \in 1..Len(L) : s[L[i]].height = Len(L) - i

Quiescent == pc = "idle"

InvLinked        == Quiescent => Linked(store, count, last)
InvCountIsLength == Quiescent => CountIsLength(store, count, last)
InvIndexExact    == Quiescent => IndexExact(store, hidx, count, last)
InvById          == Quiescent => AllById(store, last)
InvHeights       == Quiescent => HeightsAgree(store, last)
InvRecords       == Quiescent => (lastRec = last /\ countRec = count)

TypeOK == /\ count \in 0..MaxCount /\ countRec \in 0..MaxCount
          /\ last \in AllIds /\ lastRec \in AllIds
          /\ pc \in {"idle","add1","add2","add3","rem1","rem2","rem3","addv","remv"}

-----------------------------------------------------------------------------
(* Atomic compositions, used by trace validation (GroupChainTrace)          *)

AddPost(s, hx, c, lg, g) ==
  [store |-> [s EXCEPT ![g] = [pre |-> lg, height |-> c, present |-> TRUE]],
   hidx  |-> [hx EXCEPT ![c] = g],
   count |-> c + 1,
   last  |-> g]

RemovePost(s, hx, c, lg) ==
  [store |-> [s EXCEPT ![lg] = Absent],
   hidx  |-> [hx EXCEPT ![c - 1] = None],
   count |-> c - 1,
   last  |-> s[lg].pre]

(* Group fork switch (fork_group.go: triggerOnChain): remove from the top down to the common
   ancestor anc (removeFromCommonAncestor), then AddGroup the fork's groups in order; the first
   group that cannot be added (its id is still on the chain) stops the switch. *)
RECURSIVE RemoveDownTo(_, _)
RemoveDownTo(r, anc) ==      \* r = [store, hidx, count, last]
  IF r.last = anc \/ r.last = Genesis \/ ~r.store[r.last].present THEN r
  ELSE RemoveDownTo(RemovePost(r.store, r.hidx, r.count, r.last), anc)
RECURSIVE AddAll(_, _)
AddAll(r, ids) ==
  IF ids = <<>> THEN r
  ELSE IF r.store[Head(ids)].present \/ r.count >= MaxCount THEN r
  ELSE AddAll(AddPost(r.store, r.hidx, r.count, r.last, Head(ids)), Tail(ids))
ForkPost(s, hx, c, lg, anc, ids) ==
  AddAll(RemoveDownTo([store |-> s, hidx |-> hx, count |-> c, last |-> lg], anc), ids)

(* the same with the predecessor each group of the fork NAMES (a fork received from a peer need not
   be a line: a group may name the common ancestor or any other group as its predecessor).  A group
   is linked only if the predecessor it names is the current last group; the first refusal stops
   the switch.  pres[i] = 98: the group names the group before it in the fork (the ancestor for the
   first). *)
RECURSIVE AddAllP(_, _, _, _)
AddAllP(r, ids, pres, prev) ==
  IF ids = <<>> THEN r
  ELSE LET named == IF Head(pres) = 98 THEN prev ELSE Head(pres) IN
       IF r.store[Head(ids)].present \/ r.count >= MaxCount \/ named # r.last THEN r
       ELSE AddAllP(AddPost(r.store, r.hidx, r.count, r.last, Head(ids)), Tail(ids), Tail(pres), Head(ids))
ForkPostP(s, hx, c, lg, anc, ids, pres) ==
  AddAllP(RemoveDownTo([store |-> s, hidx |-> hx, count |-> c, last |-> lg], anc), ids, pres, anc)

(* Process death inside a fork switch (before any store write of it) followed by a restart: the
   stores are those of some prefix of its removals, or of all removals and some prefix of its adds *)
RECURSIVE RemoveStates(_, _)
RemoveStates(r, anc) ==
  IF r.last = anc \/ r.last = Genesis \/ ~r.store[r.last].present THEN {r}
  ELSE {r} \cup RemoveStates(RemovePost(r.store, r.hidx, r.count, r.last), anc)
RECURSIVE AddStatesP(_, _, _, _)
AddStatesP(r, ids, pres, prev) ==
  IF ids = <<>> THEN {r}
  ELSE LET named == IF Head(pres) = 98 THEN prev ELSE Head(pres) IN
       IF r.store[Head(ids)].present \/ r.count >= MaxCount \/ named # r.last THEN {r}
       ELSE {r} \cup AddStatesP(AddPost(r.store, r.hidx, r.count, r.last, Head(ids)), Tail(ids), Tail(pres), Head(ids))
ForkStatesP(s, hx, c, lg, anc, ids, pres) ==
  LET r0 == [store |-> s, hidx |-> hx, count |-> c, last |-> lg] IN
  RemoveStates(r0, anc) \cup AddStatesP(RemoveDownTo(r0, anc), ids, pres, anc)

(* Overlapping calls.  AddGroup(g) runs in two critical sections: (1) without the lock: the id
   must not be on the chain yet (Has), then consensusHelper.CheckGroup - where a call can stay
   for a long time; (2) under chain.lock: the predecessor named by the group must be the last
   group, then save().  removeFromCommonAncestor runs entirely under chain.lock.  Two calls
   that are both in (1) when the first enters (2):
     a = [g, pre], b = [op ("Add" | "Remove"), g, pre], first \in {"a", "b"}: whose locked
     section runs first (for b = Remove: "b" = the removal happens while a is in CheckGroup).
   EarlyPre = TRUE is a variant that compares the predecessor in section (1) (negative control). *)
Rec4(s, hx, c, lg) == [store |-> s, hidx |-> hx, count |-> c, last |-> lg]
AddLocked(r, g, p, passedHas, earlyOk, early) ==
  IF ~passedHas THEN [r |-> r, ok |-> FALSE]
  ELSE IF (IF early THEN earlyOk ELSE p = r.last) /\ r.count < MaxCount /\ (Recheck => ~r.store[g].present)
         THEN [r |-> [AddPost(r.store, r.hidx, r.count, r.last, g) EXCEPT !.store[g].pre = p], ok |-> TRUE]  \* the record keeps the predecessor the group NAMES
         ELSE [r |-> r, ok |-> FALSE]
RemoveLocked(r) == IF r.last # Genesis /\ r.store[r.last].present
                     THEN [r |-> RemovePost(r.store, r.hidx, r.count, r.last), ok |-> TRUE]
                     ELSE [r |-> r, ok |-> FALSE]
ConcPost(s, hx, c, lg, a, b, first, early) ==
  LET r0   == Rec4(s, hx, c, lg)
      hasA == ~s[a.g].present
      hasB == b.op = "Add" /\ ~s[b.g].present
      stepA(r) == AddLocked(r, a.g, a.pre, hasA, a.pre = lg, early)
      stepB(r) == IF b.op = "Add" THEN AddLocked(r, b.g, b.pre, hasB, b.pre = lg, early) ELSE RemoveLocked(r)
  IN IF first = "a"
       THEN LET x == stepA(r0)  y == stepB(x.r) IN [r |-> y.r, okA |-> x.ok, okB |-> y.ok]
       ELSE LET y == stepB(r0)  x == stepA(y.r) IN [r |-> x.r, okA |-> x.ok, okB |-> y.ok]

(* An AddGroup that overlaps a fork switch which removes at least two groups: the call passes its
   unlocked id check after the first removal (the driver holds the switch in front of the second
   removal's store write and starts the call there), then waits for chain.lock, which
   removeFromCommonAncestor holds over ALL removals; it gets the lock before, between or after
   the adds of the fork's groups (each AddGroup takes the lock on its own).  j = number of fork
   groups added before it.  A call that was scheduled late and found its id on the chain is the
   plain switch. *)
RECURSIVE ForkAddsWith(_, _, _, _, _, _, _)
ForkAddsWith(r, ids, pres, prev, j, a, hasA) ==
  LET r1 == IF j = 0 THEN AddLocked(r, a.g, a.pre, hasA, FALSE, FALSE).r ELSE r IN
  IF ids = <<>> THEN r1
  ELSE LET named == IF Head(pres) = 98 THEN prev ELSE Head(pres) IN
       IF r1.store[Head(ids)].present \/ r1.count >= MaxCount \/ named # r1.last
         THEN (IF j <= 0 THEN r1 ELSE AddLocked(r1, a.g, a.pre, hasA, FALSE, FALSE).r)
         ELSE ForkAddsWith(AddPost(r1.store, r1.hidx, r1.count, r1.last, Head(ids)),
                           Tail(ids), Tail(pres), Head(ids), j - 1, a, hasA)
ConcForkOutcomes(s, hx, c, lg, anc, ids, pres, a) ==
  LET r0   == Rec4(s, hx, c, lg)
      r1   == RemovePost(s, hx, c, lg)
      hasA == ~r1.store[a.g].present
      rd   == RemoveDownTo(r0, anc)
  IN {ForkAddsWith(rd, ids, pres, anc, j, a, hasA) : j \in 0..Len(ids)} \cup {ForkPostP(s, hx, c, lg, anc, ids, pres)}
ConcForkAt(s, hx, c, lg, anc, ids, pres, a, j) ==      \* the position is known (the driver parks the call)
  LET r1 == RemovePost(s, hx, c, lg) IN
  ForkAddsWith(RemoveDownTo(Rec4(s, hx, c, lg), anc), ids, pres, anc, j, a, ~r1.store[a.g].present)

(* negative control: chain.lock taken per removed group instead of around the whole range - the
   call's locked section lands after the first removal, the loop goes on by height *)
RemoveAtPost(r, h) ==
  LET g == r.hidx[h] IN
  IF g = None \/ ~r.store[g].present THEN r
  ELSE [store |-> [r.store EXCEPT ![g] = Absent], hidx |-> [r.hidx EXCEPT ![h] = None],
        count |-> r.count - 1, last |-> r.store[g].pre]
RECURSIVE RemoveHeights(_, _, _)
RemoveHeights(r, h, low) == IF h <= low THEN r ELSE RemoveHeights(RemoveAtPost(r, h), h - 1, low)
ConcForkSplit(s, hx, c, lg, anc, ids, pres, a) ==
  LET r1   == RemovePost(s, hx, c, lg)
      hasA == ~r1.store[a.g].present
      r2   == AddLocked(r1, a.g, a.pre, hasA, FALSE, FALSE).r
      r3   == RemoveHeights(r2, c - 2, s[anc].height)
  IN AddAllP(r3, ids, pres, anc)
=============================================================================
