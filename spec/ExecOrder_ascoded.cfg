SPECIFICATION Spec
CONSTANTS
  MaxBal = 3
  Sorted = FALSE
INVARIANTS Confluent
CHECK_DEADLOCK FALSE
