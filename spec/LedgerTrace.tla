---------------------------- MODULE LedgerTrace ----------------------------
(***************************************************************************)
(* Trace validation for the native-token ledger (C06).  Events:            *)
(*   Reset(slots)        fresh genesis state: every balance slot of the    *)
(*                       native token contract (base-10000 digits)         *)
(*   Block(kind, ok, lockTokens, burn, matured, slots)                     *)
(*                       one transaction (or a maturity block) executed by *)
(*                       the real executors: lockTokens = stake locked by  *)
(*                       an accepted miner apply, burn = balance of a      *)
(*                       contract that self-destructed naming itself,      *)
(*                       matured = escrow entries credited at this height  *)
(* Judgement (exact arithmetic on digit sequences, module BigNat):         *)
(*   Sum(slots') = Sum(slots) - lockTokens*10^18 - burn + Sum(matured)     *)
(*                 (+ extraPlus - extraMinus: the reward block 36000 itself *)
(*                 adds to the escrow it pays out, see harness/cmd/c06)     *)
(* and no slot exceeds what the total supply allows (no wrap).  lockTokens *)
(* is the growth of the registered stakes in the block (observed), and at a *)
(* refund height the matured escrow must equal what left the stake records  *)
(* for that height (expectMatured): stake + escrow + liquid is conserved.   *)
(***************************************************************************)
EXTENDS BigNat, Json, TLC

Trace == ndJsonDeserialize("trace.ndjson")
B == 10000

VARIABLES l, bad, total
tvars == <<l, bad, total>>

RECURSIVE SumSeq(_, _)
SumSeq(xs, i) == IF i > Len(xs) THEN <<>> ELSE Add(xs[i], SumSeq(xs, i + 1), B)
Total(xs) == SumSeq(xs, 1)

Scale(n) == MulSmall(ShiftUp(FromNat(n, B), 4), 100, B)     \* n * 10^18
(* 10^12 tokens in 18 decimals: far above everything the dev genesis holds, far below 2^255 *)
Ceiling == MulSmall(Scale(1000000000), 1000, B)

Tag(c, t) == IF c THEN <<>> ELSE <<t>>

JudgeBlock(e) ==
  LET post == Total(e.slots)
      plus == Add(Add(total, Total(e.matured), B), Total(e.extraPlus), B)
      minus == Add(Add(Scale(e.lockTokens), Norm(e.burn), B), Total(e.extraMinus), B)
      exp  == Sub(plus, minus, B)
      canSub == Le(minus, plus)
  IN  (IF ~canSub THEN <<"Inv.SumDelta.unexplained">>
       ELSE IF Eq(post, exp) THEN <<>>
       ELSE IF Lt(exp, post) THEN <<"Inv.SumIncreased." \o e.kind>>
       ELSE <<"Inv.SumDecreased." \o e.kind>>) \o
      Tag(\A i \in 1..Len(e.slots) : Lt(e.slots[i], Ceiling), "Inv.NoWrap." \o e.kind) \o
      (* what is paid out at a refund height is exactly what left the stake records for it *)
      (IF e.kind = "Mature" THEN Tag(Eq(Total(e.matured), Norm(e.expectMatured)), "Inv.RefundEqualsStakeReleased") ELSE <<>>)

Judge(e) == IF e.event = "Block" THEN JudgeBlock(e) ELSE <<>>

TraceInit == l = 1 /\ bad = <<>> /\ total = <<>>

TraceNext ==
  /\ l <= Len(Trace)
  /\ l' = l + 1
  /\ LET e == Trace[l]  J == Judge(e) IN
       /\ bad' = bad \o [i \in 1..Len(J) |-> <<l, e.event, J[i]>>]
       /\ total' = Total(e.slots)

TraceSpec == TraceInit /\ [][TraceNext]_tvars
Report == (l = Len(Trace) + 1) => PrintT(<<"VERDICT", Len(Trace), ToJson(bad)>>)
=============================================================================
