---------------------------- MODULE WireCodecGen ----------------------------
(***************************************************************************)
(* Exhaustive check of the normalisation table of WireCodec.tla and        *)
(* generator of the case lattice replayed by harness/cmd/c09.              *)
(*                                                                         *)
(* phase 0: seeds; phase 1: one case per state                             *)
(*   [op |-> "rt", kind, cls]   a value: the named fields take the named   *)
(*        class, every other field is typical.  Singles: every field x     *)
(*        every class; pairs: every two fields x their classes (Pairs).    *)
(*   [op |-> "presence", kind, present, hpresent, txs, tv]  a message in   *)
(*        which exactly the listed field numbers are written (hpresent:    *)
(*        the nested header, txs: one set per nested transaction, tv: what *)
(*        the time fields hold).  Transaction: all 2^15 subsets; header:   *)
(*        up to MaxAbsent absent / up to 2 present, time-field variants;   *)
(*        group: header subsets x group subsets; block; transaction list.  *)
(*   cardinality: repeated fields with 0, 1, 2, limit-1, limit, limit+1    *)
(*        elements for the limits the node enforces when it builds them.   *)
(*   [op |-> "retain", kind, cls, inter]  serialise, keep the bytes, let a *)
(*        different value be serialised in between (same / other           *)
(*        goroutine), then parse the kept bytes.                           *)
(* Theorems: one pass is idempotent on classes, lands in the producible    *)
(* classes, keeps the content of producible classes and keeps hashed       *)
(* fields of producible classes exactly.                                   *)
(***************************************************************************)
EXTENDS WireCodec, TLC, Json

CONSTANTS Pairs,        \* "none" | "some" | "all": which two-field combinations are generated
          MaxAbsent,    \* header presence: up to this many absent fields
          GroupProduct, \* TRUE: header subsets x group subsets, FALSE: their sum
          OddAll,       \* TRUE: every transaction subset also with odd field contents
          MaxSeq        \* lives of an object: up to this many H / C / M steps

VARIABLES phase, c
vars == <<phase, c>>

(* field names in a fixed order (TLC cannot order strings) *)
TxSeq == <<"Data", "Nonce", "Source", "Target", "Type", "Hash", "ExtraData", "ExtraDataType", "Sign", "Time",
           "RequestId", "SocketRequestId", "SubTransactions", "SubHash", "ChainId">>
HeaderSeq == <<"Hash", "Height", "PreHash", "PreTime", "ProveValue", "TotalQN", "CurTime", "Castor", "GroupId",
               "Signature", "Nonce", "RequestIds", "Transactions", "TxTree", "ReceiptTree", "StateTree", "ExtraData",
               "Random", "EvictedTxs">>
GHeaderSeq == <<"Hash", "Parent", "PreGroup", "CreateBlockHash", "BeginTime", "MemberRoot", "CreateHeight",
                "ReadyHeight", "WorkHeight", "DismissHeight", "Extends">>
GroupSeq == <<"Id", "PubKey", "Signature", "Members", "GroupHeight">>

(* per message kind: sequence of <<key in the case, field kind>> *)
KeysOf(kind) ==
  CASE kind \in {"tx", "txs"} -> [i \in 1..Len(TxSeq) |-> <<TxSeq[i], TxKinds[TxSeq[i]]>>]
    [] kind = "header" -> [i \in 1..Len(HeaderSeq) |-> <<HeaderSeq[i], HeaderKinds[HeaderSeq[i]]>>]
    [] kind = "group" -> [i \in 1..Len(GHeaderSeq) |-> <<"H." \o GHeaderSeq[i], GHeaderKinds[GHeaderSeq[i]]>>]
                         \o [i \in 1..Len(GroupSeq) |-> <<GroupSeq[i], GroupKinds[GroupSeq[i]]>>]
    [] kind = "block" -> [i \in 1..Len(HeaderSeq) |-> <<HeaderSeq[i], HeaderKinds[HeaderSeq[i]]>>]
                         \o [i \in 1..Len(TxSeq) |-> <<"T." \o TxSeq[i], TxKinds[TxSeq[i]]>>]
Kinds == {"tx", "txs", "header", "group", "block"}

(* kinds of field worth combining pairwise in the quick tier *)
Rich == {"time", "big", "bytes", "hashes", "hashes2", "map", "json", "sign", "blist"}
PairOk(k1, k2) == Pairs = "all" \/ (Pairs = "some" /\ k1 \in Rich /\ k2 \in Rich)

Singles(kind, i) ==
  LET K == KeysOf(kind) IN
  { [op |-> "rt", kind |-> kind, cls |-> [g \in {K[i][1]} |-> cl]] : cl \in ClassesOf(K[i][2]) }
PairsOf(kind, i) ==
  LET K == KeysOf(kind) IN
  UNION { IF ~PairOk(K[i][2], K[j][2]) THEN {}
          ELSE { [op |-> "rt", kind |-> kind, cls |-> [g \in {K[i][1], K[j][1]} |-> IF g = K[i][1] THEN c1 ELSE c2]] :
                   c1 \in ClassesOf(K[i][2]), c2 \in ClassesOf(K[j][2]) }
          : j \in (i + 1)..Len(K) }
(* cardinality boundaries of the repeated fields ("#<field>" |-> number of elements) *)
Card(kind, key, n) == [op |-> "rt", kind |-> kind, cls |-> [g \in {key} |-> ToString(n)]]
CardCases ==
  { Card("block", "#txs", n) : n \in CardPoints(TxCountPerBlock) }
  \cup { Card("txs", "#list", n) : n \in CardPoints(TxCountPerBlock) }
  \cup { Card("header", "#Transactions", n) : n \in CardPoints(TxCountPerBlock) }
  \cup { Card("header", "#EvictedTxs", n) : n \in CardPoints(TxCountPerBlock) }
  \cup { Card("header", "#RequestIds", n) : n \in {0, 1, 2, 50} }
  \cup { Card("group", "#Members", n) : n \in CardPoints(GroupMaxMembers) \cup CardPoints(GroupMinMembers) }
  \cup { Card("tx", "#SubTransactions", n) : n \in {0, 1, 2, 50} }
CardKeys == {"#txs", "#list", "#Transactions", "#EvictedTxs", "#RequestIds", "#Members", "#SubTransactions", "#a"}

(* retention: serialise the value, keep the bytes, serialise a different value of the same kind in
   between (inter), then parse the kept bytes *)
RetainCases ==
  { [op |-> "retain", kind |-> k, cls |-> [g \in {"#a"} |-> "typ"], inter |-> i] :
      k \in Kinds \cup {"member"}, i \in Interleavings \ {"none"} }
  \cup { [op |-> "retain", kind |-> k, cls |-> [g \in {key} |-> ToString(n)], inter |-> i] :
           <<k, key>> \in {<<"block", "#txs">>, <<"txs", "#list">>}, n \in {0, 2, TxCountPerBlock}, i \in Interleavings \ {"none"} }
  \cup { [op |-> "rt", kind |-> "member", cls |-> [g \in {f} |-> cl]] : f \in {"Id", "PubKey"}, cl \in ClassesOf("bytes") \ {"nil"} }      \* both are `required` in x.proto

(* lives of one object: every order of H / C / M up to MaxSeq steps, the M steps walking through all
   fields of the kind (hashed or not) from every starting field, then Hash := GenHash(), wire, GenHash *)
HashFieldSeq(kind) ==
  CASE kind = "header" -> HeaderSeq [] kind = "tx" -> SelectSeq(TxSeq, LAMBDA f : f # "Hash")
    [] kind = "gheader" -> SelectSeq(GHeaderSeq, LAMBDA f : f # "Hash")
LifeSteps(kind, pat, f0) ==
  LET F == HashFieldSeq(kind) IN
  [i \in 1..Len(pat) |-> IF pat[i] = "M" THEN [o |-> "M", f |-> F[((f0 + i - 2) % Len(F)) + 1]] ELSE [o |-> pat[i], f |-> ""]]
  \o <<[o |-> "S", f |-> ""], [o |-> "H", f |-> ""], [o |-> "W", f |-> ""], [o |-> "H", f |-> ""]>>
Lives(kind) ==
  { [op |-> "hashseq", kind |-> kind, steps |-> LifeSteps(kind, pat, f0)] :
      pat \in UNION { [1..n -> {"H", "C", "M"}] : n \in 1..MaxSeq }, f0 \in 1..Len(HashFieldSeq(kind)) }

BlockShapes == { [op |-> "rt", kind |-> "block", cls |-> [g \in {"#txs"} |-> n]] : n \in {"nil", "empty", "two"} }

(* ------------------------------------------------------------- presence *)
(* cv: content of the fields that are written: "typical" (well-formed) or "odd" (a signature that is
   not 65 bytes, hashes of the wrong length, byte fields that should hold JSON but do not, an empty
   prove value): the parsers must stay total whatever the present fields hold *)
PresC(kind, p, hp, txs, tv, cv) ==
  [op |-> "presence", kind |-> kind, present |-> p, hpresent |-> hp, txs |-> txs, tv |-> tv, cv |-> cv]
Pres(kind, p, hp, txs, tv) == PresC(kind, p, hp, txs, tv, "typical")

UpTo(S, n) == {T \in SUBSET S : Cardinality(T) <= n}
AbsentUpTo(S, n) == {S \ T : T \in UpTo(S, n)}

TxPresence(low) == { Pres("tx", low \cup hi, {}, <<>>, "valid") : hi \in SUBSET (5..15) }

HeaderPresence ==
  { Pres("header", p, {}, <<>>, "valid") : p \in AbsentUpTo(HeaderNums, MaxAbsent) \cup UpTo(HeaderNums, 2) }
  \cup { Pres("header", p, {}, <<>>, tv) : p \in {HeaderNums, HeaderNums \ {4}, HeaderNums \ {7}, HeaderNums \ {4, 7}, {4, 7}, {4}, {7},
                                                    {2, 4, 6, 7, 11}, {2, 6, 7, 11}, {2, 4, 6, 11}},
                                             tv \in {"empty", "garbage"} }
GroupPresence ==
  IF GroupProduct THEN { Pres("group", p, hp, <<>>, "valid") : p \in SUBSET GroupNums, hp \in SUBSET GHeaderNums }
  ELSE { Pres("group", GroupNums, hp, <<>>, "valid") : hp \in SUBSET GHeaderNums }
       \cup { Pres("group", p, GHeaderNums, <<>>, "valid") : p \in SUBSET GroupNums }
       \cup { Pres("group", p, {6, 7, 8}, <<>>, tv) : p \in {{1}, {1, 6}}, tv \in {"valid", "empty", "garbage"} }
TxPatterns == {TxNums, {5}, TxNums \ {5}, TxNums \ {2}, {2, 5, 8, 10, 11, 15}, {}}
BlockPresence ==
  { Pres("block", {1}, hp, txs, tv) :
      hp \in AbsentUpTo(HeaderNums, 1) \cup {{}, {2, 4, 6, 7, 11}},
      txs \in {<<>>} \cup {<<t>> : t \in TxPatterns} \cup {<<TxNums, t>> : t \in TxPatterns},
      tv \in {"valid", "garbage"} }
  \cup { Pres("block", {}, {}, txs, "valid") : txs \in {<<>>, <<TxNums>>} }
TxsPresence ==
  { Pres("txs", {}, {}, txs, "valid") :
      txs \in {<<>>} \cup {<<t>> : t \in TxPatterns} \cup {<<t, u>> : t, u \in TxPatterns} }

OddTx == {"odd:Sign", "odd:SignEmpty", "odd:SubTransactions", "odd:Hash", "odd:SubHash"}
OddHeader == {"odd:RequestIds", "odd:ProveValue", "odd:Hash", "odd:TxTree", "odd:PreHash"}
OddSets(S) == IF OddAll THEN SUBSET S ELSE AbsentUpTo(S, 3) \cup UpTo(S, 3)
OddPresence ==
  { PresC("tx", p, {}, <<>>, "valid", "odd") : p \in OddSets(TxNums) }
  \cup { PresC("header", p, {}, <<>>, "valid", "odd") : p \in AbsentUpTo(HeaderNums, 2) \cup UpTo(HeaderNums, 3) }
  \cup { PresC("txs", {}, {}, txs, "valid", "odd") : txs \in {<<t>> : t \in TxPatterns \cup {{5, 9}, {5, 9, 13}}}
                                                             \cup {<<TxNums, t>> : t \in {{5, 9}, TxNums \ {2}}} }
  \cup { PresC("block", {1}, HeaderNums, txs, "valid", "odd") : txs \in {<<t>> : t \in TxPatterns \cup {{5, 9}, {5, 9, 13}}} }
  \cup { PresC("group", p, hp, <<>>, "valid", "odd") : p \in {GroupNums, {1}}, hp \in {GHeaderNums, {6, 7}} }
  (* one ill-formed field at a time ("odd:<Field>"; SignEmpty: a present but empty signature), crossed
     with no / one / two absent fields, alone and nested in a list and a block *)
  \cup { PresC("tx", TxNums \ a, {}, <<>>, "valid", cv) : a \in UpTo(TxNums, 2), cv \in OddTx }
  \cup { PresC("txs", {}, {}, <<TxNums, TxNums \ a>>, "valid", cv) : a \in UpTo(TxNums, 1), cv \in OddTx }
  \cup { PresC("block", {1}, HeaderNums, <<TxNums \ a>>, "valid", cv) : a \in UpTo(TxNums, 1), cv \in OddTx }
  \cup { PresC("header", HeaderNums \ a, {}, <<>>, "valid", cv) : a \in UpTo(HeaderNums, 2), cv \in OddHeader }
  \cup { PresC("block", {1}, HeaderNums \ a, <<TxNums>>, "valid", cv) : a \in UpTo(HeaderNums, 1), cv \in OddHeader }
  \cup { Pres("header", HeaderNums \ a, {}, <<>>, tv) : a \in UpTo(HeaderNums, 1), tv \in {"empty", "garbage"} }

(* ------------------------------------------------------------ state space *)
Seeds == UNION { { [op |-> "seed", fam |-> "rt", kind |-> k, i |-> i] : i \in 1..Len(KeysOf(k)) } : k \in Kinds }
         \cup { [op |-> "seed", fam |-> "txp", low |-> l] : l \in SUBSET (1..4) }
         \cup { [op |-> "seed", fam |-> f] : f \in {"headerp", "groupp", "blockp", "txsp", "blockshape", "oddp", "card", "retain"} }
         \cup { [op |-> "seed", fam |-> "life", kind |-> k] : k \in {"header", "tx", "gheader"} }

CasesOf(s) ==
  CASE s.fam = "rt" -> Singles(s.kind, s.i) \cup PairsOf(s.kind, s.i)
    [] s.fam = "txp" -> TxPresence(s.low)
    [] s.fam = "headerp" -> HeaderPresence
    [] s.fam = "groupp" -> GroupPresence
    [] s.fam = "blockp" -> BlockPresence
    [] s.fam = "txsp" -> TxsPresence
    [] s.fam = "blockshape" -> BlockShapes
    [] s.fam = "oddp" -> OddPresence
    [] s.fam = "card" -> CardCases
    [] s.fam = "retain" -> RetainCases
    [] s.fam = "life" -> Lives(s.kind)

Init == phase = 0 /\ c \in Seeds
Next == phase = 0 /\ phase' = 1 /\ c' \in CasesOf(c)
Spec == Init /\ [][Next]_vars

(* ---------------------------------------------------------------- theorems *)
AllFieldKinds == {"u64", "i32", "str", "hash", "bytes", "time", "big", "sign", "map", "hashes", "hashes2", "blist",
                  "json", "local", "derived"}
ClassTheorems(fk, cl) ==
  LET n == NormC(fk, cl) IN
  /\ n \in ClassesOf(fk)
  /\ NormC(fk, n) = n                                        \* one pass reaches a fixed point
  /\ ProducibleC(fk, n)                                      \* what a parser hands out is producible
  /\ (ProducibleC(fk, cl) => ContentC(fk, n) = ContentC(fk, cl))   \* lossless on producible values
  /\ (ProducibleC(fk, cl) /\ fk \notin {"time", "blist", "local", "derived"} => n = cl)   \* hashed representations survive exactly
ASSUME \A fk \in AllFieldKinds : \A cl \in ClassesOf(fk) : ClassTheorems(fk, cl)

KindOfKey(kind, key) == LET K == KeysOf(kind)
                            i == CHOOSE j \in 1..Len(K) : K[j][1] = key IN K[i][2]
AllFieldsOf(kind) == {HashFieldSeq(kind)[i] : i \in 1..Len(HashFieldSeq(kind))}
Theorems == phase = 1 =>
  IF c.op = "hashseq" THEN
       \* the digest view after the whole life is that of the final values; steps other than M never change it
       LET st0 == [f \in AllFieldsOf(c.kind) |-> 0] IN
       \A n \in 1..Len(c.steps) :
          c.steps[n].o # "M" => DigestView(c.kind, StateAfter(st0, c.steps, n)) = DigestView(c.kind, StateAfter(st0, c.steps, n - 1))
  ELSE IF c.op \in {"rt", "retain"} THEN
       /\ \A key \in DOMAIN c.cls : key \in CardKeys \/ c.kind = "member" \/ ClassTheorems(KindOfKey(c.kind, key), c.cls[key])
       /\ (c.op = "retain" => \A y \in {"another value"} : Retained(c.cls, y, c.inter) = c.cls)
  ELSE /\ ParseRef(c.kind, c.present, c.hpresent, c.txs, c.tv) \in {"object", "error"}
       /\ (c.kind = "tx" /\ c.present = TxNums => ParseRef(c.kind, c.present, c.hpresent, c.txs, c.tv) = "object")
       /\ (c.kind = "header" /\ c.present = HeaderNums /\ c.tv = "valid"
             => ParseRef(c.kind, c.present, c.hpresent, c.txs, c.tv) = "object")

(* the codec has no cardinality limit, and the retention dimension is not vacuous *)
ASSUME \A n \in CardPoints(TxCountPerBlock) \cup CardPoints(GroupMaxMembers) : NormCard(n) = n /\ ParseCard(n) = "object"
ASSUME \E i \in Interleavings : AliasedRetained("x", "y", i) # Retained("x", "y", i)

(* the life dimension is not vacuous: some life distinguishes a memoised digest from the function of the current values *)
ASSUME \E l \in Lives("header") : LET st0 == [f \in AllFieldsOf("header") |-> 0] IN
         \E n \in 1..Len(l.steps) : l.steps[n].o = "H" /\ MemoView("header", st0, l.steps, n) # DigestView("header", StateAfter(st0, l.steps, n))

Dump == phase = 1 => PrintT(<<"CASE", ToJson(c)>>)
=============================================================================
