--------------------------- MODULE EvmFramesTrace ---------------------------
(***************************************************************************)
(* Trace monitor for C12.  trace.ndjson is recorded by harness/cmd/c12     *)
(* while frame trees run as transactions, back to back, on one real        *)
(* AccountDB:                                                              *)
(*   Reset       - a new scenario (fresh state object)                     *)
(*   TxBegin     - right after AccountDB.Prepare: projection of the state, *)
(*                 the access list                                         *)
(*   Before      - a call / create instruction is about to execute (or,    *)
(*                 depth 0, the transaction's outermost call is about to   *)
(*                 be made): projection of balances, nonces, code,         *)
(*                 storage, transient storage, existence                   *)
(*   After       - that instruction returned: success flag, projection,    *)
(*                 the state object's logs of this transaction             *)
(*   Enter/Exit  - an interpreter frame was entered / left; for frames in  *)
(*                 static context with projection and logs                 *)
(*   StaticWrite - a state-modifying instruction got past the interpreter  *)
(*                 in static context                                       *)
(*   Receipt     - (receipt layer) a history executed as a transaction by  *)
(*                 the block executor: status and logs of its receipt      *)
(*   TxEnd       - GetLogs(txHash) (the receipt's logs), the logs the      *)
(*                 outermost call returned (they go into the receipt's     *)
(*                 result string), the sizes of the earlier receipts       *)
(* The frame stack of EvmFrames is bound to the recorded Before / After    *)
(* pairs: Before pushes the observed state as the frame's ghost; a failing *)
(* After must show the ghost again (ExitFail); the log list is the list    *)
(* observed at the last After.                                             *)
(***************************************************************************)
EXTENDS EvmFrames, Json, TLC

Trace == ndJsonDeserialize("trace.ndjson")

VARIABLES l, bad,
          calls,                 \* open call instructions: <<depth, op, self, state, logs at Before>>
          statics,               \* open static frames: <<depth, state, logs>>
          curlogs,               \* logs of the state object for the current transaction, as last observed
          nreceipts,             \* sizes of the receipts of the finished transactions of the scenario
          customw                \* one of the node's own opcodes changed the state in static context in this transaction
tvars == <<vars, l, bad, calls, statics, curlogs, nreceipts, customw>>

Tag(c, t) == IF c THEN <<>> ELSE <<t>>
OpTag(op) == "op" \o ToString(op)
ToSet(s) == {s[i] : i \in 1..Len(s)}

(* CREATE / CREATE2 bump the creator's nonce before the frame's snapshot is taken: not part of the frame *)
MaskNonce(state, op, self) ==
  IF op \in {240, 245}
    THEN [i \in 1..Len(state) |-> IF state[i].id = self THEN [state[i] EXCEPT !.nonce = 0] ELSE state[i]]
    ELSE state

TransientClean(state) == \A i \in 1..Len(state) : state[i].t0 = 0 /\ state[i].t1 = 0 /\ state[i].t2 = 0

JudgeTxBegin(e) ==
  Tag(e.access = <<>>, "Inv.tx-access-list-not-empty") \o
  Tag(TransientClean(e.state), "Inv.tx-transient-storage-not-empty") \o
  Tag(e.logs = <<>>, "Inv.tx-logs-not-empty")

JudgeAfter(e) ==
  IF calls = <<>> \/ calls[Len(calls)].depth # e.depth \/ calls[Len(calls)].op # e.op THEN <<"Proj.call-unbalanced">>
  ELSE LET b == calls[Len(calls)] IN
       IF e.ok THEN <<>>
       ELSE Tag(MaskNonce(e.state, e.op, e.self) = MaskNonce(b.state, e.op, e.self),
                "Inv.failed-frame-changed-state:" \o OpTag(e.op) \o ":" \o e.cerr) \o
            Tag(e.logs = b.logs, "Inv.failed-frame-changed-logs:" \o OpTag(e.op) \o ":" \o e.cerr)

JudgeExit(e) ==
  IF ~e.ro THEN <<>>
  ELSE IF statics = <<>> \/ statics[Len(statics)].depth # e.depth THEN <<"Proj.static-unbalanced">>
  ELSE Tag(e.state = statics[Len(statics)].state,
           IF customw THEN "Inv.static-frame-changed-state:after-custom-op" ELSE "Inv.static-frame-changed-state") \o
       Tag(e.logs = statics[Len(statics)].logs, "Inv.static-frame-changed-logs")

JudgeTxEnd(e) ==
  Tag(e.receipt = curlogs, "Proj.receipt-is-getlogs") \o
  (* the outermost call also returns a log list of its own, which the executor puts into the receipt's message
     (not into the hashed receipt): differences are reported as notes, they are not part of the verdict *)
  Tag(ToSet(e.returned) \subseteq ToSet(e.receipt), "Note.returned-list-carries-reverted-logs") \o
  Tag(~e.ok \/ ToSet(e.receipt) \subseteq ToSet(e.returned), "Note.returned-list-misses-logs") \o
  Tag(e.ok \/ e.receipt = <<>>, "Inv.failed-tx-has-logs") \o
  Tag(e.prev = nreceipts, "Inv.earlier-receipt-changed")

(* ---- receipt layer: the history run as a real transaction through the block executor ---------------- *)
(* The log sites of a history are numbered in token order.  Fold the tokens with a stack of "logs so far"  *)
(* marks: a frame that fails takes its logs (and those of its descendants) with it.                        *)
RECURSIVE SurvR(_, _, _, _, _)
SurvR(h, i, lg, marks, n) ==
  IF i > Len(h) THEN lg
  ELSE LET t == h[i] IN
       CASE t.op \in {"tx", "enter"} -> SurvR(h, i + 1, lg, Append(marks, Len(lg)), n)
         [] t.op = "log"  -> SurvR(h, i + 1, Append(lg, n + 1), marks, n + 1)
         [] t.op = "ok"   -> SurvR(h, i + 1, lg, SubSeq(marks, 1, Len(marks) - 1), n)
         [] t.op = "fail" -> SurvR(h, i + 1, SubSeq(lg, 1, marks[Len(marks)]), SubSeq(marks, 1, Len(marks) - 1), n)
         [] OTHER         -> SurvR(h, i + 1, lg, marks, n)
Surviving(h) == SurvR(h, 1, <<>>, <<>>, 0)
HasCodestore(h) == \E i \in 1..Len(h) : h[i].op = "fail" /\ h[i].mode = "codestore"

JudgeReceipt(e) ==
  LET h == e.hist
      sfx == IF HasCodestore(h) THEN ":codestore" ELSE ""
  IN Tag(e.found /\ e.evicted = 0, "Proj.no-receipt") \o
     Tag(e.ok = (h[Len(h)].op = "ok"), "Inv.receipt-status" \o sfx) \o
     Tag(e.logs = Surviving(h), "Inv.failed-frame-changed-logs:receipt" \o sfx) \o
     Tag(e.getlogs = Surviving(h), "Inv.failed-frame-changed-logs:state" \o sfx)

Judge(e) ==
  CASE e.event = "TxBegin" -> JudgeTxBegin(e)
    [] e.event = "After" -> JudgeAfter(e)
    [] e.event = "Exit" -> JudgeExit(e)
    [] e.event = "StaticWrite" -> <<"Inv.static-write-executed:" \o OpTag(e.op)>>
    [] e.event = "TxEnd" -> JudgeTxEnd(e)
    [] e.event = "Receipt" -> JudgeReceipt(e)
    [] e.event \in {"Reset", "Before", "Enter", "Fault", "Step"} -> <<>>
    [] OTHER -> <<"Proj.unknown-event">>

TraceInit == Init /\ l = 1 /\ bad = <<>> /\ calls = <<>> /\ statics = <<>> /\ curlogs = <<>> /\ nreceipts = <<>> /\ customw = FALSE

Pop(s) == IF s = <<>> THEN s ELSE SubSeq(s, 1, Len(s) - 1)

TraceNext ==
  /\ l <= Len(Trace)
  /\ l' = l + 1 /\ UNCHANGED vars
  /\ customw' = (IF Trace[l].event = "TxBegin" THEN FALSE
                 ELSE IF Trace[l].event = "StaticWrite" /\ Trace[l].stage = "custom" THEN TRUE ELSE customw)
  /\ LET e == Trace[l]
         j == Judge(e)
     IN /\ bad' = bad \o [i \in 1..Len(j) |-> <<l, e.event, j[i]>>]
        /\ CASE e.event = "Reset" -> calls' = <<>> /\ statics' = <<>> /\ curlogs' = <<>> /\ nreceipts' = <<>>
             [] e.event = "TxBegin" -> calls' = <<>> /\ statics' = <<>> /\ curlogs' = e.logs /\ UNCHANGED nreceipts
             [] e.event = "Before" ->
                  /\ calls' = Append(calls, [depth |-> e.depth, op |-> e.op, self |-> e.self, state |-> e.state, logs |-> e.logs])
                  /\ curlogs' = e.logs /\ UNCHANGED <<statics, nreceipts>>
             [] e.event = "After" -> calls' = Pop(calls) /\ curlogs' = e.logs /\ UNCHANGED <<statics, nreceipts>>
             [] e.event = "Enter" /\ e.ro ->
                  /\ statics' = Append(statics, [depth |-> e.depth, state |-> e.state, logs |-> e.logs])
                  /\ UNCHANGED <<calls, curlogs, nreceipts>>
             [] e.event = "Exit" /\ e.ro -> statics' = Pop(statics) /\ UNCHANGED <<calls, curlogs, nreceipts>>
             [] e.event = "TxEnd" -> nreceipts' = Append(nreceipts, Len(e.receipt)) /\ UNCHANGED <<calls, statics, curlogs>>
             [] OTHER -> UNCHANGED <<calls, statics, curlogs, nreceipts>>

TraceSpec == TraceInit /\ [][TraceNext]_tvars

Report == (l = Len(Trace) + 1) => PrintT(<<"VERDICT", Len(Trace), ToJson(bad)>>)
=============================================================================
