------------------------------ MODULE EvmWord ------------------------------
(***************************************************************************)
(* The EVM's word operations (Yellow Paper appendix H, EIP-145 shifts) on  *)
(* words of WB bytes.  The EVM has WB = 32; the definitions are generic in *)
(* WB so that TLC can compare them exhaustively with its native integer    *)
(* arithmetic on 1-byte and 2-byte words (EvmWordTest.tla).                *)
(*                                                                         *)
(* A word is a natural number below 256^WB in BigNat's canonical form: a   *)
(* little-endian sequence of bytes without high-order zeros (zero = <<>>). *)
(* Word equality is therefore sequence equality.                           *)
(***************************************************************************)
EXTENDS BigNat, Bitwise

CONSTANT WB                      \* bytes per word

B256 == 256
WBits == 8 * WB

IsWord(w) == /\ Len(w) <= WB
             /\ \A i \in 1..Len(w) : w[i] \in 0..255
             /\ (w # <<>> => w[Len(w)] # 0)

W0 == <<>>
W1 == <<1>>
WMax == [i \in 1..WB |-> 255]                         \* 2^WBits - 1
WTwoP == [i \in 1..(WB + 1) |-> IF i = WB + 1 THEN 1 ELSE 0]   \* 2^WBits (not a word)
WSignBit == [i \in 1..WB |-> IF i = WB THEN 128 ELSE 0]        \* 2^(WBits-1)
WBool(c) == IF c THEN W1 ELSE W0

Wrap(x) == LowDigits(x, WB)                           \* x mod 2^WBits, canonical

(* fixed-width little-endian view and back *)
Padded(w) == [i \in 1..WB |-> Digit(w, i)]
(* big-endian byte sequence (memory / code order) <-> word *)
RevSeq(s) == [i \in 1..Len(s) |-> s[Len(s) - i + 1]]
ToBytesBE(w) == RevSeq(Padded(w))                    \* WB bytes, most significant first
FromBytesBE(bs) == Norm(RevSeq(bs))                  \* any length <= WB

(* a word as a TLC integer when it is small, else the sentinel Big *)
Big == 1000000000
SmallVal(w) == IF Len(w) <= 3 THEN ToNat(w, B256) ELSE Big

(* two's complement *)
IsNeg(w) == Len(w) = WB /\ w[WB] >= 128
Neg(w)   == IF w = <<>> THEN <<>> ELSE Wrap(Sub(WTwoP, w, B256))
Abs(w)   == IF IsNeg(w) THEN Neg(w) ELSE w

(* ------------------------------------------------------------ arithmetic *)
ADD(a, b) == Wrap(Add(a, b, B256))
SUB(a, b) == IF Le(b, a) THEN Sub(a, b, B256) ELSE Wrap(Sub(Add(a, WTwoP, B256), b, B256))
MUL(a, b) == Wrap(Mul(a, b, B256))
DIV(a, b) == IF b = <<>> THEN W0 ELSE Div(a, b, B256)
MOD(a, b) == IF b = <<>> THEN W0 ELSE Mod(a, b, B256)
(* signed division truncates toward zero; -2^(WBits-1) / -1 wraps to itself *)
SDIV(a, b) == IF b = <<>> THEN W0
              ELSE LET q == Wrap(Div(Abs(a), Abs(b), B256))
                   IN IF IsNeg(a) # IsNeg(b) THEN Neg(q) ELSE q
(* the result takes the sign of the dividend *)
SMOD(a, b) == IF b = <<>> THEN W0
              ELSE LET r == Mod(Abs(a), Abs(b), B256)
                   IN IF IsNeg(a) THEN Neg(r) ELSE r
(* intermediate sum / product are not reduced modulo 2^WBits *)
ADDMOD(a, b, n) == IF n = <<>> THEN W0 ELSE Mod(Add(a, b, B256), n, B256)
MULMOD(a, b, n) == IF n = <<>> THEN W0 ELSE Mod(Mul(a, b, B256), n, B256)

(* a^e mod 2^WBits by square and multiply over the bits of e; 0^0 = 1 *)
RECURSIVE ExpR(_, _)
ExpR(a, e) ==
  IF e = <<>> THEN W1
  ELSE LET qr == DivModSmall(e, 2, B256)
           h  == ExpR(a, qr[1])
           h2 == Wrap(Mul(h, h, B256))
       IN IF qr[2] = 1 THEN Wrap(Mul(h2, a, B256)) ELSE h2
EXP(a, e) == IF e = <<>> THEN W1
             ELSE IF a = <<>> THEN W0
             ELSE IF a = W1 THEN W1
             ELSE ExpR(a, e)
(* number of bytes of the exponent (gas formula of EXP) *)
ByteLen(w) == Len(w)

(* SIGNEXTEND(k, x): extend the sign bit of byte k (0 = least significant) *)
SIGNEXTEND(k, x) ==
  LET kv == SmallVal(k) IN
  IF kv >= WB - 1 THEN x
  ELSE LET neg == Digit(x, kv + 1) >= 128
       IN Norm([i \in 1..WB |-> IF i <= kv + 1 THEN Digit(x, i) ELSE IF neg THEN 255 ELSE 0])

(* ------------------------------------------------------------- comparison *)
LT(a, b) == WBool(Lt(a, b))
GT(a, b) == WBool(Lt(b, a))
SLess(a, b) == IF IsNeg(a) # IsNeg(b) THEN IsNeg(a) ELSE Lt(a, b)
SLT(a, b) == WBool(SLess(a, b))
SGT(a, b) == WBool(SLess(b, a))
EQ(a, b) == WBool(a = b)
ISZERO(a) == WBool(a = <<>>)

(* ---------------------------------------------------------------- bitwise *)
AND(a, b) == Norm([i \in 1..WB |-> Digit(a, i) & Digit(b, i)])
OR(a, b)  == Norm([i \in 1..WB |-> Digit(a, i) | Digit(b, i)])
XOR(a, b) == Norm([i \in 1..WB |-> Digit(a, i) ^^ Digit(b, i)])
NOT(a)    == Norm([i \in 1..WB |-> 255 - Digit(a, i)])
(* BYTE(i, x): i-th byte counted from the most significant; 0 when i >= WB *)
BYTE(i, x) == LET iv == SmallVal(i) IN
              IF iv >= WB THEN W0 ELSE FromNat(Digit(x, WB - iv), B256)

(* ----------------------------------------------------------------- shifts *)
Pow2(k) == 2 ^ k                                      \* k in 0..7
SHL(s, x) == LET sv == SmallVal(s) IN
             IF sv >= WBits THEN W0
             ELSE Wrap(MulSmall(ShiftUp(x, sv \div 8), Pow2(sv % 8), B256))
SHR(s, x) == LET sv == SmallVal(s) IN
             IF sv >= WBits THEN W0
             ELSE DivModSmall(ShiftDown(x, sv \div 8), Pow2(sv % 8), B256)[1]
(* arithmetic shift: for a negative x it is the complement of the logical   *)
(* shift of the complement; shifts >= WBits saturate to 0 or -1             *)
SAR(s, x) == IF ~IsNeg(x) THEN SHR(s, x)
             ELSE IF SmallVal(s) >= WBits THEN WMax
             ELSE NOT(SHR(s, NOT(x)))

(* ---------------------------------------------------- dispatch by opcode *)
OpADD == 1   OpMUL == 2   OpSUB == 3   OpDIV == 4   OpSDIV == 5  OpMOD == 6
OpSMOD == 7  OpADDMOD == 8  OpMULMOD == 9  OpEXP == 10  OpSIGNEXTEND == 11
OpLT == 16   OpGT == 17   OpSLT == 18  OpSGT == 19  OpEQ == 20   OpISZERO == 21
OpAND == 22  OpOR == 23   OpXOR == 24  OpNOT == 25  OpBYTE == 26
OpSHL == 27  OpSHR == 28  OpSAR == 29

UnaryOps   == {OpISZERO, OpNOT}
BinaryOps  == {OpADD, OpMUL, OpSUB, OpDIV, OpSDIV, OpMOD, OpSMOD, OpEXP, OpSIGNEXTEND,
               OpLT, OpGT, OpSLT, OpSGT, OpEQ, OpAND, OpOR, OpXOR, OpBYTE, OpSHL, OpSHR, OpSAR}
TernaryOps == {OpADDMOD, OpMULMOD}
WordOps    == UnaryOps \cup BinaryOps \cup TernaryOps

(* a = top of stack, b = second, c = third *)
Unary(op, a) == IF op = OpISZERO THEN ISZERO(a) ELSE NOT(a)
Binary(op, a, b) ==
  CASE op = OpADD -> ADD(a, b)   [] op = OpMUL -> MUL(a, b)   [] op = OpSUB -> SUB(a, b)
    [] op = OpDIV -> DIV(a, b)   [] op = OpSDIV -> SDIV(a, b) [] op = OpMOD -> MOD(a, b)
    [] op = OpSMOD -> SMOD(a, b) [] op = OpEXP -> EXP(a, b)   [] op = OpSIGNEXTEND -> SIGNEXTEND(a, b)
    [] op = OpLT -> LT(a, b)     [] op = OpGT -> GT(a, b)     [] op = OpSLT -> SLT(a, b)
    [] op = OpSGT -> SGT(a, b)   [] op = OpEQ -> EQ(a, b)     [] op = OpAND -> AND(a, b)
    [] op = OpOR -> OR(a, b)     [] op = OpXOR -> XOR(a, b)   [] op = OpBYTE -> BYTE(a, b)
    [] op = OpSHL -> SHL(a, b)   [] op = OpSHR -> SHR(a, b)   [] op = OpSAR -> SAR(a, b)
Ternary(op, a, b, c) == IF op = OpADDMOD THEN ADDMOD(a, b, c) ELSE MULMOD(a, b, c)
=============================================================================
