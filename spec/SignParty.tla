----------------------------- MODULE SignParty -----------------------------
(***************************************************************************)
(* Extension of the SignRound family beyond C15's quantifier: how a        *)
(* verifier node admits the proposer's cast message and the members'       *)
(* verify messages for one slot (height, previous block), buffers early    *)
(* messages, re-keys the party once round 0 knows the block, times out,    *)
(* and finalises.                                                          *)
(*                                                                         *)
(* Code this follows (consensus/logical):                                  *)
(*   processor_party.go  OnMessageCast, OnMessageVerify,                   *)
(*                       loadOrNewSignParty (party table, finishedParty,   *)
(*                       futureMessages), waitUntilDone (changeId re-key   *)
(*                       with replay of buffered messages, time-out, done) *)
(*   party.go            baseParty.Update (CanAccept dispatch, advance)    *)
(*   round_sign.go       round0.Update .. checkBlock, normalPieceVerify    *)
(*   round_sign_piece.go round1.Update (share counting, as SignRound)      *)
(*   round_sign_finalizer.go  round2.Start (GenerateBlock, AddBlockOnChain)*)
(*                                                                         *)
(* Granularity: one action per handler call, taken to quiescence (the      *)
(* re-key and the replay goroutines it starts have run; the conformance    *)
(* driver waits for that before it looks).                                 *)
(*                                                                         *)
(* Proposals of one slot: every proposal has a party key (height, previous *)
(* hash, castor, VRF proof, transaction root, group) and a block hash.     *)
(* Two proposals may share the key and differ in the hash (the proposer    *)
(* changed its block), or differ in both (cast in another time window).    *)
(* A verify message is filed under a block hash, carries a share that      *)
(* signs some block hash, and has a sender.  The node's own share for a    *)
(* proposal exists once round 0 accepted that proposal.                    *)
(***************************************************************************)
EXTENDS Integers, Sequences, FiniteSets, TLC

CONSTANTS Props,       \* proposals of the slot, e.g. {"A", "A2", "B"}
          Others,      \* group members other than this node (senders of shares)
          KThr,        \* threshold
          MaxDup,      \* how many re-deliveries of already delivered messages
          MaxLen,      \* bound on the number of handler calls explored
          MaxTimeouts, \* bound on the number of expiries in a sequence
          MaxFire,     \* how many proposals of a sequence are handled under fire (CastUnderFire)
          MaxForged    \* distinct forgeries per block hash (under the id of the smallest other member)

Self == 1
None == "none"

(* attributes of the proposals: A and A2 share the party key *)
KeyOf(p)  == IF p = "B" THEN "k2" ELSE "k1"
HashOf(p) == "h" \o p
Hashes == {HashOf(p) : p \in Props}
PropOfHash(h) == CHOOSE p \in Props : HashOf(p) = h

Cast(p)          == [type |-> "cast", prop |-> p, filed |-> HashOf(p), signed |-> HashOf(p), sender |-> 0, v |-> 0]
(* the same call while a faulty member's share OVER THE PARTY KEY, filed under the party key (the key the
   party is kept under until round 0 knows the block), keeps arriving: for the reference handler this is
   a cast like any other -- such a share signs no block and is never counted *)
CastUnderFire(p) == [Cast(p) EXCEPT !.v = 1]
IsCastOf(m, p)   == m.type = "cast" /\ m.prop = p
Verify(h, s)     == [type |-> "verify", prop |-> PropOfHash(h), filed |-> h, signed |-> h, sender |-> s, v |-> 0]
Own(p)           == [type |-> "own", prop |-> p, filed |-> HashOf(p), signed |-> HashOf(p), sender |-> Self, v |-> 0]
WrongBlock(h, g, s) == [type |-> "wrongBlock", prop |-> PropOfHash(h), filed |-> h, signed |-> g, sender |-> s, v |-> 0]
(* a faulty member files a message under the id of member s: the claimed signer is s, the shares are
   not s's (v numbers distinct forgeries) *)
Forged(h, s, v)  == [type |-> "forged", prop |-> PropOfHash(h), filed |-> h, signed |-> h, sender |-> s, v |-> v]
Expire           == [type |-> "timeout", prop |-> None, filed |-> None, signed |-> None, sender |-> 0, v |-> 0]

VARIABLES parties,    \* live parties: block hash -> [shares : set of senders]  (all live parties are in round 1)
          finished,   \* keys in the finished-party cache (proposal keys and block hashes)
          buffered,   \* block hash -> sequence of verify messages waiting for a party
          emitted,    \* proposals for which the node sent its own share
          added,      \* blocks handed to the chain, in order
          hist        \* handler calls so far
vars == <<parties, finished, buffered, emitted, added, hist>>

Init == /\ parties = <<>> /\ finished = {} /\ buffered = [h \in Hashes |-> <<>>]
        /\ emitted = {} /\ added = <<>> /\ hist = <<>>

Live(h) == h \in DOMAIN parties

(* share counting of round 1 for a party of block h (C15's rule) *)
Counts(shares, h, m) == /\ m.type \in {"verify", "own"}       \* the share is the claimed signer's valid share ...
                        /\ m.signed = h                     \* ... for this party's block
                        /\ m.sender \notin shares /\ Cardinality(shares) < KThr

RECURSIVE Feed(_, _, _)
Feed(shares, h, msgs) ==
  IF msgs = <<>> THEN shares
  ELSE Feed(IF Counts(shares, h, Head(msgs)) THEN shares \cup {Head(msgs).sender} ELSE shares, h, Tail(msgs))

Drop(f, h) == [x \in DOMAIN f \ {h} |-> f[x]]
Put(f, h, v) == [x \in DOMAIN f \cup {h} |-> IF x = h THEN v ELSE f[x]]

(* The handlers as functions on the state record
   [parties, finished, buffered, emitted, added]                            *)
Cur == [parties |-> parties, finished |-> finished, buffered |-> buffered, emitted |-> emitted, added |-> added]

(* install the share set of party h; at the threshold the party finalises:
   the block goes to the chain, the party leaves the table, its key is finished *)
Settle(S, h, shares) ==
  IF Cardinality(shares) >= KThr
    THEN [S EXCEPT !.parties = Drop(S.parties, h), !.finished = @ \cup {h}, !.added = Append(@, h)]
    ELSE [S EXCEPT !.parties = Put(S.parties, h, shares)]

(* OnMessageCast(p): "party already done" when the proposal key is finished; otherwise a new party,
   round 0 accepts the proposal, the node sends its own share, the party is re-keyed under the block
   hash (the proposal key is finished), and the messages buffered for that hash are replayed *)
CastPost(S, p) ==
  IF KeyOf(p) \in S.finished THEN S
  ELSE Settle([S EXCEPT !.emitted = @ \cup {p},
                        !.buffered[HashOf(p)] = <<>>,
                        !.finished = @ \cup {KeyOf(p)}],
              HashOf(p), Feed({}, HashOf(p), S.buffered[HashOf(p)]))

(* OnMessageVerify(m), also for the node's own share coming back to it *)
VerifyPost(S, m) ==
  IF m.filed \in DOMAIN S.parties
    THEN Settle(S, m.filed, IF Counts(S.parties[m.filed], m.filed, m)
                              THEN S.parties[m.filed] \cup {m.sender} ELSE S.parties[m.filed])
  ELSE IF m.filed \in S.finished THEN S
  ELSE [S EXCEPT !.buffered[m.filed] = Append(@, m)]

(* waitUntilDone: 10 s pass without the party finishing.  All parties of a slot are created within
   milliseconds of each other, so when time passes every live party expires. *)
ExpirePost(S) == [S EXCEPT !.parties = <<>>, !.finished = @ \cup DOMAIN S.parties]

Post(S, m) == CASE m.type = "cast" -> CastPost(S, m.prop)
                [] m.type = "timeout" -> ExpirePost(S)
                [] OTHER -> VerifyPost(S, m)

Apply(S) == /\ parties' = S.parties /\ finished' = S.finished /\ buffered' = S.buffered
            /\ emitted' = S.emitted /\ added' = S.added

Handle(m) == hist' = Append(hist, m) /\ Apply(Post(Cur, m))

OnCast(p) == Handle(Cast(p))
OnVerify(m) == Handle(m)
OnTimeout == DOMAIN parties # {} /\ Handle(Expire)

MaxOther == CHOOSE x \in Others : \A y \in Others : x >= y
MinOther == CHOOSE x \in Others : \A y \in Others : x <= y
Delivered(m) == \E i \in 1..Len(hist) : hist[i] = m
Dups == Len(hist) - Cardinality({hist[i] : i \in 1..Len(hist)})
MayDeliver(m) == ~Delivered(m) \/ Dups < MaxDup

MainHashes == {HashOf(p) : p \in Props \ {"A2"}}

Next ==
  /\ Len(hist) < MaxLen
  /\ \/ \E p \in Props : MayDeliver(Cast(p)) /\ OnCast(p)
     \/ \E p \in Props : /\ Cardinality({i \in 1..Len(hist) : hist[i].type = "cast" /\ hist[i].v = 1}) < MaxFire
                          /\ MayDeliver(CastUnderFire(p)) /\ Handle(CastUnderFire(p))
     \/ \E h \in Hashes, s \in Others : MayDeliver(Verify(h, s)) /\ OnVerify(Verify(h, s))
     \/ \E p \in emitted : MayDeliver(Own(p)) /\ OnVerify(Own(p))
     \/ \E h \in MainHashes, g \in MainHashes, s \in Others :
           h # g /\ s = MaxOther
           /\ MayDeliver(WrongBlock(h, g, s)) /\ OnVerify(WrongBlock(h, g, s))
     \/ \E h \in MainHashes, v \in 1..MaxForged, s \in {MinOther, Self} :      \* also under this node's own id
           MayDeliver(Forged(h, s, v)) /\ OnVerify(Forged(h, s, v))
     \/ (Cardinality({i \in 1..Len(hist) : hist[i] = Expire}) < MaxTimeouts /\ OnTimeout)

Spec == Init /\ [][Next]_vars

-----------------------------------------------------------------------------
(* What the design gives, and what it does not *)

Range(s) == {s[i] : i \in 1..Len(s)}

(* a block is handed to the chain at most once *)
FinalisedAtMostOncePerBlock == Cardinality(Range(added)) = Len(added)
(* one party key never yields two different blocks *)
OneBlockPerProposalKey ==
  \A i, j \in 1..Len(added) : KeyOf(PropOfHash(added[i])) = KeyOf(PropOfHash(added[j])) => added[i] = added[j]
(* only shares that sign the party's block are counted (C15's clause, on this path) *)
OnlySharesForTheBlock ==
  \A h \in DOMAIN parties : \A s \in parties[h] :
     \E i \in 1..Len(hist) : hist[i].type \in {"verify", "own"} /\ hist[i].filed = h /\ hist[i].signed = h /\ hist[i].sender = s
(* shares that arrived before the proposal count: if the proposal was admitted, the party did not
   time out, and KThr distinct members' valid shares for it were delivered at any time, it finalised *)
Admitted(p) == \E i \in 1..Len(hist) : IsCastOf(hist[i], p) /\ \A j \in 1..(i - 1) : hist[j].type = "cast" => KeyOf(hist[j].prop) # KeyOf(p)
ValidSenders(h) == {hist[i].sender : i \in {j \in 1..Len(hist) : hist[j].type \in {"verify", "own"} /\ hist[j].filed = h /\ hist[j].signed = h}}
(* position of the cast that admitted p (0: none) and of the first expiry after it (MaxLen + 1: none) *)
AdmitPos(p) == IF Admitted(p) THEN CHOOSE i \in 1..Len(hist) : IsCastOf(hist[i], p) /\ \A j \in 1..(i - 1) : ~IsCastOf(hist[j], p) ELSE 0
ExpiryAfter(c) == LET later == {i \in (c + 1)..Len(hist) : hist[i] = Expire}
                  IN IF later = {} THEN Len(hist) + 1 ELSE CHOOSE i \in later : \A j \in later : i <= j
(* valid shares delivered while the party could still take them, buffered ones included *)
SendersBeforeTimeout(h) ==
  LET c == AdmitPos(PropOfHash(h))  t == ExpiryAfter(c) IN
  {hist[i].sender : i \in {j \in 1..(t - 1) :
      hist[j].type \in {"verify", "own"} /\ hist[j].filed = h /\ hist[j].signed = h}}
LateSharesCount ==
  \A p \in Props : (Admitted(p) /\ Cardinality(SendersBeforeTimeout(HashOf(p))) >= KThr) => HashOf(p) \in Range(added)
(* C15's third clause on this path: messages of a faulty member (shares over another block, messages
   filed under an honest member's id) are in the sequence, and still LateSharesCount holds *)
FaultyPresent == \E i \in 1..Len(hist) : hist[i].type \in {"forged", "wrongBlock"} \/ (hist[i].type = "cast" /\ hist[i].v = 1)

(* NOT given by the design: one finalised block per slot (two proposals of the same castor with
   different keys are both signed and both finalised) *)
OneFinalisationPerSlot == Len(added) <= 1

TypeOK == /\ DOMAIN parties \subseteq Hashes
          /\ \A h \in DOMAIN parties : h \notin finished /\ Cardinality(parties[h]) < KThr
=============================================================================
