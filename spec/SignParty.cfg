SPECIFICATION Spec
CONSTANTS
  Props = {"A", "A2", "B"}
  Others = {2, 3}
  KThr = 2
  MaxDup = 0
  MaxLen = 5
  MaxTimeouts = 1
  MaxForged = 1
  MaxFire = 1
INVARIANTS TypeOK FinalisedAtMostOncePerBlock OneBlockPerProposalKey OnlySharesForTheBlock LateSharesCount
CHECK_DEADLOCK FALSE
