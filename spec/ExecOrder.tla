----------------------------- MODULE ExecOrder -----------------------------
(***************************************************************************)
(* Replica determinism of block execution (C01) at its commutation points. *)
(*                                                                         *)
(* Wherever block execution ranges over an unordered collection, the       *)
(* result must not depend on the order.  The collections of the code:      *)
(*   - the user-supplied target map of an asset transfer                   *)
(*     (service.ChangeAssets ranges over a Go map),                        *)
(*   - dirty accounts in Finalise/Commit, refund lists in                  *)
(*     RefundManager.Add / CheckAndMove, reward shares:                    *)
(*     all of these only add amounts per key or write per key, which       *)
(*     commutes (model: Fold below).                                       *)
(* The transfer loop does NOT obviously commute: every transfer is checked *)
(* against the RUNNING balance of the sender, credits the target and then  *)
(* debits the sender; when the sender is itself among the targets the      *)
(* running balance is not monotone.  Outcomes(input) is the set of results *)
(* over all iteration orders; an input is order-sensitive iff it has more  *)
(* than one.  Sorted = TRUE models iteration in sorted key order (one      *)
(* order, one outcome).                                                    *)
(***************************************************************************)
EXTENDS Integers, Sequences, FiniteSets, TLC, Json

CONSTANTS MaxBal, Sorted

Whos == {"self", "o1", "o1b", "o2"}     \* o1b: the same address as o1 in different letter case
Rank(w) == CASE w = "self" -> 1 [] w = "o1" -> 2 [] w = "o1b" -> 3 [] w = "o2" -> 4

(* an input: [bal, targets] with targets a set of [who, amt], one entry per who *)
Inputs == { [bal |-> b, targets |-> T] :
              b \in 0..MaxBal,
              T \in { S \in SUBSET [who : Whos, amt : 0..MaxBal] :
                        /\ Cardinality(S) \in 1..3
                        /\ \A x, y \in S : x.who = y.who => x = y } }

(* one transfer of the loop: <<ok, running balance afterwards>> *)
StepOf(run, e) == IF run < e.amt THEN <<FALSE, run>>
                  ELSE IF e.who = "self" THEN <<TRUE, run>> ELSE <<TRUE, run - e.amt>>

RECURSIVE OutcomesFrom(_, _)
OutcomesFrom(run, rem) ==
  IF rem = {} THEN {TRUE}
  ELSE LET next == IF Sorted
                     THEN {CHOOSE e \in rem : \A f \in rem : Rank(e.who) <= Rank(f.who)}
                     ELSE rem
       IN UNION { IF StepOf(run, e)[1] THEN OutcomesFrom(StepOf(run, e)[2], rem \ {e}) ELSE {FALSE} : e \in next }

Outcomes(in) == OutcomesFrom(in.bal, in.targets)
Sensitive(in) == Cardinality(Outcomes(in)) > 1

(* commutative folds (refund lists, reward shares, dirty-account writes): adding per key *)
RECURSIVE FoldOrders(_, _)
FoldOrders(acc, rem) ==     \* set of final accumulators over all orders
  IF rem = {} THEN {acc}
  ELSE UNION { FoldOrders([acc EXCEPT ![e.key] = @ + e.amt], rem \ {e}) : e \in rem }

VARIABLE input
Init == input \in Inputs
Next == UNCHANGED input
Spec == Init /\ [][Next]_input

Confluent == ~Sensitive(input)
FoldsCommute ==
  LET es == {[key |-> 1, amt |-> 1], [key |-> 2, amt |-> 2], [key |-> 1, amt |-> 3]} IN
  Cardinality(FoldOrders([k \in {1, 2} |-> 0], es)) = 1

TargetsJson(T) == LET RECURSIVE ToSeq(_)
                      ToSeq(S) == IF S = {} THEN <<>> ELSE LET x == CHOOSE y \in S : TRUE IN <<x>> \o ToSeq(S \ {x})
                  IN ToSeq(T)
Dump == PrintT(<<"INPUT", ToJson([bal |-> input.bal, targets |-> TargetsJson(input.targets),
                                  sensitive |-> Sensitive(input)])>>)
=============================================================================
