SPECIFICATION Spec
CONSTANTS
  N = 3
  MaxDeliver = 3
  MaxCrash = 1
  Forks = FALSE
  Gaps = FALSE
INVARIANTS InvHeadLinked InvIndex InvHeadState InvMarks InvExecuted InvWeightMonotone InvCrashHeadStrict
CHECK_DEADLOCK FALSE
