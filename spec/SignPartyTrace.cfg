SPECIFICATION TraceSpec
CONSTANTS
  Props = {"A", "A2", "B"}
  Others = {2, 3}
  KThr = 2
  MaxDup = 1
  MaxLen = 12
  MaxTimeouts = 1
  MaxForged = 2
  MaxFire = 9
INVARIANT Report
CHECK_DEADLOCK FALSE
