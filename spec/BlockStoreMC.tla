---------------------------- MODULE BlockStoreMC ----------------------------
(***************************************************************************)
(* Exhaustive exploration of BlockStore with TLC.                          *)
(***************************************************************************)
EXTENDS BlockStore

(* Exhaustive exploration: all trees within bounds, any delivery order       *)
(* (duplicates and orphans included), a crash before any micro-operation,    *)
(* also during recovery.                                                     *)

CONSTANTS N,            \* number of non-genesis blocks
          MaxDeliver,   \* deliveries per behaviour
          MaxCrash,     \* crashes per behaviour
          Gaps          \* BOOLEAN: heights may skip

VARIABLES tree, st, nDel, nCrash, startHead, heads, crashed, viaFork, rd, nRead
vars == <<tree, st, nDel, nCrash, startHead, heads, crashed, viaFork, rd, nRead>>

CONSTANT Forks       \* BOOLEAN: also explore fork switches of the sync processor
CONSTANTS Readers,   \* how many lock-free height lookups (rpc layer, sync helper, ...) run alongside; 0 = none
          ReadFill   \* BOOLEAN, FALSE = as coded: a lookup that went to the store returns what it read;
                     \* TRUE = a read-through variant that also puts it into the cache (negative control)
Idle == [pc |-> "idle", h |-> 0, val |-> None]

TxUniverse == {1, 2}

Trees == TreesUpTo(N, Gaps)

Init == /\ tree \in Trees
        /\ st = InitState(tree)
        /\ nDel = 0 /\ nCrash = 0 /\ startHead = 0 /\ heads = <<0>> /\ crashed = FALSE /\ viaFork = FALSE
        /\ rd = Idle /\ nRead = 0

DeliverAct(b) ==
  /\ st.todo = <<>> /\ nDel < MaxDeliver
  /\ LET s0 == Begin(tree, [st EXCEPT !.pending = @ \cup (TxsOf(tree, b) \ st.executed)], b) IN
       /\ st' = s0
       /\ heads' = HeadsOfCall(tree, s0)
  /\ startHead' = st.latest
  /\ nDel' = nDel + 1
  /\ crashed' = FALSE /\ viaFork' = FALSE
  /\ UNCHANGED <<tree, nCrash, rd, nRead>>

(* the sync processor switches to the fork a -> ... -> x (a on the local chain) *)
ForkAct(a, x) ==
  /\ Forks /\ st.todo = <<>> /\ nDel < MaxDeliver
  /\ a \in Ancestors(tree, x) /\ a # x /\ a \in st.hashDB
  /\ LET s0 == BeginFork(tree, st, PathDown(tree, a, x)) IN
       /\ st' = s0
       /\ heads' = HeadsOfCall(tree, s0)
  /\ startHead' = st.latest
  /\ nDel' = nDel + 1
  /\ crashed' = FALSE /\ viaFork' = TRUE
  /\ UNCHANGED <<tree, nCrash, rd, nRead>>

StepAct == /\ st.todo # <<>>
           /\ st' = Step(tree, st)
           /\ UNCHANGED <<tree, nDel, nCrash, startHead, heads, crashed, viaFork, rd, nRead>>

CrashAct == /\ st.todo # <<>> /\ nCrash < MaxCrash
            /\ st' = CrashState(st)
            /\ nCrash' = nCrash + 1
            /\ crashed' = TRUE
            /\ UNCHANGED <<tree, nDel, startHead, heads, viaFork, rd, nRead>>

(* A clean stop and restart at a quiescent point (the height cache is rebuilt without the head). *)
RestartAct == /\ Readers > 0 /\ st.todo = <<>> /\ rd.pc = "idle" /\ nCrash < MaxCrash
              /\ st' = CrashState(st)
              /\ nCrash' = nCrash + 1
              /\ UNCHANGED <<tree, nDel, startHead, heads, crashed, viaFork, rd, nRead>>

(* QueryBlockHeaderByHeight(h, true) without the chain lock, in two steps: cache miss + store read,
   then the return (a cache hit is one atomic step that changes nothing and is not modelled). *)
RdStart(h) == /\ nRead < Readers /\ rd.pc = "idle" /\ st.cache[h] = Miss
              /\ rd' = [pc |-> "read", h |-> h, val |-> st.hidx[h]]
              /\ nRead' = nRead + 1
              /\ UNCHANGED <<tree, st, nDel, nCrash, startHead, heads, crashed, viaFork>>
RdEnd == /\ rd.pc = "read"
         /\ rd' = Idle
         /\ st' = IF ReadFill /\ rd.val # None THEN [st EXCEPT !.cache[rd.h] = rd.val] ELSE st
         /\ UNCHANGED <<tree, nDel, nCrash, startHead, heads, crashed, viaFork, nRead>>

Next == \/ (\E b \in 1..N : DeliverAct(b)) \/ (\E a \in 0..N, x \in 1..N : ForkAct(a, x)) \/ StepAct \/ CrashAct
        \/ RestartAct \/ (\E h \in DOMAIN st.hidx : RdStart(h)) \/ RdEnd
Spec == Init /\ [][Next]_vars

Quiescent == st.todo = <<>> /\ rd.pc = "idle"
InvCache          == Quiescent => (CacheCoherent(tree, st) /\ LookupsReturnChain(tree, st))
InvStore          == Quiescent => StoreOK(tree, st)
InvHeadLinked     == Quiescent => HeadLinked(tree, st)
InvIndex          == Quiescent => (HeightIndexAgrees(tree, st) /\ NothingAboveHead(tree, st))
InvHeadState      == Quiescent => HeadStateDurable(tree, st)
InvMarks          == Quiescent => NoMarks(tree, st)
InvExecuted       == Quiescent => ExecutedAgrees(tree, st)
InvWeightMonotone == (Quiescent /\ ~crashed /\ ~viaFork) => NotLower(tree, st.latest, startHead)
(* the same clause for head changes made by the fork-switch path (outside C05's quantifier) *)
InvWeightMonotoneFork == (Quiescent /\ ~crashed /\ viaFork) => NotLower(tree, st.latest, startHead)
InvCrashHeadStrict == (Quiescent /\ crashed) => st.latest \in CrashHeadStrict(tree, heads)
InvCrashHeadWeak   == (Quiescent /\ crashed) => st.latest \in CrashHeadWeak(tree, heads)
=============================================================================
