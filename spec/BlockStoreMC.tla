---------------------------- MODULE BlockStoreMC ----------------------------
(***************************************************************************)
(* Exhaustive exploration of BlockStore with TLC.                          *)
(***************************************************************************)
EXTENDS BlockStore

(* Exhaustive exploration: all trees within bounds, any delivery order       *)
(* (duplicates and orphans included), a crash before any micro-operation,    *)
(* also during recovery.                                                     *)

CONSTANTS N,            \* number of non-genesis blocks
          MaxDeliver,   \* deliveries per behaviour
          MaxCrash,     \* crashes per behaviour
          Gaps          \* BOOLEAN: heights may skip

VARIABLES tree, st, nDel, nCrash, startHead, heads, crashed, viaFork
vars == <<tree, st, nDel, nCrash, startHead, heads, crashed, viaFork>>

CONSTANT Forks       \* BOOLEAN: also explore fork switches of the sync processor

TxUniverse == {1, 2}

Trees == TreesUpTo(N, Gaps)

Init == /\ tree \in Trees
        /\ st = InitState(tree)
        /\ nDel = 0 /\ nCrash = 0 /\ startHead = 0 /\ heads = <<0>> /\ crashed = FALSE /\ viaFork = FALSE

DeliverAct(b) ==
  /\ st.todo = <<>> /\ nDel < MaxDeliver
  /\ LET s0 == Begin(tree, [st EXCEPT !.pending = @ \cup (TxsOf(tree, b) \ st.executed)], b) IN
       /\ st' = s0
       /\ heads' = HeadsOfCall(tree, s0)
  /\ startHead' = st.latest
  /\ nDel' = nDel + 1
  /\ crashed' = FALSE /\ viaFork' = FALSE
  /\ UNCHANGED <<tree, nCrash>>

(* the sync processor switches to the fork a -> ... -> x (a on the local chain) *)
ForkAct(a, x) ==
  /\ Forks /\ st.todo = <<>> /\ nDel < MaxDeliver
  /\ a \in Ancestors(tree, x) /\ a # x /\ a \in st.hashDB
  /\ LET s0 == BeginFork(tree, st, PathDown(tree, a, x)) IN
       /\ st' = s0
       /\ heads' = HeadsOfCall(tree, s0)
  /\ startHead' = st.latest
  /\ nDel' = nDel + 1
  /\ crashed' = FALSE /\ viaFork' = TRUE
  /\ UNCHANGED <<tree, nCrash>>

StepAct == /\ st.todo # <<>>
           /\ st' = Step(tree, st)
           /\ UNCHANGED <<tree, nDel, nCrash, startHead, heads, crashed, viaFork>>

CrashAct == /\ st.todo # <<>> /\ nCrash < MaxCrash
            /\ st' = CrashState(st)
            /\ nCrash' = nCrash + 1
            /\ crashed' = TRUE
            /\ UNCHANGED <<tree, nDel, startHead, heads, viaFork>>

Next == (\E b \in 1..N : DeliverAct(b)) \/ (\E a \in 0..N, x \in 1..N : ForkAct(a, x)) \/ StepAct \/ CrashAct
Spec == Init /\ [][Next]_vars

Quiescent == st.todo = <<>>
InvStore          == Quiescent => StoreOK(tree, st)
InvHeadLinked     == Quiescent => HeadLinked(tree, st)
InvIndex          == Quiescent => (HeightIndexAgrees(tree, st) /\ NothingAboveHead(tree, st))
InvHeadState      == Quiescent => HeadStateDurable(tree, st)
InvMarks          == Quiescent => NoMarks(tree, st)
InvExecuted       == Quiescent => ExecutedAgrees(tree, st)
InvWeightMonotone == (Quiescent /\ ~crashed /\ ~viaFork) => NotLower(tree, st.latest, startHead)
(* the same clause for head changes made by the fork-switch path (outside C05's quantifier) *)
InvWeightMonotoneFork == (Quiescent /\ ~crashed /\ viaFork) => NotLower(tree, st.latest, startHead)
InvCrashHeadStrict == (Quiescent /\ crashed) => st.latest \in CrashHeadStrict(tree, heads)
InvCrashHeadWeak   == (Quiescent /\ crashed) => st.latest \in CrashHeadWeak(tree, heads)
=============================================================================
