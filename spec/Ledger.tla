------------------------------- MODULE Ledger -------------------------------
(***************************************************************************)
(* Native-token ledger of go-rangers at the level of value movements (C06).*)
(*                                                                         *)
(* bal : account -> Nat (liquid balances, the fee account included),       *)
(* locked (miner stake), escrow (refunds and rewards scheduled for a later *)
(* height).  Every transaction kind of the node is an action that moves    *)
(* value; the property is the exact change of Sum(bal) per action:         *)
(*   0            transfers, fees, gas, EVM value transfers, failed txs    *)
(*   -stake       accepted miner apply / add-stake                         *)
(*   -b           self-destruct naming itself as beneficiary (b = balance) *)
(*   +amount      matured refund / block reward                            *)
(* The module is explored exhaustively with small amounts (LedgerMC part   *)
(* below, via Next) and its delta rule is what LedgerTrace evaluates, in   *)
(* exact big-number arithmetic, on the real balances after every block.    *)
(***************************************************************************)
EXTENDS Integers, Sequences, FiniteSets, TLC, Json

CONSTANTS Accounts,   \* e.g. {1, 2, 3}; account 0 is the fee account
          MaxAmt,     \* amounts 0..MaxAmt
          Depth       \* > 0: generate op sequences of this length for the driver

Fee == 0
All == Accounts \cup {Fee}

VARIABLES bal, locked, escrow, contracts, hist
vars == <<bal, locked, escrow, contracts, hist>>
(* contracts: accounts that are contracts (can self-destruct) *)

RECURSIVE SumF(_, _)
SumF(f, S) == IF S = {} THEN 0 ELSE LET x == CHOOSE y \in S : TRUE IN f[x] + SumF(f, S \ {x})
Total == SumF(bal, All)

Init == /\ bal = [a \in All |-> IF a = Fee THEN 0 ELSE 3]
        /\ locked = 0 /\ escrow = 0 /\ contracts = {} /\ hist = <<>>

Rec(o, a, b, v, ok) == [op |-> o, a |-> a, b |-> b, v |-> v, ok |-> ok]
Grow(r) == hist' = IF Depth = 0 THEN hist ELSE Append(hist, r)
Room == Depth = 0 \/ Len(hist) < Depth

Move(b0, s, t, v) == IF s = t THEN b0 ELSE [b0 EXCEPT ![s] = @ - v, ![t] = @ + v]

(* a flat fee is charged before execution and kept even when the transaction fails *)
FeeOf(s) == IF bal[s] >= 1 THEN 1 ELSE 0

(* asset transfer with one target; fails (state reverted, fee kept) when the balance is short *)
Transfer(s, t, v) ==
  /\ Room /\ s \notin contracts
  /\ LET f == FeeOf(s)
         b1 == Move(bal, s, Fee, f)
         ok == f = 1 /\ b1[s] >= v
     IN /\ bal' = IF ok THEN Move(b1, s, t, v) ELSE b1
        /\ Grow(Rec("Transfer", s, t, v, ok))
  /\ UNCHANGED <<locked, escrow, contracts>>

(* contract call carrying value v to contract c; the callee forwards the value to t and then
   either succeeds or reverts (revert undoes both movements); gas g <= 1 goes to the fee account *)
CallForward(s, c, t, v, reverts) ==
  /\ Room /\ c \in contracts /\ s \notin contracts
  /\ LET f == FeeOf(s)
         b1 == Move(bal, s, Fee, f)
         g  == IF b1[s] >= v + 1 THEN 1 ELSE 0
         ok == f = 1 /\ g = 1 /\ ~reverts
         b2 == IF ok THEN Move(Move(b1, s, c, v), c, t, v) ELSE b1
     IN /\ bal' = Move(b2, s, Fee, IF f = 1 THEN g ELSE 0)
        /\ Grow(Rec(IF reverts THEN "CallRevert" ELSE "CallForward", s, t, v, ok))
  /\ UNCHANGED <<locked, escrow, contracts>>

(* contract call carrying value v to contract c, which then moves an amount IT names (not the
   call's value) to t - by CALL, by CREATE or by CALLCODE: x = 0 everything it holds, x = 1 one unit
   more than it holds, x = 2 an astronomically large amount.  Only x = 0 moves anything (the EVM's
   CanTransfer refuses the others and the inner call just fails); way selects the instruction
   (0 CALL, 1 CREATE: the value goes to a fresh child, kept in the total, 2 CALLCODE: nothing
   moves at all). *)
CallExplicit(s, c, t, v, x, way) ==
  /\ Room /\ c \in contracts /\ s \notin contracts
  /\ LET f == FeeOf(s)
         b1 == Move(bal, s, Fee, f)
         g  == IF b1[s] >= v + 1 THEN 1 ELSE 0
         ok == f = 1 /\ g = 1
         b2 == IF ok THEN Move(b1, s, c, v) ELSE b1
         b3 == IF ok /\ x = 0 /\ way = 0 THEN Move(b2, c, t, b2[c]) ELSE b2    \* CREATE: child not an abstract account
     IN /\ bal' = Move(b3, s, Fee, IF f = 1 THEN g ELSE 0)
        /\ Grow([op |-> "CallExplicit", a |-> s, b |-> c, v |-> v + 3 * (x + 3 * (way + 3 * (IF t = c THEN 0 ELSE 1))), ok |-> ok])
  /\ UNCHANGED <<locked, escrow, contracts>>

(* wrapped Ethereum transaction (type 188): nonce-checked before anything else; with a nonce
   that is not the sender's next one it is evicted with no effect at all (no fee), otherwise it
   behaves like a contract call that forwards its value *)
EthCall(s, c, t, v, nonceOk) ==
  /\ Room /\ s \notin contracts
  /\ IF ~nonceOk
       THEN /\ UNCHANGED bal
            /\ Grow(Rec("EthStale", s, t, v, FALSE))
       ELSE LET f == FeeOf(s)
                b1 == Move(bal, s, Fee, f)
                g  == IF b1[s] >= v + 1 THEN 1 ELSE 0
                ok == f = 1 /\ g = 1
                b2 == IF ok THEN Move(Move(b1, s, c, v), c, t, v) ELSE b1
            IN /\ bal' = Move(b2, s, Fee, IF f = 1 THEN g ELSE 0)
               /\ Grow(Rec("EthForward", s, t, v, ok))
  /\ UNCHANGED <<locked, escrow, contracts>>

Deploy(s, c, v) ==
  /\ Room /\ c \notin contracts /\ c # s /\ s \notin contracts
  /\ LET f == FeeOf(s)  b1 == Move(bal, s, Fee, f)  ok == f = 1 /\ b1[s] >= v + 1 IN
       /\ bal' = IF ok THEN Move(Move(b1, s, c, v), s, Fee, 1) ELSE b1
       /\ contracts' = IF ok THEN contracts \cup {c} ELSE contracts
       /\ Grow(Rec("Deploy", s, c, v, ok))
  /\ UNCHANGED <<locked, escrow>>

(* self-destruct of contract c naming t as beneficiary: t = c burns the balance *)
SelfDestruct(s, c, t) ==
  /\ Room /\ c \in contracts /\ s \notin contracts
  /\ LET f == FeeOf(s)  b1 == Move(bal, s, Fee, f)  ok == f = 1 /\ b1[s] >= 1 IN
       /\ bal' = IF ok THEN Move(IF t = c THEN [b1 EXCEPT ![c] = 0] ELSE Move(b1, c, t, b1[c]), s, Fee, 1) ELSE b1
       /\ contracts' = IF ok THEN contracts \ {c} ELSE contracts
       /\ Grow(Rec("SelfDestruct", s, t, IF t = c THEN 1 ELSE 0, ok))
  /\ UNCHANGED <<locked, escrow>>

Stake(s, v) ==
  /\ Room /\ v >= 1 /\ s \notin contracts
  /\ LET f == FeeOf(s)  b1 == Move(bal, s, Fee, f)  ok == f = 1 /\ b1[s] >= v IN
       /\ bal' = IF ok THEN [b1 EXCEPT ![s] = @ - v] ELSE b1
       /\ locked' = IF ok THEN locked + v ELSE locked
       /\ Grow(Rec("Stake", s, 0, v, ok))
  /\ UNCHANGED <<escrow, contracts>>

Refund(s, v) ==
  /\ Room /\ v >= 1 /\ locked >= v /\ s \notin contracts
  /\ LET f == FeeOf(s) IN
       /\ bal' = Move(bal, s, Fee, f)
       /\ locked' = IF f = 1 THEN locked - v ELSE locked
       /\ escrow' = IF f = 1 THEN escrow + v ELSE escrow
       /\ Grow(Rec("Refund", s, 0, v, f = 1))
  /\ UNCHANGED contracts

Mature(t) ==
  /\ Room /\ escrow > 0
  /\ bal' = [bal EXCEPT ![t] = @ + escrow]
  /\ escrow' = 0
  /\ Grow(Rec("Mature", t, 0, escrow, TRUE))
  /\ UNCHANGED <<locked, contracts>>

Next ==
  \/ \E s, t \in Accounts, v \in 0..MaxAmt : Transfer(s, t, v)
  \/ \E s, c, t \in Accounts, v \in 0..MaxAmt, r \in BOOLEAN : CallForward(s, c, t, v, r)
  \/ \E s, c, t \in Accounts, v \in 0..MaxAmt, n \in BOOLEAN : EthCall(s, c, t, v, n)
  \/ \E s, c \in Accounts, v \in 0..MaxAmt : Deploy(s, c, v)
  \/ \E s, c, t \in Accounts, v \in 0..MaxAmt, x \in 0..2, way \in 0..2 : CallExplicit(s, c, t, v, x, way)
  \/ \E s, c, t \in Accounts : SelfDestruct(s, c, t)
  \/ \E s \in Accounts, v \in 1..MaxAmt : Stake(s, v) \/ Refund(s, v)
  \/ \E t \in Accounts : Mature(t)

Spec == Init /\ [][Next]_vars

(* the property on the model *)
InvNonNegative == \A a \in All : bal[a] >= 0
(* value is only ever created by maturing escrow and destroyed by staking / self-destruct-to-self *)
DeltaRule ==
  [][ LET d == SumF(bal', All) - SumF(bal, All) IN
        \/ d = 0
        \/ (d < 0 /\ locked' - locked = 0 - d)                 \* stake locked
        \/ (d < 0 /\ contracts' # contracts)                   \* burned by self-destruct to self
        \/ (d > 0 /\ escrow - escrow' = d) ]_vars              \* matured refund / reward
InvEverything == Total + locked + escrow <= 3 * Cardinality(Accounts)

Dump == (Depth > 0 /\ Len(hist) = Depth) => PrintT(<<"HIST", ToJson(hist)>>)
=============================================================================
