SPECIFICATION Spec
CONSTANTS
  LongFrames = {}
  Accounts = {1}
  Keys = {1}
  MaxDepth = 3
INVARIANTS TypeOK SurvivingEquivalent SnapIdsOrdered
PROPERTY RevertRestores
CHECK_DEADLOCK FALSE
