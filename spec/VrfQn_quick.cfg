SPECIFICATION QSpec
CONSTANTS
  Q = 5
  CMax = 8
  AsCoded = FALSE
  SSet = {3, 15, 24, 40}
  WSet = {0, 2}
  MaxQN = 5
INVARIANTS RangeInv AgreeInv MonotoneInv
CHECK_DEADLOCK FALSE
