------------------------------- MODULE VrfGen -------------------------------
(***************************************************************************)
(* Case generator for the qualification rule of C16: for every (total      *)
(* stake, working miners, difficulty adjustment active) of the             *)
(* configuration TLC computes, in exact arithmetic, the lottery values     *)
(* around every decision point of the rule -- 0, 1, the largest qualified  *)
(* value and its successors, the first value of every quality bucket and   *)
(* its predecessor, bucket mid points, the largest value -- and prints     *)
(* them as 32-byte strings for harness/cmd/c16 to feed to the real         *)
(* validateProve.                                                          *)
(***************************************************************************)
EXTENDS Vrf, Json

CONSTANTS StakeDecs,   \* total stakes, as sequences of decimal digits (most significant first)
          WorkDecs,    \* working-miner counts, same format
          MaxQN

Max256 == [i \in 1..32 |-> 255]

StakeDecsQuick == {<<1>>, <<3>>, <<1, 5>>, <<2, 0>>, <<2, 5>>, <<1, 0, 0>>, <<1, 0, 0, 0, 0, 0, 3>>, <<1, 0, 9, 9, 5, 1, 1, 6, 2, 7, 7, 7, 7>>}
WorkDecsQuick == {<<0>>, <<1>>, <<3>>}
StakeDecsFull == {<<1>>, <<2>>, <<3>>, <<5>>, <<1, 4>>, <<1, 5>>, <<1, 6>>, <<1, 9>>, <<2, 0>>, <<2, 4>>, <<2, 5>>, <<2, 6>>, <<1, 0, 0>>, <<1, 0, 0, 0>>, <<1, 0, 0, 0, 0, 0, 3>>, <<1, 0, 9, 9, 5, 1, 1, 6, 2, 7, 7, 7, 7>>, <<4, 5, 0, 3, 5, 9, 9, 6, 2, 7, 3, 7, 0, 4, 9, 9>>}
WorkDecsFull == {<<0>>, <<1>>, <<2>>, <<3>>, <<7>>, <<1, 0, 0>>}

FromDec(d) == Convert(Rev(d), 10, 256)

Combos == {c \in [S : {FromDec(d) : d \in StakeDecs}, W : {FromDec(d) : d \in WorkDecs}, active : BOOLEAN] :
             /\ Le(c.W, c.S)                      \* no more working miners than stake units
             /\ (IsZero(c.W) => ~c.active)}       \* without working miners the flag is irrelevant

CeilDiv(a, b) == Div(Add(a, Sub(b, <<1>>, 256), 256), b, 256)
Pred(a) == IF IsZero(a) THEN a ELSE Sub(a, <<1>>, 256)
Succ(a) == Add(a, <<1>>, 256)
Half(a, b) == Div(Add(a, b, 256), <<2>>, 256)

Values(c) ==
  LET sn  == StakeNum(c.S, c.W, c.active)
      cap == Capped(c.S, c.W, c.active)
      T   == IF cap THEN Max256 ELSE CeilDiv(Mul(sn, Max256, 256), c.S)      \* first unqualified value
      den == QDen(c.S, c.W, c.active, Max256)
      per == IF cap THEN <<MaxQN>> ELSE MulSmall(c.S, MaxQN, 256)            \* QNum = v * per
      Bk(k) == CeilDiv(MulSmall(den, k, 256), per)                           \* first value with quotient >= k
      raw == {<<>>, <<1>>, Pred(T), T, Succ(T), Pred(Pred(T)), Pred(Max256), Half(<<>>, T),
              (* values a 256-fold scaling would carry across the decision points *)
              Div(Max256, <<0, 1>>, 256), Div(Max256, <<128>>, 256), Div(T, <<0, 1>>, 256), Div(T, <<200>>, 256)} \cup
             UNION {{Bk(k), Pred(Bk(k)), Half(Bk(k), Bk(k + 1))} : k \in 1..(MaxQN - 1)}
  IN  {v \in raw : Lt(v, Max256)}

VARIABLE g
gvars == <<w, g>>
GInit == /\ w = [x |-> 1, hh |-> 1, k |-> 1, t |-> 0, e |-> 0, c |-> 0]
         /\ g \in Combos
GNext == UNCHANGED gvars
GSpec == GInit /\ [][GNext]_gvars

Bytes32(v) == PadLeft(Rev(Norm(v)), 32)

(* the reference satisfies the property's range claim on every generated value *)
GenRangeInv == \A v \in Values(g) : QnRangeOK(v, g.S, g.W, g.active, Max256, MaxQN)

(* related message pairs for the real prover / verifier *)
ASSUME PrintT(<<"VRFMSGCASES", ToJson(VrfMsgCases)>>)

Dump == PrintT(<<"CASE", ToJson([S |-> g.S, W |-> g.W, active |-> g.active,
                                  values |-> {Bytes32(v) : v \in Values(g)}])>>)
=============================================================================
