SPECIFICATION TraceSpec
CONSTANTS
  NMem = 4
  KThr = 3
  Byz = {3, 4}
  MaxByz = 2
  MaxDup = 1
  MaxLen = 8
  Focus = "shares"
  AsCoded = FALSE
INVARIANT Report
CHECK_DEADLOCK FALSE
