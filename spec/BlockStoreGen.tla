--------------------------- MODULE BlockStoreGen ---------------------------
(***************************************************************************)
(* Scenario generator for BlockStore: every block tree within the bounds   *)
(* and every delivery order of length D (duplicates and orphans included). *)
(* Each scenario is printed with features computed by playing it on the    *)
(* model (deepest reorg, call results, callback of a future block), which  *)
(* the orchestrator uses to stratify its sample.  The scenarios are        *)
(* replayed on the real chain by harness/cmd/c05.                          *)
(***************************************************************************)
EXTENDS BlockStore, Json

CONSTANTS N, D, Gaps
VARIABLES tree, order
gvars == <<tree, order>>

RECURSIVE Play(_, _, _, _, _)
Play(t, s, ord, i, acc) ==
  IF i > Len(ord) THEN acc
  ELSE LET b    == ord[i]
           pre  == [s EXCEPT !.pending = @ \cup (TxsOf(t, b) \ s.executed)]
           s0   == Begin(t, pre, b)
           post == RunAll(t, s0)
           rem  == Cardinality(Canon(t, pre) \ Canon(t, post))
           nh   == Len(HeadsOfCall(t, s0)) - 1
       IN Play(t, post, ord, i + 1,
               [maxRem |-> IF rem > acc.maxRem THEN rem ELSE acc.maxRem,
                res |-> acc.res \o <<post.res>>,
                multiHead |-> acc.multiHead \/ nh > 1])

Features(t, ord) == Play(t, InitState(t), ord, 1, [maxRem |-> 0, res |-> <<>>, multiHead |-> FALSE])

Init == tree \in TreesUpTo(N, Gaps) /\ order = <<>>
Next == /\ Len(order) < D
        /\ \E b \in 1..N : order' = Append(order, b)
        /\ UNCHANGED tree
GenSpec == Init /\ [][Next]_gvars

TreeJson(t) == [i \in 1..Len(t) |-> [parent |-> t[i].parent, height |-> t[i].height, tqn |-> t[i].tqn,
                                     pv |-> t[i].pv, rank |-> t[i].rank,
                                     txs |-> IF t[i].txs = {} THEN <<>> ELSE <<CHOOSE x \in t[i].txs : TRUE>>]]
Dump == (Len(order) = D) =>
          PrintT(<<"SCEN", ToJson([tree |-> TreeJson(tree), order |-> order, feat |-> Features(tree, order)])>>)
=============================================================================
