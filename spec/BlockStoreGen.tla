--------------------------- MODULE BlockStoreGen ---------------------------
(***************************************************************************)
(* Scenario generator for BlockStore: every block tree within the bounds   *)
(* and every delivery order of length D (duplicates and orphans included). *)
(* Each scenario is printed with features computed by playing it on the    *)
(* model (deepest reorg, call results, callback of a future block), which  *)
(* the orchestrator uses to stratify its sample.  The scenarios are        *)
(* replayed on the real chain by harness/cmd/c05.                          *)
(***************************************************************************)
EXTENDS BlockStore, Json

CONSTANTS N, D, Gaps, Forks
VARIABLES tree, order
gvars == <<tree, order>>

(* an operation is a delivery [k |-> "D", b] or a fork switch [k |-> "F", a, b]: the sync
   processor switches to the fork a -> ... -> b, a being on the local chain *)
RECURSIVE Play(_, _, _, _, _)
Play(t, s, ord, i, acc) ==
  IF i > Len(ord) THEN acc
  ELSE LET o    == ord[i]
           b    == o.b
           pre  == IF o.k = "D" THEN [s EXCEPT !.pending = @ \cup (TxsOf(t, b) \ s.executed)] ELSE s
           s0   == IF o.k = "D" THEN Begin(t, pre, b) ELSE BeginFork(t, pre, PathDown(t, o.a, b))
           post == RunAll(t, s0)
           rem  == Cardinality(Canon(t, pre) \ Canon(t, post))
           nh   == Len(HeadsOfCall(t, s0)) - 1
           (* which branch of addBlockOnChain decides this delivery; for a tie of the total QN also how
              deep the fork point lies below the head and whether comparing with the head block
              instead of the block above the fork point would decide differently *)
           dk   == IF o.k # "D" THEN [k |-> "fork", keep |-> FALSE, x |-> FALSE, d |-> 0]
                   ELSE IF Par(t, b) \notin pre.hashDB THEN [k |-> "orphan", keep |-> FALSE, x |-> FALSE, d |-> 0]
                   ELSE IF b \in pre.hashDB THEN [k |-> "dup", keep |-> FALSE, x |-> FALSE, d |-> 0]
                   ELSE IF Par(t, b) = pre.latest THEN [k |-> "ext", keep |-> FALSE, x |-> FALSE, d |-> 0]
                   ELSE IF Qn(t, b) < Qn(t, pre.latest) THEN [k |-> "less", keep |-> TRUE, x |-> FALSE, d |-> Hgt(t, pre.latest) - Hgt(t, Par(t, b))]
                   ELSE IF Qn(t, b) > Qn(t, pre.latest) THEN [k |-> "more", keep |-> FALSE, x |-> FALSE, d |-> Hgt(t, pre.latest) - Hgt(t, Par(t, b))]
                   ELSE LET ln == pre.hidx[Hgt(t, Par(t, b)) + 1] IN
                        IF ln = None THEN [k |-> "tie-gap", keep |-> TRUE, x |-> FALSE, d |-> Hgt(t, pre.latest) - Hgt(t, Par(t, b))]
                        ELSE [k |-> "tie", keep |-> PvGreater(t, ln, b), x |-> PvGreater(t, ln, b) # PvGreater(t, pre.latest, b),
                              d |-> Hgt(t, pre.latest) - Hgt(t, Par(t, b))]
       IN Play(t, post, ord, i + 1,
               [maxRem |-> IF rem > acc.maxRem THEN rem ELSE acc.maxRem,
                res |-> acc.res \o <<post.res>>,
                dk |-> acc.dk \o <<dk>>,
                multiHead |-> acc.multiHead \/ nh > 1,
                ended |-> acc.ended /\ Ended(post)])

Features(t, ord) == Play(t, InitState(t), ord, 1, [maxRem |-> 0, res |-> <<>>, dk |-> <<>>, multiHead |-> FALSE, ended |-> TRUE])

Init == tree \in TreesUpTo(N, Gaps) /\ order = <<>>
(* fork switches only as the last operation (the model state is not carried in the generator, so
   "a on the local chain" is decided when the scenario is played; an unsuitable a is a no-op) *)
Next == /\ Len(order) < D
        /\ \/ \E b \in 1..N : order' = Append(order, [k |-> "D", a |-> 0, b |-> b])
           \/ /\ Forks /\ Len(order) = D - 1
              /\ \E x \in 1..N, a \in 0..N :
                    /\ a # x /\ a \in Ancestors(tree, x)
                    /\ order' = Append(order, [k |-> "F", a |-> a, b |-> x])
        /\ UNCHANGED tree
GenSpec == Init /\ [][Next]_gvars

TreeJson(t) == [i \in 1..Len(t) |-> [parent |-> t[i].parent, height |-> t[i].height, tqn |-> t[i].tqn,
                                     pv |-> t[i].pv, rank |-> t[i].rank,
                                     txs |-> IF t[i].txs = {} THEN <<>> ELSE <<CHOOSE x \in t[i].txs : TRUE>>]]
Dump == (Len(order) = D) =>
          PrintT(<<"SCEN", ToJson([tree |-> TreeJson(tree), order |-> order, feat |-> Features(tree, order)])>>)
=============================================================================
