SPECIFICATION TraceSpec
CONSTANTS
  MaxId = 7
  MaxOps = 100
  AsCoded = TRUE
INVARIANT Report
CHECK_DEADLOCK FALSE
