SPECIFICATION GenSpec
CONSTANTS
  Ids = {1, 2}
  MaxCount = 6
  AsCoded = FALSE
  Crashes = FALSE
  Batched = TRUE
  Recheck = TRUE
  Depth = 4
  Forks = TRUE
  Concs = TRUE
  Early = FALSE
  SplitLock = FALSE
INVARIANTS GenInv Dump
CHECK_DEADLOCK FALSE
