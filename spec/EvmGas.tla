------------------------------- MODULE EvmGas -------------------------------
(***************************************************************************)
(* Resource bounds of EVM execution (C11).                                 *)
(*                                                                         *)
(* Part 1 - reference formulas on gas amounts.  Gas is a uint64 in the     *)
(* code and a BigNat digit sequence in base 256 here (TLC integers are     *)
(* 32-bit).                                                                *)
(*                                                                         *)
(* Part 2 - an abstract machine of frames and gas that TLC explores        *)
(* exhaustively for small limits: an instruction costs at least 1, a call  *)
(* hands at most all-but-one-64th of the caller's gas to the callee and is *)
(* refused beyond the depth limit, a failing frame loses its gas, a        *)
(* returning frame hands back what is left.  Properties: gas is conserved  *)
(* (what was burnt plus what the live frames hold is what was supplied, so *)
(* no frame ever holds more than the limit or less than zero), the depth   *)
(* stays within the limit, and 2 * (live gas) + depth strictly decreases   *)
(* with every step: every execution terminates.  The premise "every        *)
(* non-halting instruction costs at least 1" is checked against the real   *)
(* jump table and on every recorded step by EvmGasTrace.                   *)
(***************************************************************************)
EXTENDS BigNat

G256 == 256

(* ------------------------------------------------------------- formulas *)
GasOf(n) == FromNat(n, G256)                 \* n a TLC integer
WordsOf(bytes) == (bytes + 31) \div 32       \* bytes < 2^31 - 31
(* total memory fee for w words: 3w + floor(w^2 / 512) (Yellow Paper C_mem) *)
MemFee(w) == LET W == GasOf(w) IN Add(MulSmall(W, 3, G256), Div(Mul(W, W, G256), GasOf(512), G256), G256)
(* fee for growing memory from b0 to b1 bytes *)
MemGrowFee(b0, b1) == IF b1 <= b0 THEN <<>> ELSE Sub(MemFee(WordsOf(b1)), MemFee(WordsOf(b0)), G256)
(* EIP-150: a caller keeps at least one 64th of its gas *)
AllButOne64th(x) == Sub(x, Div(x, <<64>>, G256), G256)
CallStipend == GasOf(2300)
(* a - b when a >= b, else 0 *)
Monus(a, b) == IF Le(b, a) THEN Sub(a, b, G256) ELSE <<>>

(* ------------------------------------------------------ abstract machine *)
CONSTANTS GasLimit,              \* gas supplied to the outermost frame
          DepthLimit,            \* 1024 in the EVM: frames have depth index 0..DepthLimit
          Costs,                 \* possible costs of one instruction (all >= 1)
          Requests               \* gas amounts a call instruction may ask for

VARIABLES frames,                \* sequence of gas amounts, outermost first
          burnt,                 \* gas consumed so far
          ended                  \* the outermost frame has returned
gvars == <<frames, burnt, ended>>

RECURSIVE SumSeq(_)
SumSeq(s) == IF s = <<>> THEN 0 ELSE s[1] + SumSeq(Tail(s))
Live == SumSeq(frames)
Depth == Len(frames)
TopGas == frames[Depth]
SetTop(g) == [frames EXCEPT ![Depth] = g]
Pop == SubSeq(frames, 1, Depth - 1)

GInit == frames = <<GasLimit>> /\ burnt = 0 /\ ended = FALSE

(* an instruction that is paid for *)
Instr(c) == /\ ~ended /\ Depth >= 1 /\ TopGas >= c
            /\ frames' = SetTop(TopGas - c) /\ burnt' = burnt + c /\ UNCHANGED ended
(* any fault (out of gas, bad jump, stack fault, write protection ...): the frame's gas is forfeited *)
FaultOut == /\ ~ended /\ Depth >= 1
            /\ burnt' = burnt + TopGas
            /\ IF Depth = 1 THEN frames' = <<>> /\ ended' = TRUE
               ELSE frames' = Pop /\ UNCHANGED ended
(* RETURN / STOP / REVERT: what is left goes back to the caller *)
ReturnOut == /\ ~ended /\ Depth >= 1 /\ UNCHANGED burnt
             /\ IF Depth = 1 THEN frames' = <<>> /\ ended' = TRUE     \* left over gas is returned to the sender
                ELSE frames' = [Pop EXCEPT ![Depth - 1] = @ + TopGas] /\ UNCHANGED ended
(* CALL-like instruction with base cost c asking for req gas *)
CallIn(c, req) ==
  /\ ~ended /\ Depth >= 1 /\ TopGas >= c
  /\ LET avail == TopGas - c
         child == IF req < avail - (avail \div 64) THEN req ELSE avail - (avail \div 64)
     IN IF Depth > DepthLimit
          THEN frames' = SetTop(avail)                     \* refused: the callee's gas stays with the caller
          ELSE frames' = Append(SetTop(avail - child), child)
  /\ burnt' = burnt + c /\ UNCHANGED ended

GNext == \/ \E c \in Costs : Instr(c)
         \/ FaultOut \/ ReturnOut
         \/ \E c \in Costs, q \in Requests : CallIn(c, q)
GSpec == GInit /\ [][GNext]_gvars

Conserved == burnt + Live <= GasLimit /\ (~ended => burnt + Live = GasLimit)
Bounded == \A i \in 1..Depth : frames[i] >= 0 /\ frames[i] <= GasLimit
DepthOK == Depth <= DepthLimit + 1
Rank == 2 * Live + Depth
Progress == [][Rank' < Rank]_gvars
=============================================================================
