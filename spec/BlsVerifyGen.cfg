SPECIFICATION GenSpec
CONSTANTS
  NK = 2
  NM = 2
  R = 1009
  TruncSig = {0, 1, 31, 32, 33, 63}
  TruncPk = {0, 64, 127}
  Extra = {1, 32}
  BitsSig = {0, 7, 255, 256, 511}
  BitsPk = {0, 1023}
INVARIANTS UniquenessInv Dump
CHECK_DEADLOCK FALSE
