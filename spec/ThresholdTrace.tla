-------------------------- MODULE ThresholdTrace --------------------------
(***************************************************************************)
(* Trace monitor for C13.  harness/cmd/c13 runs the node's own group key   *)
(* generation (groupInitContext / groupNodeInfo through hook H3) and the   *)
(* real signing / recovery code, and logs one event per call.  Secrets and *)
(* curve points are outside TLA+'s reach: the driver logs return codes,    *)
(* counts, verification verdicts of the real VerifySig and equality classes*)
(* of byte strings; this module owns what each of them has to be.          *)
(*                                                                         *)
(* Bound variables: recv (pieces stored per member, observable through the *)
(* received count), coll (arrival order at the collector), rec (None / 1:  *)
(* recovered).  polys, sk, gpk, h are secrets or curve points: unbound.    *)
(*                                                                         *)
(* Verdict tags (clauses of the property) start with "Inv."; the others    *)
(* are conformance of the real calls with the reference actions.           *)
(***************************************************************************)
EXTENDS Threshold, Json

Trace == ndJsonDeserialize("trace.ndjson")

VARIABLES l, bad, gn     \* gn: size of the group the current events belong to
tvars == <<vars, l, bad, gn>>

Tag(c, t) == IF c THEN <<>> ELSE <<t>>
AllTrue(s) == \A i \in 1..Len(s) : s[i]

IdsId == [i \in 1..N |-> i]

(* the threshold the signing side combines at (GetGroupK) is ceil(51 n / 100), and the DKG deals
   polynomials with exactly that many coefficients: otherwise k shares do not determine the secret *)
JudgeK(e) == Tag(e.k = K(e.n), "Inv.ThresholdIsCeil51") \o
             Tag(e.dkgK = e.k, "Inv.DkgThresholdIsSigningThreshold")

JudgeDkgStart(e) == Tag(e.k = K(e.n), "Inv.ThresholdIsCeil51")

JudgeDeliver(e) ==
  LET mem == 1..gn
      rv  == recv[e.to]
      rv2 == rv \cup {e.from}
  IN  Tag(e.rc = RcOf(rv, e.from, mem), "Deliver.rc") \o
      Tag(e.count = Cardinality(rv2), "Deliver.count") \o
      Tag(e.ready = (rv2 = mem), "Deliver.ready")

JudgeDkgEnd(e) ==
  Tag(\A j \in 1..gn : recv[j] = 1..gn, "DkgEnd.incomplete") \o
  Tag(AllTrue([i \in 1..Len(e.gpkClass) |-> e.gpkClass[i] = 1]) /\ e.gpkIsSumOfDealerPubs, "Inv.GpkAgree") \o
  Tag(AllTrue(e.shareOk), "Inv.ShareVerifiesUnderPublicShare")

JudgeArrive(e) ==
  LET can == rec = None /\ e.j \notin Range(coll)
      c2  == IF can THEN Append(coll, e.j) ELSE coll
  IN  Tag(e.added = can, "Arrive.added") \o
      Tag(e.count = Len(c2), "Arrive.count") \o
      Tag(e.generated = (Len(c2) >= K(gn)), "Arrive.generated")

(* a recovery from m >= K(n) distinct members' shares must give the one
   signature that verifies under the group public key *)
(* member ids with structure the recovery might trip over; the two degenerate styles get their own
   signatures (ids that coincide modulo the group order are the same interpolation point) *)
StyleSuffix(e) == IF e.idStyle \in {"congruent", "zeroModOrder"} THEN ":" \o e.idStyle ELSE ""

JudgeRecovered(e) ==
  IF e.m >= K(e.n)
    THEN Tag(~e.panicked /\ e.generated /\ e.verifies, "Inv.RecoveredVerifiesUnderGroupKey" \o StyleSuffix(e)) \o
         Tag(e.panicked \/ ~e.generated \/ e.sigClass = 1, "Inv.RecoveredIsUnique" \o StyleSuffix(e))
    ELSE Tag(~e.generated, "Recovered.belowThreshold")

(* a dealer whose context is rebuilt deals the same pieces again: they are a function of the miner's
   secret and the group hash *)
JudgeRedeal(e) == Tag(e.samePieces /\ e.sameSeedPk, "Inv.RedealReproducesPieces")

(* observations about degenerate ids (outside the statement): two members whose ids coincide modulo the
   group order hold the same share; a member whose id is 0 modulo the order holds the group secret *)
JudgeIdFacts(e) ==
  Tag(~e.sharesOfMembers1And2Equal, "Ext.DistinctMembersHoldDistinctShares:" \o e.idStyle) \o
  Tag(~e.member1HoldsGroupSecret, "Ext.NoMemberHoldsTheGroupSecret:" \o e.idStyle)

(* recoveries running at the same time give what they give alone *)
JudgeConcurrentRecover(e) ==
  Tag(e.mismatches = 0, "Inv.RecoveredIsUnique:concurrent") \o
  Tag(e.verifyFailures = 0, "Inv.RecoveredVerifiesUnderGroupKey:concurrent")

(* groups created at the same time in one process, their dealers dealing at the same time: every one of
   them is a group like any other (one group key, every threshold subset the same valid signature), and
   the key generation ends (a panic is an outcome) *)
JudgeConcurrentDkg(e) ==
  Tag(e.panics = 0, "Inv.KeyGenerationEnds:concurrentDkg") \o
  Tag(e.errors = 0, "ConcurrentDkg.error") \o
  Tag(e.gpkDisagree = 0 /\ e.gpkNotSumOfDealerPubs = 0, "Inv.GpkAgree:concurrentDkg") \o
  Tag(e.verifyFailures = 0, "Inv.RecoveredVerifiesUnderGroupKey:concurrentDkg") \o
  Tag(e.mismatches = 0, "Inv.RecoveredIsUnique:concurrentDkg")

Judge(e) ==
  CASE e.event = "K"         -> JudgeK(e)
    [] e.event = "ConcurrentDkg" -> JudgeConcurrentDkg(e)
    [] e.event = "ConcurrentRecover" -> JudgeConcurrentRecover(e)
    [] e.event = "Redeal"    -> JudgeRedeal(e)
    [] e.event = "IdFacts"   -> JudgeIdFacts(e)
    [] e.event = "DkgStart"  -> JudgeDkgStart(e)
    [] e.event = "Deliver"   -> JudgeDeliver(e)
    [] e.event = "DkgEnd"    -> JudgeDkgEnd(e)
    [] e.event = "CaseStart" -> <<>>
    [] e.event = "Arrive"    -> JudgeArrive(e)
    [] e.event = "Recovered" -> JudgeRecovered(e)
    [] OTHER                 -> <<"unknown-event">>

TraceInit ==
  /\ polys = <<>> /\ h = 0 /\ sk = <<>> /\ gpk = <<>> /\ got = <<>>
  /\ recv = [j \in 1..N |-> {}] /\ coll = <<>> /\ rec = None
  /\ l = 1 /\ bad = <<>> /\ gn = 0

TraceNext ==
  /\ l <= Len(Trace)
  /\ l' = l + 1
  /\ LET e == Trace[l] IN
       /\ bad' = bad \o [i \in 1..Len(Judge(e)) |-> <<l, e.event, Judge(e)[i]>>]
       /\ gn' = IF e.event \in {"DkgStart", "CaseStart"} THEN e.n ELSE gn
       /\ recv' = CASE e.event = "DkgStart" -> [j \in 1..N |-> {}]
                    [] e.event = "Deliver"  -> [recv EXCEPT ![e.to] = @ \cup {e.from}]
                    [] OTHER -> recv
       /\ coll' = CASE e.event = "CaseStart" -> <<>>
                    [] e.event = "Arrive" /\ e.added -> Append(coll, e.j)
                    [] OTHER -> coll
       /\ rec' = CASE e.event = "CaseStart" -> None
                   [] e.event = "Arrive" /\ e.generated -> 1
                   [] OTHER -> rec
       /\ UNCHANGED <<polys, h, sk, gpk, got>>

TraceSpec == TraceInit /\ [][TraceNext]_tvars

Report == (l = Len(Trace) + 1) => PrintT(<<"VERDICT", Len(Trace), ToJson(bad)>>)
=============================================================================
