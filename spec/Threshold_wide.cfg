SPECIFICATION Spec
CONSTANTS
  N = 3
  P = 11
  IdSeq <- Ids3
  Coefs = {0, 1, 4, 10}
  FreshRedeal = FALSE
  HSet = {2, 7}
INVARIANTS TypeOK ShareValid GpkAgree RecoverUnique AnySubsetAnyOrder VerifiesUnderGpk PiecesOnOnePolynomial GpkAllEqual
CHECK_DEADLOCK FALSE
