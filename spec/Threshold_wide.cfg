SPECIFICATION Spec
CONSTANTS
  N = 3
  P = 11
  IdSeq <- Ids3
  Coefs = {0, 1, 4, 10}
  HSet = {2, 7}
INVARIANTS TypeOK ShareValid GpkAgree RecoverUnique AnySubsetAnyOrder VerifiesUnderGpk
CHECK_DEADLOCK FALSE
