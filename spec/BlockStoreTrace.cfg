SPECIFICATION TraceSpec
CONSTANTS
  ReorgMarked = TRUE
INVARIANT Report
CHECK_DEADLOCK FALSE
