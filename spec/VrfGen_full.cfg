SPECIFICATION GSpec
CONSTANTS
  Q = 5
  CMax = 8
  AsCoded = FALSE
  StakeDecs <- StakeDecsFull
  WorkDecs <- WorkDecsFull
  MaxQN = 5
INVARIANTS GenRangeInv Dump
CHECK_DEADLOCK FALSE
