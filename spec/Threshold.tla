----------------------------- MODULE Threshold -----------------------------
(***************************************************************************)
(* Group key generation and threshold signing of go-rangers, over GF(P)    *)
(* for a small prime P (the real code works over the 254-bit order of the  *)
(* BN curve; every step below is the same algebra).                        *)
(*                                                                         *)
(* Code this follows:                                                      *)
(*   group_create/group_node_info.go  genSharePiece, handleSharePiece,     *)
(*                                    aggregateKeys                         *)
(*   groupsig/seckey.go               ShareSeckey (Horner), AggregateSeckeys*)
(*   groupsig/pubkey.go               AggregatePubkeys                      *)
(*   groupsig/sig.go                  Sign, RecoverGroupSignature,          *)
(*                                    recoverSignature (Lagrange at 0)      *)
(*   model/group_sign.go              GroupSignGenerator.AddWitnessSign     *)
(*   model/param.go                   GetGroupK                             *)
(*                                                                         *)
(* Additive model of the groups: a public key is the scalar itself         *)
(* (pk = sk * g2), the hash of the message is a scalar h, a signature is   *)
(* sk * h, and "sigma verifies under pk for h" is sigma = pk * h.          *)
(*                                                                         *)
(* State machine: every member is a dealer with a polynomial of degree     *)
(* K-1 (chosen nondeterministically at Init); Deliver(i, j) is member j's  *)
(* handleSharePiece for dealer i's piece (one critical section: store the  *)
(* piece and, when the last one arrived, aggregate the keys); Arrive(j) is *)
(* AddWitnessSign of j's signature share at a collector, which recovers    *)
(* the group signature from the shares it holds when the threshold is      *)
(* reached (Go map order: any order) and refuses shares afterwards.        *)
(***************************************************************************)
EXTENDS Integers, Sequences, FiniteSets, TLC

CONSTANTS N,        \* group size
          P,        \* prime field size, P > every member id
          IdSeq,    \* member ids: N distinct elements of 1..P-1
          Coefs,    \* coefficient values the dealers choose from
          HSet,     \* message hashes (non-zero scalars)
          FreshRedeal  \* BOOLEAN: a dealer whose context is rebuilt deals a NEW polynomial (candidate
                       \* behaviour; the reference re-derives the same one from miner secret and group hash)

(* threshold the node derives for a group of n: ceil(51 n / 100) *)
K(n) == (51 * n + 99) \div 100

Members == 1..N
None == -1
Kn == K(N)

M(x) == x % P
Inv(a) == CHOOSE b \in 1..(P - 1) : (a * b) % P = 1

(* Horner evaluation as ShareSeckey does it; poly[1] is the constant term *)
RECURSIVE Horner(_, _, _, _)
Horner(poly, x, j, acc) == IF j = 0 THEN acc ELSE Horner(poly, x, j - 1, M(acc * x + poly[j]))
Eval(poly, x) == Horner(poly, x, Len(poly) - 1, poly[Len(poly)])

RECURSIVE SumSeq(_, _)
SumSeq(f, n) == IF n = 0 THEN 0 ELSE M(f[n] + SumSeq(f, n - 1))

RECURSIVE ProdSkip(_, _, _)
(* product of ts[j] over j in 1..Len(ts), j # skip *)
ProdSkip(ts, skip, j) ==
  IF j > Len(ts) THEN 1 ELSE M((IF j = skip THEN 1 ELSE ts[j]) * ProdSkip(ts, skip, j + 1))

(* recoverSignature(sigs, ids): Lagrange interpolation at 0 *)
Lagrange(xs, sigs) ==
  LET k == Len(xs)
      Delta(i) == LET num == ProdSkip(xs, i, 1)
                      den == ProdSkip([j \in 1..k |-> M(xs[j] - xs[i] + P)], i, 1)
                  IN M(num * Inv(den))
  IN SumSeq([i \in 1..k |-> M(Delta(i) * sigs[i])], k)

(* all orderings of a finite set, as sequences *)
RECURSIVE Perms(_)
Perms(S) == IF S = {} THEN {<<>>}
            ELSE UNION {{<<x>> \o p : p \in Perms(S \ {x})} : x \in S}

KSubsets(S, k) == {T \in SUBSET S : Cardinality(T) = k}

-----------------------------------------------------------------------------
VARIABLES polys,   \* dealer -> coefficient sequence of length Kn
          h,       \* the message hash being signed
          recv,    \* member -> set of dealers whose piece it stored
          got,     \* member -> (dealer -> the piece <<share, pub>> it stored)
          sk,      \* member -> secret share, None before aggregation
          gpk,     \* member -> group public key as it aggregated it
          coll,    \* arrival order of signature shares at the collector
          rec      \* recovered group signature, None before the threshold
vars == <<polys, h, recv, got, sk, gpk, coll, rec>>

Init ==
  /\ polys \in [Members -> [1..Kn -> Coefs]]
  /\ h \in HSet
  /\ recv = [j \in Members |-> {}]
  /\ got = [j \in Members |-> <<>>]
  /\ sk = [j \in Members |-> None]
  /\ gpk = [j \in Members |-> None]
  /\ coll = <<>>
  /\ rec = None

(* what dealer i sends to member j: <<share, pub>> *)
Piece(i, j) == <<Eval(polys[i], IdSeq[j]), polys[i][1]>>

(* return code of handleSharePiece: dealer i's piece at a member that has
   stored the pieces of the dealers in rv, in a group with member set mem *)
RcOf(rv, i, mem) == IF i \in rv THEN -1
                    ELSE IF rv \cup {i} = mem THEN 1 ELSE 0
DeliverRc(i, j) == RcOf(recv[j], i, Members)

Deliver(i, j) ==
  /\ i \notin recv[j]
  /\ recv' = [recv EXCEPT ![j] = @ \cup {i}]
  /\ got' = [got EXCEPT ![j] = [d \in recv[j] \cup {i} |-> IF d = i THEN Piece(i, j) ELSE got[j][d]]]
  /\ IF recv'[j] = Members
       THEN /\ sk' = [sk EXCEPT ![j] = SumSeq([d \in Members |-> got'[j][d][1]], N)]
            /\ gpk' = [gpk EXCEPT ![j] = SumSeq([d \in Members |-> got'[j][d][2]], N)]
       ELSE UNCHANGED <<sk, gpk>>
  /\ UNCHANGED <<polys, h, coll, rec>>

(* the dealer's group context is built again (restart in the middle of the exchange, eviction from the
   context cache): what it deals is a function of (miner secret, group hash), so the same polynomial --
   a stuttering step of the reference.  FreshRedeal: a new polynomial (explored as a candidate). *)
Redeal(i) ==
  /\ \E q \in (IF FreshRedeal THEN [1..Kn -> Coefs] ELSE {polys[i]}) : polys' = [polys EXCEPT ![i] = q]
  /\ UNCHANGED <<h, recv, got, sk, gpk, coll, rec>>

SigOf(j) == M(sk[j] * h)

Range(s) == {s[i] : i \in 1..Len(s)}

(* AddWitnessSign: refused once recovered or if already present; recovery from
   the Kn shares held, iterated in any order *)
Arrive(j) ==
  /\ sk[j] # None
  /\ rec = None
  /\ j \notin Range(coll)
  /\ coll' = Append(coll, j)
  /\ IF Len(coll') >= Kn
       THEN \E T \in KSubsets(Range(coll'), Kn) : \E ord \in Perms(T) :
              rec' = Lagrange([i \in 1..Kn |-> IdSeq[ord[i]]], [i \in 1..Kn |-> SigOf(ord[i])])
       ELSE rec' = rec
  /\ UNCHANGED <<polys, h, recv, got, sk, gpk>>

Next == \/ \E i, j \in Members : Deliver(i, j)
        \/ \E i \in Members : Redeal(i)
        \/ \E j \in Members : Arrive(j)

Spec == Init /\ [][Next]_vars

-----------------------------------------------------------------------------
(* The property *)

(* the sum polynomial of all dealers, and the group secret *)
F == [c \in 1..Kn |-> SumSeq([d \in Members |-> polys[d][c]], N)]
GroupSecret == F[1]
GroupSig == M(GroupSecret * h)

Ready == {j \in Members : sk[j] # None}

(* a member's share is the sum polynomial at its id; its signature share
   verifies under its public share *)
ShareValid == \A j \in Ready : /\ sk[j] = Eval(F, IdSeq[j])
                               /\ SigOf(j) = M(sk[j] * h)
(* every member aggregates the same group public key = sum of the dealers' *)
GpkAgree == \A j \in Ready : gpk[j] = GroupSecret
(* what the collector recovered is the group signature *)
RecoverUnique == rec # None => rec = GroupSig
(* any subset of at least Kn ready members, any Kn of them in any order *)
AnySubsetAnyOrder ==
  \A S \in SUBSET Ready : Cardinality(S) >= Kn =>
    \A T \in KSubsets(S, Kn) : \A ord \in Perms(T) :
      Lagrange([i \in 1..Kn |-> IdSeq[ord[i]]], [i \in 1..Kn |-> SigOf(ord[i])]) = GroupSig
(* and it verifies under the group public key *)
VerifiesUnderGpk == \A j \in Ready : rec # None => rec = M(gpk[j] * h)

(* all pieces of one dealer that were delivered lie on one polynomial (and carry one public key);
   hence every member that finished derives the same group public key *)
PiecesOnOnePolynomial ==
  \A i \in Members : \E q \in [1..Kn -> Coefs] :
     \A j \in Members : i \in recv[j] => got[j][i] = <<Eval(q, IdSeq[j]), q[1]>>
GpkAllEqual == \A a, b \in Ready : gpk[a] = gpk[b]

TypeOK == /\ Len(coll) <= N
          /\ \A j \in Members : recv[j] \subseteq Members

(* id assignments referenced from the configuration files (IdSeq <- IdsN) *)
Ids3 == <<3, 1, 5>>
Ids4 == <<2, 6, 1, 4>>
Ids5 == <<5, 9, 2, 7, 1>>

ASSUME /\ N < P /\ Len(IdSeq) = N
       /\ \A a, b \in 1..N : a # b => IdSeq[a] # IdSeq[b]
       /\ \A a \in 1..N : IdSeq[a] \in 1..(P - 1)
=============================================================================
