------------------------------- MODULE TxAuth -------------------------------
(***************************************************************************)
(* Reference model of transaction admission (property C07):                *)
(* service.TransactionPool.VerifyTransaction accepts a transaction only if *)
(* its hash is the digest of its own content, its chain id is the chain's  *)
(* at that height, and its signature is valid for that hash and recovers   *)
(* to the declared sender; a wrapped Ethereum transaction only if sender,  *)
(* target, nonce, value/gas/data and hash are those of the signed RLP      *)
(* payload under EIP-155 for this chain.                                   *)
(*                                                                         *)
(* Cryptography is abstract and injective where the statement relies on    *)
(* it: a digest is the tuple of the hashed symbols, a signature is the     *)
(* pair (key, message), and any damaged digest/signature/encoding is a     *)
(* value different from every honest one (a bit-flipped signature recovers *)
(* to a key that is nobody's).  Field values are symbols; the driver       *)
(* instantiates them with real keys, contents, digests and signatures.     *)
(*                                                                         *)
(* Native transaction                                                      *)
(*   [kind |-> "native", f |-> fields, Hash |-> [of, dmg, bit],            *)
(*    Sign |-> [k, sof, dmg, bit], fbit |-> [field, bit]]                   *)
(*   f: hashed fields Data Nonce Source Target Type Time ExtraData ChainId *)
(*      (Source: key id of the address - the address is the Ethereum rule: *)
(*      last 20 bytes of keccak(X32 || Y32) -, 5 = the digest taken over    *)
(*      the unpadded coordinates instead, 3 = the address with a flipped    *)
(*      bit; 2 in a content field = base value with one bit flipped;       *)
(*      3, 4, 5 in Data/Time/ExtraData/Target and 4 in Source = a textual  *)
(*      variation that means the same to a reader (white space, key order, *)
(*      number format, letter case) but is a different hash pre-image;     *)
(*      ChainId: "low" | "high" | "other" | "zero" | "empty") and the      *)
(*      unauthenticated ExtraDataType SubTransactions SubHash RequestId    *)
(*      SocketRequestId                                                    *)
(*   Hash.of: the hashed symbols the digest was computed from              *)
(*   Sign.sof: the hashed symbols whose digest was signed by key Sign.k    *)
(* Wrapped Ethereum transaction                                            *)
(*   [kind |-> "eth", pay |-> payload, ed |-> [dmg, bit], f |-> wrapper]   *)
(*   pay: nonce to value gas price data (symbols), prot: the chain the     *)
(*        payload is protected for ("low" | "high" | "other" | "none" =     *)
(*        pre-EIP-155 signature, V in {27,28}), k: signing key             *)
(*   ed:  how ExtraData relates to the hex of the signed RLP payload       *)
(*        (none | upper | garbage | trunc | trail | flip bit | reframe     *)
(*        item how: same decoded content, different bytes)                 *)
(*   f:   wrapper fields; "pay" = the value derived from the payload       *)
(***************************************************************************)
EXTENDS Integers, Sequences

HashedFields == <<"Data", "Nonce", "Source", "Target", "Type", "Time", "ExtraData", "ChainId">>   \* order of GenHash
HashedSet == {HashedFields[i] : i \in 1..Len(HashedFields)}
UnauthFields == {"ExtraDataType", "SubTransactions", "SubHash", "RequestId", "SocketRequestId"}
(* wrapper fields of an Ethereum transaction compared with the payload / not compared *)
EthBound == {"Source", "Target", "Nonce", "ChainId", "Data", "Hash", "Type", "ExtraData"}
EthFree == {"Time", "Sign"} \cup UnauthFields

Heights == {"low", "high"}          \* before / after the chain-id switch (Proposal001)
ChainOf(h) == h                     \* the chain id symbol in force at a height

HashedOf(f) == [n \in HashedSet |-> f[n]]

HonestV == [mode |-> "honest", d |-> 0, par |-> 0]      \* the V the signer wrote

(* ------------------------------------------------------------- acceptance *)
AcceptNative(tx, h) ==
  /\ tx.f.ChainId = ChainOf(h)                       \* chain id of the height
  /\ tx.Hash.dmg = "none" /\ tx.Hash.of = HashedOf(tx.f)     \* hash = digest of own content
  /\ tx.Sign.dmg = "none" /\ tx.Sign.sof = tx.Hash.of        \* signature valid for that hash
  /\ tx.f.Source = tx.Sign.k                                 \* and recovers to the declared sender

(* chain symbol a wrapper ChainId stands for *)
PayChain(pay) == IF pay.prot = "none" THEN "zero" ELSE pay.prot
WrapChain(tx) == IF tx.f.ChainId = "pay" THEN PayChain(tx.pay) ELSE tx.f.ChainId

EthConsistent(tx) ==
  /\ tx.pay.v = HonestV                              \* V is the one the signer wrote (any other V is another signature)
  /\ tx.ed.dmg = "none"                              \* ExtraData is exactly the hex of the payload
  /\ tx.f.Type = "eth"
  /\ tx.f.Source = tx.pay.k                          \* recovered sender
  /\ tx.f.Target = "pay" /\ tx.f.Nonce = "pay" /\ tx.f.Data = "pay" /\ tx.f.Hash = "pay"
  /\ WrapChain(tx) = PayChain(tx.pay)
AcceptEth(tx, h) == EthConsistent(tx) /\ tx.pay.prot = ChainOf(h)     \* EIP-155, this chain
(* Until fix 873a258 the code admitted unprotected payloads wrapped with ChainId "0"
   (EIP155Signer.Sender falls back to HomesteadSigner); the as-coded alternative was
   deleted with the repair, the reference above never changed. *)

Accept(tx, h) == IF tx.kind = "native" THEN AcceptNative(tx, h) ELSE AcceptEth(tx, h)

(* ------------------------------------------------------ honest transactions *)
NoBit == [field |-> "", bit |-> 0]
BaseFields(k, chain) ==
  [Data |-> 0, Nonce |-> 0, Source |-> k, Target |-> 0, Type |-> 0, Time |-> 0, ExtraData |-> 0, ChainId |-> chain,
   ExtraDataType |-> 0, SubTransactions |-> 0, SubHash |-> 0, RequestId |-> 0, SocketRequestId |-> 0]
Signed(f, k) == [kind |-> "native", f |-> f, fbit |-> NoBit,
                 Hash |-> [of |-> HashedOf(f), dmg |-> "none", bit |-> 0],
                 Sign |-> [k |-> k, sof |-> HashedOf(f), dmg |-> "none", bit |-> 0]]
HonestNative(h) == Signed(BaseFields(1, ChainOf(h)), 1)

(* dlen: number of bytes of call data *)
(* v: the V of the signature as written in the payload: the signer's ("honest") or the signer's
   changed arithmetically - "delta" d: honest V + d; "abs" d: the value d; "chain" d par: the V of
   the chain whose id is this chain's + d, 2 * id + 35 + par *)
BasePay(prot, to) == [nonce |-> 0, to |-> to, value |-> 0, gas |-> 0, price |-> 0, data |-> 0, dlen |-> 5, prot |-> prot, k |-> 1,
                      v |-> HonestV]
Wrapped(pay) ==
  [kind |-> "eth", pay |-> pay, ed |-> [dmg |-> "none", bit |-> 0, item |-> 0, how |-> ""],
   f |-> [Source |-> pay.k, Target |-> "pay", Nonce |-> "pay", ChainId |-> "pay", Data |-> "pay", Hash |-> "pay", Type |-> "eth",
          Time |-> 0, Sign |-> "nil", ExtraDataType |-> 0, SubTransactions |-> 0, SubHash |-> 0, RequestId |-> 0,
          SocketRequestId |-> 0],
   fbit |-> NoBit]
HonestEth(h, to) == Wrapped(BasePay(ChainOf(h), to))

(* ------------------------------------------------------------- pool context *)
(* Authenticity is a property of the transaction alone: what the pool holds when a
   transaction is offered (nothing; the honest original pending, executed in a block,
   executed and rolled back; another transaction of the same sender pending; the very
   same transaction delivered before) must not change the verdict. *)
Contexts == {"empty", "orig-pending", "orig-executed", "orig-unmarked", "other-pending", "twice"}

Rehash0(tx) == [tx EXCEPT !.Hash = [of |-> HashedOf(tx.f), dmg |-> "none", bit |-> 0]]
(* another honest transaction of the sender of base (next nonce) *)
OtherOfSender(base) ==
  IF base.kind = "native"
    THEN LET t == Rehash0([base EXCEPT !.f.Nonce = 1]) IN
         [t EXCEPT !.Sign = [k |-> base.Sign.k, sof |-> t.Hash.of, dmg |-> "none", bit |-> 0]]
    ELSE [base EXCEPT !.pay.nonce = 1]

(* the abstract pool in which tx is offered at height h *)
PoolOf(ctx, base, tx, h) ==
  CASE ctx = "empty"         -> [pending |-> {}, executed |-> {}]
    [] ctx = "orig-pending"  -> [pending |-> {base}, executed |-> {}]
    [] ctx = "orig-executed" -> [pending |-> {}, executed |-> {base}]
    [] ctx = "orig-unmarked" -> [pending |-> {base}, executed |-> {}]
    [] ctx = "other-pending" -> [pending |-> {OtherOfSender(base)}, executed |-> {}]
    [] ctx = "twice"         -> [pending |-> IF Accept(tx, h) THEN {tx} ELSE {}, executed |-> {}]

(* the reference: admission never looks at the pool *)
Admit(pool, tx, h) == Accept(tx, h)

(* identity under which the pool files a transaction (its declared hash) *)
HashId(tx) == IF tx.kind = "native" THEN <<"n", tx.Hash>>
              ELSE <<"e", tx.f.Hash, IF tx.f.Hash = "pay" THEN tx.pay ELSE tx.pay.nonce,
                     IF tx.fbit.field = "Hash" THEN tx.fbit.bit ELSE 0>>
(* an admitted transaction is filed unless one with the same declared hash is known *)
Pooled(pool, tx, h) == Admit(pool, tx, h) /\ HashId(tx) \notin {HashId(p) : p \in pool.pending \cup pool.executed}

(* negative control, never the oracle: a pool-dependent shortcut ("a transaction whose declared hash
   and signature equal those of a pending one was verified before") - the context dimension of the
   case lattice must contain cases on which it differs from Admit *)
ShortcutAdmit(pool, tx, h) ==
  \/ Accept(tx, h)
  \/ /\ tx.kind = "native" /\ tx.Sign.dmg # "nil"
     /\ \E p \in pool.pending : p.kind = "native" /\ p.Hash = tx.Hash /\ p.Sign = tx.Sign

(* --------------------------------------------------------------- mutations *)
(* native: change a hashed field; optionally recompute the hash; optionally re-sign *)
SetField(tx, n, v) == [tx EXCEPT !.f[n] = v]
Rehash(tx) == [tx EXCEPT !.Hash = [of |-> HashedOf(tx.f), dmg |-> "none", bit |-> 0]]
Resign(tx, k) == [tx EXCEPT !.Sign = [k |-> k, sof |-> tx.Hash.of, dmg |-> "none", bit |-> 0]]
FlipField(tx, n, i) == [tx EXCEPT !.f[n] = (IF n = "Source" THEN 3 ELSE 2), !.fbit = [field |-> n, bit |-> i]]
DamageHash(tx, d, i) == [tx EXCEPT !.Hash.dmg = d, !.Hash.bit = i]
DamageSign(tx, d, i) == [tx EXCEPT !.Sign.dmg = d, !.Sign.bit = i]

(* eth: wrapper field changes, payload variants, damaged encodings *)
SetWrap(tx, n, v) == [tx EXCEPT !.f[n] = v]
SetV(tx, mode, d, par) == [tx EXCEPT !.pay.v = [mode |-> mode, d |-> d, par |-> par]]
FlipWrap(tx, n, i) == [tx EXCEPT !.f[n] = (IF n = "Source" THEN 3 ELSE "flip"), !.fbit = [field |-> n, bit |-> i]]
DamageEd(tx, d, i) == [tx EXCEPT !.ed = [dmg |-> d, bit |-> i, item |-> 0, how |-> ""]]
(* same decoded content, different bytes: item number `item` of the signed payload (0 = the outer
   list, 1..9 = nonce, gas price, gas, to, value, data, v, r, s) re-framed in a non-canonical way:
   "long"  explicit-length form for a size <= 55,   "lead0" a leading zero byte in the length,
   "wrap1" a single byte below 0x80 wrapped as a one-byte string.
   ExtraData is then no longer the signed payload: never admitted. *)
Reframe(tx, item, how) == [tx EXCEPT !.ed = [dmg |-> "reframe", bit |-> 0, item |-> item, how |-> how]]
PayItems == 0..9
ReframeHows == {"long", "lead0", "wrap1"}
=============================================================================
