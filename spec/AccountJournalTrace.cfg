SPECIFICATION TraceSpec
CONSTANTS
  LongFrames = {}
  Accounts = {1, 2}
  Keys = {1, 2}
  MaxDepth = 0
INVARIANT Report
CHECK_DEADLOCK FALSE
