--------------------------- MODULE ReqQueueTrace ---------------------------
(* Trace validation for ReqQueue: one line per call on the real middleware.PriorityQueue with
   what the handler received during the call, the threshold and the waiting ids after it.  The
   spec variables are bound to the observation; every step is judged against the reference
   operators.  All judgements are extension observations (tags Ext.ReqQueue.x). *)
EXTENDS ReqQueue, Json

Trace == ndJsonDeserialize("trace.ndjson")

VARIABLES l, bad
tvars == <<vars, l, bad>>

Tag(c, t) == IF c THEN <<>> ELSE <<t>>
RECURSIVE CountIn(_, _)
CountIn(sq, x) == IF sq = <<>> THEN 0 ELSE (IF Head(sq) = x THEN 1 ELSE 0) + CountIn(Tail(sq), x)
BagOf(sq) == [i \in Ids |-> CountIn(sq, i)]

Judge(e) ==
  IF e.event = "Reset" THEN <<>>
  ELSE LET r == IF e.event = "Push" THEN PushPost(heap, thr, e.n) ELSE SetThrPost(heap, thr, e.n)
           newMax == IF e.event = "SetThreshold" /\ e.n > maxThrSet THEN e.n ELSE maxThrSet
           nz == NonZero(handled \o e.out)
       IN Tag(e.out = r.out, "Ext.ReqQueue.step.handed-over") \o
          Tag(e.thr = r.thr, "Ext.ReqQueue.step.threshold") \o
          Tag(BagOf(e.waiting) = r.heap, "Ext.ReqQueue.step.waiting") \o
          Tag(\A i \in 1..(Len(nz) - 1) : nz[i] < nz[i + 1], "Ext.ReqQueue.InOrder") \o
          Tag(\A i \in 1..Len(e.out) : e.out[i] = 0 \/ e.out[i] > newMax, "Ext.ReqQueue.NoStaleAfterSet") \o
          Tag((e.thr + 1) \in Ids => CountIn(e.waiting, e.thr + 1) = 0, "Ext.ReqQueue.NothingDueWaits")

TraceInit == Init /\ l = 1 /\ bad = <<>>

TraceNext ==
  /\ l <= Len(Trace)
  /\ l' = l + 1
  /\ LET e == Trace[l]  J == Judge(e) IN
       /\ bad' = bad \o [i \in 1..Len(J) |-> <<l, e.event, J[i]>>]
       /\ IF e.event = "Reset"
            THEN heap' = EmptyHeap /\ thr' = 0 /\ handled' = <<>> /\ maxThrSet' = 0
            ELSE /\ heap' = BagOf(e.waiting) /\ thr' = e.thr /\ handled' = handled \o e.out
                 /\ maxThrSet' = IF e.event = "SetThreshold" /\ e.n > maxThrSet THEN e.n ELSE maxThrSet
       /\ nops' = 0

TraceSpec == TraceInit /\ [][TraceNext]_tvars
Report == (l = Len(Trace) + 1) => PrintT(<<"VERDICT", Len(Trace), ToJson(bad)>>)
=============================================================================
