SPECIFICATION Spec
CONSTANTS
  Depth = 0
  Seeded = FALSE
  MaxOps = 4
INVARIANTS InvOneMinerPerAccount InvConservation InvStakeAccounting InvNonNegative InvStakeFloor
CHECK_DEADLOCK FALSE
