SPECIFICATION Spec
CONSTANTS
  Depth = 0
  MaxOps = 4
INVARIANTS InvOneMinerPerAccount InvConservation InvStakeAccounting InvNonNegative InvStakeFloor
CHECK_DEADLOCK FALSE
