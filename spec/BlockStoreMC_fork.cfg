SPECIFICATION Spec
CONSTANTS
  ReorgMarked = TRUE
  N = 3
  MaxDeliver = 3
  MaxCrash = 1
  Readers = 0
  ReadFill = FALSE
  Forks = TRUE
  Gaps = FALSE
INVARIANTS InvCache InvHeadLinked InvIndex InvHeadState InvMarks InvExecuted InvWeightMonotone InvCrashHeadWeak
CHECK_DEADLOCK FALSE
