SPECIFICATION TraceSpec
CONSTANTS
  NK = 2
  NM = 2
  R = 1009
INVARIANT Report
CHECK_DEADLOCK FALSE
