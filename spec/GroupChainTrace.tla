------------------------- MODULE GroupChainTrace -------------------------
(***************************************************************************)
(* Trace validation for GroupChain: every line of trace.ndjson is one call *)
(* made on the real core.groupChain, with the complete projection of the   *)
(* real stores after the call.  The spec variables are bound to the        *)
(* observed projection at every step (so nothing is inferred) and each     *)
(* step is judged: is (s, call, s') a step of GroupChain's reference       *)
(* actions, and do the property's invariants hold in s'.  Failed judgements*)
(* are accumulated in `bad` as <<line, tag>> and reported at the end, so a *)
(* trace is checked in full even after a deviation.                        *)
(***************************************************************************)
EXTENDS GroupChain, Json, SequencesExt

Trace == ndJsonDeserialize("trace.ndjson")

VARIABLES l, bad
tvars == <<vars, l, bad>>

ObsStore(st)  == [i \in AllIds |-> [pre |-> st.store[i + 1].pre,
                                    height |-> st.store[i + 1].height,
                                    present |-> st.store[i + 1].present]]
ObsHidx(st)   == [h \in 0..(MaxCount + 4) |-> st.hidx[h + 1]]
(* what the exported API answered after the call *)
ApiByHeight(st, h) == st.byHeight[h + 1]
ApiList(st)   == st.list

Tag(c, t) == IF c THEN <<>> ELSE <<t>>

(* --- judgement of one step ------------------------------------------------
   pre-state = current spec variables (= projection observed after the
   previous call), post-state = primed variables (= projection observed
   after this call). *)

JudgeAdd(e) ==
  LET g   == e.g
      acc == ~store[g].present /\ e.pre = last /\ count < MaxCount
      exp == AddPost(store, hidx, count, last, g)
  IN  Tag(e.ok = acc, "Add.accept") \o
      IF e.ok
        THEN Tag(store' = exp.store, "Add.store") \o Tag(hidx' = exp.hidx, "Add.hidx") \o
             Tag(count' = exp.count, "Add.count") \o Tag(last' = exp.last, "Add.last")
        ELSE Tag(<<store', hidx', count', last'>> = <<store, hidx, count, last>>, "Add.rejected-but-changed")

JudgeRemove(e) ==
  LET can == last # Genesis
      exp == RemovePost(store, hidx, count, last)
  IN  Tag(e.ok = can, "Remove.accept") \o
      IF e.ok /\ can
        THEN Tag(store' = exp.store, "Remove.store") \o Tag(hidx' = exp.hidx, "Remove.hidx") \o
             Tag(count' = exp.count, "Remove.count") \o Tag(last' = exp.last, "Remove.last")
        ELSE <<>>

(* group fork switch: the observed stores are what remove-down-to-ancestor + adds give *)
JudgeFork(e) ==
  LET exp == IF store[e.g].present THEN ForkPostP(store, hidx, count, last, e.g, e.ids, e.pres)
             ELSE [store |-> store, hidx |-> hidx, count |-> count, last |-> last]
  IN Tag(store' = exp.store, "Fork.store") \o Tag(hidx' = exp.hidx, "Fork.hidx") \o
     Tag(count' = exp.count, "Fork.count") \o Tag(last' = exp.last, "Fork.last")

(* two overlapping calls: what the stores hold equals the locked sections in the observed order *)
JudgeConc(e) ==
  LET exp == ConcPost(store, hidx, count, last, [g |-> e.g, pre |-> e.pre], e.b, e.first, FALSE)
  IN Tag(e.okA = exp.okA /\ e.okB = exp.okB, "Conc.accept") \o
     Tag(store' = exp.r.store, "Conc.store") \o Tag(hidx' = exp.r.hidx, "Conc.hidx") \o
     Tag(count' = exp.r.count, "Conc.count") \o Tag(last' = exp.r.last, "Conc.last")

(* an add overlapping a fork switch of at least two removals: the stores are what some position
   of the add among the fork's adds gives *)
JudgeConcFork(e) ==
  LET a == [g |-> e.a.g, pre |-> e.a.pre] IN
  IF e.mode = "park"
    THEN Tag(Rec4(store', hidx', count', last') = ConcForkAt(store, hidx, count, last, e.g, e.ids, e.pres, a, e.j),
             "ConcFork.outcome-not-in-model")
    ELSE Tag(Rec4(store', hidx', count', last') \in ConcForkOutcomes(store, hidx, count, last, e.g, e.ids, e.pres, a),
             "ConcFork.outcome-not-in-model")

JudgeRestart(e) ==
  Tag(<<store', hidx', count', last'>> = <<store, hidx, count, last>>, "Restart.changed")

(* the process died inside a call, before its k-th store write, and was restarted over the same
   stores: what the restarted node holds is what the model leaves behind (the repaired save() and
   remove() write one batch each: all of a call's writes or none; a fork switch is a sequence of
   such calls) *)
JudgeCrash(e) ==
  LET pre == Rec4(store, hidx, count, last)
      out == CASE e.call = "Add" ->
                    IF ~store[e.g].present /\ e.pre = last /\ count < MaxCount
                      THEN {pre, AddPost(store, hidx, count, last, e.g)} ELSE {pre}
               [] e.call = "Remove" ->
                    IF last # Genesis THEN {pre, RemovePost(store, hidx, count, last)} ELSE {pre}
               [] e.call = "Fork" ->
                    IF store[e.g].present THEN ForkStatesP(store, hidx, count, last, e.g, e.ids, e.pres) ELSE {pre}
               [] OTHER -> {pre}
  IN Tag(Rec4(store', hidx', count', last') \in out, "Crash.outcome-not-in-model")

(* the property itself, evaluated on what the API answered *)
JudgeInv(e) ==
  LET st == e.state
      L  == ApiList(st)
      c  == st.count
  IN  Tag(Len(L) >= 1 /\ L[Len(L)] = Genesis, "Inv.Linked") \o
      Tag(Len(L) = c, "Inv.CountIsLength") \o
      Tag(st.lastApi = L[1], "Inv.LastIsHead") \o
      Tag(\A i \in 0..(Len(L) - 1) : i < c => ApiByHeight(st, i) = L[Len(L) - i], "Inv.IndexBelowCount") \o
      Tag(\A i \in c..(c + 3) : ApiByHeight(st, i) = None, "Inv.IndexAtOrAboveCount") \o
      Tag(\A i \in 1..Len(L) : st.store[L[i] + 1].present, "Inv.ById") \o
      Tag(st.syncOk, "Inv.SyncGroupsFollowList") \o
      (* the projection itself must be coherent with the model's lookups *)
      Tag(\A h \in 0..(MaxCount + 4) : ByHeight(store', hidx', h) = ApiByHeight(st, h), "Proj.byHeight") \o
      Tag(ListFrom(store', last') = L, "Proj.list")

Judge(e) ==
  (CASE e.event = "Add"     -> JudgeAdd(e)
     [] e.event = "Remove"  -> JudgeRemove(e)
     [] e.event = "Restart" -> JudgeRestart(e)
     [] e.event = "Fork"    -> JudgeFork(e)
     [] e.event = "Conc"    -> JudgeConc(e)
     [] e.event = "Readers" -> (* lookups from several goroutines at once, no writer *)
                               Tag(e.mismatches = 0, "Inv.ConcurrentLookupsAgree") \o
                               Tag(<<store', hidx', count', last'>> = <<store, hidx, count, last>>, "Readers.changed")
     [] e.event = "ConcFork" -> JudgeConcFork(e)
     [] e.event = "Crash"   -> JudgeCrash(e)
     [] e.event = "RestartFailed" -> <<"Inv.NodeCannotRestart">>   \* initGroupChain died over these stores
     [] e.event = "Reset"   -> <<>>
     [] OTHER               -> <<"unknown-event">>) \o JudgeInv(e)

TraceInit == Init /\ l = 1 /\ bad = <<>>

TraceNext ==
  /\ l <= Len(Trace)
  /\ l' = l + 1
  /\ LET e == Trace[l] IN
       /\ store' = ObsStore(e.state)
       /\ hidx'  = ObsHidx(e.state)
       /\ count' = e.state.count
       /\ last'  = e.state.last
       /\ lastRec' = e.state.last /\ countRec' = e.state.count
       /\ pc' = "idle" /\ work' = None
       /\ bad' = bad \o [i \in 1..Len(Judge(e)) |-> <<l, e.event, Judge(e)[i]>>]

TraceSpec == TraceInit /\ [][TraceNext]_tvars

(* TLC evaluates this in every state; in the last state it prints the verdict *)
Report == (l = Len(Trace) + 1) => PrintT(<<"VERDICT", Len(Trace), ToJson(bad)>>)
=============================================================================
