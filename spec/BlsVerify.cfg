SPECIFICATION Spec
CONSTANTS
  NK = 2
  NM = 2
  R = 1009
INVARIANTS UniquenessInv PairingLaws GenericAssignment
CHECK_DEADLOCK FALSE
