SPECIFICATION QSpec
CONSTANTS
  Q = 5
  CMax = 8
  AsCoded = FALSE
  SSet = {1, 2, 3, 7, 14, 15, 20, 24, 25, 26, 40}
  WSet = {0, 1, 2, 3, 6}
  MaxQN = 5
INVARIANTS RangeInv AgreeInv MonotoneInv
CHECK_DEADLOCK FALSE
