----------------------------- MODULE TxAuthGen -----------------------------
(***************************************************************************)
(* Exhaustive check of the authenticity theorems of TxAuth.tla on the      *)
(* mutation lattice, and generator of the cases replayed by                *)
(* harness/cmd/c07.                                                        *)
(*                                                                         *)
(* A case: [op |-> "verify", h, mut, cls, tx, base, ctx]: offer tx at       *)
(* height h to a pool that is in context ctx (TxAuth!Contexts);            *)
(* tx was derived from the honest transaction base by mutation mut of      *)
(* class cls:                                                              *)
(*   "honest"  an honestly built transaction (base, or a variant that was  *)
(*             re-hashed and re-signed by the owner of Source)             *)
(*   "auth"    an authenticated field, the hash, the signature, the chain  *)
(*             id or the encoding was changed (single field / single bit), *)
(*             or the transaction is replayed on another chain / height    *)
(*   "unauth"  only fields outside the hash / the comparison were changed  *)
(*             (this includes the malleated twin (r, n-s, v^1) of the      *)
(*             signature: it is a change of the signature of an accepted   *)
(*             transaction, which the statement says must be rejected)     *)
(* Theorems: cls = "auth" => ~Accept; cls in {"honest","unauth"} => Accept.*)
(***************************************************************************)
EXTENDS TxAuth, TLC, Json

CONSTANTS KeyScalars,   \* private scalars of the key sweep (besides the pinned ones)
          VDeltas,      \* arithmetic changes of the payload's V
          DataLens,     \* call-data lengths of the re-framed payloads
          HashBits, SignBits, SourceBits, FieldBits, EdBits,   \* bit positions swept (sets of naturals)
          CtxAll       \* TRUE: every case in every pool context; FALSE: the bit sweeps only in the empty pool

VARIABLES phase, c
vars == <<phase, c>>

Case(h, mut, cls, tx, base) ==
  [op |-> "verify", h |-> h, mut |-> mut, cls |-> cls, tx |-> tx, base |-> base, ctx |-> "empty", bits |-> FALSE, key |-> 0]
(* private scalars whose public X or Y starts with 1, 2, 3 zero bytes (found once by search) *)
PinnedKeys == {122, 130, 153, 246, 41192, 394851, 44629, 58165, 8169169, 8673773, 21753172}
(* bit-sweep families: crossed with the pool contexts only when CtxAll *)
Sweep(S) == {[cs EXCEPT !.bits = TRUE] : cs \in S}
InContexts(S) == UNION { IF CtxAll \/ ~cs.bits THEN {[cs EXCEPT !.ctx = x] : x \in Contexts} ELSE {cs} : cs \in S }
Other(h) == IF h = "low" THEN "high" ELSE "low"

(* key sweep: the honest transaction signed by the key with that private scalar (key |-> scalar; 0 =
   seeded random keys) *)
KeySweep(h, b) == Sweep({ [Case(h, "keysweep", "honest", b, b) EXCEPT !.key = k] : k \in KeyScalars \cup PinnedKeys })

ContentFields == HashedSet \ {"Source", "ChainId"}

NativeCases(h) ==
  LET b == HonestNative(h) IN
  { Case(h, "honest", "honest", b, b), Case(Other(h), "other-height", "auth", b, b) }
  \cup { Case(h, "stale:" \o n, "auth", SetField(b, n, 1), b) : n \in ContentFields }
  \cup { Case(h, "rehash:" \o n, "auth", Rehash(SetField(b, n, 1)), b) : n \in ContentFields }
  \cup { Case(h, "variant:" \o n, "honest", Resign(Rehash(SetField(b, n, 1)), 1), b) : n \in ContentFields }
  \cup { Case(h, "source:stale", "auth", SetField(b, "Source", 2), b),
         Case(h, "source:rehash", "auth", Rehash(SetField(b, "Source", 2)), b),
         Case(h, "source:swap-signer", "auth", Resign(Rehash(SetField(b, "Source", 2)), 1), b),
         Case(h, "source:other-owner", "honest", Resign(Rehash(SetField(b, "Source", 2)), 2), b),
         Case(h, "sign:other-key", "auth", Resign(b, 2), b) }
  \cup UNION { { Case(h, "chain:stale:" \o ch, "auth", SetField(b, "ChainId", ch), b),
                 Case(h, "chain:rehash:" \o ch, "auth", Rehash(SetField(b, "ChainId", ch)), b),
                 Case(h, "chain:replay:" \o ch, "auth", Resign(Rehash(SetField(b, "ChainId", ch)), 1), b) }
               : ch \in {"other", "zero", "empty", Other(h)} }
  \cup Sweep({ Case(h, "flipfield:" \o n, "auth", FlipField(b, n, i), b) : n \in ContentFields, i \in FieldBits })
  \cup Sweep({ Case(h, "flipfield:Source", "auth", FlipField(b, "Source", i), b) : i \in SourceBits })
  \cup Sweep({ Case(h, "hash:flip", "auth", DamageHash(b, "flip", i), b) : i \in HashBits })
  \cup { Case(h, "hash:zero", "auth", DamageHash(b, "zero", 0), b),
         Case(h, "sign:nil", "auth", DamageSign(b, "nil", 0), b),
         Case(h, "sign:random", "auth", DamageSign(b, "random", 0), b),
         Case(h, "sign:malleated", "auth", DamageSign(b, "malleated", 0), b),
         \* the same (r, s) with the recovery id written the other way (27/28 <-> 0/1): other signature bytes
         Case(h, "sign:recid-alias", "auth", DamageSign(b, "recid-alias", 0), b) }
  \cup Sweep({ Case(h, "sign:flip", "auth", DamageSign(b, "flip", i), b) : i \in SignBits })
  \cup { Case(h, "unauth:" \o n, "unauth", SetField(b, n, 1), b) : n \in UnauthFields }
  \cup KeySweep(h, b)
  \* the same transaction declaring as Source the digest of the UNPADDED public coordinates (another
  \* address exactly when X or Y starts with a zero byte; not offered otherwise)
  \cup Sweep({ [Case(h, "keysweep:unpadded-source", "auth", Resign(Rehash(SetField(b, "Source", 5)), 1), b) EXCEPT !.key = k] : k \in PinnedKeys \cup {1, 2, 3} })
  \* textual variations of a field that read the same but are another hash pre-image (hash not recomputed)
  \cup { Case(h, "textual:" \o nv[1] \o ":" \o ToString(nv[2]), "auth", SetField(b, nv[1], nv[2]), b) :
           nv \in {<<"Data", 3>>, <<"Data", 4>>, <<"Data", 5>>, <<"Time", 3>>, <<"ExtraData", 3>>, <<"Target", 3>>, <<"Source", 4>>} }

EthCases(h, to) ==
  LET b == HonestEth(h, to)
      other == Wrapped(BasePay("other", to))
      unprot == Wrapped(BasePay("none", to))
      k2 == Wrapped([BasePay(ChainOf(h), to) EXCEPT !.k = 2])
  IN
  { Case(h, "honest", "honest", b, b), Case(Other(h), "other-height", "auth", b, b),
    Case(h, "wrap:Source", "auth", SetWrap(b, "Source", 2), b),
    Case(h, "wrap:Target", "auth", SetWrap(b, "Target", "alt"), b),
    Case(h, "wrap:Nonce", "auth", SetWrap(b, "Nonce", "alt"), b),
    Case(h, "wrap:Hash", "auth", SetWrap(b, "Hash", "alt"), b),
    Case(h, "wrap:Type", "auth", SetWrap(b, "Type", "native"), b),
    Case(h, "payload:other-signer", "auth", SetWrap(k2, "Source", 1), b),
    Case(h, "payload:other-owner", "honest", k2, b),
    Case(h, "payload:other-chain", "auth", other, b),
    Case(h, "payload:other-chain:claimed-this", "auth", SetWrap(other, "ChainId", ChainOf(h)), b),
    Case(h, "payload:unprotected", "auth", unprot, b),
    Case(h, "payload:unprotected:claimed-this", "auth", SetWrap(unprot, "ChainId", ChainOf(h)), b) }
  \cup { Case(h, "wrap:ChainId:" \o ch, IF ch = ChainOf(h) THEN "honest" ELSE "auth", SetWrap(b, "ChainId", ch), b)
           : ch \in {"low", "high", "other", "zero"} }
  \cup { Case(h, "wrap:Data:" \o v, "auth", SetWrap(b, "Data", v), b) : v \in {"value", "gas", "price", "data"} }
  \cup Sweep({ Case(h, "wrap:Hash:flip", "auth", FlipWrap(b, "Hash", i), b) : i \in HashBits })
  \cup Sweep({ Case(h, "flipfield:" \o n, "auth", FlipWrap(b, n, i), b) :
           n \in (IF to = "call" THEN {"Target", "Data"} ELSE {"Data"}), i \in FieldBits })
  \cup Sweep({ Case(h, "flipfield:Source", "auth", FlipWrap(b, "Source", i), b) : i \in SourceBits })
  \cup { Case(h, "ed:" \o d, "auth", DamageEd(b, d, 0), b) : d \in {"upper", "garbage", "trunc", "trail"} }
  \cup Sweep({ Case(h, "ed:flip", "auth", DamageEd(b, "flip", i), b) : i \in EdBits })
  \* same decoded content, different bytes: every item of the payload in every non-canonical framing,
  \* and the call data at every length around the boundaries of the length coding
  \cup { Case(h, "reframe:" \o how, "auth", Reframe(b, it, how), b) : it \in PayItems, how \in ReframeHows }
  \cup UNION { LET bl == Wrapped([BasePay(ChainOf(h), to) EXCEPT !.dlen = dl]) IN
               { Case(h, "reframe-data:" \o how, "auth", Reframe(bl, it, how), bl) : it \in {0, 6}, how \in ReframeHows }
               \cup { Case(h, "honest", "honest", bl, bl) }
               : dl \in DataLens }
  \cup KeySweep(h, b)
  \* arithmetic on the payload's V, the wrapper declaring the chain id derived from that V ("pay") or this chain's
  \cup Sweep(UNION { { Case(h, "v:delta", "auth", SetWrap(SetV(b, "delta", d, 0), "ChainId", w), b),
                       Case(h, "v:delta", "auth", SetWrap(SetV(b, "delta", 0 - d, 0), "ChainId", w), b) }
                     : d \in VDeltas \ {0}, w \in {"pay", ChainOf(h)} })
  \cup Sweep({ Case(h, "v:abs", "auth", SetWrap(SetV(b, "abs", d, 0), "ChainId", w), b) :
                 d \in {0, 1, 27, 28, 35, 36}, w \in {"pay", ChainOf(h), "zero"} })
  \cup Sweep({ Case(h, "v:chain", "auth", SetWrap(SetV(b, "chain", d, par), "ChainId", w), b) :
                 d \in {-28, -27, -1, 1}, par \in {0, 1}, w \in {"pay", ChainOf(h)} })
  \cup { Case(h, "free:" \o n, "unauth", SetWrap(b, n, IF n = "Sign" THEN "some" ELSE 1), b) : n \in EthFree }

Seeds == { [op |-> "seed", kind |-> "native", h |-> h] : h \in Heights }
         \cup { [op |-> "seed", kind |-> "eth", h |-> h, to |-> to] : h \in Heights, to \in {"call", "create"} }
CasesOf(s) == InContexts(IF s.kind = "native" THEN NativeCases(s.h) ELSE EthCases(s.h, s.to))

Init == phase = 0 /\ c \in Seeds
Next == phase = 0 /\ phase' = 1 /\ c' \in CasesOf(c)
Spec == Init /\ [][Next]_vars

Theorems == phase = 1 =>
  /\ (c.cls = "auth" => ~Accept(c.tx, c.h))
  /\ (c.cls \in {"honest", "unauth"} => Accept(c.tx, c.h))
  \* the verdict is the same in every pool context
  /\ \A x \in Contexts : Admit(PoolOf(x, c.base, c.tx, c.h), c.tx, c.h) = Admit(PoolOf("empty", c.base, c.tx, c.h), c.tx, c.h)
  /\ (Pooled(PoolOf(c.ctx, c.base, c.tx, c.h), c.tx, c.h) => Accept(c.tx, c.h))
  /\ Accept(c.base, IF c.mut = "other-height" THEN Other(c.h) ELSE c.h)      \* every base is honest at its own height
(* an unprotected payload is never authentic, whatever chain id the wrapper declares *)
ASSUME \A h \in Heights : \A ch \in {"pay", "low", "high", "zero"} :
         ~Accept(SetWrap(Wrapped(BasePay("none", "call")), "ChainId", ch), h)

(* the context dimension is not vacuous: the lattice holds cases on which a pool-dependent shortcut
   would decide differently from the reference (content changed, hash and signature of a pending original kept) *)
ASSUME \E cs \in NativeCases("low") : \E x \in Contexts :
         LET p == PoolOf(x, cs.base, cs.tx, cs.h) IN ShortcutAdmit(p, cs.tx, cs.h) # Admit(p, cs.tx, cs.h)

Dump == phase = 1 => PrintT(<<"CASE", ToJson(c)>>)
=============================================================================
