SPECIFICATION GenSpec
CONSTANTS
  ReorgMarked = TRUE
  N = 3
  D = 3
  Gaps = FALSE
  Forks = TRUE
INVARIANT Dump
CHECK_DEADLOCK FALSE
