SPECIFICATION GenSpec
CONSTANTS
  N = 3
  D = 3
  Gaps = FALSE
INVARIANT Dump
CHECK_DEADLOCK FALSE
