SPECIFICATION TraceSpec
CONSTANTS
  GasLimit = 1
  DepthLimit = 1
  Costs = {1}
  Requests = {0}
  Values = {0}
  MaxWrites = 0
INVARIANT Report
CHECK_DEADLOCK FALSE
