--------------------------- MODULE SignRoundGen ---------------------------
(***************************************************************************)
(* Behaviour generator for C15: every sequence of verify messages of       *)
(* length Depth over the alphabet of SignRound.tla (honest shares in any   *)
(* order, re-sent shares, at most MaxByz Byzantine/outsider messages).     *)
(* The reference keeps the invariants along every sequence; each sequence  *)
(* is printed as JSON and fed to the real round1.Update by harness/cmd/c15.*)
(***************************************************************************)
EXTENDS SignRound, Json

CONSTANT Depth

GenNext == Len(hist) < Depth /\ Next
GenSpec == Init /\ [][GenNext]_vars

GenInv == OnlyValidShares /\ ThresholdImpliesValidGroupSig /\ OneFaultTolerated /\ BeaconFollowsBlock /\ KeyTableGenuine

Dump == (Len(hist) = Depth) => PrintT(<<"HIST", ToJson(hist)>>)
=============================================================================
