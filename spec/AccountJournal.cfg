SPECIFICATION Spec
CONSTANTS
  LongFrames = {}
  Accounts = {1}
  Keys = {1}
  MaxDepth = 4
INVARIANTS TypeOK SurvivingEquivalent SnapIdsOrdered
PROPERTY RevertRestores
CHECK_DEADLOCK FALSE
