SPECIFICATION Spec
CONSTANTS
  Atomic = FALSE
  Readers = 0
  Lookups = 1
  NegCache = TRUE
  CachedView = FALSE
INVARIANT InvLookupKnows
CHECK_DEADLOCK FALSE
