SPECIFICATION GenSpec
CONSTANTS
  NMem = 4
  KThr = 3
  Byz = {4}
  MaxByz = 2
  MaxDup = 1
  AsCoded = FALSE
  Depth = 5
INVARIANTS GenInv Dump
CHECK_DEADLOCK FALSE
