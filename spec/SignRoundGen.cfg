SPECIFICATION GenSpec
CONSTANTS
  NMem = 4
  KThr = 3
  Byz = {4}
  MaxByz = 2
  MaxDup = 1
  MaxLen = 8
  Focus = "shares"
  AsCoded = FALSE
  Depth = 5
INVARIANTS GenInv Dump
CHECK_DEADLOCK FALSE
