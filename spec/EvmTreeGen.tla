----------------------------- MODULE EvmTreeGen -----------------------------
(***************************************************************************)
(* Call trees for C10: the value semantics of a frame must not depend on   *)
(* what other frames of the same call tree did before it.                  *)
(*                                                                         *)
(* FactorySpec - a factory frame runs two DIFFERENT init codes by plain    *)
(*   CREATE.  Both take a JUMP (or a taken JUMPI) to the same offset k; in *)
(*   one of them offset k is a genuine JUMPDEST, in the other it is a 0x5b *)
(*   inside the data of a PUSHn; both orders.  The reference classifies    *)
(*   each init code by itself (asserted here with ValidDest), so the first *)
(*   creation's jump-destination analysis must not leak into the second.   *)
(*                                                                         *)
(* SiblingSpec - a parent makes two sub calls, one after the other.  The   *)
(*   first callee fills its memory with non-zero bytes and ends (STOP,     *)
(*   RETURN, REVERT); the second callee expands its own memory without     *)
(*   writing it and observes it (MLOAD, KECCAK256, RETURN, REVERT,         *)
(*   MSTORE8 + MLOAD, MCOPY, MSIZE): a fresh frame's memory is all zero.   *)
(*                                                                         *)
(* Each case is printed as a tree of contracts; harness/cmd/c10 deploys    *)
(* and runs it and EvmTrace judges every frame step by step.               *)
(***************************************************************************)
EXTENDS Evm, Json, TLC

VARIABLE tcase
tvars2 == <<vars, tcase>>
TreeDatas == {<<>>}
Idle2 == code = <<>> /\ data = <<>> /\ st = InitState /\ status = "stop" /\ jumped = FALSE /\ ret = <<>>

CALL == 241  CALLCODE == 242  DELEGATECALL == 244  STATICCALL == 250  CREATE == 240
Pad(n) == [i \in 1..n |-> STOP]
Max32 == <<PUSH32>> \o [i \in 1..32 |-> 255]

(* ------------------------------------------------------------- factories *)
JumpHead(kind, k) == IF kind = "jump" THEN <<PUSH1, k, JUMP>> ELSE <<PUSH1, 1, PUSH1, k, JUMPI>>
(* offset k holds a genuine JUMPDEST *)
InitGood(kind, k) == LET h == JumpHead(kind, k) IN h \o Pad(k - Len(h)) \o <<JUMPDEST, STOP>>
(* offset k holds a 0x5b that is the j-th data byte of a PUSHn placed at offset k - j *)
InitBad(kind, k, n, j) == LET h == JumpHead(kind, k) IN
                          h \o Pad(k - j - Len(h)) \o <<PUSH0 + n>> \o [i \in 1..n |-> IF i = j THEN JUMPDEST ELSE 0] \o <<STOP>>
(* CODECOPY(0, off, len); CREATE(0, 0, len); POP *)
CreateBlock(off, len) == <<PUSH1, len, PUSH1 + 1, off \div 256, off % 256, PUSH0, CODECOPY, PUSH1, len, PUSH0, PUSH0, CREATE, POP>>
Factory(first, second) == LET hl == 2 * 13 + 1 IN
  CreateBlock(hl, Len(first)) \o CreateBlock(hl + Len(first), Len(second)) \o <<STOP>> \o first \o second

FactoryCases == {c \in [fam : {"factory"}, kind : {"jump", "jumpi"}, k : 8..16, n : {2, 9}, j : {1, 2}, order : {"good-bad", "bad-good"}] :
                   c.k - c.j >= 5}
FactoryCode(c) == LET g == InitGood(c.kind, c.k)  b == InitBad(c.kind, c.k, c.n, c.j)
                  IN IF c.order = "good-bad" THEN Factory(g, b) ELSE Factory(b, g)
(* the reference's own classification of offset k in each init code *)
FactorySane(c) == /\ ValidDest(InitGood(c.kind, c.k), <<c.k>>)
                  /\ ~ValidDest(InitBad(c.kind, c.k, c.n, c.j), <<c.k>>)

(* -------------------------------------------------------------- siblings *)
(* callee 1: fills w words of its memory with 0xff, then ends *)
RECURSIVE Fill(_)
Fill(w) == IF w = 0 THEN <<>> ELSE Fill(w - 1) \o Max32 \o <<PUSH1, 32 * (w - 1), MSTORE>>
Dirtier(w, end) == Fill(w) \o (CASE end = "stop" -> <<STOP>>
                                 [] end = "return" -> <<PUSH1, 32 * w, PUSH0, RETURN>>
                                 [] OTHER -> <<PUSH1, 32 * w, PUSH0, REVERT>>)
(* callee 2: touches memory it never wrote *)
Observer(o) ==
  CASE o = "mload0"  -> <<PUSH0, MLOAD, STOP>>
    [] o = "mload31" -> <<PUSH1, 31, MLOAD, STOP>>
    [] o = "mload64" -> <<PUSH1, 64, MLOAD, MSIZE, STOP>>
    [] o = "sha3"    -> <<PUSH1, 64, PUSH0, SHA3, STOP>>
    [] o = "return"  -> <<PUSH1, 96, PUSH0, RETURN>>
    [] o = "revert"  -> <<PUSH1, 32, PUSH1, 16, REVERT>>
    [] o = "mstore8" -> <<PUSH1, 7, PUSH1, 40, MSTORE8, PUSH1, 32, MLOAD, PUSH0, MLOAD, STOP>>
    [] o = "mcopy"   -> <<PUSH1, 32, PUSH1, 32, PUSH0, MCOPY, PUSH0, MLOAD, STOP>>
    [] OTHER         -> <<PUSH0, PUSH0, PUSH1, 64, CALLDATACOPY, PUSH1, 64, MLOAD, STOP>>
Observers == {"mload0", "mload31", "mload64", "sha3", "return", "revert", "mstore8", "mcopy", "cdcopy"}
CallOf(kind, addr) ==
  <<PUSH0, PUSH0, PUSH0, PUSH0>> \o
  (IF kind \in {CALL, CALLCODE} THEN <<PUSH0>> ELSE <<>>) \o <<PUSH1 + 1, 16, addr, PUSH1 + 2, 1, 0, 0, kind, POP>>
(* the parent reads back what the second callee returned *)
Parent(k1, k2) == CallOf(k1, 2) \o CallOf(k2, 3) \o <<RETURNDATASIZE, PUSH0, PUSH0, RETURNDATACOPY, PUSH0, MLOAD, STOP>>
SiblingCases == [fam : {"sibling"}, w : {1, 3, 8}, end : {"stop", "return", "revert"}, obs : Observers,
                 k1 : {CALL, DELEGATECALL}, k2 : {CALL, CALLCODE, DELEGATECALL, STATICCALL}]

TreeOf(c) ==
  IF c.fam = "factory" THEN [fam |-> "factory", code |-> FactoryCode(c), others |-> <<>>]
  ELSE [fam |-> "sibling", code |-> Parent(c.k1, c.k2),
        others |-> <<[id |-> 2, code |-> Dirtier(c.w, c.end)], [id |-> 3, code |-> Observer(c.obs)]>>]

TInit == Idle2 /\ tcase \in FactoryCases \cup SiblingCases
TSpec == TInit /\ [][FALSE]_tvars2
TDump == PrintT(<<"TREE", ToJson(TreeOf(tcase))>>)
TInv == tcase.fam = "factory" => FactorySane(tcase)
=============================================================================
