SPECIFICATION Spec
CONSTANTS
  Props = {"A", "B"}
  Others = {2}
  KThr = 2
  MaxDup = 0
  MaxLen = 6
  MaxTimeouts = 1
  MaxForged = 0
  MaxFire = 0
INVARIANTS OneFinalisationPerSlot
CHECK_DEADLOCK FALSE
