------------------------- MODULE GroupChainIndProof -------------------------
EXTENDS GroupChainInd, TLAPS

ASSUME Assm == /\ Ids \subseteq Nat \ {0}
               /\ MaxH \in Nat

THEOREM InitInv == Init => IndInv
  BY Assm DEF Init, IndInv, TypeOK, AllIds, Heights, Genesis, None, Absent

LEMMA AddInv == ASSUME IndInv, NEW g \in Ids, Add(g) PROVE IndInv'
  BY Assm DEF Add, IndInv, TypeOK, AllIds, Heights, Genesis, None, Absent

LEMMA RemoveInv == ASSUME IndInv, Remove PROVE IndInv'
  BY Assm DEF Remove, IndInv, TypeOK, AllIds, Heights, Genesis, None, Absent

THEOREM NextInv == IndInv /\ [Next]_vars => IndInv'
  <1>1. ASSUME IndInv, UNCHANGED vars PROVE IndInv'
    BY <1>1 DEF vars, IndInv, TypeOK, AllIds, Heights, Genesis, None, Absent
  <1> QED BY <1>1, AddInv, RemoveInv DEF Next

THEOREM ImpliedByInv == IndInv => Implied
  BY Assm DEF IndInv, Implied, TypeOK, AllIds, Heights, Genesis, None, Absent
=============================================================================
