----------------------------- MODULE WireCodec -----------------------------
(***************************************************************************)
(* Reference model of the wire codecs of go-rangers for transactions,      *)
(* block headers, blocks and groups (src/middleware/types/serialization.go *)
(* over the protobuf messages of src/middleware/pb/x.proto), property C09. *)
(*                                                                         *)
(* A message is a record of fields; every field has a field kind that      *)
(* fixes (a) the documented normalisation one serialise/parse pass applies *)
(* (NormField), (b) what counts as its content (Content), (c) whether its  *)
(* exact representation enters the identifying hash.  Two levels:          *)
(*   - abstract: fields range over named classes (nil, empty, typical,     *)
(*     extreme ...); NormC/ContentC/ProducibleC on classes, model-checked  *)
(*     exhaustively (WireCodecGen) and used to enumerate the case lattice; *)
(*   - concrete: the same rules on the projection the driver logs, used by *)
(*     the trace monitor (WireCodecTrace).                                 *)
(* Presence rules: ParseRef says, from the req/opt tags of x.proto, which  *)
(* field-presence patterns must be an error and which an object.           *)
(***************************************************************************)
EXTENDS Integers, Sequences, FiniteSets

(* --------------------------------------------------------- field kinds *)
(* u64 i32 str hash bytes time big sign map hashes hashes2 blist json     *)
(* local   : node-local routing tag, never put on the wire                *)
(* derived : recomputed by the receiver from other fields (group heights) *)
TxKinds ==
  [ Data |-> "str", Nonce |-> "u64", Source |-> "str", Target |-> "str", Type |-> "i32", Hash |-> "hash",
    ExtraData |-> "str", ExtraDataType |-> "i32", Sign |-> "sign", Time |-> "str", RequestId |-> "u64",
    SocketRequestId |-> "local", SubTransactions |-> "json", SubHash |-> "hash", ChainId |-> "str" ]
HeaderKinds ==
  [ Hash |-> "hash", Height |-> "u64", PreHash |-> "hash", PreTime |-> "time", ProveValue |-> "big", TotalQN |-> "u64",
    CurTime |-> "time", Castor |-> "bytes", GroupId |-> "bytes", Signature |-> "bytes", Nonce |-> "u64",
    RequestIds |-> "map", Transactions |-> "hashes2", TxTree |-> "hash", ReceiptTree |-> "hash", StateTree |-> "hash",
    ExtraData |-> "bytes", Random |-> "bytes", EvictedTxs |-> "hashes" ]
GHeaderKinds ==
  [ Hash |-> "hash", Parent |-> "bytes", PreGroup |-> "bytes", CreateBlockHash |-> "bytes", BeginTime |-> "time",
    MemberRoot |-> "hash", CreateHeight |-> "u64", ReadyHeight |-> "derived", WorkHeight |-> "derived",
    DismissHeight |-> "derived", Extends |-> "str" ]
GroupKinds ==
  [ Id |-> "bytes", PubKey |-> "bytes", Signature |-> "bytes", Members |-> "blist", GroupHeight |-> "u64" ]

MemberKinds == [ Id |-> "bytes", PubKey |-> "bytes" ]

(* fields whose exact representation enters the identifying hash
   (Transaction.GenHash, BlockHeader.GenHash over the JSON form, GroupHeader.GenHash) *)
TxHashed == {"Data", "Nonce", "Source", "Target", "Type", "Time", "ExtraData", "ChainId"}
HeaderHashed == {"Height", "PreHash", "PreTime", "ProveValue", "TotalQN", "CurTime", "Castor", "Nonce", "RequestIds",
                 "Transactions", "TxTree", "ReceiptTree", "StateTree", "ExtraData", "EvictedTxs"}
GHeaderHashed == {"Parent", "PreGroup", "CreateBlockHash", "MemberRoot", "CreateHeight", "Extends"}

(* ------------------------------------------------ abstract class level *)
ClassesOf(fk) ==
  CASE fk = "u64" -> {"zero", "one", "typ", "max", "i64max"}
    [] fk = "i32" -> {"zero", "typ", "neg", "max", "min"}
    [] fk = "str" -> {"empty", "typ", "long", "json", "unicode", "hex"}
    [] fk = "hash" -> {"zero", "typ", "ff", "lead0"}
    [] fk = "bytes" -> {"nil", "empty", "typ", "lead0", "long"}
    [] fk = "time" -> {"zero", "utc", "nsec", "east", "west", "zero-off-named", "secoff", "west-secoff", "mono", "local", "early", "far", "typ"}
    [] fk = "big" -> {"nil", "zero", "typ", "lead0", "big", "neg"}
    [] fk = "sign" -> {"nil", "zero", "typ", "max", "lead0"}
    [] fk = "map" -> {"nil", "empty", "one", "max", "typ"}
    [] fk \in {"hashes", "hashes2"} -> {"nil", "empty", "one", "typ"}
    [] fk = "blist" -> {"nil", "empty", "one", "withempty", "typ"}
    [] fk = "json" -> {"nil", "empty", "one", "emptymaps", "typ"}
    [] fk = "local" -> {"unset", "set"}
    [] fk = "derived" -> {"unset", "set"}

(* the class of the value after one serialise/parse pass *)
NormC(fk, c) ==
  CASE fk = "time" /\ c = "mono" -> "typ"                  \* the monotonic clock reading is dropped
    [] fk = "big" /\ c = "neg" -> "typ"                    \* only the magnitude travels
    [] fk \in {"hashes", "hashes2"} /\ c = "nil" -> "empty" \* the parser always builds a list
    [] fk = "blist" /\ c = "empty" -> "nil"                \* a repeated field without elements is absent
    [] fk \in {"local", "derived"} -> "unset"
    [] OTHER -> c

(* classes a node produces itself or obtains by parsing: the strong law applies *)
ProducibleC(fk, c) ==
  /\ ~(fk = "big" /\ c = "neg")
  /\ ~(fk \in {"hashes", "hashes2"} /\ c = "nil")

(* what counts as content: representation differences that carry no information are merged *)
ContentC(fk, c) ==
  CASE fk = "time" /\ c = "mono" -> "typ"
    [] fk = "blist" /\ c = "empty" -> "nil"
    [] fk \in {"local", "derived"} -> "not-wire-content"
    [] OTHER -> c

(* ------------------------------------------------- digest of a live object *)
(* The identifying digest (GenHash) is a function of the CURRENT values of the hashed fields of the
   object it is called on - not of what the object held when it was hashed before, nor of the object
   it was copied from.  An object's life: H (GenHash is called), M f (field f gets a new value),
   C (the object is copied by value and the copy lives on), S (Hash := GenHash()), W (serialised and
   parsed, the parsed object lives on).  st: field -> how often it was changed. *)
HashedOf(kind) == CASE kind = "header" -> HeaderHashed [] kind = "tx" -> TxHashed [] kind = "gheader" -> GHeaderHashed
ApplyStep(st, step) == IF step.o = "M" THEN [st EXCEPT ![step.f] = @ + 1] ELSE st
RECURSIVE StateAfter(_, _, _)
StateAfter(st, steps, n) == IF n = 0 THEN st ELSE ApplyStep(StateAfter(st, steps, n - 1), steps[n])
DigestView(kind, st) == [f \in HashedOf(kind) |-> st[f]]
(* negative control, never the oracle: a digest memoised at the first call *)
RECURSIVE FirstHash(_, _)
FirstHash(steps, n) == IF n = 0 THEN 0 ELSE LET p == FirstHash(steps, n - 1) IN
                       IF p # 0 THEN p ELSE IF steps[n].o \in {"H", "S"} THEN n ELSE 0
MemoView(kind, st0, steps, n) == LET k == FirstHash(steps, n) IN DigestView(kind, StateAfter(st0, steps, IF k = 0 THEN n ELSE k))

(* ------------------------------------------------------------ cardinality *)
(* Repeated fields and the limits the node itself enforces when it builds messages: a block packs
   at most txCountPerBlock transactions (service/transaction_pool.go), so its body list, the hash
   list of its header and the evicted list can reach that size; a group has GROUP_MIN_MEMBERS to
   GROUP_MAX_MEMBERS members (consensus/model/param.go).  The codec has no limit of its own: a
   message with n elements parses to n elements for every n the node can produce, and one more. *)
TxCountPerBlock == 200
GroupMinMembers == 5
GroupMaxMembers == 10
CardPoints(limit) == {0, 1, 2, limit - 1, limit, limit + 1}
NormCard(n) == n                       \* one pass keeps the number of elements
ParseCard(n) == "object"               \* and no count is a reason to refuse a well-formed message

(* ------------------------------------------------- retention / interleaving *)
(* The bytes Marshal* returns belong to the caller: what is parsed from them later does not depend
   on codec calls made in between, on the same or on another goroutine.  x, y: two values;
   Retained: the value the kept bytes of x stand for after y was serialised in between. *)
Interleavings == {"none", "same-goroutine", "other-goroutine"}
Retained(x, y, inter) == x
(* negative control, never the oracle: an encoder that hands out a shared buffer *)
AliasedRetained(x, y, inter) == IF inter = "none" THEN x ELSE y

(* ------------------------------------------------------- presence rules *)
TxNums == 1..15
HeaderNums == 1..20
GHeaderNums == 1..8
GroupNums == 1..6
TxRequired == {5}
GHeaderRequired == {6, 7}

TxOk(p) == TxRequired \subseteq p
(* a header can only be built when both of its time fields are there and decode
   (tv: what the time fields hold: "valid" | "empty" | "garbage") *)
HeaderOk(hp, tv) == {4, 7} \subseteq hp /\ tv = "valid"
ParseRef(kind, present, hpresent, txs, tv) ==
  CASE kind = "tx" -> IF TxOk(present) THEN "object" ELSE "error"
    [] kind = "txs" -> IF \A i \in 1..Len(txs) : TxOk(txs[i]) THEN "object" ELSE "error"
    [] kind = "header" -> IF HeaderOk(present, tv) THEN "object" ELSE "error"
    [] kind = "block" -> IF 1 \in present /\ HeaderOk(hpresent, tv) /\ \A i \in 1..Len(txs) : TxOk(txs[i])
                         THEN "object" ELSE "error"
    [] kind = "group" -> IF 1 \in present /\ GHeaderRequired \subseteq hpresent THEN "object" ELSE "error"

(* ------------------------------------------- concrete level (projections) *)
(* a zone offset west of Greenwich that is not a whole number of minutes *)
NegSecOffset(v) == v.off < 0 /\ (0 - v.off) % 60 # 0
NormField(fk, v) ==
  \* time.MarshalBinary/UnmarshalBinary of this Go version (1.23): the seconds of a negative zone offset
  \* are written as a signed byte and read back unsigned, the offset comes back 256 s larger (as coded
  \* in the standard library; the property's verdict tags still fire: a zone is lost)
  CASE fk = "time" -> [v EXCEPT !.mono = FALSE, !.off = IF NegSecOffset(v) THEN v.off + 256 ELSE v.off]
    [] fk = "big" -> IF v.nil THEN v ELSE [v EXCEPT !.neg = FALSE]
    [] fk \in {"hashes", "hashes2"} -> [v EXCEPT !.nil = FALSE]
    [] fk = "blist" -> IF v.l = <<>> THEN [v EXCEPT !.nil = TRUE] ELSE v
    [] fk = "local" -> ""
    [] fk = "derived" -> "0"
    [] OTHER -> v
NormRec(K, x) == [f \in DOMAIN K |-> NormField(K[f], x[f])]

Content(fk, v) ==
  CASE fk = "time" -> <<v.sec, v.nsec, v.off>>
    [] fk = "bytes" -> v.h
    [] fk = "big" -> <<v.nil, v.h>>
    [] fk = "map" -> v.kv
    [] fk \in {"hashes", "hashes2"} -> v.l
    [] fk = "blist" -> [i \in 1..Len(v.l) |-> v.l[i].h]
    [] fk \in {"local", "derived"} -> "not-wire-content"
    [] OTHER -> v
ContentRec(K, x) == [f \in DOMAIN K |-> Content(K[f], x[f])]

ProducibleField(fk, v) ==
  /\ (fk = "big" => ~v.neg)
  /\ (fk \in {"hashes", "hashes2"} => ~v.nil)
ProducibleRec(K, x) == \A f \in DOMAIN K : ProducibleField(K[f], x[f])

(* fields (by name) on which two projections differ *)
DiffFields(K, a, b) == {f \in DOMAIN K : a[f] # b[f]}
=============================================================================
