--------------------------- MODULE WireCodecTrace ---------------------------
(***************************************************************************)
(* Trace monitor of C09.  Every line of trace.ndjson is one call sequence  *)
(* on the real wire codecs made by harness/cmd/c09:                        *)
(*   RoundTrip(kind, x): x -> pass -> x1 -> pass -> x2 with the            *)
(*        identifying hashes h0, h1, h2 (real digests);                    *)
(*   Parse(kind, bytes): result class, and for an object one further pass. *)
(*                                                                         *)
(* Verdict tags (clauses of the statement)                                 *)
(*   Inv.Total.panic:<kind>:<function>  a parser panicked                  *)
(*   Inv.Total.neither:<kind>           a parser returned neither a usable *)
(*                                      object nor an error                *)
(*   Inv.RoundTrip.lost / .content / .hash:<kind>   a value the node can   *)
(*        produce or has parsed does not come back with the same content   *)
(*        and the same identifying hash                                    *)
(*   Inv.FixedPoint.lost / .content / .hash:<kind>  a second pass changes  *)
(*        what the first pass delivered (any in-memory value)              *)
(* RoundTrip events of the retention family (inter = same-goroutine /      *)
(* other-goroutine: another value was serialised between Marshal and the   *)
(* parse of the kept bytes) and of the concurrency family (inter =         *)
(* concurrent) are judged by the same laws, the tag carries the family.    *)
(* Life events (one object hashed, changed, copied, hashed again, sent):    *)
(*   Inv.Hash.current-values / Inv.Hash.function:<kind>  the digest is a   *)
(*        function of the current field values;  Inv.Identity.wire:<kind>  *)
(*        the parsed object's digest is the Hash that was set.             *)
(* Conformance tags (the reference says more than the statement)           *)
(*   norm:<kind>         x1 is not the documented normal form of x         *)
(*   parse-class:<kind>  object/error differs from the req/opt tags and the *)
(*                       rule that a header needs its two time fields      *)
(***************************************************************************)
EXTENDS WireCodec, TLC, Json

Trace == ndJsonDeserialize("trace.ndjson")

VARIABLES l, bad
tvars == <<l, bad>>

Tag(c, t) == IF c THEN <<>> ELSE <<t>>
ToSet(s) == {s[i] : i \in 1..Len(s)}

(* pbblock / pbgroup: the exported converters types.PbToBlock / types.PbToGroup on a message that
   was unmarshalled by the caller; same messages, same laws as block / group *)
Base(kind) == IF kind = "pbblock" THEN "block" ELSE IF kind = "pbgroup" THEN "group" ELSE kind

NormTxs(lst) == [i \in 1..Len(lst) |-> NormRec(TxKinds, lst[i])]
ContentTxs(lst) == [i \in 1..Len(lst) |-> ContentRec(TxKinds, lst[i])]

NormOf(kind0, x) ==
  LET kind == Base(kind0) IN
  CASE kind = "tx" -> NormRec(TxKinds, x)
    [] kind = "txs" -> [l |-> NormTxs(x.l)]
    [] kind = "header" -> NormRec(HeaderKinds, x)
    [] kind = "block" -> [Header |-> NormRec(HeaderKinds, x.Header),
                          Transactions |-> [nil |-> FALSE, l |-> NormTxs(x.Transactions.l)]]
    [] kind = "group" -> [f \in DOMAIN GroupKinds \cup {"Header"} |->
                            IF f = "Header" THEN NormRec(GHeaderKinds, x.Header) ELSE NormField(GroupKinds[f], x[f])]
    [] kind = "member" -> NormRec(MemberKinds, x)

ContentOf(kind0, x) ==
  LET kind == Base(kind0) IN
  CASE kind = "tx" -> ContentRec(TxKinds, x)
    [] kind = "txs" -> ContentTxs(x.l)
    [] kind = "header" -> ContentRec(HeaderKinds, x)
    [] kind = "block" -> <<ContentRec(HeaderKinds, x.Header), ContentTxs(x.Transactions.l)>>
    [] kind = "group" -> <<ContentRec(GHeaderKinds, x.Header),
                           [f \in DOMAIN GroupKinds |-> Content(GroupKinds[f], x[f])]>>
    [] kind = "member" -> ContentRec(MemberKinds, x)

ProducibleOf(kind0, x) ==
  LET kind == Base(kind0) IN
  CASE kind \in {"tx", "txs"} -> TRUE
    [] kind = "header" -> ProducibleRec(HeaderKinds, x)
    [] kind = "block" -> ProducibleRec(HeaderKinds, x.Header)
    [] kind \in {"group", "member"} -> TRUE

(* does the value hold a time whose zone offset is negative with seconds (see WireCodec!NormField)? the
   verdict tags of such an event carry the suffix -time-negsec *)
TimesOf(kind0, x) ==
  LET kind == Base(kind0) IN
  CASE kind = "header" -> {x.PreTime, x.CurTime}
    [] kind = "block" -> {x.Header.PreTime, x.Header.CurTime}
    [] kind = "group" -> {x.Header.BeginTime}
    [] OTHER -> {}
Quirk(kind, x) == IF \E t \in TimesOf(kind, x) : NegSecOffset(t) THEN "-time-negsec" ELSE ""

IsObj(p) == p.res = "object"

(* the strong law on (x, x1): same content, same identifying hash *)
Strong(kind, e, x, x1, h0, h1, p1) ==
  IF ~IsObj(p1) THEN <<"Inv.RoundTrip.lost:" \o kind>>
  ELSE Tag(ContentOf(kind, x1) = ContentOf(kind, x), "Inv.RoundTrip.content" \o Quirk(kind, x) \o ":" \o kind) \o
       Tag(h1 = h0, "Inv.RoundTrip.hash" \o Quirk(kind, x) \o ":" \o kind)

StrongT(kind, who, x, x1, h0, h1, p1) ==
  IF ~IsObj(p1) THEN <<"Inv.RoundTrip.lost:" \o who>>
  ELSE Tag(ContentOf(kind, x1) = ContentOf(kind, x), "Inv.RoundTrip.content" \o Quirk(kind, x) \o ":" \o who) \o
       Tag(h1 = h0, "Inv.RoundTrip.hash" \o Quirk(kind, x) \o ":" \o who)

PanicTag(kind, p) == IF p.res \in {"panic", "marshal-panic"}
                     THEN <<"Inv.Total.panic:" \o kind \o ":" \o p.where>> ELSE <<>>

JudgeRoundTrip(e) ==
  \* events of the retention / concurrency families carry how the codec was used in between
  LET k == IF e.inter = "none" THEN e.kind ELSE e.kind \o ":" \o e.inter IN
  PanicTag(k, e.pass1) \o
  (IF ~IsObj(e.pass1)
     THEN (IF e.pass1.res \in {"panic", "marshal-panic"} THEN <<>>
           ELSE IF e.pass1.res = "neither" THEN <<"Inv.Total.neither:" \o k>>
           ELSE IF ProducibleOf(e.kind, e.x) THEN <<"Inv.RoundTrip.lost:" \o k>>
           ELSE <<"Inv.FixedPoint.lost:" \o k>>)
   ELSE Tag(e.x1 = NormOf(e.kind, e.x), "norm:" \o k) \o
        (IF ProducibleOf(e.kind, e.x) THEN StrongT(e.kind, k, e.x, e.x1, e.h0, e.h1, e.pass1) ELSE <<>>) \o
        PanicTag(k, e.pass2) \o
        (IF e.pass2.res = "skipped" THEN <<>>
         ELSE IF ~IsObj(e.pass2) THEN <<"Inv.FixedPoint.lost:" \o k>>
         ELSE Tag(e.x2 = e.x1, "Inv.FixedPoint.content" \o Quirk(e.kind, e.x1) \o ":" \o k) \o
              Tag(e.h2 = e.h1, "Inv.FixedPoint.hash" \o Quirk(e.kind, e.x1) \o ":" \o k)))

JudgeParse(e) ==
  LET k == e.kind
      ref == ParseRef(Base(k), ToSet(e.present), ToSet(e.hpresent), [i \in 1..Len(e.txs) |-> ToSet(e.txs[i])], e.tv)
  IN  (IF e.res = "panic" THEN <<"Inv.Total.panic:" \o k \o ":" \o e.where>>
       ELSE IF e.res = "neither" THEN <<"Inv.Total.neither:" \o k>>
       ELSE (IF e.src = "presence" THEN Tag(e.res = ref, "parse-class:" \o k) ELSE <<>>)) \o
      (IF e.res = "object"
         THEN PanicTag(k, e.pass1) \o
              (IF e.pass1.res \in {"panic", "marshal-panic"} THEN <<>>
               ELSE Strong(k, e, e.x, e.x1, e.h0, e.h1, e.pass1) \o
                    (IF IsObj(e.pass1) THEN Tag(e.x1 = NormOf(k, e.x), "norm:" \o k) ELSE <<>>))
         ELSE <<>>)

(* the life of one object: every digest the live object gave (steps H, S, and W's parsed object) is
   the digest of a freshly built object with the same field values (hf), equal lives-states give
   equal digests, and after the wire the parsed object's digest is the Hash that was set *)
LifeFields(kind) == CASE kind = "header" -> DOMAIN HeaderKinds
                      [] kind = "tx" -> DOMAIN TxKinds \ {"Hash"}
                      [] kind = "gheader" -> DOMAIN GHeaderKinds \ {"Hash"}
JudgeLife(e) ==
  LET k == e.kind
      st0 == [f \in LifeFields(k) |-> 0]
      plain == [i \in 1..Len(e.steps) |-> [o |-> e.steps[i].o, f |-> e.steps[i].f]]
      Seen == {i \in 1..Len(e.steps) : e.steps[i].h # ""}
      View(i) == DigestView(k, StateAfter(st0, plain, i))
  IN  Tag(~e.panic, "Inv.Total.panic:" \o k \o ":" \o e.where) \o
      (IF e.panic THEN <<>>
       ELSE Tag(\A i \in Seen : e.steps[i].h = e.steps[i].hf, "Inv.Hash.current-values:" \o k) \o
            Tag(\A i, j \in Seen : View(i) = View(j) => e.steps[i].h = e.steps[j].h, "Inv.Hash.function:" \o k) \o
            Tag(\A i, j \in Seen : View(i) # View(j) => e.steps[i].h # e.steps[j].h, "hash-injective:" \o k) \o
            Tag(\A i \in 1..Len(e.steps) : e.steps[i].o = "W" =>
                  /\ e.steps[i].res = "object"
                  /\ e.steps[i].stored = e.set             \* the Hash field travels unchanged
                  /\ e.steps[i].h = e.set,                 \* and is still the digest of the parsed object
                "Inv.Identity.wire:" \o k))

Judge(e) ==
  CASE e.event = "Life" -> JudgeLife(e)
    [] e.event = "RoundTrip" -> JudgeRoundTrip(e)
    [] e.event = "Parse" -> JudgeParse(e)
    [] OTHER -> <<"unknown-event">>

TraceInit == l = 1 /\ bad = <<>>
TraceNext ==
  /\ l <= Len(Trace)
  /\ l' = l + 1
  /\ LET e == Trace[l]
         j == Judge(e) IN
     bad' = bad \o [i \in 1..Len(j) |-> <<l, e.event, j[i]>>]
TraceSpec == TraceInit /\ [][TraceNext]_tvars

Report == (l = Len(Trace) + 1) => PrintT(<<"VERDICT", Len(Trace), ToJson(bad)>>)
=============================================================================
