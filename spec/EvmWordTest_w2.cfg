SPECIFICATION Spec
CONSTANTS
  WB = 2
  AVals = {0, 1, 2, 3, 7, 8, 15, 16, 17, 31, 32, 255, 256, 257, 1000, 32766, 32767, 32768, 32769, 40000, 65279, 65280, 65534, 65535}
  BVals = {0, 1, 2, 3, 7, 8, 15, 16, 17, 31, 32, 255, 256, 257, 1000, 32766, 32767, 32768, 32769, 40000, 65279, 65280, 65534, 65535}
  CVals = {0, 1, 2, 255, 256, 32768, 65535}
INVARIANT Agree
CHECK_DEADLOCK FALSE
