---------------------------- MODULE EvmGasTrace ----------------------------
(***************************************************************************)
(* Trace monitor for C11.  trace.ndjson is recorded by harness/cmd/c11     *)
(* while the real EVM runs arbitrary byte strings as code:                 *)
(*   Begin      - a run starts: gas limit                                  *)
(*   Enter/Exit - an interpreter frame is entered / left: depth, gas       *)
(*   Step       - an instruction completed: gas when the previous step of  *)
(*                the frame ended (pg), at fetch (g0), after charging (g1),*)
(*                after execution (g2), its cost, stack and memory sizes   *)
(*   Fault      - an instruction ended its frame with an error             *)
(*   End        - the outermost Call / Create returned (or the host        *)
(*                panicked)                                                *)
(*   Precompile - a direct vm.RunPrecompiledContract call                  *)
(* jumptable.json is the real jump table of the configuration (H6).        *)
(* Every event is judged on its own recorded numbers; the frame stack is   *)
(* bound to the recorded Enter / Exit events.  Verdict tags (prefix Inv.)  *)
(* are the clauses of the property; tags with prefix Ref. or Proj. compare *)
(* with reference gas rules beyond the statement or check the recording.   *)
(***************************************************************************)
EXTENDS EvmGas, Json, TLC

Trace == ndJsonDeserialize("trace.ndjson")
JT == JsonDeserialize("jumptable.json")

VARIABLES l, bad, fst, limit,
          mcase,                 \* the memory-operand case of the current run (classes of EvmGasGen), op "" if none
          wpend                  \* the announced 2^64-boundary case that has not ended yet (EvmGasWrap), <<>> if none
tvars == <<gvars, l, bad, fst, limit, mcase, wpend>>

OpIdx(op) == {i \in 1..Len(JT.ops) : JT.ops[i].op = op}
Known(op) == OpIdx(op) # {}
Entry(op) == JT.ops[CHOOSE i \in OpIdx(op) : TRUE]
Ends(op) == Entry(op).halts \/ Entry(op).reverts
StackLim == JT.stackLimit
DepthLim == JT.depthLimit
CALLOPS == {241, 242}            \* CALL, CALLCODE: may add the stipend
CREATEOPS == {240, 245}

Tag(c, t) == IF c THEN <<>> ELSE <<t>>
OpTag(op) == "op" \o ToString(op)

(* the premise of the termination argument, on the real table *)
TableOK == \A i \in 1..Len(JT.ops) :
             LET o == JT.ops[i] IN (~(o.halts \/ o.reverts)) => (o.constantGas >= 1 \/ o.dynamic)

JudgeBegin(e) == Tag(TableOK, "Inv.table-progress")

(* gas a frame starts with: the outermost frame gets at most the run's limit; the callee of a call       *)
(* instruction gets at most what the caller was charged for handing over (the step's cost includes the   *)
(* forwarded amount) plus the stipend of a value transfer, and never more than the caller had when it     *)
(* fetched the instruction; the callee of a CREATE gets at most what the creator had left after the charge *)
JudgeEnter(e) ==
  Tag(e.depth <= DepthLim + 1, "Inv.depth-limit") \o
  Tag(e.nframes = e.depth, "Proj.depth") \o
  (IF e.depth = 1 THEN Tag(Le(e.gas, limit), "Inv.frame-gas-bound")
   ELSE IF e.pop < 0 THEN <<>>
   ELSE LET stip == IF e.pop \in CALLOPS /\ ~e.value0 THEN CallStipend ELSE <<>>
            passed == Monus(e.gas, stip)
            avail == IF e.pop \in CREATEOPS THEN e.pg1 ELSE Add(e.pg1, passed, G256)
        IN (IF e.pop \in CREATEOPS
              THEN Tag(Le(e.gas, e.pg1), "Inv.frame-gas-bound")
              ELSE Tag(Le(passed, e.pcost) /\ Le(e.gas, Add(e.pg0, stip, G256)), "Inv.frame-gas-bound")) \o
           Tag(Le(passed, AllButOne64th(avail)), "Ref.all-but-one-64th"))

JudgeExit(e) ==
  IF fst = <<>> \/ fst[Len(fst)].depth # e.depth THEN <<"Inv.frame-unbalanced">>
  ELSE Tag(Le(e.gas, fst[Len(fst)].gas), "Inv.frame-gas-decreases")

InFrame(e) == fst # <<>> /\ fst[Len(fst)].depth = e.depth

(* small operand classes of EvmGasGen as numbers; the huge ones can only end out of gas *)
SmallClass(c) == CASE c = "0" -> 0 [] c = "1" -> 1 [] c = "31" -> 31 [] c = "32" -> 32 [] c = "33" -> 33
                   [] c = "127" -> 127 [] c = "128" -> 128 [] c = "160" -> 160 [] OTHER -> 0 - 1
(* AUTH reads memory[offset, offset + length) when length >= 128: a step that completes has that range *)
(* inside the (paid-for) memory                                                                         *)
AuthRangeOK(e) ==
  (e.op = 246 /\ mcase.op = "auth" /\ SmallClass(mcase.a) >= 0 /\ SmallClass(mcase.c) >= 128)
    => e.ml1 >= SmallClass(mcase.a) + SmallClass(mcase.c)

JudgeStep(e) ==
  LET op == e.op IN
  Tag(AuthRangeOK(e), "Inv.memory-range-not-expanded:op246") \o
  Tag(Le(e.g0, e.pg) /\ Le(e.g1, e.g0) /\ Le(e.g2, e.g0), "Inv.gas-decreases") \o
  Tag(InFrame(e) => Le(e.g0, fst[Len(fst)].gas), "Inv.gas-within-frame") \o
  Tag(e.sl0 <= StackLim /\ e.sl1 <= StackLim, "Inv.stack-limit") \o
  Tag(e.depth <= DepthLim + 1, "Inv.depth-limit") \o
  Tag(e.ml1 >= e.ml0, "Inv.memory-shrinks") \o
  Tag(Le(MemGrowFee(e.ml0, e.ml1), e.cost), "Inv.memory-charged") \o
  Tag(Le(e.cost, e.g0) /\ e.g1 = Sub(e.g0, e.cost, G256), "Proj.gas-accounting") \o
  Tag(Known(op), "Proj.unknown-op-completed") \o
  (IF Known(op)
     THEN Tag(Ends(op) \/ e.cost # <<>>, "Inv.cost-positive:" \o OpTag(op)) \o
          Tag(Le(GasOf(Entry(op).constantGas), e.cost), "Ref.cost-min:" \o OpTag(op)) \o
          Tag(Entry(op).dynamic \/ e.cost = GasOf(Entry(op).constantGas), "Ref.cost-const:" \o OpTag(op)) \o
          Tag(e.sl0 >= Entry(op).minStack /\ e.sl0 <= Entry(op).maxStack, "Ref.stack-validated:" \o OpTag(op)) \o
          Tag(Ends(op) <=> e.npc < 0, "Ref.halts:" \o OpTag(op))
     ELSE <<>>)

JudgeFault(e) ==
  LET op == e.op IN
  IF e.stage = "charged" THEN <<>>            \* a panic unwound the frame: judged at End
  ELSE Tag(e.err # "", "Inv.fault-without-error") \o
       Tag(Le(e.g0, e.pg) /\ Le(e.g2, e.g0), "Inv.gas-decreases") \o
       Tag(e.sl0 <= StackLim, "Inv.stack-limit") \o
       Tag(e.depth <= DepthLim + 1, "Inv.depth-limit") \o
       (CASE e.err = "opcode"    -> Tag(~Known(op), "Ref.fault-opcode")
          [] e.err = "underflow" -> Tag(Known(op) /\ e.sl0 < Entry(op).minStack, "Ref.fault-underflow")
          [] e.err = "overflow"  -> Tag(Known(op) /\ e.sl0 > Entry(op).maxStack, "Ref.fault-overflow")
          [] e.err = "write"     -> Tag(e.ro, "Ref.fault-write")
          [] OTHER -> <<>>)

JudgeEnd(e) ==
  Tag(~e.panic, "Inv.host-panic:" \o OpTag(e.panicOp)) \o
  Tag(Le(e.gasLeft, limit), "Inv.gas-left-bound") \o
  (* with at least 1 gas per step no run takes as many steps as the driver's bound; the EVM was cancelled there *)
  Tag(~e.cancelled, "Inv.not-terminated-within-step-bound") \o
  Tag(e.open = 0, "Inv.frames-left-open") \o
  Tag(e.truncated \/ fst = <<>>, "Inv.frames-left-open") \o
  (* as coded, a creation that cannot pay the code deposit keeps its remaining gas (Frontier rule) *)
  Tag(e.panic \/ ~e.failed \/ e.err \in {"revert", "codestore"} \/ e.gasLeft = <<>>, "Ref.failure-consumes-gas")

JudgePrecompile(e) ==
  Tag(~e.panic, "Inv.precompile-panic:addr" \o ToString(e.addr)) \o
  Tag(Le(e.gasLeft, e.gas), "Inv.precompile-gas-bound") \o
  Tag(e.panic \/ ~e.failed \/ e.gasLeft = <<>> \/ Le(e.gasLeft, e.gas), "Ref.precompile-failure")

(* 2^64-boundary cases (EvmGasWrap, run in a child process under an address-space limit): every announced *)
(* case must end - the process that executed it must not die - and must end as an ordinary out-of-gas      *)
(* failure without having resized memory: its true cost is beyond any gas limit                            *)
Unended == IF wpend = <<>> THEN <<>> ELSE <<"Inv.host-death:" \o wpend.op>>
JudgeWrapEnd(e) ==
  Tag(wpend # <<>> /\ wpend.index = e.index, "Proj.wrap-unbalanced") \o
  Tag(~e.panic, "Inv.host-panic:" \o e.op) \o
  Tag(e.failed /\ e.err \in {"oog", "gasoverflow"}, "Inv.unaffordable-step-completed:" \o e.op) \o
  Tag(e.msize <= 64, "Inv.memory-resized-without-charge:" \o e.op)

Judge(e) ==
  CASE e.event = "Begin" -> JudgeBegin(e)
    [] e.event = "Enter" -> JudgeEnter(e)
    [] e.event = "Exit"  -> JudgeExit(e)
    [] e.event = "Step"  -> JudgeStep(e)
    [] e.event = "Fault" -> JudgeFault(e)
    [] e.event = "End"   -> JudgeEnd(e)
    [] e.event = "Precompile" -> JudgePrecompile(e)
    [] e.event \in {"WrapBegin", "WrapDone"} -> Unended
    [] e.event = "WrapEnd" -> JudgeWrapEnd(e)
    [] OTHER -> <<"Proj.unknown-event">>

TraceInit == l = 1 /\ bad = <<>> /\ fst = <<>> /\ limit = <<>> /\ mcase = [op |-> "", a |-> "", b |-> "", c |-> ""] /\ wpend = <<>> /\ frames = <<>> /\ burnt = 0 /\ ended = TRUE

TraceNext ==
  /\ l <= Len(Trace)
  /\ l' = l + 1 /\ UNCHANGED gvars
  /\ LET e == Trace[l]
         j == Judge(e)
     IN /\ bad' = bad \o [i \in 1..Len(j) |-> <<l, e.event, j[i]>>]
        /\ mcase' = (IF e.event = "Begin" THEN e.mcase ELSE mcase)
        /\ wpend' = (IF e.event = "WrapBegin" THEN e ELSE IF e.event \in {"WrapEnd", "WrapDone"} THEN <<>> ELSE wpend)
        /\ CASE e.event = "Begin" -> limit' = e.gas /\ fst' = <<>>
             [] e.event = "Enter" -> fst' = Append(fst, [depth |-> e.depth, gas |-> e.gas]) /\ UNCHANGED limit
             [] e.event = "Exit"  -> fst' = (IF fst = <<>> THEN fst ELSE SubSeq(fst, 1, Len(fst) - 1)) /\ UNCHANGED limit
             [] OTHER -> UNCHANGED <<fst, limit>>

TraceSpec == TraceInit /\ [][TraceNext]_tvars

Report == (l = Len(Trace) + 1) => PrintT(<<"VERDICT", Len(Trace), ToJson(bad)>>)
=============================================================================
