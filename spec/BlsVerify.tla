----------------------------- MODULE BlsVerify -----------------------------
(***************************************************************************)
(* BLS signature verification of go-rangers (groupsig.VerifySig over the   *)
(* bn256 pairing) in the generic group model, and the encodings of the     *)
(* values presented to it.                                                 *)
(*                                                                         *)
(* Group elements.  Secret keys sk_i and message hashes H(m_j) = h_j * g1  *)
(* are independent unknowns.  A G1 element an adversary can present is a   *)
(* formal integer combination over the basis {[i,j] = sk_i * h_j * g1}     *)
(* (sums, negations, multiples of signatures it has seen) -- a function    *)
(* Basis -> Int.  The signature of key i on message j is Unit(i, j).       *)
(* Pairing: Pair(a*g1, b*g2) = a*b (additive notation for GT), so          *)
(*   VerifySig(pk_i, m_j, e):  Pair(e, g2) = Pair(H(m_j), pk_i)            *)
(*   <=>  sum_{a,b} e[a,b] sk_a h_b = sk_i h_j  as polynomials             *)
(*   <=>  e = Unit(i, j)                              (uniqueness)         *)
(* TLC checks the last equivalence for every case below under concrete     *)
(* generic values of the unknowns in GF(R) (constants SkVal, HVal).        *)
(*                                                                         *)
(* Encodings.  A value is presented as a byte string: the exact 64-byte    *)
(* (128 for public keys) encoding of a point, a truncation, an over-long   *)
(* string (valid encoding followed by extra bytes), a string that is not a *)
(* curve point (off-curve, single-bit flip of a valid encoding), or the    *)
(* same point with a coordinate not reduced modulo the field prime.        *)
(* The property: accept iff the string is the exact encoding of Unit(i,j). *)
(***************************************************************************)
EXTENDS Integers, Sequences, FiniteSets, TLC

CONSTANTS NK, NM,     \* keys 1..NK, messages 1..NM
          R           \* prime modulus of the concrete evaluation

Keys == 1..NK
Msgs == 1..NM
Basis == Keys \X Msgs

(* generic concrete values of the unknowns (distinct, non-zero, no small relations) *)
SkVal(i) == (17 + 36 * i + 5 * i * i) % R
HVal(j)  == (29 + 11 * j + 7 * j * j * j) % R

ZeroElem == [b \in Basis |-> 0]
Unit(i, j) == [b \in Basis |-> IF b = <<i, j>> THEN 1 ELSE 0]
Neg(e) == [b \in Basis |-> 0 - e[b]]
Plus(e, f) == [b \in Basis |-> e[b] + f[b]]
Scale(k, e) == [b \in Basis |-> k * e[b]]

Other(x, n) == (x % n) + 1       \* some value in 1..n different from x (n >= 2)

(* -------------------------------------------------------------------------
   Cases: what is presented as the signature (what = "sig") or as the public
   key (what = "pk") for the check "key, msg".  arg: truncation length, number
   of extra bytes, or bit index. *)
SigKinds == {"honest", "otherMsg", "otherKey", "neg", "double", "sum", "identity"}
SigEncs  == {"exact", "truncated", "overlong", "nonreduced", "offcurve", "bitflip"}

Case(what, kind, enc, key, msg, arg) ==
  [what |-> what, kind |-> kind, enc |-> enc, key |-> key, msg |-> msg, arg |-> arg]

SigCases(TruncLens, ExtraLens, Bits) ==
  UNION {
    {Case("sig", kd, "exact", i, j, 0) : kd \in SigKinds, i \in Keys, j \in Msgs},
    {Case("sig", "honest", "truncated", i, j, n) : i \in Keys, j \in Msgs, n \in TruncLens},
    {Case("sig", "honest", "overlong", i, j, n) : i \in Keys, j \in Msgs, n \in ExtraLens},
    {Case("sig", "identity", "overlong", i, j, n) : i \in Keys, j \in Msgs, n \in ExtraLens},
    {Case("sig", "honest", "nonreduced", i, j, c) : i \in Keys, j \in Msgs, c \in {0, 1}},
    {Case("sig", "honest", "offcurve", i, j, 0) : i \in Keys, j \in Msgs},
    {Case("sig", "honest", "bitflip", 1, 1, b) : b \in Bits}
  }

PkCases(TruncLens, ExtraLens, Bits) ==
  UNION {
    {Case("pk", kd, "exact", i, j, 0) : kd \in {"honest", "otherKey"}, i \in Keys, j \in Msgs},
    {Case("pk", "honest", "truncated", i, j, n) : i \in Keys, j \in Msgs, n \in TruncLens},
    {Case("pk", "honest", "overlong", i, j, n) : i \in Keys, j \in Msgs, n \in ExtraLens},
    {Case("pk", "honest", "nonreduced", i, j, c) : i \in Keys, j \in Msgs, c \in 0..3},
    {Case("pk", "honest", "bitflip", 1, 1, b) : b \in Bits}
  }

(* the G1 element behind a presented signature; a truncated / off-curve /
   bit-flipped string is not the encoding of a known group element *)
SigIsPoint(c) == c.enc \notin {"truncated", "offcurve", "bitflip"}
SigElem(c) ==
       CASE c.kind = "honest"   -> Unit(c.key, c.msg)
         [] c.kind = "otherMsg" -> Unit(c.key, Other(c.msg, NM))
         [] c.kind = "otherKey" -> Unit(Other(c.key, NK), c.msg)
         [] c.kind = "neg"      -> Neg(Unit(c.key, c.msg))
         [] c.kind = "double"   -> Scale(2, Unit(c.key, c.msg))
         [] c.kind = "sum"      -> Plus(Unit(c.key, c.msg), Unit(Other(c.key, NK), Other(c.msg, NM)))
         [] c.kind = "identity" -> ZeroElem

(* the secret key behind a presented public key: 0 = not a group element *)
PkKey(c) ==
  IF c.enc \in {"truncated", "bitflip"} THEN 0
  ELSE IF c.kind = "otherKey" THEN Other(c.key, NK) ELSE c.key

(* Presenting the SAME public key in a non-canonical encoding (trailing bytes,
   non-reduced coordinate) together with its valid signature is not decided by
   the property either way: such cases are generated and recorded, not judged. *)
Judged(c) == c.what = "sig" \/ c.enc \in {"exact", "truncated", "bitflip"}

(* The property's verdict for a case *)
Expected(c) ==
  IF c.what = "sig"
    THEN c.enc = "exact" /\ SigIsPoint(c) /\ SigElem(c) = Unit(c.key, c.msg)
    ELSE c.enc = "exact" /\ PkKey(c) = c.key     \* with the honest signature of (key, msg)

(* -------------------------------------------------------------------------
   The pairing equation under the concrete generic assignment *)
RECURSIVE SumOver(_, _)
SumOver(f, S) == IF S = {} THEN 0
                 ELSE LET x == CHOOSE y \in S : TRUE IN f[x] + SumOver(f, S \ {x})

ModR(x) == ((x % R) + R) % R
PairLeft(e) == ModR(SumOver([b \in Basis |-> ModR(e[b]) * SkVal(b[1]) * HVal(b[2])], Basis))
PairRight(i, j) == ModR(SkVal(i) * HVal(j))

(* verification equation for a signature element under public key of key i *)
Equation(e, pkKey, j) == PairLeft(e) = PairRight(pkKey, j)

Pair(a, b) == ModR(a * b)

VARIABLE c
vars == <<c>>

AllCases == SigCases({0, 1, 32, 63}, {1, 32}, {0, 255, 256, 511}) \cup PkCases({0, 64, 127}, {1, 32}, {0, 511, 1023})

Init == c \in AllCases
Next == UNCHANGED c
Spec == Init /\ [][Next]_vars

(* Uniqueness in the generic group model: for every presented group element
   the pairing equation holds exactly when the property expects acceptance
   of its exact encoding. *)
UniquenessInv ==
  /\ (c.what = "sig" /\ SigIsPoint(c)) =>
        (Equation(SigElem(c), c.key, c.msg) <=> SigElem(c) = Unit(c.key, c.msg))
  /\ (c.what = "pk" /\ PkKey(c) # 0) =>
        (Equation(Unit(c.key, c.msg), PkKey(c), c.msg) <=> PkKey(c) = c.key)

(* the abstract pairing is bilinear and non-degenerate *)
PairingLaws ==
  /\ \A a, a2, b \in 0..6 : Pair(a + a2, b) = ModR(Pair(a, b) + Pair(a2, b))
  /\ \A a, b, b2 \in 0..6 : Pair(a, b + b2) = ModR(Pair(a, b) + Pair(a, b2))
  /\ \A a, b, k \in 0..6 : Pair(k * a, b) = ModR(k * Pair(a, b))
  /\ \A a, b \in 1..(R - 1) : Pair(a, b) # 0
  /\ Pair(1, 1) # 0

GenericAssignment ==
  /\ \A i, i2 \in Keys : i # i2 => SkVal(i) # SkVal(i2)
  /\ \A j, j2 \in Msgs : j # j2 => HVal(j) # HVal(j2)
  /\ \A i \in Keys : SkVal(i) # 0
  /\ \A j \in Msgs : HVal(j) # 0

ASSUME NK >= 2 /\ NM >= 2
=============================================================================
