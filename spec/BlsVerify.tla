----------------------------- MODULE BlsVerify -----------------------------
(***************************************************************************)
(* BLS signature verification of go-rangers (groupsig.VerifySig over the   *)
(* bn256 pairing) in the generic group model, and the encodings of the     *)
(* values presented to it.                                                 *)
(*                                                                         *)
(* Group elements.  Secret keys sk_i and message hashes H(m_j) = h_j * g1  *)
(* are independent unknowns.  A G1 element an adversary can present is a   *)
(* formal integer combination over the basis {[i,j] = sk_i * h_j * g1}     *)
(* (sums, negations, multiples of signatures it has seen) -- a function    *)
(* Basis -> Int.  The signature of key i on message j is Unit(i, j).       *)
(* Pairing: Pair(a*g1, b*g2) = a*b (additive notation for GT), so          *)
(*   VerifySig(pk_i, m_j, e):  Pair(e, g2) = Pair(H(m_j), pk_i)            *)
(*   <=>  sum_{a,b} e[a,b] sk_a h_b = sk_i h_j  as polynomials             *)
(*   <=>  e = Unit(i, j)                              (uniqueness)         *)
(* TLC checks the last equivalence for every case below under concrete     *)
(* generic values of the unknowns in GF(R) (constants SkVal, HVal).        *)
(*                                                                         *)
(* Encodings.  A value is presented as a byte string: the exact 64-byte    *)
(* (128 for public keys) encoding of a point, a truncation, an over-long   *)
(* string (valid encoding followed by extra bytes), a string that is not a *)
(* curve point (off-curve, single-bit flip of a valid encoding), or the    *)
(* same point with a coordinate not reduced modulo the field prime.        *)
(* The property: accept iff the string is the exact encoding of Unit(i,j). *)
(***************************************************************************)
EXTENDS Integers, Sequences, FiniteSets, TLC

CONSTANTS NK, NM,     \* keys 1..NK, messages 1..NM
          R           \* prime modulus of the concrete evaluation

Keys == 1..NK
Msgs == 1..NM
Basis == Keys \X Msgs

(* generic concrete values of the unknowns (distinct, non-zero, no small relations) *)
SkVal(i) == (17 + 36 * i + 5 * i * i) % R
HVal(j)  == (29 + 11 * j + 7 * j * j * j) % R

ZeroElem == [b \in Basis |-> 0]
Unit(i, j) == [b \in Basis |-> IF b = <<i, j>> THEN 1 ELSE 0]
Neg(e) == [b \in Basis |-> 0 - e[b]]
Plus(e, f) == [b \in Basis |-> e[b] + f[b]]
Scale(k, e) == [b \in Basis |-> k * e[b]]

Other(x, n) == (x % n) + 1       \* some value in 1..n different from x (n >= 2)

(* -------------------------------------------------------------------------
   Cases: what is presented as the signature (what = "sig") or as the public
   key (what = "pk") for the check "key, msg".  arg: truncation length, number
   of extra bytes, or bit index. *)
SigKinds == {"honest", "otherMsg", "otherKey", "neg", "double", "sum", "identity"}
SigEncs  == {"exact", "truncated", "overlong", "nonreduced", "offcurve", "bitflip"}

Case(what, kind, enc, key, msg, arg) ==
  [what |-> what, kind |-> kind, enc |-> enc, key |-> key, msg |-> msg, arg |-> arg]

SigCases(TruncLens, ExtraLens, Bits) ==
  UNION {
    {Case("sig", kd, "exact", i, j, 0) : kd \in SigKinds, i \in Keys, j \in Msgs},
    {Case("sig", "honest", "truncated", i, j, n) : i \in Keys, j \in Msgs, n \in TruncLens},
    {Case("sig", "honest", "overlong", i, j, n) : i \in Keys, j \in Msgs, n \in ExtraLens},
    {Case("sig", "identity", "overlong", i, j, n) : i \in Keys, j \in Msgs, n \in ExtraLens},
    {Case("sig", "honest", "nonreduced", i, j, c) : i \in Keys, j \in Msgs, c \in {0, 1}},
    {Case("sig", "honest", "offcurve", i, j, 0) : i \in Keys, j \in Msgs},
    {Case("sig", "honest", "bitflip", 1, 1, b) : b \in Bits}
  }

PkCases(TruncLens, ExtraLens, Bits) ==
  UNION {
    {Case("pk", kd, "exact", i, j, 0) : kd \in {"honest", "otherKey"}, i \in Keys, j \in Msgs},
    {Case("pk", "honest", "truncated", i, j, n) : i \in Keys, j \in Msgs, n \in TruncLens},
    {Case("pk", "honest", "overlong", i, j, n) : i \in Keys, j \in Msgs, n \in ExtraLens},
    {Case("pk", "honest", "nonreduced", i, j, c) : i \in Keys, j \in Msgs, c \in 0..3},
    {Case("pk", "honest", "bitflip", 1, 1, b) : b \in Bits}
  }

(* the G1 element behind a presented signature; a truncated / off-curve /
   bit-flipped string is not the encoding of a known group element *)
SigIsPoint(c) == c.enc \notin {"truncated", "offcurve", "bitflip"}
SigElem(c) ==
       CASE c.kind = "honest"   -> Unit(c.key, c.msg)
         [] c.kind = "otherMsg" -> Unit(c.key, Other(c.msg, NM))
         [] c.kind = "otherKey" -> Unit(Other(c.key, NK), c.msg)
         [] c.kind = "neg"      -> Neg(Unit(c.key, c.msg))
         [] c.kind = "double"   -> Scale(2, Unit(c.key, c.msg))
         [] c.kind = "sum"      -> Plus(Unit(c.key, c.msg), Unit(Other(c.key, NK), Other(c.msg, NM)))
         [] c.kind = "identity" -> ZeroElem

(* the secret key behind a presented public key: 0 = not a group element *)
PkKey(c) ==
  IF c.enc \in {"truncated", "bitflip"} THEN 0
  ELSE IF c.kind = "otherKey" THEN Other(c.key, NK) ELSE c.key

(* Presenting the SAME public key in a non-canonical encoding (trailing bytes,
   non-reduced coordinate) together with its valid signature is not decided by
   the property either way: such cases are generated and recorded, not judged. *)
Judged(c) == c.what = "sig" \/ c.enc \in {"exact", "truncated", "bitflip"}

(* The property's verdict for a case *)
Expected(c) ==
  IF c.what = "sig"
    THEN c.enc = "exact" /\ SigIsPoint(c) /\ SigElem(c) = Unit(c.key, c.msg)
    ELSE c.enc = "exact" /\ PkKey(c) = c.key     \* with the honest signature of (key, msg)

(* -------------------------------------------------------------------------
   The pairing equation under the concrete generic assignment *)
RECURSIVE SumOver(_, _)
SumOver(f, S) == IF S = {} THEN 0
                 ELSE LET x == CHOOSE y \in S : TRUE IN f[x] + SumOver(f, S \ {x})

ModR(x) == ((x % R) + R) % R
PairLeft(e) == ModR(SumOver([b \in Basis |-> ModR(e[b]) * SkVal(b[1]) * HVal(b[2])], Basis))
PairRight(i, j) == ModR(SkVal(i) * HVal(j))

(* verification equation for a signature element under public key of key i *)
Equation(e, pkKey, j) == PairLeft(e) = PairRight(pkKey, j)

Pair(a, b) == ModR(a * b)

(* -------------------------------------------------------------------------
   Message structure.  H is a hash to the curve: injective on byte strings as far
   as anyone can tell, so Sign(sk, m1) verifies for m2 exactly when m1 = m2 as
   byte strings -- whatever their lengths, however similar they are.  The lattice
   below pairs messages that differ while sharing structure an implementation
   might key on: leading zero bytes, a common 32-byte head or tail, one being a
   prefix or suffix of the other, a single differing byte. *)
MsgLens == {0, 1, 31, 32, 33, 64, 65}

(* salt-dependent non-zero filler bytes *)
Base(salt, n) == [i \in 1..n |-> ((salt * 31 + i * 7) % 255) + 1]
Zeros(n) == [i \in 1..n |-> 0]
OtherByte(b) == (b % 255) + 1
Flip(m, pos) == [m EXCEPT ![pos] = OtherByte(m[pos])]
FirstN(m, k) == SubSeq(m, 1, k)
LastN(m, k) == SubSeq(m, Len(m) - k + 1, Len(m))

MsgPair(rel, salt, m1, m2) == [rel |-> rel, salt |-> salt, m1 |-> m1, m2 |-> m2]

MsgPairs ==
  UNION {
    {MsgPair("leadZero", 100 + n, Base(100 + n, n), Zeros(1) \o Base(100 + n, n)) : n \in {0, 1, 3, 30, 31, 32, 63, 64}},
    {MsgPair("leadZeros2", 200 + n, Base(200 + n, n), Zeros(2) \o Base(200 + n, n)) : n \in {0, 1, 3, 30}},
    {MsgPair("zeroPadTo32", 300 + n, Base(300 + n, n), Zeros(32 - n) \o Base(300 + n, n)) : n \in {0, 1, 3, 31}},
    {MsgPair("sameLast32", 400 + n, Base(400 + n, n), Flip(Base(400 + n, n), 1)) : n \in {33, 64, 65}},
    {MsgPair("sameFirst32", 500 + n, Base(500 + n, n), Flip(Base(500 + n, n), n)) : n \in {33, 64, 65}},
    {MsgPair("prefix", 600 + 10 * nk[1] + nk[2], Base(600 + nk[1], nk[1]), FirstN(Base(600 + nk[1], nk[1]), nk[2]))
        : nk \in {<<33, 32>>, <<64, 32>>, <<65, 64>>, <<32, 31>>, <<1, 0>>}},
    {MsgPair("suffix", 700 + 10 * nk[1] + nk[2], Base(700 + nk[1], nk[1]), LastN(Base(700 + nk[1], nk[1]), nk[2]))
        : nk \in {<<33, 32>>, <<64, 32>>, <<65, 33>>, <<65, 32>>, <<32, 31>>, <<1, 0>>}},
    {MsgPair("diffByte", 800 + 100 * np[2] + np[1], Base(800 + np[1], np[1]), Flip(Base(800 + np[1], np[1]), np[2]))
        : np \in {<<1, 1>>, <<31, 1>>, <<31, 31>>, <<32, 1>>, <<32, 32>>, <<33, 1>>, <<33, 33>>, <<64, 1>>, <<64, 33>>, <<64, 64>>, <<65, 33>>, <<65, 65>>}}
  }

(* a pair is replayed in both orders: which of the two messages the process meets first *)
MsgCases == {[pair |-> pr, order |-> o] : pr \in MsgPairs, o \in {"fwd", "rev"}}

(* expected verdict of Verify(pk, mv, Sign(sk, ms)) *)
ExpectedMsg(ms, mv) == ms = mv

(* the lattice is what it claims to be *)
MsgLatticeOK ==
  \A pr \in MsgPairs :
    /\ pr.m1 # pr.m2
    /\ (pr.rel = "sameLast32" => Len(pr.m1) > 32 /\ Len(pr.m1) = Len(pr.m2) /\ LastN(pr.m1, 32) = LastN(pr.m2, 32))
    /\ (pr.rel = "sameFirst32" => Len(pr.m1) > 32 /\ Len(pr.m1) = Len(pr.m2) /\ FirstN(pr.m1, 32) = FirstN(pr.m2, 32))
    /\ (pr.rel = "suffix" => LastN(pr.m1, Len(pr.m2)) = pr.m2)
    /\ (pr.rel = "prefix" => FirstN(pr.m1, Len(pr.m2)) = pr.m2)
    /\ (pr.rel = "zeroPadTo32" => Len(pr.m2) = 32)
    /\ (pr.rel = "diffByte" => Len(pr.m1) = Len(pr.m2) /\ Cardinality({i \in 1..Len(pr.m1) : pr.m1[i] # pr.m2[i]}) = 1)
MsgLensCovered == MsgLens \subseteq ({Len(pr.m1) : pr \in MsgPairs} \cup {Len(pr.m2) : pr \in MsgPairs})

(* -------------------------------------------------------------------------
   The degenerate corner: malformed public key x degenerate signature.  A byte
   string that is not the exact encoding of a group element parses to NO key, and
   verification with no key is false for every signature -- the identity included
   (e(identity, g2) = 1 = e(H(m), "nothing") must not be how a parser failure ends).
   Every parsing entry point of keys and signatures is a dimension. *)
KeyClasses == {"exact", "empty", "nil", "truncated", "overlong", "nonreduced", "offcurve", "identity"}
SigClasses == {"honest", "identity", "truncated", "garbage", "empty"}
KeyEntries == {"ByteToPublicKey", "Deserialize", "SetHexString", "UnmarshalJSON"}
SigEntries == {"DeserializeSign", "Deserialize", "SetHexString"}

KeyCase(kc, arg, ke, sc, se) == [keyClass |-> kc, arg |-> arg, keyEntry |-> ke, sigClass |-> sc, sigEntry |-> se]

KeyArgs(kc) == CASE kc = "truncated" -> {1, 64, 127}
                 [] kc = "overlong"  -> {1, 32}
                 [] kc = "nonreduced" -> 0..3
                 [] OTHER -> {0}

KeySigCases ==
  {KeyCase(kc, a, ke, sc, se) : kc \in KeyClasses, a \in 0..127, ke \in KeyEntries, sc \in SigClasses, se \in SigEntries}
KeySigLattice == {kc \in KeySigCases : kc.arg \in KeyArgs(kc.keyClass)}

(* does the presented key string denote a key at all, and which *)
KeyParses(kc) == kc.keyClass \in {"exact", "overlong", "nonreduced", "identity"}   \* a group element is behind it
KeyIsHonest(kc) == kc.keyClass \in {"exact", "overlong", "nonreduced"}
(* not decided by the property (see Judged): a non-canonical encoding of the right key with the right
   signature; the identity key (secret key 0) with the identity signature (its signature) *)
KeySigJudged(kc) ==
  /\ ~(kc.keyClass \in {"overlong", "nonreduced"} /\ kc.sigClass = "honest")
  /\ ~(kc.keyClass = "identity" /\ kc.sigClass = "identity")
ExpectedKeySig(kc) == kc.keyClass = "exact" /\ kc.sigClass = "honest"

ASSUME \A kc \in KeySigLattice : ExpectedKeySig(kc) => (KeyParses(kc) /\ KeyIsHonest(kc))

VARIABLE c
vars == <<c>>

AllCases == SigCases({0, 1, 32, 63}, {1, 32}, {0, 255, 256, 511}) \cup PkCases({0, 64, 127}, {1, 32}, {0, 511, 1023})

Init == c \in AllCases
Next == UNCHANGED c
Spec == Init /\ [][Next]_vars

(* Uniqueness in the generic group model: for every presented group element
   the pairing equation holds exactly when the property expects acceptance
   of its exact encoding. *)
UniquenessInv ==
  /\ (c.what = "sig" /\ SigIsPoint(c)) =>
        (Equation(SigElem(c), c.key, c.msg) <=> SigElem(c) = Unit(c.key, c.msg))
  /\ (c.what = "pk" /\ PkKey(c) # 0) =>
        (Equation(Unit(c.key, c.msg), PkKey(c), c.msg) <=> PkKey(c) = c.key)

(* the abstract pairing is bilinear and non-degenerate *)
PairingLaws ==
  /\ \A a, a2, b \in 0..6 : Pair(a + a2, b) = ModR(Pair(a, b) + Pair(a2, b))
  /\ \A a, b, b2 \in 0..6 : Pair(a, b + b2) = ModR(Pair(a, b) + Pair(a, b2))
  /\ \A a, b, k \in 0..6 : Pair(k * a, b) = ModR(k * Pair(a, b))
  /\ \A a, b \in 1..(R - 1) : Pair(a, b) # 0
  /\ Pair(1, 1) # 0

GenericAssignment ==
  /\ \A i, i2 \in Keys : i # i2 => SkVal(i) # SkVal(i2)
  /\ \A j, j2 \in Msgs : j # j2 => HVal(j) # HVal(j2)
  /\ \A i \in Keys : SkVal(i) # 0
  /\ \A j \in Msgs : HVal(j) # 0

ASSUME NK >= 2 /\ NM >= 2
ASSUME MsgLatticeOK /\ MsgLensCovered
=============================================================================
