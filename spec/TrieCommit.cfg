SPECIFICATION Spec
CONSTANTS
  Nodes = {1, 2, 3, 4, 5}
  Ideal = 2
  MaxCommits = 2
  Crashes = TRUE
  WriteFailures = TRUE
  Dedup = FALSE
  Order = "post"
INVARIANTS TypeOK Closed DurableKept NothingLost
PROPERTY AppendOnly
CHECK_DEADLOCK FALSE
