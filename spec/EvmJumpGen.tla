----------------------------- MODULE EvmJumpGen -----------------------------
(***************************************************************************)
(* Sweep of jump-destination validity (C10: "jumps land only on real       *)
(* JUMPDEST bytes outside push data").  One program per case:              *)
(*   a PUSHn of width n whose opcode sits at a code position congruent to  *)
(*   a modulo 64 (so that every alignment of its data relative to          *)
(*   multiples of 8 and of 64 occurs), one of its data bytes (the k-th) is *)
(*   0x5b, and a JUMP - or a JUMPI with a non-zero condition - at the      *)
(*   start of the program targets exactly that byte.  Variants: the code   *)
(*   ends inside the push data (right at the targeted byte), a destination *)
(*   >= 2^64 whose low 64 bits are the offset of a genuine JUMPDEST, and a control *)
(*   that targets the real JUMPDEST placed right behind the push data.     *)
(* The reference machine of Evm.tla runs every program (the exact          *)
(* definition ValidDestDecl is asserted to agree with the machine's scan   *)
(* on every position of every program) and the predicted end - invalid     *)
(* jump or STOP - is printed with the program and compared with the real   *)
(* interpreter by the c10 driver / EvmTrace.                               *)
(***************************************************************************)
EXTENDS Evm, Json, TLC

CONSTANTS Widths, Aligns         \* sets of push widths (1..32) and of alignments (0..63)
VARIABLE par
GenDatasJ == {<<>>}
jvars == <<vars, par>>

HeadOf(kind, t) == IF kind = "jump" THEN <<PUSH1 + 1, t \div 256, t % 256, JUMP>>
                   ELSE <<PUSH1, 1, PUSH1 + 1, t \div 256, t % 256, JUMPI>>
(* a destination operand of 32 bytes: a wide value whose low 64 bits are the offset t of a genuine JUMPDEST  *)
(* (2^64 + t, 2^65 + t, 2^128 + t, 2^255 + t, 2^256 - 2^64 + t): it does not fit, the jump is invalid        *)
WideBE(w, t) == [i \in 1..32 |->
                  LET r == 32 - i IN        \* byte position counted from the least significant
                  IF r = 0 THEN t % 256 ELSE IF r = 1 THEN t \div 256
                  ELSE CASE w = 1 -> IF r = 8 THEN 1 ELSE 0
                         [] w = 2 -> IF r = 8 THEN 2 ELSE 0
                         [] w = 3 -> IF r = 16 THEN 1 ELSE 0
                         [] w = 4 -> IF r = 31 THEN 128 ELSE 0
                         [] OTHER -> IF r >= 8 THEN 255 ELSE 0]
WideHead(kind, w, t) == IF kind = "jump" THEN <<PUSH32>> \o WideBE(w, t) \o <<JUMP>>
                        ELSE <<PUSH1, 1, PUSH32>> \o WideBE(w, t) \o <<JUMPI>>
HeadLen(c) == IF c.mode = "wide" THEN (IF c.kind = "jump" THEN 34 ELSE 36) ELSE (IF c.kind = "jump" THEN 4 ELSE 6)
PushPos(c) == LET h == HeadLen(c) IN IF c.a >= h THEN c.a ELSE IF c.a + 64 >= h THEN c.a + 64 ELSE c.a + 128
DataOf(n, k) == [i \in 1..n |-> IF i = k THEN JUMPDEST ELSE 0]

Build(c) ==
  LET p == PushPos(c)
      pad == [i \in 1..(p - HeadLen(c)) |-> STOP]
      t == IF c.mode = "valid" THEN p + c.n + 1 ELSE IF c.mode = "wide" THEN p ELSE p + c.k
      body == CASE c.mode = "data"  -> <<PUSH0 + c.n>> \o DataOf(c.n, c.k) \o <<STOP>>
                [] c.mode = "cut"   -> <<PUSH0 + c.n>> \o SubSeq(DataOf(c.n, c.k), 1, c.k)
                [] c.mode = "valid" -> <<PUSH0 + c.n>> \o DataOf(c.n, c.k) \o <<JUMPDEST, STOP>>
                [] c.mode = "wide"  -> <<JUMPDEST, STOP>>          \* the genuine JUMPDEST at offset p
  IN (IF c.mode = "wide" THEN WideHead(c.kind, c.n, t) ELSE HeadOf(c.kind, t)) \o pad \o body

Cases ==
  [mode : {"data"}, kind : {"jump"}, n : Widths, a : Aligns, k : 1..32] \cup
  {c \in [mode : {"data"}, kind : {"jumpi"}, n : Widths, a : Aligns, k : 1..32] : c.k = c.n} \cup
  {c \in [mode : {"cut"}, kind : {"jump"}, n : Widths, a : Aligns, k : {1, 7, 8, 9}] : c.k < c.n} \cup
  {c \in [mode : {"valid"}, kind : {"jump", "jumpi"}, n : Widths, a : Aligns, k : {1}] : TRUE} \cup
  [mode : {"wide"}, kind : {"jump", "jumpi"}, n : 1..5, a : Aligns, k : {1}]

JInit == /\ par \in {c \in Cases : c.k <= c.n}
         /\ code = Build(par) /\ data = <<>> /\ st = InitState /\ status = "run" /\ jumped = FALSE /\ ret = <<>>
JNext == Step /\ UNCHANGED par
JSpec == JInit /\ [][JNext]_jvars

Final == [code |-> code, data |-> data, stack |-> st.stack, mem |-> st.mem, status |-> status, ret |-> ret]
JDump == status # "run" => PrintT(<<"PROG", ToJson(Final)>>)
(* what the sweep is about: a jump into push data is refused, the control jump is taken *)
JExpect == status # "run" => (status = IF par.mode = "valid" THEN "stop" ELSE "fault:jump")
(* the machine's scan and the definition agree on the targeted byte and its neighbours (on every position of *)
(* every program in the exhaustive configurations of Evm.tla)                                               *)
Target == PushPos(par) + (IF par.mode = "valid" THEN par.n + 1 ELSE IF par.mode = "wide" THEN 0 ELSE par.k)
JAgree == (status = "run" /\ st.pc = 0) =>
            \A d \in {Target - 1, Target, Target + 1} : ValidDest(code, FromNat(d, 256)) <=> ValidDestDecl(code, d)
JInv == PcOnInstr /\ JumpLanding /\ JAgree /\ JExpect
=============================================================================
