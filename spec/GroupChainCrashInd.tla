------------------------- MODULE GroupChainCrashInd -------------------------
(***************************************************************************)
(* The group chain with its persistent records and the mirror fields of    *)
(* the running process told apart, and a process death at any point: the   *)
(* repaired save()/remove() write ONE batch (group record, last-group      *)
(* pointer, height index, count) and update the mirror fields afterwards.  *)
(* The inductive invariant says that the persistent records always have    *)
(* the list structure of GroupChainInd!IndInv (so a restart from them      *)
(* gives a chain that satisfies C19), and that the mirror fields equal the *)
(* records whenever no call is under way.  First-order, no recursion:      *)
(* TLAPS proves it for every set of ids and every height bound             *)
(* (GroupChainCrashIndProof), Apalache re-checks inductiveness on concrete *)
(* constants and refutes the variant with separate writes.                 *)
(***************************************************************************)
EXTENDS Integers

CONSTANTS
  \* @type: Set(Int);
  Ids,
  \* @type: Int;
  MaxH

Genesis == 0
None == -1
AllIds == Ids \union {Genesis}
Heights == 0..MaxH

VARIABLES
  \* @type: Int -> { pre: Int, height: Int, present: Bool };
  store,
  \* @type: Int -> Int;
  hidx,
  \* @type: Int;
  countRec,
  \* @type: Int;
  lastRec,
  \* @type: Int;
  count,
  \* @type: Int;
  last,
  \* @type: Str;
  pc

vars == <<store, hidx, countRec, lastRec, count, last, pc>>

Absent == [pre |-> None, height |-> 0, present |-> FALSE]

Init ==
  /\ store = [i \in AllIds |-> IF i = Genesis THEN [pre |-> None, height |-> 0, present |-> TRUE] ELSE Absent]
  /\ hidx = [h \in Heights |-> IF h = 0 THEN Genesis ELSE None]
  /\ countRec = 1 /\ lastRec = Genesis
  /\ count = 1 /\ last = Genesis
  /\ pc = "idle"

(* save(): one batch *)
AddBatch(g) ==
  /\ pc = "idle" /\ g \in Ids /\ ~store[g].present /\ count <= MaxH
  /\ store' = [store EXCEPT ![g] = [pre |-> last, height |-> count, present |-> TRUE]]
  /\ hidx' = [hidx EXCEPT ![count] = g]
  /\ countRec' = count + 1
  /\ lastRec' = g
  /\ pc' = "mirror"
  /\ UNCHANGED <<count, last>>

(* remove(last group): one batch *)
RemBatch ==
  /\ pc = "idle" /\ last # Genesis
  /\ store' = [store EXCEPT ![last] = Absent]
  /\ hidx' = [hidx EXCEPT ![count - 1] = None]
  /\ countRec' = count - 1
  /\ lastRec' = store[last].pre
  /\ pc' = "mirror"
  /\ UNCHANGED <<count, last>>

(* chain.count / chain.lastGroup follow the batch *)
Mirror ==
  /\ pc = "mirror"
  /\ count' = countRec /\ last' = lastRec
  /\ pc' = "idle"
  /\ UNCHANGED <<store, hidx, countRec, lastRec>>

(* process death anywhere, then initGroupChain over the same store (a clean restart is the
   case pc = "idle") *)
Crash ==
  /\ count' = countRec /\ last' = lastRec
  /\ pc' = "idle"
  /\ UNCHANGED <<store, hidx, countRec, lastRec>>

Next == (\E g \in Ids : AddBatch(g)) \/ RemBatch \/ Mirror \/ Crash

(* negative control: remove() with separate writes, the first of them (Delete(id)) alone *)
RemDeleteOnly ==
  /\ pc = "idle" /\ last # Genesis
  /\ store' = [store EXCEPT ![last] = Absent]
  /\ pc' = "mirror"
  /\ UNCHANGED <<hidx, countRec, lastRec, count, last>>
NextUnbatched == RemDeleteOnly \/ Crash

TypeOK ==
  /\ store \in [AllIds -> [pre : AllIds \union {None}, height : Heights, present : BOOLEAN]]
  /\ hidx \in [Heights -> AllIds \union {None}]
  /\ countRec \in 1..(MaxH + 1) /\ count \in 1..(MaxH + 1)
  /\ lastRec \in AllIds /\ last \in AllIds
  /\ pc \in {"idle", "mirror"}

(* the list structure over the persistent records *)
Structure(c, l) ==
  /\ hidx[0] = Genesis
  /\ l = hidx[c - 1]
  /\ \A h \in Heights : h >= c => hidx[h] = None
  /\ \A h \in Heights : h < c =>
        /\ hidx[h] # None
        /\ store[hidx[h]].present
        /\ store[hidx[h]].height = h
        /\ (h > 0 => store[hidx[h]].pre = hidx[h - 1])
  /\ \A g \in AllIds : store[g].present => (store[g].height < c /\ hidx[store[g].height] = g)
  /\ \A g \in AllIds : ~store[g].present => store[g] = Absent

IndInv ==
  /\ TypeOK
  /\ Structure(countRec, lastRec)
  /\ (pc = "idle" => (count = countRec /\ last = lastRec))

(* what C19 asks of a node that is not inside a call - in particular right after a restart *)
Implied == pc = "idle" => Structure(count, last)

Spec == Init /\ [][Next]_vars
=============================================================================
