SPECIFICATION TraceSpec
CONSTANTS
  Accts = {1}
  MaxDepth = 1
  MaxFrames = 1
  MaxTx = 1
  MaxMuts = 1
  AsCoded = FALSE
INVARIANT Report
CHECK_DEADLOCK FALSE
