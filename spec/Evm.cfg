SPECIFICATION Spec
CONSTANTS
  WB = 1
  StackLimit = 3
  Alphabet <- AlphaJump
  MaxLen = 4
  Datas <- DatasSmall
INVARIANTS TypeOK PcOnInstr JumpLanding DestDefsAgree
PROPERTY MemMonotone
CHECK_DEADLOCK FALSE
