SPECIFICATION Spec
CONSTANTS
  WB = 1
  StackLimit = 3
  Alphabet <- AlphaWide
  MaxLen = 3
  Datas <- DatasSmall
INVARIANTS TypeOK PcOnInstr JumpLanding DestDefsAgree
PROPERTY MemMonotone
CHECK_DEADLOCK FALSE
