-------------------------- MODULE MinerRegistryMC --------------------------
(***************************************************************************)
(* Exhaustive exploration of the miner-management transactions over a      *)
(* small universe (2 miner ids, 3 accounts, stakes below / at / above the  *)
(* minimum, refunds of part / all / more / everything), and generator of   *)
(* transaction sequences (hist, with block boundaries) replayed on the     *)
(* real executors by harness/cmd/c20.                                      *)
(***************************************************************************)
EXTENDS MinerRegistry, Json

CONSTANTS Depth,     \* 0: state-space exploration; > 0: generate histories of this length
          MaxOps,    \* exploration: bound on the number of accepted transactions
          Seeded,    \* BOOLEAN: start from a registry holding proposer 1 (account 1) and validator 2 (account 2),
                     \* each applied in its own block, and generate only non-apply transactions after that
          ColdSeed   \* BOOLEAN (with Seeded): proposer 1 was applied by account 1 FOR the cold account 4

Ids == {1, 2}
Accounts == {1, 2, 3}     \* sources: 1, 2 funded, 3 holds 2 tokens
Cold == 4                 \* an address that never held anything (no state object): only ever NAMED as the account
Targets == Accounts \cup {Cold}
Start == 6000

Alphabet ==
  { [kind |-> "Apply", id |-> i, type |-> t, stake |-> MinStake(t) + d, account |-> a, source |-> a] :
      i \in Ids, t \in {0, 1}, d \in {-1, 0, 1}, a \in Accounts } \cup
  { [kind |-> "Apply", id |-> i, type |-> t, stake |-> MinStake(t) + d, account |-> Cold, source |-> s] :
      i \in Ids, t \in {0, 1}, d \in {0, 1}, s \in {1, 2} } \cup
  { [kind |-> "Add", id |-> i, type |-> 0, stake |-> d, account |-> 0, source |-> s] :
      i \in Ids, d \in {0, 1, 200, 2000}, s \in {1, 2} } \cup
  { [kind |-> "Refund", id |-> i, type |-> 0, stake |-> m, account |-> 0, source |-> s] :
      i \in Ids, m \in {1, 400, -1, 5000}, s \in Accounts } \cup
  { [kind |-> "Change", id |-> i, type |-> 0, stake |-> 0, account |-> a, source |-> s] :
      i \in Ids, a \in Targets, s \in Accounts }

VARIABLES R, bal, escrow, acct, hist, nOps
vars == <<R, bal, escrow, acct, hist, nOps>>
(* acct: per id the running applied + added - refunded of accepted transactions *)

SeedTx1 == [kind |-> "Apply", id |-> 1, type |-> 1, stake |-> 2000, account |-> IF ColdSeed THEN Cold ELSE 1, source |-> 1]
SeedTx2 == [kind |-> "Apply", id |-> 2, type |-> 0, stake |-> 401, account |-> 2, source |-> 2]
Init == /\ R = IF Seeded THEN Post(Post([i \in Ids |-> Absent], SeedTx1), SeedTx2) ELSE [i \in Ids |-> Absent]
        /\ bal = IF Seeded THEN [a \in Accounts |-> IF a = 1 THEN Start - 2000 ELSE IF a = 2 THEN Start - 401 ELSE Start]
                  ELSE [a \in Accounts |-> Start]
        /\ escrow = 0
        /\ acct = IF Seeded THEN [i \in Ids |-> IF i = 1 THEN 2000 ELSE 401] ELSE [i \in Ids |-> 0]
        /\ hist = IF Seeded /\ Depth > 0 THEN <<[tx |-> SeedTx1, nb |-> TRUE], [tx |-> SeedTx2, nb |-> TRUE]>> ELSE <<>>
        /\ nOps = 0

Do(tx, nb) ==
  /\ (Depth = 0 \/ Len(hist) < Depth)
  /\ IF Accepts(R, tx, bal[tx.source])
       THEN /\ R' = Post(R, tx)
            /\ bal' = [bal EXCEPT ![tx.source] = @ - Locked(R, tx)]
            /\ escrow' = escrow + Escrowed(R, tx)
            /\ acct' = [acct EXCEPT ![tx.id] = IF Post(R, tx)[tx.id].present
                                                  THEN @ + Locked(R, tx) - Escrowed(R, tx) ELSE 0]
            /\ nOps' = nOps + 1
       ELSE UNCHANGED <<R, bal, escrow, acct, nOps>>
  /\ hist' = IF Depth = 0 THEN hist ELSE Append(hist, [tx |-> tx, nb |-> nb])

Next == \E tx \in Alphabet, nb \in BOOLEAN :
          /\ (Depth = 0 => nb)
          /\ (Depth = 0 => nOps < MaxOps)
          /\ (Seeded => tx.kind # "Apply")
          /\ Do(tx, nb)
Spec == Init /\ [][Next]_vars

RECURSIVE SumF(_, _)
SumF(f, S) == IF S = {} THEN 0 ELSE LET x == CHOOSE y \in S : TRUE IN f[x] + SumF(f, S \ {x})
LockedTotal == SumF([i \in Ids |-> IF R[i].present THEN R[i].stake ELSE 0], Ids)

InvOneMinerPerAccount == OneMinerPerAccount(R)
InvConservation == SumF(bal, Accounts) + LockedTotal + escrow = 3 * Start
InvStakeAccounting == \A i \in Ids : R[i].present => R[i].stake = acct[i]
InvNonNegative == \A a \in Accounts : bal[a] >= 0
InvStakeFloor == \A i \in Ids : (R[i].present /\ ~R[i].abort) => R[i].stake >= MinStake(R[i].type)

Dump == (Depth > 0 /\ Len(hist) = Depth) => PrintT(<<"HIST", ToJson(hist)>>)
=============================================================================
