------------------------- MODULE MinerRegistryProof -------------------------
(* Unbounded design-level facts about the reference semantics of MinerRegistry, proved with
   TLAPS for every registry (any set of ids, any accounts, any amounts): an accepted miner
   transaction keeps "an account controls at most one miner", keeps every present record's stake
   non-negative, and changes only the record it names. *)
EXTENDS MinerRegistryCore, TLAPS

Kinds == {"Apply", "Add", "Refund", "Change"}
IsRegistry(R) == R \in [DOMAIN R -> [present : BOOLEAN, type : {0, 1}, stake : Int, account : Int, abort : BOOLEAN]]
IsTx(R, tx) == /\ tx \in [kind : Kinds, id : DOMAIN R, type : Int, stake : Int, account : Int, source : Int]
               /\ tx.account # NoAccount
StakesOK(R) == \A i \in DOMAIN R : R[i].present => R[i].stake >= 0

THEOREM OneMinerKept ==
  ASSUME NEW R, IsRegistry(R), NEW tx, IsTx(R, tx), NEW bal \in Int,
         OneMinerPerAccount(R), Accepts(R, tx, bal)
  PROVE  OneMinerPerAccount(Post(R, tx))
  <1>1. CASE tx.kind = "Apply"
    BY <1>1 DEF IsRegistry, IsTx, Kinds, OneMinerPerAccount, Accepts, Post, ApplyOk, ApplyOkV, ApplyPost, Occupied, NoAccount
  <1>2. CASE tx.kind = "Add"
    BY <1>2 DEF IsRegistry, IsTx, Kinds, OneMinerPerAccount, Accepts, Post, AddOk, AddPost, MinStake
  <1>3. CASE tx.kind = "Refund"
    BY <1>3 DEF IsRegistry, IsTx, Kinds, OneMinerPerAccount, Accepts, Post, RefundOk, RefundPost, RefundAmount, MinStake, Absent, NoAccount
  <1>4. CASE tx.kind = "Change"
    BY <1>4 DEF IsRegistry, IsTx, Kinds, OneMinerPerAccount, Accepts, Post, ChangeOk, ChangeOkV, ChangePost, Occupied
  <1> QED BY <1>1, <1>2, <1>3, <1>4 DEF IsTx, Kinds

THEOREM OnlyNamedRecordChanges ==
  ASSUME NEW R, IsRegistry(R), NEW tx, IsTx(R, tx)
  PROVE  \A i \in DOMAIN R : i # tx.id => Post(R, tx)[i] = R[i]
  BY DEF IsRegistry, IsTx, Kinds, Post, ApplyPost, AddPost, RefundPost, ChangePost, MinStake, RefundAmount, Absent

THEOREM StakeArithmetic ==
  ASSUME NEW R, IsRegistry(R), NEW tx, IsTx(R, tx), NEW bal \in Int, Accepts(R, tx, bal), R[tx.id].present \/ tx.kind = "Apply"
  PROVE  /\ tx.kind = "Apply" => Post(R, tx)[tx.id].stake = tx.stake
         /\ tx.kind = "Add" => Post(R, tx)[tx.id].stake = R[tx.id].stake + tx.stake
         /\ (tx.kind = "Refund" /\ Post(R, tx)[tx.id].present) => Post(R, tx)[tx.id].stake = R[tx.id].stake - RefundAmount(R, tx)
         /\ tx.kind = "Change" => Post(R, tx)[tx.id].stake = R[tx.id].stake
  BY DEF IsRegistry, IsTx, Kinds, Accepts, Post, ApplyPost, AddPost, RefundPost, ChangePost, MinStake, RefundAmount, Absent, AddOk, RefundOk
=============================================================================
