-------------------------------- MODULE Rlp --------------------------------
(***************************************************************************)
(* Reference model of the RLP coding of go-rangers (src/storage/rlp), for  *)
(* property C08 "RLP coding is canonical, lossless and total".             *)
(*                                                                         *)
(* Untyped level:  Item == Str(bytes) | Lst(items);  Enc : Item -> bytes;  *)
(* Dec : bytes -> Item | Err, written constructively with the canonicity   *)
(* rules of the statement: a single byte below 0x80 is its own encoding    *)
(* (never prefixed), length prefixes are minimal (short form below 56,     *)
(* long form only from 56, no leading zero in the length bytes), the       *)
(* declared size never exceeds the input that is left, and no byte may     *)
(* follow the value.                                                       *)
(*                                                                         *)
(* Typed level: the Go types the node serialises are described by type     *)
(* descriptors T; View(T, item) is the typed reading of an item with the   *)
(* rules of the type (integers without leading zeros and within their      *)
(* width, booleans 0/1, byte arrays of exact length, structs field by      *)
(* field with `nil` (optional pointer) and `tail` fields); TEnc(T, v) is   *)
(* the encoding of a typed value.  TDec(T, b) == View(T, Dec(b)).          *)
(*                                                                         *)
(* Typed values (what the Go driver logs and what View returns):           *)
(*   [k |-> "u", b |-> big-endian bytes]   unsigned / big integer          *)
(*   [k |-> "o", v |-> BOOLEAN]            bool                            *)
(*   [k |-> "b", b |-> bytes]              []byte, string, [N]byte         *)
(*   [k |-> "l", e |-> <<values>>]         slice, array, struct            *)
(*   [k |-> "z"]                           nil pointer / nil interface     *)
(*   [k |-> "r", b |-> bytes]              RawValue (an encoded item)      *)
(*   [k |-> "err"]                         Err                             *)
(* Every value is a record with field k, so values of different kinds can  *)
(* be compared by TLC without a type error.                                *)
(***************************************************************************)
EXTENDS Integers, Sequences

Err == [k |-> "err"]
Str(b) == [k |-> "s", b |-> b]
Lst(e) == [k |-> "l", e |-> e]

Huge == 2147483647          \* stands for every declared size >= 2^31 - 1 (inputs are shorter)

RECURSIVE Flat(_)
Flat(ss) == IF ss = <<>> THEN <<>> ELSE Head(ss) \o Flat(Tail(ss))

RECURSIVE StripZ(_)
StripZ(s) == IF s # <<>> /\ s[1] = 0 THEN StripZ(Tail(s)) ELSE s

(* minimal big-endian bytes of a TLC integer *)
RECURSIVE BE(_)
BE(n) == IF n = 0 THEN <<>> ELSE BE(n \div 256) \o <<n % 256>>

RECURSIVE BEValR(_, _, _)
BEValR(s, i, acc) == IF i > Len(s) THEN acc ELSE BEValR(s, i + 1, acc * 256 + s[i])
(* value of big-endian bytes; everything that does not fit a TLC integer is Huge *)
SizeOf(lb) == IF Len(lb) > 4 \/ (Len(lb) = 4 /\ lb[1] >= 128) THEN Huge ELSE BEValR(lb, 1, 0)

(* ------------------------------------------------------------ encoding *)
EncHead(n, off) == IF n < 56 THEN <<off + n>>
                   ELSE LET be == BE(n) IN <<off + 55 + Len(be)>> \o be
EncStr(b) == IF Len(b) = 1 /\ b[1] < 128 THEN b ELSE EncHead(Len(b), 128) \o b
EncList(body) == EncHead(Len(body), 192) \o body

RECURSIVE Enc(_)
Enc(x) == IF x.k = "s" THEN EncStr(x.b)
          ELSE EncList(Flat([i \in 1..Len(x.e) |-> Enc(x.e[i])]))

(* ------------------------------------------------------------ decoding *)
HErr(why) == [ok |-> FALSE, why |-> why]

(* header of the value at position p; its content must end at or before lim *)
LongHdr(b, p, lim, ll, kind) ==
  IF p + ll > lim THEN HErr("eof-in-size")
  ELSE LET lb == SubSeq(b, p + 1, p + ll) IN
       IF lb[1] = 0 THEN HErr("size-leading-zero")
       ELSE LET n == SizeOf(lb) IN
            IF n < 56 THEN HErr("long-form-below-56")
            ELSE IF n = Huge \/ n > lim - p - ll THEN HErr("size-exceeds-input")
            ELSE [ok |-> TRUE, kind |-> kind, cs |-> p + ll + 1, ce |-> p + ll + n]

(* strict = FALSE leaves out the rule that needs a look at the content *)
Hdr(b, p, lim, strict) ==
  IF p > lim THEN HErr("eof")
  ELSE LET t == b[p] IN
    IF t < 128 THEN [ok |-> TRUE, kind |-> "byte", cs |-> p, ce |-> p]
    ELSE IF t < 184 THEN
       LET n == t - 128 IN
       IF n > lim - p THEN HErr("size-exceeds-input")
       ELSE IF strict /\ n = 1 /\ b[p + 1] < 128 THEN HErr("single-byte-prefixed")
       ELSE [ok |-> TRUE, kind |-> "str", cs |-> p + 1, ce |-> p + n]
    ELSE IF t < 192 THEN LongHdr(b, p, lim, t - 183, "str")
    ELSE IF t < 248 THEN
       LET n == t - 192 IN
       IF n > lim - p THEN HErr("size-exceeds-input")
       ELSE [ok |-> TRUE, kind |-> "list", cs |-> p + 1, ce |-> p + n]
    ELSE LongHdr(b, p, lim, t - 247, "list")

RECURSIVE DecItem(_, _, _), DecSeq(_, _, _)
(* one item at p: [ok, v, next] *)
DecItem(b, p, lim) ==
  LET h == Hdr(b, p, lim, TRUE) IN
  IF ~h.ok THEN h
  ELSE IF h.kind = "list" THEN
     LET r == DecSeq(b, h.cs, h.ce) IN
     IF ~r.ok THEN r ELSE [ok |-> TRUE, v |-> Lst(r.v), next |-> h.ce + 1]
  ELSE [ok |-> TRUE, v |-> Str(SubSeq(b, h.cs, h.ce)), next |-> h.ce + 1]
(* all items filling p..lim exactly *)
DecSeq(b, p, lim) ==
  IF p > lim THEN [ok |-> TRUE, v |-> <<>>]
  ELSE LET x == DecItem(b, p, lim) IN
       IF ~x.ok THEN x
       ELSE LET r == DecSeq(b, x.next, lim) IN
            IF ~r.ok THEN r ELSE [ok |-> TRUE, v |-> <<x.v>> \o r.v]

DecWhy(b) == LET x == DecItem(b, 1, Len(b)) IN
             IF ~x.ok THEN x.why ELSE IF x.next # Len(b) + 1 THEN "trailing-bytes" ELSE "ok"
Dec(b) == LET x == DecItem(b, 1, Len(b)) IN
          IF ~x.ok THEN Err ELSE IF x.next # Len(b) + 1 THEN Err ELSE x.v

(* first value of b (trailing bytes allowed): length of its encoding, or 0 *)
FirstLen(b) == LET x == DecItem(b, 1, Len(b)) IN IF x.ok THEN x.next - 1 ELSE 0

(* Split: header only, content not inspected beyond the single-byte rule *)
SplitRef(b) == LET h == Hdr(b, 1, Len(b), TRUE) IN
               IF ~h.ok THEN Err
               ELSE [k |-> "split", kind |-> h.kind, content |-> SubSeq(b, h.cs, h.ce),
                     rest |-> SubSeq(b, h.ce + 1, Len(b))]
(* CountValues: number of consecutive well-delimited values *)
RECURSIVE CountFrom(_, _)
CountFrom(b, p) == IF p > Len(b) THEN 0
                   ELSE LET h == Hdr(b, p, Len(b), TRUE) IN
                        IF ~h.ok THEN -1
                        ELSE LET r == CountFrom(b, h.ce + 1) IN IF r < 0 THEN -1 ELSE r + 1
CountRef(b) == CountFrom(b, 1)

(* ------------------------------------------------------ type descriptors *)
U(w)       == [t |-> "uint", w |-> w]
Big        == [t |-> "big"]
Bool       == [t |-> "bool"]
Bytes      == [t |-> "bytes"]
Arr(n)     == [t |-> "arr", n |-> n]
ListOf(T)  == [t |-> "list", of |-> T]
LArr(n, T) == [t |-> "larr", n |-> n, of |-> T]
Struct(F)  == [t |-> "struct", f |-> F, tail |-> FALSE]
StructTail(F) == [t |-> "struct", f |-> F, tail |-> TRUE]   \* last field: ListOf(X) tagged `tail`
Ptr(T)     == [t |-> "ptr", of |-> T, nilok |-> FALSE, any |-> FALSE]
NilPtr(T)  == [t |-> "ptr", of |-> T, nilok |-> TRUE, any |-> FALSE]     \* field tagged `nil`
Iface      == [t |-> "iface"]
Raw        == [t |-> "raw"]
(* a reference to a catalogue type by name: how a type refers to itself *)
Ref(name) == [t |-> "ref", name |-> name]

(* ------------------------------------------------ the driver's type catalogue
   (harness/cmd/c08/types.go declares the same Go types under the same names) *)
Inner == Struct(<<U(64), Bytes>>)
TypeOf ==
  [ u8 |-> U(8), u16 |-> U(16), u32 |-> U(32), u64 |-> U(64),
    big |-> Ptr(Big), bigv |-> Big, bool |-> Bool, bytes |-> Bytes, str |-> Bytes,
    a0 |-> Arr(0), a1 |-> Arr(1), a3 |-> Arr(3), a20 |-> Arr(20), a32 |-> Arr(32),
    iface |-> Iface, raw |-> Raw,
    lu64 |-> ListOf(U(64)), lbytes |-> ListOf(Bytes), liface |-> ListOf(Iface), llu16 |-> ListOf(ListOf(U(16))),
    au2 |-> LArr(2, U(16)), lraw |-> ListOf(Raw), pu64 |-> Ptr(U(64)),
    S1 |-> Inner,
    SnilA |-> Struct(<<U(64), NilPtr(Arr(20))>>),
    SnilU |-> Struct(<<NilPtr(U(64)), U(8)>>),
    SnilS |-> Struct(<<NilPtr(Inner)>>),
    Stail |-> StructTail(<<U(64), ListOf(U(64))>>),
    Sptr |-> Struct(<<Ptr(U(64)), Ptr(Big), Ptr(Bytes)>>),
    Snest |-> Struct(<<Inner, ListOf(Inner), LArr(2, U(16))>>),
    Sraw |-> Struct(<<Raw, U(64)>>),
    Sbool |-> Struct(<<Bool, Bool, Bytes>>),
    (* self-referential types (through a nil pointer, a slice, a second struct, an array) *)
    RList |-> Struct(<<U(64), NilPtr(Ref("RList"))>>),
    RTree |-> Struct(<<Bytes, ListOf(Ref("RTree"))>>),
    RA |-> Struct(<<U(8), NilPtr(Ref("RB"))>>),
    RB |-> Struct(<<Bytes, ListOf(Ref("RA"))>>),
    RArr |-> Struct(<<U(8), LArr(1, ListOf(Ref("RArr")))>>),
    (* a one-byte array followed by another field; interface / by-value big integer / pointers to
       bool and string / plain uint as struct fields *)
    Sa1 |-> Struct(<<Arr(1), U(8)>>),
    Sif |-> Struct(<<Iface, U(8), Big, Ptr(Bool), Ptr(Bytes), U(64)>>),
    (* types with their own EncodeRLP/DecodeRLP (pointer and value receivers): they code themselves
       as a one-field list *)
    encp |-> Struct(<<U(64)>>), pencp |-> Ptr(Struct(<<U(64)>>)), encv |-> Struct(<<U(64)>>),
    Senc |-> Struct(<<Struct(<<U(64)>>), Ptr(Struct(<<U(64)>>)), Struct(<<U(64)>>)>>),
    (* a wide struct: one field of each struct type of the catalogue (many distinct field types: the
       generation of its type information takes long - first-use family) *)
    Wide |-> Struct(<<Ref("S1"), Ref("SnilA"), Ref("SnilU"), Ref("SnilS"), Ref("Stail"), Ref("Sptr"), Ref("Snest"), Ref("Sbool"),
                      Ref("EthTx"), Ref("RList"), Ref("RTree"), Ref("RA"), Ref("RArr"), Ref("Sa1"), Ref("Sif"), Ref("Senc")>>),
    EthTx |-> Struct(<<U(64), Ptr(Big), U(64), NilPtr(Arr(20)), Ptr(Big), Bytes, Ptr(Big), Ptr(Big), Ptr(Big)>>) ]
TypeNames == DOMAIN TypeOf
Deref(T) == IF T.t = "ref" THEN TypeOf[T.name] ELSE T

(* diagnostic variant: a `nil` field that takes either kind of empty value (what the decoder did
   until fix b7e1712); only used by the monitor to name that class of failure, never as the oracle *)
RECURSIVE Lenient(_)
Lenient(T) == CASE T.t = "ptr" -> [T EXCEPT !.of = Lenient(T.of), !.any = T.nilok]
                [] T.t \in {"list", "larr"} -> [T EXCEPT !.of = Lenient(T.of)]
                [] T.t = "struct" -> [T EXCEPT !.f = [i \in 1..Len(T.f) |-> Lenient(T.f[i])]]
                [] OTHER -> T        \* (a reference keeps its strict reading)

RECURSIVE HasRaw(_)
HasRaw(T) == CASE T.t = "raw" -> TRUE
               [] T.t \in {"list", "larr", "ptr"} -> HasRaw(T.of)
               [] T.t = "struct" -> \E i \in 1..Len(T.f) : HasRaw(T.f[i])
               [] OTHER -> FALSE

(* does a value of type T encode as an RLP list? *)
RECURSIVE ListKind(_)
ListKind(T) == CASE T.t \in {"list", "larr", "struct", "ref"} -> TRUE      \* catalogue types referred to are structs
                 [] T.t = "ptr" -> ListKind(T.of)
                 [] OTHER -> FALSE

IsErr(v) == v.k = "err"
AnyErr(vs) == \E i \in 1..Len(vs) : IsErr(vs[i])

(* ---------------------------------------- typed reading of an item *)
RECURSIVE IfaceVal(_)
IfaceVal(x) == IF x.k = "s" THEN [k |-> "b", b |-> x.b]
               ELSE [k |-> "l", e |-> [i \in 1..Len(x.e) |-> IfaceVal(x.e[i])]]

RECURSIVE View(_, _)
View(T0, x) ==
  LET T == Deref(T0) IN
  CASE T.t = "uint" ->
         IF x.k = "s" /\ Len(x.b) <= T.w \div 8 /\ (x.b = <<>> \/ x.b[1] # 0)
           THEN [k |-> "u", b |-> x.b] ELSE Err
    [] T.t = "big" ->
         IF x.k = "s" /\ (x.b = <<>> \/ x.b[1] # 0) THEN [k |-> "u", b |-> x.b] ELSE Err
    [] T.t = "bool" ->
         IF x.k = "s" /\ x.b = <<>> THEN [k |-> "o", v |-> FALSE]
         ELSE IF x.k = "s" /\ x.b = <<1>> THEN [k |-> "o", v |-> TRUE] ELSE Err
    [] T.t = "bytes" -> IF x.k = "s" THEN [k |-> "b", b |-> x.b] ELSE Err
    [] T.t = "arr" -> IF x.k = "s" /\ Len(x.b) = T.n THEN [k |-> "b", b |-> x.b] ELSE Err
    [] T.t = "list" ->
         IF x.k # "l" THEN Err
         ELSE LET vs == [i \in 1..Len(x.e) |-> View(T.of, x.e[i])] IN
              IF AnyErr(vs) THEN Err ELSE [k |-> "l", e |-> vs]
    [] T.t = "larr" ->
         IF x.k # "l" \/ Len(x.e) # T.n THEN Err
         ELSE LET vs == [i \in 1..Len(x.e) |-> View(T.of, x.e[i])] IN
              IF AnyErr(vs) THEN Err ELSE [k |-> "l", e |-> vs]
    [] T.t = "struct" ->
         LET n == Len(T.f) IN
         IF x.k # "l" THEN Err
         ELSE IF ~T.tail THEN
              IF Len(x.e) # n THEN Err
              ELSE LET vs == [i \in 1..n |-> View(T.f[i], x.e[i])] IN
                   IF AnyErr(vs) THEN Err ELSE [k |-> "l", e |-> vs]
         ELSE IF Len(x.e) < n - 1 THEN Err
              ELSE LET vs == [i \in 1..(n - 1) |-> View(T.f[i], x.e[i])]
                       ts == [i \in 1..(Len(x.e) - n + 1) |-> View(T.f[n].of, x.e[n - 1 + i])]
                   IN IF AnyErr(vs) \/ AnyErr(ts) THEN Err
                      ELSE [k |-> "l", e |-> vs \o <<[k |-> "l", e |-> ts]>>]
    [] T.t = "ptr" ->
         IF T.nilok /\ x.k = "s" /\ x.b = <<>>
           THEN (IF ListKind(T.of) /\ ~T.any THEN Err ELSE [k |-> "z"])      \* wrong kind of empty value
         ELSE IF T.nilok /\ x.k = "l" /\ x.e = <<>>
           THEN (IF ListKind(T.of) \/ T.any THEN [k |-> "z"] ELSE Err)
         ELSE View(T.of, x)
    [] T.t = "iface" -> IfaceVal(x)
    [] T.t = "raw" -> [k |-> "r", b |-> Enc(x)]

TDec(T, b) == LET x == Dec(b) IN IF IsErr(x) THEN Err ELSE View(T, x)

(* ---------------------------------------- encoding of a typed value *)
EmptyEnc(T) == IF ListKind(T) THEN <<192>> ELSE <<128>>

RECURSIVE TEnc(_, _)
TEnc(T0, v) ==
  LET T == Deref(T0) IN
  CASE T.t \in {"uint", "big"} -> EncStr(StripZ(v.b))
    [] T.t = "bool" -> IF v.v THEN <<1>> ELSE <<128>>
    [] T.t \in {"bytes", "arr"} -> EncStr(v.b)
    [] T.t \in {"list", "larr"} -> EncList(Flat([i \in 1..Len(v.e) |-> TEnc(T.of, v.e[i])]))
    [] T.t = "struct" ->
         LET n == Len(T.f) IN
         IF ~T.tail THEN EncList(Flat([i \in 1..n |-> TEnc(T.f[i], v.e[i])]))
         ELSE EncList(Flat([i \in 1..(n - 1) |-> TEnc(T.f[i], v.e[i])]) \o
                      Flat([i \in 1..Len(v.e[n].e) |-> TEnc(T.f[n].of, v.e[n].e[i])]))
    [] T.t = "ptr" -> IF v.k = "z" THEN EmptyEnc(T.of) ELSE TEnc(T.of, v)
    [] T.t = "iface" ->
         IF v.k = "z" THEN <<192>>
         ELSE IF v.k = "b" THEN EncStr(v.b)
         ELSE EncList(Flat([i \in 1..Len(v.e) |-> TEnc(T, v.e[i])]))
    [] T.t = "raw" -> v.b

(* the value a decoder hands back for an encoded v: documented normalisations
   only (integers lose leading zeros of the logged fixed-width form; a nil
   pointer is the zero value unless the field is tagged `nil`, where every
   empty value is nil; a nil interface is the empty list) *)
RECURSIVE NormV(_, _)
NormV(T0, v) ==
  LET T == Deref(T0) IN
  CASE T.t \in {"uint", "big"} -> [k |-> "u", b |-> StripZ(v.b)]
    [] T.t \in {"bool", "bytes", "arr", "raw"} -> v
    [] T.t \in {"list", "larr"} -> [k |-> "l", e |-> [i \in 1..Len(v.e) |-> NormV(T.of, v.e[i])]]
    [] T.t = "struct" ->
         [k |-> "l", e |-> [i \in 1..Len(T.f) |-> NormV(T.f[i], v.e[i])]]
    [] T.t = "ptr" ->
         IF T.nilok THEN (IF v.k = "z" \/ TEnc(T.of, v) = EmptyEnc(T.of) THEN [k |-> "z"] ELSE NormV(T.of, v))
         ELSE IF v.k = "z" THEN
              (CASE T.of.t \in {"uint", "big"} -> [k |-> "u", b |-> <<>>]
                 [] T.of.t = "bytes" -> [k |-> "b", b |-> <<>>]
                 [] T.of.t = "bool" -> [k |-> "o", v |-> FALSE]
                 [] OTHER -> [k |-> "l", e |-> <<>>])
         ELSE NormV(T.of, v)
    [] T.t = "iface" ->
         IF v.k = "z" THEN [k |-> "l", e |-> <<>>]
         ELSE IF v.k = "b" THEN v
         ELSE [k |-> "l", e |-> [i \in 1..Len(v.e) |-> NormV(T, v.e[i])]]

=============================================================================
