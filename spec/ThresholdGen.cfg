SPECIFICATION GenSpec
CONSTANTS
  NMin = 3
  N = 6
  P = 11
  IdSeq <- IdsId
  Coefs = {1, 7}
  FreshRedeal = FALSE
  HSet = {3}
  H = 3
  MaxSubsetCheck = 6
INVARIANTS CaseInv Dump
CHECK_DEADLOCK FALSE
