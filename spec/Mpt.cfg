SPECIFICATION Spec
CONSTANTS
  KeyIds = {1, 2, 3, 4, 6, 7}
  ValIds = {1, 7}
INVARIANTS TypeOK InvCanon InvLookup InvEmbedded InvMinimal
