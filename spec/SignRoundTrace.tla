-------------------------- MODULE SignRoundTrace --------------------------
(***************************************************************************)
(* Trace monitor for C15.  harness/cmd/c15 builds a real group with the    *)
(* node's DKG, a real round1 (hook H3) for a proposed header, real         *)
(* ConsensusVerifyMessages for every message of a TLC-generated sequence,  *)
(* feeds them to the real round1.Update and logs, after every message, the *)
(* complete projection of the round: who is in the block-share set and in  *)
(* the beacon-share set, whether each stored share is the member's valid   *)
(* share (verdict of the real VerifySig under the member's public share),  *)
(* the recovery flags, and the finaliser's checkSignature on the recovered *)
(* signatures.  The spec variables are bound to that projection.           *)
(*                                                                         *)
(* Verdict tags ("Inv.") are the property's clauses evaluated on the       *)
(* observations; "Step." / "Proj." tags are conformance with the reference *)
(* handler / coherence of the logged facts with the message class.         *)
(***************************************************************************)
EXTENDS SignRound, Json

Trace == ndJsonDeserialize("trace.ndjson")

VARIABLES l, bad, culprits, invalidBefore
tvars == <<vars, l, bad, culprits, invalidBefore>>

Tag(c, t) == IF c THEN <<>> ELSE <<t>>

ObsCounted(st) == [s \in {st.gset[i].m : i \in 1..Len(st.gset)} |->
                     (CHOOSE i \in 1..Len(st.gset) : st.gset[i].m = s) \in {i \in 1..Len(st.gset) : st.gset[i].valid}]
ObsKeys(st)    == [s \in KeyHolders |-> st.keys[s]]
ObsRSet(st)    == {st.rset[i].m : i \in 1..Len(st.rset)}
ObsSigValid(st) == st.recSigValid /\ st.recRandValid /\ st.checkSig = ""

KindOrder == <<"otherHash", "replay", "garbage", "offcurve", "badRand", "emptyRand", "swapped", "shiftRandom", "shiftSmall",
              "staleShare", "selfGarbage", "selfOther", "selfSender", "announceOther", "announceOutsider", "underOtherKey", "announce", "nonMember", "honest">>
RECURSIVE JoinKinds(_, _, _)
JoinKinds(S, i, sep) == IF i > Len(KindOrder) THEN ""
                        ELSE IF KindOrder[i] \in S THEN sep \o KindOrder[i] \o JoinKinds(S, i + 1, "+")
                        ELSE JoinKinds(S, i + 1, sep)
CulpritStr(S) == IF S = {} THEN "none" ELSE JoinKinds(S, 1, "")

(* members / outsiders holding, in the observed state, a block share that is not
   their valid share for H or a beacon share that is not their valid beacon share *)
InvalidNow(st) ==
  {st.gset[i].m : i \in {j \in 1..Len(st.gset) : ~st.gset[j].valid \/ st.gset[j].m \notin Members}} \cup
  {st.rset[i].m : i \in {j \in 1..Len(st.rset) : ~st.rset[j].valid \/ st.rset[j].m \notin Members}}

(* does this message put a share into a set that the property says must be ignored? *)
NewlyInvalid(e) == InvalidNow(e.state) \ invalidBefore # {}

JudgeMsg(e) ==
  LET m    == e.m
      st   == e.state
      f    == e.facts
      cnt2 == ObsCounted(st)
      added == m.sender \in Dom(cnt2) /\ m.sender \notin Dom(counted)
      ref  == Accepts(keys, counted, recovered, m, FALSE)
      ks2  == ObsKeys(st)
      allValid == AllValid(cnt2)
  IN  (* the real verdicts on the constructed shares are those of the message class *)
      Tag(IsKeyMsg(m) \/
          (/\ f.isMember = IsMember(m) /\ f.signedIsH = (Signed(m) = H)
           /\ f.sigValidForSigned = SigOK(m) /\ f.sigValidForH = ValidForH(m)
           /\ f.randValid = RandOK(m)), "Proj.facts:" \o m.kind) \o
      (* the key shares are checked against: a stored key is never replaced, and it is the member's own *)
      Tag(\A s \in KeyHolders : keys[s] # "none" => ks2[s] = keys[s], "Inv.KeyTableFirstWins:" \o m.kind) \o
      Tag(\A s \in Members : ks2[s] \in {"none", "genuine"} \/ ks2[s] = keys[s], "Inv.KeyTableGenuine:" \o m.kind) \o
      (* an entry for a node outside the group matters for the statement only through the shares it lets in
         (Inv.OnlyValidShares:nonMember); the entry itself is reported as an observation *)
      Tag(ks2[Outsider] = "none" \/ ks2[Outsider] = keys[Outsider], "Ext.KeyTableHoldsOnlyMembers:" \o m.kind) \o
      Tag(ks2 = KeysAfter(keys, m, FALSE) \/ \E s \in KeyHolders : ks2[s] = "other", "Step.keys:" \o m.kind) \o
      (* clause 1: only the sender's valid share for this block's hash, with a valid beacon share, from a member *)
      Tag(~NewlyInvalid(e), "Inv.OnlyValidShares:" \o m.kind) \o
      (* clause 2: once the threshold is reached the recovered signatures verify under the group key *)
      Tag(st.recovered => ObsSigValid(st),
          "Inv.ThresholdImpliesValidGroupSig:" \o
             (IF allValid THEN "allSharesValid"
              ELSE "withInvalidShare/" \o CulpritStr(IF NewlyInvalid(e) THEN culprits \cup {m.kind} ELSE culprits))) \o
      (* conformance with the reference handler *)
      (* an honest member's valid share, checked against its genuine key, while the round can still take
         it, is counted: otherwise the threshold cannot be reached although nobody is faulty (last clause) *)
      Tag((ref /\ Honest(m)) => added, "Inv.ValidShareIsCounted:" \o m.kind) \o
      Tag((ref /\ ~Honest(m)) => added, "Step.refused:" \o m.kind) \o
      Tag((added /\ ~ref) => NewlyInvalid(e), "Step.added:" \o m.kind) \o
      Tag(\A s \in Dom(counted) : s \in Dom(cnt2) /\ cnt2[s] = counted[s], "Step.entryChanged") \o
      Tag(st.recovered = (Cardinality(Dom(cnt2)) >= KThr), "Step.recoveredAtThreshold") \o
      Tag(ObsRSet(st) = Dom(cnt2), "Step.beaconSet") \o
      Tag(st.recovered = st.rrecovered /\ st.recovered = st.canProceed, "Step.flags")

(* clause 3, at the end of a sequence (spec variables = last observation, hist = the messages) *)
(* the clause speaks of a single faulty MEMBER: a sequence in which a node outside the group acts alone is
   reported as an observation beyond the statement, one with a faulty member and an outsider is not judged *)
JudgeEnd(e) == IF ~OutsiderActive THEN Tag(OneFaultTolerated, "Inv.OneFaultTolerated:" \o CulpritStr(culprits))
               ELSE IF FaultyMembers = {} THEN Tag(OneFaultTolerated, "Ext.OutsiderCannotBlockFinalisation:" \o CulpritStr(culprits))
               ELSE <<>>

JudgeStart(e) == Tag(e.k = KThr /\ e.n = NMem, "Start.threshold")

Judge(e) ==
  CASE e.event = "Start" -> JudgeStart(e)
    [] e.event = "Prelude" -> <<>>      \* what this process did before: rounds of other blocks / other groups
    [] e.event = "Msg"   -> JudgeMsg(e)
    [] e.event = "End"   -> JudgeEnd(e)
    [] OTHER             -> <<"unknown-event">>

TraceInit == Init /\ l = 1 /\ bad = <<>> /\ culprits = {} /\ invalidBefore = {}

TraceNext ==
  /\ l <= Len(Trace)
  /\ l' = l + 1
  /\ LET e == Trace[l] IN
       /\ bad' = bad \o [i \in 1..Len(Judge(e)) |-> <<l, e.event, Judge(e)[i]>>]
       /\ IF e.event = "Start"
            THEN /\ keys' = ObsKeys(e)
                 /\ counted' = <<>> /\ rcounted' = {} /\ recovered' = FALSE /\ sigValid' = FALSE
                 /\ hist' = <<>> /\ culprits' = {} /\ invalidBefore' = {}
            ELSE IF e.event = "Msg"
            THEN /\ keys' = ObsKeys(e.state)
                 /\ counted' = ObsCounted(e.state)
                 /\ rcounted' = ObsRSet(e.state)
                 /\ recovered' = e.state.recovered
                 /\ sigValid' = (e.state.recovered /\ ObsSigValid(e.state))
                 /\ hist' = Append(hist, e.m)
                 /\ culprits' = IF NewlyInvalid(e) THEN culprits \cup {e.m.kind} ELSE culprits
                 /\ invalidBefore' = InvalidNow(e.state)
            ELSE UNCHANGED <<vars, culprits, invalidBefore>>

TraceSpec == TraceInit /\ [][TraceNext]_tvars

Report == (l = Len(Trace) + 1) => PrintT(<<"VERDICT", Len(Trace), ToJson(bad)>>)
=============================================================================
