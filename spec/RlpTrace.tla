----------------------------- MODULE RlpTrace -----------------------------
(***************************************************************************)
(* Trace monitor of C08.  Every line of trace.ndjson is one call of the    *)
(* real RLP package made by harness/cmd/c08: `Decode(in) = results` or     *)
(* `Encode(type, value) = bytes`.  The reference result is recomputed here *)
(* from Rlp.tla and the real result is judged against it.                  *)
(*                                                                         *)
(* Judgements (tag = what:type, signature = tag@event):                    *)
(*  Decode, per catalogue type T (real r, reference v = TDec(T, in)):      *)
(*    panic            the call panicked                                   *)
(*    rejects-valid    v # Err but the real decoder returned an error      *)
(*                     (v is the encoding of a supported value: lossless)  *)
(*    accepts-noncanon real accepted, v = Err (a second accepted encoding; *)
(*                     not judged for types that hold raw values, whose    *)
(*                     content the decoder documents it does not inspect)  *)
(*    value            both accept, decoded values differ                  *)
(*    reenc            real accepted but its own re-encoding # in          *)
(*  Decode, whole event: split / count (rlp.Split, rlp.CountValues), walk  *)
(*    and sdec (Stream API over a reader with slack beyond the declared    *)
(*    limit): accept <=> first value well-formed, value, bytes read =      *)
(*    length of the first value, never more than the limit; alloc bounded  *)
(*    by AllocBase + AllocPerByte * Len(in).                               *)
(*  Encode: enc = TEnc(T, val); decoding enc gives NormV(T, val).  Encode   *)
(*  Every successful Encode also carries the encodings of the same value   *)
(*  passed by value, inside an interface{} list, through Encode(io.Writer)  *)
(*  and EncodeToReader (alt).  Events with src conc come from K goroutines  *)
(*  coding different values of one type at the same time: the reference is  *)
(*  the sequential function, concurrency must not change any result.        *)
(*  Events with src *-seq directly follow a failed encode (EncodeFail) on   *)
(*  the same goroutine.                                                     *)
(***************************************************************************)
EXTENDS Rlp, TLC, Json

CONSTANTS AllocBase, AllocPerByte

Trace == ndJsonDeserialize("trace.ndjson")

VARIABLES l, bad
tvars == <<l, bad>>

Tag(c, t) == IF c THEN <<>> ELSE <<t>>

RECURSIVE FlatT(_)
FlatT(ss) == IF ss = <<>> THEN <<>> ELSE Head(ss) \o FlatT(Tail(ss))

JudgeType0(b, x, r) ==
  LET T == TypeOf[r.t]
      v == IF IsErr(x) THEN Err ELSE View(T, x)
  IN  Tag(~r.panic, "Inv.Total.panic:" \o r.t) \o
      (IF r.panic THEN <<>>
       ELSE IF ~r.ok THEN Tag(IsErr(v), "Inv.Lossless.rejects:" \o r.t)
       ELSE (IF HasRaw(T) THEN <<>> ELSE Tag(~IsErr(x), "Inv.Canonical.accepts:" \o r.t)) \o
            (IF IsErr(v) THEN <<>> ELSE Tag(NormV(T, r.val) = v, "Inv.Lossless.value:" \o r.t)) \o
            Tag(r.reok /\ r.reenc = b,
                (IF ~IsErr(x) /\ IsErr(v) /\ ~IsErr(View(Lenient(T), x))
                   THEN "Inv.Canonical.reenc-nil-kind:"      \* only the kind of an empty `nil` field is wrong
                   ELSE "Inv.Canonical.reenc:") \o r.t) \o
            (* conformance only: the typed rules of the reference beyond the statement's list,
               reported when the real re-encoding gives no evidence against the property *)
            (IF ~IsErr(x) /\ IsErr(v) /\ r.reok /\ r.reenc = b /\ ~HasRaw(T)
               THEN <<"typed-accepts:" \o r.t>> ELSE <<>>))

(* destination state: the value a decode delivers is a function of the bytes alone, whatever the
   destination held before (a larger value of the type / defaults: "full"; the same destination used
   a second time: "twice").  Exceptions this decoder documents and the model states: a field tagged
   rlp:"-" is not touched (it is not part of the projection); a non-nil pointer destination keeps
   its pointee object and an array its storage (only their content counts); after an ERROR the
   destination may hold anything (only accepted inputs are compared). *)
JudgeDest(b, x, r) ==
  LET T == TypeOf[r.t]
      v == IF IsErr(x) THEN Err ELSE View(T, x)
  IN  FlatT([i \in 1..Len(r.dest) |->
        LET d == r.dest[i]
            who == d.n \o ":" \o r.t IN
        Tag(~d.panic, "Inv.Total.panic:dest-" \o who) \o
        (IF d.panic \/ r.panic THEN <<>>
         ELSE Tag(d.ok = r.ok, "Inv.Lossless.dest-accept-" \o who) \o
              (IF d.ok /\ r.ok /\ ~d.same
                 THEN (IF IsErr(v) THEN <<"Inv.Lossless.dest-value-" \o who>>
                       ELSE Tag(NormV(T, d.val) = v, "Inv.Lossless.dest-value-" \o who))
                 ELSE <<>>))])

JudgeType(b, x, r) == JudgeType0(b, x, r) \o JudgeDest(b, x, r)

JudgeStream(b, w) ==
  LET x == DecItem(b, 1, Len(b))
      T == TypeOf[w.t]
      v == IF x.ok THEN View(T, x.v) ELSE Err IN
  Tag(~w.panic, "Inv.Total.panic:" \o w.n) \o
  Tag(w.read <= Len(b), "Inv.Total.reads-past-limit:" \o w.n) \o
  (IF w.panic THEN <<>>
   ELSE Tag(w.ok = ~IsErr(v), (IF w.ok THEN "Inv.Canonical.accepts:" ELSE "Inv.Lossless.rejects:") \o w.n) \o
        (IF w.ok /\ ~IsErr(v) THEN Tag(NormV(T, w.val) = v, "Inv.Lossless.value:" \o w.n) \o
                                  Tag(w.read = x.next - 1, "Inv.Total.consumed:" \o w.n)
         ELSE <<>>))

(* Stream.Kind() on the first value (header rules only), then arbitrary Stream calls *)
JudgeOps(b, o) ==
  LET h == Hdr(b, 1, Len(b), FALSE) IN
  Tag(~o.panic, "Inv.Total.panic:streamops") \o
  Tag(o.read <= Len(b), "Inv.Total.reads-past-limit:streamops") \o
  (IF o.panic THEN <<>>
   ELSE Tag(o.first.ok = h.ok, (IF o.first.ok THEN "Inv.Canonical.accepts:" ELSE "Inv.Lossless.rejects:") \o "kind") \o
        (IF o.first.ok /\ h.ok
           THEN Tag(o.first.kind = h.kind /\ o.first.size = (IF h.kind = "byte" THEN 0 ELSE h.ce - h.cs + 1), "Inv.Lossless.value:kind")
           ELSE <<>>))

JudgeDecode(e) ==
  LET b == e.in
      x == Dec(b)
      sp == SplitRef(b)
      cn == CountRef(b)
  IN  FlatT([i \in 1..Len(e.res) |-> JudgeType(b, x, e.res[i])]) \o
      Tag(~e.split.panic, "Inv.Total.panic:split") \o
      (IF e.split.panic THEN <<>>
       ELSE Tag(e.split.ok = ~IsErr(sp), IF e.split.ok THEN "Inv.Canonical.accepts:split" ELSE "Inv.Lossless.rejects:split") \o
            (IF e.split.ok /\ ~IsErr(sp)
               THEN Tag(e.split.kind = sp.kind /\ e.split.content = sp.content /\ e.split.rest = sp.rest, "Inv.Lossless.value:split")
               ELSE <<>>)) \o
      Tag(~e.count.panic, "Inv.Total.panic:count") \o
      (IF e.count.panic THEN <<>>
       ELSE Tag(e.count.ok = (cn >= 0), IF e.count.ok THEN "Inv.Canonical.accepts:count" ELSE "Inv.Lossless.rejects:count") \o
            (IF e.count.ok /\ cn >= 0 THEN Tag(e.count.n = cn, "Inv.Lossless.value:count") ELSE <<>>)) \o
      FlatT([i \in 1..Len(e.streams) |-> JudgeStream(b, e.streams[i])]) \o
      JudgeOps(b, e.ops) \o
      Tag(e.alloc <= AllocBase + AllocPerByte * Len(b), "Inv.Total.alloc")

JudgeEncode(e) ==
  LET T == TypeOf[e.t]
      ref == TEnc(T, e.val)
  IN  Tag(~e.panic, "Inv.Total.panic:" \o e.t) \o
      (IF e.panic THEN <<>>
       ELSE Tag(e.ok, "Inv.Lossless.enc-fails:" \o e.t) \o
            (IF ~e.ok THEN <<>>
             ELSE Tag(e.enc = ref, "Inv.Canonical.enc:" \o e.t) \o
                  \* the same value by value, inside an interface{} list, through Encode(w), EncodeToReader
                  FlatT([i \in 1..Len(e.alt) |->
                           LET a == e.alt[i]
                               who == e.t \o ":" \o a.n IN
                           Tag(~a.panic, "Inv.Total.panic:" \o who) \o
                           (IF a.panic THEN <<>>
                            ELSE Tag(a.ok, "Inv.Lossless.enc-fails:" \o who) \o
                                 (IF a.ok THEN Tag(a.b = (IF a.n = "iniface" THEN EncList(ref) ELSE ref),
                                                   "Inv.Canonical.enc:" \o who)
                                  ELSE <<>>))]) \o
                  Tag(~e.back.panic, "Inv.Total.back-panic:" \o e.t) \o
                  Tag(e.back.panic \/ e.back.ok, "Inv.Lossless.back-rejects:" \o e.t) \o
                  (IF e.back.ok THEN Tag(NormV(T, e.back.val) = NormV(T, e.val), "Inv.Lossless.back-value:" \o e.t) ELSE <<>>)))

(* an encode of an unsupported value (negative integer in a container): it may fail, it must not
   panic; what matters is the Encode event that follows it (same judgement as any other: the
   encoding of a value is a function of the value, not of the encoder's history) *)
JudgeEncodeFail(e) ==
  Tag(~e.panic, "Inv.Total.panic:" \o e.t) \o Tag(~e.ok, "encodes-unsupported:" \o e.t)

Judge(e) ==
  CASE e.event = "Decode" -> JudgeDecode(e)
    [] e.event = "Encode" -> JudgeEncode(e)
    [] e.event = "EncodeFail" -> JudgeEncodeFail(e)
    [] OTHER -> <<"unknown-event">>

TraceInit == l = 1 /\ bad = <<>>
TraceNext ==
  /\ l <= Len(Trace)
  /\ l' = l + 1
  /\ LET e == Trace[l]
         j == Judge(e) IN
     bad' = bad \o [i \in 1..Len(j) |-> <<l, e.event, j[i]>>]
TraceSpec == TraceInit /\ [][TraceNext]_tvars

Report == (l = Len(Trace) + 1) => PrintT(<<"VERDICT", Len(Trace), ToJson(bad)>>)
=============================================================================
