------------------------- MODULE MinerRegistryTrace -------------------------
(***************************************************************************)
(* Trace validation for MinerRegistry.  Events:                            *)
(*   Reset(state)              new history on a fresh genesis state        *)
(*   Block(height, txs, state) one block of miner-management transactions  *)
(*                             was executed by the real executors; txs     *)
(*                             carries the real success flag of each       *)
(*   Mature(height, state)     an empty block at the first refund height   *)
(* state: byId (lookup by id), byAccount (lookup by account), iterAccount / *)
(* propDetail (registry iteration), totals, balances (base-10000 digits),  *)
(* whole-token balances, fee account, refund escrow.                       *)
(* Inv.* = clauses of C20 on the real observations; Tx.* / Block.* =       *)
(* conformance with the reference semantics of MinerRegistry.              *)
(***************************************************************************)
EXTENDS MinerRegistry, BigNat, Json

Trace == ndJsonDeserialize("trace.ndjson")
B == 10000
Ids == {1, 2}
Accounts == {1, 2, 3, 4}     \* 4: the cold address (never a source)

VARIABLES l, bad, R, acct, prev
tvars == <<l, bad, R, acct, prev>>
(* R: registry observed through lookup by id; acct: applied + added - refunded of the accepted
   transactions per id; prev: previous state projection *)

Tag(c, t) == IF c THEN <<>> ELSE <<t>>

Reg(st) == [i \in Ids |-> [present |-> st.byId[i].present, type |-> st.byId[i].type, stake |-> st.byId[i].stake,
                           account |-> st.byId[i].account, abort |-> st.byId[i].abort]]
TxOf(x) == [kind |-> x.kind, id |-> x.id, type |-> x.type, stake |-> x.stake, account |-> x.account, source |-> x.source]

(* --- reference run of the block's transactions, in order ---------------- *)
(* What the by-account index sees, as coded: GetMinerIdByAccount iterates the miner records that
   were in the storage trie at the start of the block (Rs), but reads each one's account, stake
   and status live; a miner created earlier in the same block is invisible to it. *)
View(Rg, Rs) == [i \in Ids |-> IF Rs[i].present THEN Rg[i] ELSE Absent]
RECURSIVE RefRun(_, _, _, _, _, _)
RefRun(Rg, Rv, tok, txs, i, acc) ==       \* acc: sequence of accept decisions
  IF i > Len(txs) THEN [R |-> Rg, acc |-> acc]
  ELSE LET tx == TxOf(txs[i])
           ok == AcceptsV(Rg, View(Rg, Rv), tx, tok[tx.source])
       IN RefRun(IF ok THEN Post(Rg, tx) ELSE Rg, Rv,
                 IF ok THEN [tok EXCEPT ![tx.source] = @ - Locked(Rg, tx)] ELSE tok,
                 txs, i + 1, Append(acc, ok))

(* applied + added - refunded, following the REAL acceptance flags *)
RECURSIVE AcctRun(_, _, _, _)
AcctRun(Rg, a, txs, i) ==
  IF i > Len(txs) THEN a
  ELSE LET tx == TxOf(txs[i]) IN
       IF ~txs[i].ok THEN AcctRun(Rg, a, txs, i + 1)
       ELSE LET d  == CASE tx.kind = "Apply" -> tx.stake
                        [] tx.kind = "Add" -> tx.stake
                        [] tx.kind = "Refund" -> 0 - (IF tx.stake = -1 THEN a[tx.id] ELSE tx.stake)
                        [] OTHER -> 0
            IN AcctRun(Rg, [a EXCEPT ![tx.id] = @ + d], txs, i + 1)

(* --- big sums ------------------------------------------------------------ *)
(* 10^18 = (10^4)^4 * 10^2: whole tokens -> 18-decimal units in base 10000 *)
Scale(n) == MulSmall(ShiftUp(FromNat(n, B), 4), 100, B)
LockedOf(Rg) == IF Rg[1].present /\ Rg[2].present THEN Rg[1].stake + Rg[2].stake
                ELSE IF Rg[1].present THEN Rg[1].stake
                ELSE IF Rg[2].present THEN Rg[2].stake ELSE 0
Total(st) == Add(Add(Add(Add(Add(Add(st.bal[1], st.bal[2], B), st.bal[3], B), st.bal[4], B), st.fee, B), st.escrow, B),
                 Scale(LockedOf(Reg(st))), B)

ValSum(Rg) == (IF Rg[1].present /\ Rg[1].type = 0 THEN Rg[1].stake ELSE 0) +
              (IF Rg[2].present /\ Rg[2].type = 0 THEN Rg[2].stake ELSE 0)

(* --- the property on one observed state ----------------------------------- *)
(* omTag: how a violation of "an account controls at most one miner" is named.  The recorded
   finding is specific: the by-account index does not see miners created earlier in the SAME
   block, which the as-coded reference run (RefRun with View) reproduces exactly; such a violation
   is named ".same-block-view", its continuation in later states ".persisting"; any other way to
   get two miners under one account keeps the plain name and is a new violation. *)
JudgeState(st, omTag) ==
  LET Rg == Reg(st) IN
  Tag(OneMinerPerAccount(Rg), omTag) \o
  (* lookup by account agrees with lookup by id *)
  Tag(\A a \in Accounts : (st.byAccount[a] # 0) = Occupied(Rg, a), "Inv.ByAccountFindsMiner") \o
  Tag(\A a \in Accounts : st.byAccount[a] \in Ids => (Rg[st.byAccount[a]].present /\ Rg[st.byAccount[a]].account = a),
      "Inv.ByAccountAgreesWithById") \o
  (* iteration lists exactly the active (present, not aborted) miners with the same account *)
  Tag(\A i \in Ids : (st.iterAccount[i] # 0) = (Rg[i].present /\ ~Rg[i].abort), "Inv.IterationListsActive") \o
  Tag(\A i \in Ids : st.iterAccount[i] # 0 => st.iterAccount[i] = Rg[i].account, "Inv.IterationAgreesWithById") \o
  (* proposer total stake / count used for election = sum over active proposer records *)
  Tag(st.propTotalUniverse = TotalStake(Rg, 1), "Inv.ProposerTotalIsSum") \o
  Tag(\A i \in Ids : (st.propDetail[i] # -1) = (Rg[i].present /\ Rg[i].type = 1 /\ ~Rg[i].abort), "Inv.ProposerSetIsActive") \o
  Tag(\A i \in Ids : st.propDetail[i] # -1 => st.propDetail[i] = Rg[i].stake, "Inv.ProposerStakeAgrees") \o
  (* the group stake the reward calculation uses (GetValidatorsStake reads the stake slots of the
     given member ids directly) = sum over the validator records those ids have, aborted ones with
     what they still hold included, fully refunded (removed) ones not *)
  Tag(st.valTotalUniverse = ValSum(Rg), "Inv.ValidatorStakeIsSumOverRecords") \o
  (* an active proposer record counts for the election from its apply height on, not before *)
  Tag(\A i \in Ids : st.propAtApplyHeight[i] # -1 => (st.propAtApplyHeight[i] = 1 /\ st.propBeforeApplyHeight[i] = 0),
      "Inv.ProposerCountsFromApplyHeight")

JudgeBlock(e) ==
  LET st  == e.state
      Rg  == Reg(st)
      ref == RefRun(R, R, [a \in Accounts |-> prev.balTokens[a]], e.txs, 1, <<>>)
      a2  == AcctRun(R, acct, e.txs, 1)
      single == Len(e.txs) = 1
      omTag == IF ~OneMinerPerAccount(R) THEN "Inv.OneMinerPerAccount.persisting"
               ELSE IF ~OneMinerPerAccount(ref.R) /\ Rg = ref.R /\ Len(e.txs) >= 2 THEN "Inv.OneMinerPerAccount.same-block-view"
               ELSE "Inv.OneMinerPerAccount"
  IN JudgeState(st, omTag) \o
     Tag(\A i \in Ids : Rg[i].present => Rg[i].stake = a2[i], "Inv.StakeIsAppliedPlusAddedMinusRefunded") \o
     Tag(Total(st) = Total(prev), "Inv.Conservation") \o
     Tag(st.propOthers = prev.propOthers /\ st.propCountOthers = prev.propCountOthers, "Inv.OtherMinersUntouched") \o
     (* a rejected transaction changes nothing but the fee *)
     (IF single /\ ~e.txs[1].ok
        THEN LET s == e.txs[1].source IN
             Tag(Rg = R, "Inv.RejectedKeepsRegistry") \o
             Tag(st.escrow = prev.escrow, "Inv.RejectedKeepsEscrow") \o
             Tag(\A a \in Accounts : a # s => st.bal[a] = prev.bal[a], "Inv.RejectedKeepsOtherBalances") \o
             Tag(Le(st.bal[s], prev.bal[s]) /\ Sub(prev.bal[s], st.bal[s], B) = Sub(st.fee, prev.fee, B),
                 "Inv.RejectedMovesOnlyFee")
        ELSE <<>>) \o
     Tag(\A i \in 1..Len(e.txs) : e.txs[i].ok = ref.acc[i], "Tx.accept") \o
     Tag(Rg = ref.R, "Block.registry")

JudgeMature(e) ==
  JudgeState(e.state, IF ~OneMinerPerAccount(R) THEN "Inv.OneMinerPerAccount.persisting" ELSE "Inv.OneMinerPerAccount") \o
  Tag(Total(e.state) = Total(prev), "Inv.Conservation") \o
  Tag(Reg(e.state) = R, "Inv.MatureKeepsRegistry")

Judge(e) ==
  CASE e.event = "Block" -> JudgeBlock(e)
    [] e.event = "Mature" -> JudgeMature(e)
    [] e.event = "Reset" -> JudgeState(e.state, "Inv.OneMinerPerAccount")
    [] OTHER -> <<>>

TraceInit == /\ l = 1 /\ bad = <<>> /\ R = [i \in Ids |-> Absent] /\ acct = [i \in Ids |-> 0]
             /\ prev = [balTokens |-> <<0, 0, 0, 0>>]

TraceNext ==
  /\ l <= Len(Trace)
  /\ l' = l + 1
  /\ LET e == Trace[l]  J == Judge(e) IN
       /\ bad' = bad \o [i \in 1..Len(J) |-> <<l, e.event, J[i]>>]
       /\ R' = Reg(e.state)
       /\ prev' = e.state
       /\ acct' = IF e.event = "Reset" THEN [i \in Ids |-> 0]
                  ELSE IF e.event = "Block"
                    THEN LET a2 == AcctRun(R, acct, e.txs, 1) IN
                         [i \in Ids |-> IF Reg(e.state)[i].present THEN a2[i] ELSE 0]
                    ELSE acct

TraceSpec == TraceInit /\ [][TraceNext]_tvars
Report == (l = Len(Trace) + 1) => PrintT(<<"VERDICT", Len(Trace), ToJson(bad)>>)
=============================================================================
