------------------------------ MODULE EvmFrames ------------------------------
(***************************************************************************)
(* Frame isolation and per-transaction scratch state of the EVM (C12).     *)
(*                                                                         *)
(* State: the journalled account state (storage, balances, existence),     *)
(* the log list, transient storage and the access list of one state        *)
(* object, and the stack of open call frames.  As in the code              *)
(* (evm.Call / CallCode / DelegateCall / StaticCall / create), entering a  *)
(* frame records the journal length (Snapshot), a failing frame undoes the *)
(* journal down to that length (RevertToSnapshot), a static frame makes    *)
(* every frame below it static, and AccountDB.Prepare starts a             *)
(* transaction.  Every frame also carries a ghost copy of the state at its *)
(* entry, which the properties compare with:                               *)
(*   FailRestores - after a failing frame the state equals the ghost       *)
(*   StaticPure   - while a static frame is open the state equals the      *)
(*                  ghost of the outermost static frame                    *)
(*   TxClean      - a transaction starts with an empty access list and     *)
(*                  empty transient storage                                *)
(*   ReceiptOwn   - a receipt holds exactly the surviving logs of its own  *)
(*                  transaction                                            *)
(* AsCoded = TRUE selects the behaviour read in the code where it differs  *)
(* from what the property demands (named alternatives below); verdicts on  *)
(* the real code never use it.                                             *)
(***************************************************************************)
EXTENDS Integers, Sequences, FiniteSets

CONSTANTS Accts,                 \* account ids
          MaxDepth,              \* nesting of frames
          MaxFrames,             \* frames per transaction
          MaxTx,                 \* transactions on the one state object
          MaxMuts,               \* state modifications per transaction
          AsCoded

Kinds == {"call", "callcode", "delegate", "static", "create"}
FailModes == {"revert", "fault", "codestore", "oversize"}   \* oversize: a creation returns more code than MaxCodeSize

VARIABLES stor, bal, live,       \* journalled account state: storage slot, balance, existence
          logs,                  \* log list of the state object: sequence of <<tx, id>>
          tstore,                \* transient storage: acct -> value
          access,                \* access list: set of accts
          journal,               \* undo records
          frames,                \* open frames, outermost first
          tx, nframes, phase,    \* transaction counter, frames used, "idle" | "run"
          nmut,                  \* modifications made in this transaction
          receipt,               \* logs handed to the receipt of the last finished transaction
          lastFail,              \* <<state after the last failing frame, its ghost>> or <<>>
          hist                   \* the call history (generator)
vars == <<stor, bal, live, logs, tstore, access, journal, frames, tx, nframes, phase, nmut, receipt, lastFail, hist>>

NoHist == <<stor, bal, live, logs, tstore, access, journal, frames, tx, nframes, phase, nmut, receipt, lastFail>>
Obs == [stor |-> stor, bal |-> bal, live |-> live, logs |-> logs, tstore |-> tstore]
Zero == [a \in Accts |-> 0]

Init == /\ stor = Zero /\ bal = [a \in Accts |-> 2] /\ live = [a \in Accts |-> TRUE]
        /\ logs = <<>> /\ tstore = Zero /\ access = {} /\ journal = <<>> /\ frames = <<>>
        /\ tx = 0 /\ nframes = 0 /\ nmut = 0 /\ phase = "idle" /\ receipt = <<>> /\ lastFail = <<>> /\ hist = <<>>

Top == frames[Len(frames)]
InStatic == frames # <<>> /\ Top.static
H(rec) == hist' = Append(hist, rec)

(* AccountDB.Prepare + the outermost call of the transaction *)
TxBegin ==
  /\ phase = "idle" /\ tx < MaxTx
  /\ tx' = tx + 1 /\ phase' = "run" /\ nframes' = 1 /\ nmut' = 0
  /\ access' = {}
  /\ tstore' = IF AsCoded THEN tstore ELSE Zero        \* as coded: Prepare leaves transientStorage alone
  /\ journal' = <<>>
  /\ frames' = <<[kind |-> "call", static |-> FALSE, jidx |-> 0,
                  ghost |-> [Obs EXCEPT !.tstore = tstore'], sghost |-> [Obs EXCEPT !.tstore = tstore']]>>
  /\ H([op |-> "tx"])
  /\ UNCHANGED <<stor, bal, live, logs, receipt, lastFail>>

Enter(kind, a) ==
  /\ phase = "run" /\ frames # <<>> /\ Len(frames) < MaxDepth /\ nframes < MaxFrames
  /\ (kind = "create" => ~InStatic)                    \* CREATE is a write: refused in static context
  /\ nframes' = nframes + 1
  /\ access' = IF kind = "create" THEN access \cup {a} ELSE access   \* added before the snapshot: survives failure
  /\ frames' = Append(frames, [kind |-> kind, static |-> (InStatic \/ kind = "static"),
                               jidx |-> Len(journal), ghost |-> Obs,
                               sghost |-> IF InStatic THEN Top.sghost ELSE Obs])   \* state when the outermost static frame was entered
  /\ H([op |-> "enter", kind |-> kind, a |-> a])
  /\ UNCHANGED <<stor, bal, live, logs, tstore, journal, tx, phase, nmut, receipt, lastFail>>

(* state modifications, all refused in static context *)
SStore(a, v) == /\ nmut < MaxMuts /\ nmut' = nmut + 1 /\ phase = "run" /\ frames # <<>> /\ ~InStatic /\ stor[a] # v
                /\ journal' = Append(journal, [t |-> "stor", a |-> a, prev |-> stor[a]])
                /\ stor' = [stor EXCEPT ![a] = v]
                /\ H([op |-> "sstore", a |-> a, v |-> v])
                /\ UNCHANGED <<bal, live, logs, tstore, access, frames, tx, nframes, phase, receipt, lastFail>>
TStore(a, v) == /\ nmut < MaxMuts /\ nmut' = nmut + 1 /\ phase = "run" /\ frames # <<>> /\ ~InStatic /\ tstore[a] # v
                /\ journal' = Append(journal, [t |-> "tstor", a |-> a, prev |-> tstore[a]])
                /\ tstore' = [tstore EXCEPT ![a] = v]
                /\ H([op |-> "tstore", a |-> a, v |-> v])
                /\ UNCHANGED <<stor, bal, live, logs, access, frames, tx, nframes, phase, receipt, lastFail>>
Log(id) == /\ nmut < MaxMuts /\ nmut' = nmut + 1 /\ phase = "run" /\ frames # <<>> /\ ~InStatic
           /\ journal' = Append(journal, [t |-> "log", a |-> 0, prev |-> 0])
           /\ logs' = Append(logs, <<tx, id>>)
           /\ H([op |-> "log", a |-> id, v |-> 0])
           /\ UNCHANGED <<stor, bal, live, tstore, access, frames, tx, nframes, phase, receipt, lastFail>>
Transfer(a, b) == /\ nmut < MaxMuts /\ nmut' = nmut + 1 /\ phase = "run" /\ frames # <<>> /\ ~InStatic /\ a # b /\ bal[a] >= 1
                  /\ journal' = Append(journal, [t |-> "bal", a |-> a, prev |-> bal[a]]) \o
                                <<[t |-> "bal", a |-> b, prev |-> bal[b]]>>
                  /\ bal' = [bal EXCEPT ![a] = @ - 1, ![b] = @ + 1]
                  /\ H([op |-> "transfer", a |-> a, v |-> b])
                  /\ UNCHANGED <<stor, live, logs, tstore, access, frames, tx, nframes, phase, receipt, lastFail>>
Destroy(a) == /\ nmut < MaxMuts /\ nmut' = nmut + 1 /\ phase = "run" /\ frames # <<>> /\ ~InStatic /\ live[a]
              /\ journal' = Append(journal, [t |-> "live", a |-> a, prev |-> TRUE])
              /\ live' = [live EXCEPT ![a] = FALSE]
              /\ H([op |-> "destroy", a |-> a, v |-> 0])
              /\ UNCHANGED <<stor, bal, logs, tstore, access, frames, tx, nframes, phase, receipt, lastFail>>

(* a call instruction whose callee is a precompile: no interpreter frame, but a frame all the same - the  *)
(* value transfer and the creation of the precompile's account happen inside it and are undone when the   *)
(* precompile fails.  a encodes kind (a % 4: call, callcode, delegate, static) and outcome class (a \div 4: *)
(* 0 succeeds, 1..3 the failure classes the driver knows); value-bearing calls are generated for the       *)
(* failing classes (a successful one moves value out of the modelled accounts: left to the random trees).  *)
PreCall(a, v) ==
  /\ nmut < MaxMuts /\ nmut' = nmut + 1 /\ phase = "run" /\ frames # <<>>
  /\ (v = 1 => (a % 4 \in {0, 1} /\ a \div 4 # 0))
  /\ ~(InStatic /\ v = 1 /\ a % 4 = 0)               \* that is a write attempt in static context
  /\ lastFail' = IF a \div 4 # 0 THEN <<Obs, Obs>> ELSE lastFail
  /\ H([op |-> "precall", a |-> a, v |-> v])
  /\ UNCHANGED <<stor, bal, live, logs, tstore, access, journal, frames, tx, nframes, phase, receipt>>

(* undo the journal entries idx+1 .. Len(journal), newest first *)
RECURSIVE Undo(_, _, _)
Undo(st, j, idx) ==
  IF Len(j) <= idx THEN st
  ELSE LET r == j[Len(j)]
           st2 == CASE r.t = "stor"  -> [st EXCEPT !.stor[r.a] = r.prev]
                    [] r.t = "tstor" -> [st EXCEPT !.tstore[r.a] = r.prev]
                    [] r.t = "bal"   -> [st EXCEPT !.bal[r.a] = r.prev]
                    [] r.t = "live"  -> [st EXCEPT !.live[r.a] = r.prev]
                    [] r.t = "log"   -> [st EXCEPT !.logs = SubSeq(st.logs, 1, Len(st.logs) - 1)]
       IN Undo(st2, SubSeq(j, 1, Len(j) - 1), idx)

Finish(rec) == IF Len(frames) = 1
                 THEN /\ phase' = "idle"
                      /\ receipt' = SelectSeq(logs', LAMBDA x : x[1] = tx)    \* GetLogs(txhash)
                 ELSE UNCHANGED <<phase, receipt>>

ExitOk == /\ phase = "run" /\ frames # <<>>
          /\ frames' = SubSeq(frames, 1, Len(frames) - 1)
          /\ H([op |-> "ok"])
          /\ UNCHANGED <<stor, bal, live, logs, tstore, access, journal, tx, nframes, nmut, lastFail>>
          /\ Finish("ok")

(* a frame ends with an error: undo the journal down to the frame's snapshot *)
FailBody(mode, toks, dm) ==
  /\ phase = "run" /\ frames # <<>>
  /\ (mode \in {"codestore", "oversize"} => Top.kind = "create")
  /\ LET keep == AsCoded /\ mode = "codestore"       \* as coded: a creation that cannot pay the code deposit is not reverted
         st == IF keep THEN Obs ELSE Undo(Obs, journal, Top.jidx)
     IN /\ stor' = st.stor /\ bal' = st.bal /\ live' = st.live /\ logs' = st.logs /\ tstore' = st.tstore
        /\ journal' = IF keep THEN journal ELSE SubSeq(journal, 1, Top.jidx)
        /\ lastFail' = <<st, Top.ghost>>
  /\ frames' = SubSeq(frames, 1, Len(frames) - 1)
  /\ hist' = hist \o toks
  /\ nmut' = nmut + dm
  /\ UNCHANGED <<access, tx, nframes>>
  /\ Finish("fail")

ExitFail(mode) == FailBody(mode, <<[op |-> "fail", mode |-> mode]>>, 0)

(* a state-modifying instruction attempted in static context (at any depth below the static frame): *)
(* it is refused, which ends the frame that attempted it with an error                           *)
StaticAttempt(m) ==
  /\ InStatic /\ nmut < MaxMuts
  /\ FailBody("fault", <<[op |-> m, a |-> 1, v |-> 1], [op |-> "fail", mode |-> "write"]>>, 1)

Next == \/ TxBegin
        \/ \E k \in Kinds, a \in Accts : Enter(k, a)
        \/ \E a \in Accts, v \in {0, 1} : SStore(a, v) \/ TStore(a, v)
        \/ \E a \in Accts : Log(a) \/ Destroy(a) \/ (\E b \in Accts : Transfer(a, b))
        \/ \E a \in 0..15, v \in {0, 1} : (v = 0 => a < 8) /\ PreCall(a, v)
        \/ ExitOk \/ \E m \in FailModes : ExitFail(m)
        \/ \E m \in {"sstore", "tstore", "log", "transfer", "destroy"} : StaticAttempt(m)
Spec == Init /\ [][Next]_vars

(* -------------------------------------------------------------- properties *)
FailRestores == lastFail # <<>> => lastFail[1] = lastFail[2]
StaticPure == InStatic => Obs = Top.sghost
TxClean == (phase = "run" /\ Len(frames) = 1 /\ nframes = 1 /\ journal = <<>>) => (access = {} /\ tstore = Zero)
ReceiptOwn == phase = "idle" => \A i \in 1..Len(receipt) : receipt[i][1] = tx
TypeOK == /\ Len(frames) <= MaxDepth /\ nframes <= MaxFrames /\ tx <= MaxTx
          /\ \A a \in Accts : bal[a] >= 0
Conservation == LET S[s \in SUBSET Accts] == IF s = {} THEN 0 ELSE LET a == CHOOSE x \in s : TRUE IN bal[a] + S[s \ {a}]
                IN S[Accts] = 2 * Cardinality(Accts)
=============================================================================
