SPECIFICATION Spec
CONSTANTS
  Ids = {1, 2, 3}
  MaxCount = 4
  AsCoded = FALSE
  Crashes = TRUE
  Batched = FALSE
  Recheck = TRUE
INVARIANTS TypeOK InvLinked InvCountIsLength InvIndexExact InvById InvHeights InvRecords
