--------------------------- MODULE BlsVerifyGen ---------------------------
(***************************************************************************)
(* Case generator for C14: the class lattice of BlsVerify.tla (what is     *)
(* presented as signature / public key: element kind x encoding class x    *)
(* key x message, with truncation lengths, extra-byte counts and bit       *)
(* indices from the configuration).  The uniqueness claim is checked per   *)
(* case in the generic group model; every case is printed as JSON and      *)
(* instantiated with real keys by harness/cmd/c14.                         *)
(***************************************************************************)
EXTENDS BlsVerify, Json

CONSTANTS TruncSig, TruncPk, Extra, BitsSig, BitsPk

GenCases == SigCases(TruncSig, Extra, BitsSig) \cup PkCases(TruncPk, Extra, BitsPk)

GenInit == c \in GenCases
GenSpec == GenInit /\ [][Next]_vars

Dump == PrintT(<<"CASE", ToJson(c)>>)

(* the message-structure lattice, both orders of every related pair *)
ASSUME PrintT(<<"MSGCASES", ToJson(MsgCases)>>)

(* the product malformed key x degenerate signature x parsing entry points *)
ASSUME PrintT(<<"KEYSIGCASES", ToJson(KeySigLattice)>>)
=============================================================================
