SPECIFICATION MemSpec
CONSTANTS
  GasLimit = 1
  DepthLimit = 1
  Costs = {1}
  Requests = {0}
  NCalls = 0
  GasArgs = {"0"}
  Targets = {"empty"}
INVARIANTS MemDump
CHECK_DEADLOCK FALSE
