------------------------------ MODULE MptGen ------------------------------
(***************************************************************************)
(* Behaviour generator for Mpt (direction model -> code).                  *)
(*                                                                         *)
(* Mode "edges" (GenSpec + VIEW MptView): TLC explores every reachable      *)
(* (content, cache state, limit) of the model exactly once and, from each, *)
(* fires every operation of the alphabet; every such edge is printed as    *)
(*     <<"HIST", json of (a call path reaching the state) + the call>>     *)
(* so the Go driver replays each (state, operation) pair of the model on   *)
(* the real trie.  hist is hidden from the state identity by the VIEW.     *)
(*                                                                         *)
(* Mode "deep": see DeepSpec below.                                        *)
(*                                                                         *)
(* A call is <<op, k, v>>: "U" TryUpdate(k, v) (v = 0: empty value),       *)
(* "D" TryDelete(k), "G" TryGet(k), "H" Hash, "C" Commit, "R" re-open from *)
(* the same NodeDatabase, "X" flush to disk and re-open from a fresh       *)
(* NodeDatabase, "L" SetCacheLimit(v), "P" NodeDatabase.Cap (v = 0: limit  *)
(* 0, 1 / 2: half / three quarters of the current size).                   *)
(***************************************************************************)
EXTENDS Mpt, Json, SequencesExt

CONSTANTS Depth, Seed, Runs, VBlocks
VARIABLES hist, rng
gvars == <<vars, hist, rng>>

MptView == vars

Emit(call) == /\ hist' = Append(hist, call)
              /\ PrintT(<<"HIST", ToJson(hist')>>)

Calls ==
  \/ \E k \in KeyIds, v \in ValIds \cup {0} : Update(k, v) /\ Emit(<<"U", k, v>>)
  \/ \E k \in KeyIds : Del(k) /\ Emit(<<"D", k, 0>>)
  \/ \E k \in KeyIds : Get(k) /\ Emit(<<"G", k, 0>>)
  \/ HashOnly /\ Emit(<<"H", 0, 0>>)
  \/ Commit /\ Emit(<<"C", 0, 0>>)
  \/ Reopen("mem") /\ Emit(<<"R", 0, 0>>)
  \/ Reopen("disk") /\ Emit(<<"X", 0, 0>>)
  \/ \E l \in {0, 2} : SetLimit(l) /\ Emit(<<"L", 0, l>>)
  \/ \E how \in {0, 1, 2} : Cap(how) /\ Emit(<<"P", 0, how>>)

GenNext == Len(hist) < Depth /\ Calls /\ UNCHANGED rng
GenSpec == Init /\ hist = <<>> /\ rng = <<0, 0, 0>> /\ [][GenNext]_gvars

(* Mode "deep" (DeepSpec): Runs pseudo-random histories of length Depth.    *)
(* The choice of the next call is a deterministic function of (Seed, run,  *)
(* position) through a Wichmann-Hill generator written in TLA+, so every   *)
(* state has one successor and TLC's breadth-first search walks Runs       *)
(* independent paths; the result depends on VERIF_SEED only.               *)
dvars == gvars

Step(r)  == <<(171 * r[1]) % 30269, (172 * r[2]) % 30307, (170 * r[3]) % 30323>>
Draw(r)  == r[1] + r[2] + r[3]
Start(i) == <<1 + ((Seed * 7919 + i * 10473) % 30268),
              1 + ((Seed * 104729 + i * 31) % 30306),
              1 + ((Seed * 13 + i * 7907) % 30322)>>

Times(n, x) == [i \in 1..n |-> x]
DeepOps ==
  SetToSeq({<<"U", k, v>> : k \in KeyIds, v \in ValIds \cup {0}}) \o
  SetToSeq({<<"D", k, 0>> : k \in KeyIds}) \o
  SetToSeq({<<"G", k, 0>> : k \in KeyIds}) \o
  Times(5, <<"C", 0, 0>>) \o Times(5, <<"R", 0, 0>>) \o Times(5, <<"X", 0, 0>>) \o
  Times(3, <<"H", 0, 0>>) \o Times(2, <<"L", 0, 0>>) \o Times(2, <<"L", 0, 2>>) \o
  Times(3, <<"P", 0, 0>>) \o Times(2, <<"P", 0, 1>>) \o Times(1, <<"P", 0, 2>>) \o <<<<"P", 0, 3>>, <<"P", 0, 5>>>>

Apply(c) ==
  CASE c[1] = "U" -> Update(c[2], c[3])
    [] c[1] = "D" -> Del(c[2])
    [] c[1] = "G" -> Get(c[2])
    [] c[1] = "H" -> HashOnly
    [] c[1] = "C" -> Commit
    [] c[1] = "R" -> Reopen("mem")
    [] c[1] = "X" -> Reopen("disk")
    [] c[1] = "L" -> SetLimit(c[3])
    [] c[1] = "P" -> Cap(c[3])

DeepInit == /\ Init /\ hist = <<>> /\ rng \in {Start(i) : i \in 1..Runs}
DeepNext == /\ Len(hist) < Depth
            /\ rng' = Step(rng)
            /\ LET c == DeepOps[(Draw(rng') % Len(DeepOps)) + 1]
               IN  Apply(c) /\ hist' = Append(hist, c)
DeepSpec == DeepInit /\ [][DeepNext]_dvars
Dump == (Len(hist) = Depth) => PrintT(<<"HIST", ToJson(hist)>>)

(* Mode "versions" (VerSpec): every history that commits a first version holding all keys *)
(* and then VBlocks further versions, each one change (update to another value, delete,    *)
(* re-insert) away from the previous one.  This is the class in which a node is re-created *)
(* identically (delete + re-insert of a pair, overwrite back to an old value) while older   *)
(* versions that reference it are still in the NodeDatabase memory layer.  The orchestrator *)
(* appends to each such history the fan of NodeDatabase.Cap calls that flush exactly the    *)
(* m oldest nodes, for every m (every prefix of the flush-list), and Cap(0).                *)
VerFirst == CHOOSE v \in ValIds : \A w \in ValIds : v <= w
VerKeys  == SetToSeq(KeyIds)
VerInit ==
  /\ content = [k \in KeyIds |-> VerFirst]
  /\ tree = Canon(content) /\ limit = 0 /\ prov = "clean" /\ dbst = "cached"
  /\ hist = [i \in 1..Len(VerKeys) |-> <<"U", VerKeys[i], VerFirst>>] \o << <<"C", 0, 0>> >>
  /\ rng = <<0, 0, 0>>
VerNext ==
  /\ Len(hist) < Len(VerKeys) + 1 + 2 * VBlocks
  /\ \E k \in KeyIds, v \in ValIds \cup {0} :
       /\ v # content[k]
       /\ content' = [content EXCEPT ![k] = v]
       /\ tree' = UpdateTree(tree, k, v)
       /\ hist' = hist \o << <<"U", k, v>>, <<"C", 0, 0>> >>
  /\ UNCHANGED <<limit, prov, dbst, rng>>
VerSpec == VerInit /\ [][VerNext]_gvars
VerDump == (Len(hist) = Len(VerKeys) + 1 + 2 * VBlocks) => PrintT(<<"HIST", ToJson(hist)>>)

(* the reference keeps the property along every generated history *)
GenInv == InvCanon /\ InvLookup /\ InvEmbedded /\ InvMinimal
=============================================================================
