---------------------------- MODULE TxAuthTrace ----------------------------
(***************************************************************************)
(* Trace monitor of C07.  Every line of trace.ndjson is one call           *)
(*   VerifyTransaction(tx, height) = accepted?                             *)
(* made by harness/cmd/c07 on the real transaction pool, with the abstract *)
(* transaction (tx) that was instantiated, the honest transaction it was   *)
(* derived from (base) and, per concrete field, whether the instance       *)
(* differs from the instantiated base (same).  The acceptance predicate is *)
(* evaluated here, from TxAuth.tla.                                        *)
(*                                                                         *)
(* Verdict tags                                                            *)
(*   Inv.Authentic.accepted:<kind>:<mut>  the real pool accepted a          *)
(*        transaction the predicate rejects ("accepted only if ...")       *)
(*   Inv.Complete.rejected:<kind>:<mut>   an honestly built transaction     *)
(*        was rejected ("honestly signed transactions are always accepted")*)
(*   Inv.Authentic.pooled / .held:...     a transaction the predicate      *)
(*        rejects was filed by AddTransaction / is what the pool answers   *)
(*        for its declared hash                                            *)
(*   Inv.Total.panic:<kind>               VerifyTransaction panicked       *)
(* Every judgement is made in the pool context of the event (ctx: empty,   *)
(* original pending / executed / rolled back, other transaction of the     *)
(* sender pending, delivered twice): the reference Admit ignores the pool. *)
(* Conformance tags                                                        *)
(*   rejected-unauth:<kind>:<mut>  rejected although only fields outside   *)
(*        the hash / the comparison differ (the statement does not promise *)
(*        acceptance here)                                                 *)
(*   pooled:<kind>:<mut>           an admitted transaction was (not) filed *)
(*        although its declared hash was (not) known to the pool           *)
(*   Proj.same:<kind>:<mut>        the concrete instance does not differ   *)
(*        from its base exactly where the abstract mutation says           *)
(* The high-S twin (r, n-s, v^1) of an honest signature is a change of the *)
(* signature of an accepted transaction: class "auth", must be rejected.   *)
(***************************************************************************)
EXTENDS TxAuth, TLC, Json

Trace == ndJsonDeserialize("trace.ndjson")

VARIABLES l, bad
tvars == <<l, bad>>

Tag(c, t) == IF c THEN <<>> ELSE <<t>>

AllFields == HashedSet \cup UnauthFields \cup {"Hash", "Sign"}

(* what determines the concrete value of a field of an instance *)
NativeKey(tx, n) ==
  CASE n = "Hash" -> tx.Hash
    [] n = "Sign" -> tx.Sign
    [] OTHER -> <<tx.f[n], IF tx.fbit.field = n THEN tx.fbit.bit ELSE 0>>
EthKey(tx, n) ==
  LET p == tx.pay
      fb == IF tx.fbit.field = n THEN tx.fbit.bit ELSE 0
      v == IF n \in DOMAIN tx.f THEN tx.f[n] ELSE "none" IN
  CASE n = "Source" -> <<v, fb>>
    [] n = "Target" -> IF v = "pay" THEN <<"pay", p.to>> ELSE <<v, fb>>
    [] n = "Nonce" -> IF v = "pay" THEN <<"pay", p.nonce>> ELSE <<v, p.nonce>>
    [] n = "ChainId" -> <<WrapChain(tx)>>
    [] n = "Data" -> IF v = "pay" THEN <<"pay", p.value, p.gas, p.price, p.data>> ELSE <<v, fb>>
    [] n = "Hash" -> IF v = "pay" THEN <<"pay", p>> ELSE <<v, fb>>
    [] n = "ExtraData" -> <<p, tx.ed>>
    [] OTHER -> <<v>>
KeyOf(tx, n) == IF tx.kind = "native" THEN NativeKey(tx, n) ELSE EthKey(tx, n)
ContentDiffers(tx, base) == \E n \in HashedSet : KeyOf(tx, n) # KeyOf(base, n)

(* one delivery (VerifyTransaction, then AddTransaction on nil) into the pool `pool` *)
JudgeDelivery(d, tx, h, pool, cls, who) ==
  LET acc == Admit(pool, tx, h) IN
  IF d.panic THEN <<>>
  ELSE (IF d.ok /\ ~acc THEN <<"Inv.Authentic.accepted:" \o who>>
        ELSE IF ~d.ok /\ acc THEN
               (IF cls = "unauth" THEN <<"rejected-unauth:" \o who>> ELSE <<"Inv.Complete.rejected:" \o who>>)
        ELSE <<>>) \o
       Tag(d.pooled => acc, "Inv.Authentic.pooled:" \o who) \o
       (IF d.ok /\ acc THEN Tag(d.pooled = Pooled(pool, tx, h), "pooled:" \o who) ELSE <<>>)

JudgeVerify(e) ==
  LET tx == e.tx
      \* for a bit flip in the RLP payload the flipped byte (before>after) is part of the class,
      \* and so is the pool context unless the pool is empty
      who == e.kind \o ":" \o e.mut \o (IF e.edflip = "" THEN "" ELSE ":" \o e.edflip)
                   \o (IF e.kind = "eth" /\ tx.ed.dmg = "reframe" THEN ":item" \o ToString(tx.ed.item) ELSE "")
                   \o (IF e.ctx = "empty" THEN "" ELSE ":" \o e.ctx)
      pool == PoolOf(e.ctx, e.base, tx, e.h)
  IN  Tag(~e.panic /\ ~e.first.panic, "Inv.Total.panic:" \o e.kind) \o
      \* (the chain id a changed V derives to may or may not be the honest one: not compared)
      Tag(\A n \in AllFields \ (IF e.kind = "eth" /\ tx.pay.v # HonestV THEN {"ChainId"} ELSE {}) :
            e.same[n] = (KeyOf(tx, n) = KeyOf(e.base, n)), "Proj.same:" \o who) \o
      Tag(e.ctx \in Contexts, "Proj.context") \o
      JudgeDelivery(e, tx, e.h, pool, e.cls, who) \o
      \* the pool answers with this content for the declared hash only if the content is authentic
      \* (or it is, field for field, the content of a transaction the pool was given in this context)
      Tag(e.holds => Accept(tx, e.h) \/ \E p \in pool.pending \cup pool.executed : ~ContentDiffers(tx, p),
          "Inv.Authentic.held:" \o who) \o
      (IF e.ctx = "twice"
         THEN JudgeDelivery(e.first, tx, e.h, PoolOf("empty", e.base, tx, e.h), e.cls, who \o ":first")
         ELSE <<>>)

Judge(e) == IF e.event = "Verify" THEN JudgeVerify(e) ELSE <<"unknown-event">>

TraceInit == l = 1 /\ bad = <<>>
TraceNext ==
  /\ l <= Len(Trace)
  /\ l' = l + 1
  /\ LET e == Trace[l]
         j == Judge(e) IN
     bad' = bad \o [i \in 1..Len(j) |-> <<l, e.event, j[i]>>]
TraceSpec == TraceInit /\ [][TraceNext]_tvars

Report == (l = Len(Trace) + 1) => PrintT(<<"VERDICT", Len(Trace), ToJson(bad)>>)
=============================================================================
