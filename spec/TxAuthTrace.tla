---------------------------- MODULE TxAuthTrace ----------------------------
(***************************************************************************)
(* Trace monitor of C07.  Every line of trace.ndjson is one call           *)
(*   VerifyTransaction(tx, height) = accepted?                             *)
(* made by harness/cmd/c07 on the real transaction pool, with the abstract *)
(* transaction (tx) that was instantiated, the honest transaction it was   *)
(* derived from (base) and, per concrete field, whether the instance       *)
(* differs from the instantiated base (same).  The acceptance predicate is *)
(* evaluated here, from TxAuth.tla.                                        *)
(*                                                                         *)
(* Verdict tags                                                            *)
(*   Inv.Authentic.accepted:<kind>:<mut>  the real pool accepted a          *)
(*        transaction the predicate rejects ("accepted only if ...")       *)
(*   Inv.Complete.rejected:<kind>:<mut>   an honestly built transaction     *)
(*        was rejected ("honestly signed transactions are always accepted")*)
(*   Inv.Total.panic:<kind>               VerifyTransaction panicked       *)
(* Conformance tags                                                        *)
(*   rejected-unauth:<kind>:<mut>  rejected although only fields outside   *)
(*        the hash / the comparison differ (the statement does not promise *)
(*        acceptance here)                                                 *)
(*   Proj.same:<kind>:<mut>        the concrete instance does not differ   *)
(*        from its base exactly where the abstract mutation says           *)
(* The high-S twin (r, n-s, v^1) of an honest signature is a change of the *)
(* signature of an accepted transaction: class "auth", must be rejected.   *)
(***************************************************************************)
EXTENDS TxAuth, TLC, Json

Trace == ndJsonDeserialize("trace.ndjson")

VARIABLES l, bad
tvars == <<l, bad>>

Tag(c, t) == IF c THEN <<>> ELSE <<t>>

AllFields == HashedSet \cup UnauthFields \cup {"Hash", "Sign"}

(* what determines the concrete value of a field of an instance *)
NativeKey(tx, n) ==
  CASE n = "Hash" -> tx.Hash
    [] n = "Sign" -> tx.Sign
    [] OTHER -> <<tx.f[n], IF tx.fbit.field = n THEN tx.fbit.bit ELSE 0>>
EthKey(tx, n) ==
  LET p == tx.pay
      fb == IF tx.fbit.field = n THEN tx.fbit.bit ELSE 0
      v == IF n \in DOMAIN tx.f THEN tx.f[n] ELSE "none" IN
  CASE n = "Source" -> <<v, fb>>
    [] n = "Target" -> IF v = "pay" THEN <<"pay", p.to>> ELSE <<v, fb>>
    [] n = "Nonce" -> IF v = "pay" THEN <<"pay", p.nonce>> ELSE <<v, p.nonce>>
    [] n = "ChainId" -> <<WrapChain(tx)>>
    [] n = "Data" -> IF v = "pay" THEN <<"pay", p.value, p.gas, p.price, p.data>> ELSE <<v, fb>>
    [] n = "Hash" -> IF v = "pay" THEN <<"pay", p>> ELSE <<v, fb>>
    [] n = "ExtraData" -> <<p, tx.ed>>
    [] OTHER -> <<v>>
KeyOf(tx, n) == IF tx.kind = "native" THEN NativeKey(tx, n) ELSE EthKey(tx, n)

JudgeVerify(e) ==
  LET tx == e.tx
      acc == Accept(tx, e.h)
      \* for a bit flip in the RLP payload the flipped byte (before>after) is part of the class
      who == e.kind \o ":" \o e.mut \o (IF e.edflip = "" THEN "" ELSE ":" \o e.edflip)
  IN  Tag(~e.panic, "Inv.Total.panic:" \o e.kind) \o
      Tag(\A n \in AllFields : e.same[n] = (KeyOf(tx, n) = KeyOf(e.base, n)), "Proj.same:" \o who) \o
      (IF e.panic THEN <<>>
       ELSE IF e.ok /\ ~acc THEN <<"Inv.Authentic.accepted:" \o who>>
       ELSE IF ~e.ok /\ acc THEN
              (IF e.cls = "unauth" THEN <<"rejected-unauth:" \o who>> ELSE <<"Inv.Complete.rejected:" \o who>>)
       ELSE <<>>)

Judge(e) == IF e.event = "Verify" THEN JudgeVerify(e) ELSE <<"unknown-event">>

TraceInit == l = 1 /\ bad = <<>>
TraceNext ==
  /\ l <= Len(Trace)
  /\ l' = l + 1
  /\ LET e == Trace[l]
         j == Judge(e) IN
     bad' = bad \o [i \in 1..Len(j) |-> <<l, e.event, j[i]>>]
TraceSpec == TraceInit /\ [][TraceNext]_tvars

Report == (l = Len(Trace) + 1) => PrintT(<<"VERDICT", Len(Trace), ToJson(bad)>>)
=============================================================================
