SPECIFICATION Spec
CONSTANTS
  Atomic = FALSE
  Readers = 1
  Lookups = 0
  NegCache = FALSE
  CachedView = TRUE
INVARIANT InvPackSeesPool
CHECK_DEADLOCK FALSE
