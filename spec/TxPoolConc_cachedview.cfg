SPECIFICATION Spec
CONSTANTS
  Atomic = FALSE
  Readers = 1
  CachedView = TRUE
INVARIANT InvPackSeesPool
CHECK_DEADLOCK FALSE
