----------------------------- MODULE EvmGasState -----------------------------
(***************************************************************************)
(* Extension of EvmGas toward the node's behaviour: exact gas accounting   *)
(* of the state-access instructions under the rule set that is ACTIVE in   *)
(* this node (read from src/vm/jump_table.go, gas_table.go, gas.go,        *)
(* eips.go), next to the rule set the code base CLAIMS (jump_table.go:     *)
(* "IstanbulInstructionSet ... EIP-2200: SSTORE dynamicGas", "compatible   *)
(* ... until eth-release 1.9.24"; operations_acl.go holds EIP-2929, all of *)
(* it commented out of the table).                                         *)
(*                                                                         *)
(* ACTIVE rules (M = 30 when Proposal026 is active, else 1):               *)
(*   SLOAD 800 M; SSTORE flat 20000 M whatever the original / current /    *)
(*   new values are (0 before Proposal015), no refund, no 2300 sentry;     *)
(*   BALANCE, EXTCODESIZE, EXTCODEHASH 700 M;                              *)
(*   EXTCODECOPY 700 M + (memory + 3 per word) M;  TLOAD, TSTORE 100 M;    *)
(*   no warm/cold distinction (EIP-2929 is not in the table; the access    *)
(*   list is written only by create() and priced only by AUTHCALL);        *)
(*   CALL 700 M + [value: 9000] + [value and callee empty: 25000]          *)
(*        + memory + forwarded, forwarded = min(requested, all but one     *)
(*        64th of what is left after the other parts), callee additionally *)
(*        gets the 2300 stipend of a value transfer free of charge;        *)
(*   CALLCODE the same without the new-account part; DELEGATECALL,         *)
(*   STATICCALL 700 M + memory + forwarded;                                *)
(*   SELFDESTRUCT 5000 + [beneficiary empty and own balance non-zero:      *)
(*   25000], refund counter + 24000 once per account - the counter is      *)
(*   never redeemed (nothing reads it at the end of a transaction).        *)
(*   Under Proposal026 the memory fee is multiplied by M inside            *)
(*   memoryGasCost and once more by the copy / hash / log gas functions.   *)
(*                                                                         *)
(* CLAIMED rules modelled for comparison: EIP-2200 net gas metering of     *)
(* SSTORE over the original / current / new value lattice with its refund  *)
(* counter and the 2300 sentry.  TLC explores every write sequence of the  *)
(* lattice: the claimed rules keep the refund counter non-negative and     *)
(* every write nets at least the SLOAD price; each sequence is printed and *)
(* run on the real interpreter (harness/cmd/c11, state mode); the monitor  *)
(* EvmGasStateTrace recomputes every recorded step with the ACTIVE rules   *)
(* (tags Ext.*: informational) and reports where ACTIVE and CLAIMED differ.*)
(***************************************************************************)
EXTENDS EvmGas, Json, TLC

(* --------------------------------------------------------- active rules *)
SloadGas == 800
SstoreFlat == 20000
AccountReadGas == 700            \* BALANCE, EXTCODESIZE, EXTCODEHASH, EXTCODECOPY base
TransientGas == 100
CallBase == 700
CallValueGas == 9000
CallNewAccountGas == 25000
StipendGas == 2300
SelfdestructGas == 5000
SelfdestructNewAccount == 25000
SelfdestructRefund == 24000

OpSLOAD == 84  OpSSTORE == 85  OpBALANCE == 49  OpEXTCODESIZE == 59  OpEXTCODECOPY == 60  OpEXTCODEHASH == 63
OpTLOAD == 92  OpTSTORE == 93  OpCALL == 241  OpCALLCODE == 242  OpDELEGATECALL == 244  OpSTATICCALL == 250
OpSELFDESTRUCT == 255
CallOps == {OpCALL, OpCALLCODE, OpDELEGATECALL, OpSTATICCALL}

(* memory expansion fee as charged: native integers (memory stays small in these runs) *)
MemFeeN(w) == 3 * w + (w * w) \div 512
MemGrowN(b0, b1) == IF b1 <= b0 THEN 0 ELSE MemFeeN(WordsOf(b1)) - MemFeeN(WordsOf(b0))

(* cfg = [m |-> magnification, p015 |-> BOOLEAN]; pre = recorded facts about the state before the step *)
(* the parts of a call instruction's cost other than the forwarded gas *)
CallFixed(op, cfg, pre, ml0, ml1) ==
  CallBase * cfg.m
  + (IF op = OpCALL /\ pre.vnz /\ pre.empty THEN CallNewAccountGas ELSE 0)
  + (IF op \in {OpCALL, OpCALLCODE} /\ pre.vnz THEN CallValueGas ELSE 0)
  + MemGrowN(ml0, ml1) * cfg.m
(* gas forwarded to the callee: g0 = gas at fetch, req = requested amount (Big when it does not fit) *)
Forwarded(op, cfg, pre, ml0, ml1, g0, req) ==
  LET avail == g0 - CallFixed(op, cfg, pre, ml0, ml1)
      cap == avail - (avail \div 64)
  IN IF req < cap THEN req ELSE cap
ActiveCost(op, cfg, pre, ml0, ml1, g0, req) ==
  CASE op = OpSLOAD -> SloadGas * cfg.m
    [] op = OpSSTORE -> IF cfg.p015 THEN SstoreFlat * cfg.m ELSE 0
    [] op \in {OpBALANCE, OpEXTCODESIZE, OpEXTCODEHASH} -> AccountReadGas * cfg.m
    [] op = OpEXTCODECOPY -> AccountReadGas * cfg.m + (MemGrowN(ml0, ml1) * cfg.m + 3 * WordsOf(pre.len)) * cfg.m
    [] op \in {OpTLOAD, OpTSTORE} -> TransientGas * cfg.m
    [] op \in CallOps -> CallFixed(op, cfg, pre, ml0, ml1) + Forwarded(op, cfg, pre, ml0, ml1, g0, req)
    [] op = OpSELFDESTRUCT -> SelfdestructGas + (IF pre.empty /\ pre.balnz THEN SelfdestructNewAccount ELSE 0)
ActiveRefund(op, pre) == IF op = OpSELFDESTRUCT /\ ~pre.dead THEN SelfdestructRefund ELSE 0
CalleeGas(op, cfg, pre, ml0, ml1, g0, req) ==
  Forwarded(op, cfg, pre, ml0, ml1, g0, req) + (IF op \in {OpCALL, OpCALLCODE} /\ pre.vnz THEN StipendGas ELSE 0)

(* -------------------------------------------- claimed rules: EIP-2200 *)
SstoreSentry == 2300
SstoreSetGas2200 == 20000
SstoreResetGas2200 == 5000
SstoreClearsRefund == 15000
(* [cost, refund delta, class] for original o, current c, new n *)
Claimed2200(o, c, n) ==
  IF c = n THEN [cost |-> SloadGas, refund |-> 0, class |-> "noop"]
  ELSE IF o = c THEN
         (IF o = 0 THEN [cost |-> SstoreSetGas2200, refund |-> 0, class |-> "create"]
          ELSE IF n = 0 THEN [cost |-> SstoreResetGas2200, refund |-> SstoreClearsRefund, class |-> "delete"]
          ELSE [cost |-> SstoreResetGas2200, refund |-> 0, class |-> "reset"])
  ELSE LET r1 == IF o # 0 THEN (IF c = 0 THEN 0 - SstoreClearsRefund ELSE IF n = 0 THEN SstoreClearsRefund ELSE 0) ELSE 0
           r2 == IF o = n THEN (IF o = 0 THEN SstoreSetGas2200 - SloadGas ELSE SstoreResetGas2200 - SloadGas) ELSE 0
       IN [cost |-> SloadGas, refund |-> r1 + r2,
           class |-> IF o = n THEN "dirty-restore" ELSE IF n = 0 THEN "dirty-clear" ELSE IF c = 0 THEN "dirty-recreate" ELSE "dirty-update"]

(* ------------------------------------------- the value lattice as a model *)
CONSTANTS Values,                \* {0, 1, 2}: zero, a, b
          MaxWrites

VARIABLES orig, cur, writes,     \* the slot: value at transaction start, current value, the writes so far
          spentC, refundC,       \* claimed rules: gas spent on the writes, refund counter
          spentA,                \* active rules
          xcase                  \* one case of the access / call / selfdestruct families (XSpec)
svars == <<gvars, orig, cur, writes, spentC, refundC, spentA, xcase>>
Idle == frames = <<>> /\ burnt = 0 /\ ended = TRUE

SInit == /\ Idle /\ xcase = <<>>
         /\ orig \in Values /\ cur = orig /\ writes = <<>> /\ spentC = 0 /\ refundC = 0 /\ spentA = 0
SWrite(n) == /\ Len(writes) < MaxWrites
             /\ LET r == Claimed2200(orig, cur, n) IN
                  /\ spentC' = spentC + r.cost /\ refundC' = refundC + r.refund
             /\ spentA' = spentA + SstoreFlat
             /\ cur' = n /\ writes' = Append(writes, n) /\ UNCHANGED <<orig, gvars, xcase>>
SNext == \E n \in Values : SWrite(n)
SSpec == SInit /\ [][SNext]_svars

(* properties of the claimed rules over the whole lattice *)
RefundNonNegative == refundC >= 0
(* apart from the bonus for a slot that is cleared, every write nets at least the SLOAD price *)
ClearBonus == IF orig # 0 /\ cur = 0 THEN SstoreClearsRefund ELSE 0
NetAtLeastSload == spentC - refundC + ClearBonus >= SloadGas * Len(writes)
(* a slot that ends where it started has cost no more than the no-op price per write, net *)
RestoredIsCheap == (cur = orig /\ writes # <<>>) => spentC - refundC = SloadGas * Len(writes)
(* the active flat rule never charges less than the claimed one *)
ActiveNotCheaper == spentA >= spentC
SDump == Len(writes) = MaxWrites => PrintT(<<"SSTORE", ToJson([orig |-> orig, writes |-> writes])>>)

(* ------------------------------------- the other families, as case lattices *)
(* account reads: the instruction, the kind of account it names, whether the same account was read before *)
(* (the second read would be "warm" under EIP-2929), in the outermost frame or one call down               *)
AccessCases == [fam : {"access"}, op : {"sload", "balance", "extcodesize", "extcodehash", "extcodecopy"},
                target : {"self", "contract", "plain", "absent", "precompile"}, again : BOOLEAN, depth : {0, 1}]
(* call instructions: kind, value, callee (absent / empty-but-existing / plain with balance / contract /  *)
(* precompile), class of the gas argument, input / output areas that do or do not grow the memory          *)
CallCases == {c \in [fam : {"call"}, op : {"call", "callcode", "delegatecall", "staticcall"}, value : {0, 1},
                     target : {"absent", "plain", "contract", "precompile"},
                     gas : {"0", "2300", "50000", "all"}, mem : {"none", "in", "out"}] :
                c.value = 1 => c.op \in {"call", "callcode"}}
(* SELFDESTRUCT: beneficiary absent / existing / the contract itself, own balance zero or not, once or twice *)
DestroyCases == [fam : {"destroy"}, target : {"absent", "plain", "self"}, balance : {0, 1}, twice : BOOLEAN]
XCases == AccessCases \cup CallCases \cup DestroyCases

XInit == /\ Idle /\ xcase \in XCases
         /\ orig = 0 /\ cur = 0 /\ writes = <<>> /\ spentC = 0 /\ refundC = 0 /\ spentA = 0
XSpec == XInit /\ [][FALSE]_svars
XDump == PrintT(<<"XCASE", ToJson(xcase)>>)
=============================================================================
