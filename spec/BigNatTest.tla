----------------------------- MODULE BigNatTest -----------------------------
(* Self-test of BigNat against values TLC can compute natively and against   *)
(* algebraic identities on 256-bit operands.  Run: tlc BigNatTest (no cfg     *)
(* behaviour; all checks are ASSUMEs).                                        *)
EXTENDS BigNat, TLC

Small == {0, 1, 2, 9, 10, 255, 256, 257, 65535, 65536, 1000000, 46340}
Bases == {10, 256}

ASSUME \A B \in Bases : \A n \in Small : ToNat(FromNat(n, B), B) = n
ASSUME \A B \in Bases : \A n, m \in Small :
         /\ ToNat(Add(FromNat(n, B), FromNat(m, B), B), B) = n + m
         /\ (n >= m => ToNat(Sub(FromNat(n, B), FromNat(m, B), B), B) = n - m)
         /\ (n <= 46340 /\ m <= 46340 => ToNat(Mul(FromNat(n, B), FromNat(m, B), B), B) = n * m)
         /\ (m # 0 => /\ ToNat(Div(FromNat(n, B), FromNat(m, B), B), B) = n \div m
                      /\ ToNat(Mod(FromNat(n, B), FromNat(m, B), B), B) = n % m)
         /\ Cmp(FromNat(n, B), FromNat(m, B)) = (IF n < m THEN -1 ELSE IF n > m THEN 1 ELSE 0)

Max256 == [i \in 1..32 |-> 255]                  \* 2^256 - 1
P255   == [i \in 1..32 |-> IF i = 32 THEN 128 ELSE 0]   \* 2^255
Some   == <<17, 0, 255, 3, 99, 200, 1, 0, 0, 45, 7, 7, 7, 250, 128, 64, 32, 16, 8, 4, 2, 1, 0, 9, 33, 77, 190, 201, 5, 6, 7, 201>>
Other  == <<3, 141, 59, 26, 53, 58, 97, 93, 238, 46, 26, 43, 38, 32, 79, 50>>

(* (2^256-1)^2 = 2^512 - 2^257 + 1 *)
ASSUME Mul(Max256, Max256, 256) = <<1>> \o [i \in 1..31 |-> 0] \o <<254>> \o [i \in 1..31 |-> 255]
ASSUME Add(Max256, <<1>>, 256) = [i \in 1..32 |-> 0] \o <<1>>
ASSUME \A x \in {Some, Max256, P255} : \A y \in {Other, Some, <<7>>, Max256} :
         LET qr == DivMod(x, y, 256) IN
           /\ Add(Mul(qr[1], y, 256), qr[2], 256) = Norm(x)
           /\ Lt(qr[2], y)
ASSUME Sub(Add(Some, Other, 256), Other, 256) = Some
ASSUME Mul(Some, Other, 256) = Mul(Other, Some, 256)
ASSUME Pow(<<2>>, 255, 256) = P255
ASSUME PowModDigits(<<3>>, 300, 256, 32) = LowDigits(Pow(<<3>>, 300, 256), 32)
ASSUME Convert(Convert(Max256, 256, 10), 10, 256) = Max256
ASSUME Len(Convert(Max256, 256, 10)) = 78
ASSUME Convert(FromNat(1000000, 256), 256, 10) = <<0, 0, 0, 0, 0, 0, 1>>
ASSUME PrintT("BigNatTest passed")

VARIABLE x
Init == x = 0
Next == x' = x
=============================================================================
