SPECIFICATION Spec
CONSTANT Atomic = TRUE
INVARIANT InvAtMostOnce
CHECK_DEADLOCK FALSE
