--------------------------- MODULE ThresholdGen ---------------------------
(***************************************************************************)
(* Case generator for C13: every (group size n, set of responding members  *)
(* S with |S| >= K(n), arrival order class) for n in NMin..NMax.  For each *)
(* case the Lagrange recovery of Threshold.tla is checked in GF(P) for     *)
(* every sum polynomial with coefficients in Coefs (degree K(n)-1): the    *)
(* first K(n) arrivals, and every K(n)-subset of S, recover F(0)*h.        *)
(* Every case is printed as JSON and replayed on the real DKG / signature  *)
(* code by harness/cmd/c13.                                                *)
(***************************************************************************)
EXTENDS Threshold, Json

(* N of Threshold is the largest group size here; member ids are 1..N *)
CONSTANTS NMin, H, MaxSubsetCheck

IdsId == [i \in 1..N |-> i]

(* ascending sequence of a set of naturals *)
RECURSIVE Asc(_)
Asc(S) == IF S = {} THEN <<>>
          ELSE LET m == CHOOSE x \in S : \A y \in S : x <= y IN <<m>> \o Asc(S \ {m})

Rev(s) == [i \in 1..Len(s) |-> s[Len(s) + 1 - i]]
Rot(s) == IF Len(s) <= 1 THEN s ELSE SubSeq(s, 2, Len(s)) \o <<s[1]>>
(* odd positions first, then even positions *)
Weave(s) == LET odd == {i \in 1..Len(s) : i % 2 = 1}
                even == {i \in 1..Len(s) : i % 2 = 0}
            IN [i \in 1..Cardinality(odd) |-> s[Asc(odd)[i]]] \o [i \in 1..Cardinality(even) |-> s[Asc(even)[i]]]

Orders(S) == LET a == Asc(S) IN {a, Rev(a), Rot(a), Weave(Rev(a))}

Cases == UNION {UNION {{[n |-> n, k |-> K(n), subset |-> Asc(S), order |-> o] : o \in Orders(S)}
                         : S \in {S \in SUBSET (1..n) : Cardinality(S) >= K(n)}}
                  : n \in NMin..N}

VARIABLE c
GenInit == /\ c \in Cases
           /\ polys = <<>> /\ h = H /\ recv = <<>> /\ got = <<>> /\ sk = <<>> /\ gpk = <<>> /\ coll = <<>> /\ rec = None
GenNext == UNCHANGED <<c, vars>>
GenSpec == GenInit /\ [][GenNext]_<<c, vars>>

Polys(k) == [1..k -> Coefs]

Recover(G, ord, k) ==
  Lagrange([i \in 1..k |-> ord[i]], [i \in 1..k |-> M(Eval(G, ord[i]) * H)])

(* the design-level claim for this case *)
CaseInv ==
  LET k == c.k
      S == {c.order[i] : i \in 1..Len(c.order)}
  IN \A G \in Polys(k) :
       /\ Recover(G, c.order, k) = M(G[1] * H)
       /\ Cardinality(S) <= MaxSubsetCheck =>
            \A U \in KSubsets(S, k) : Recover(G, Asc(U), k) = M(G[1] * H)

Dump == PrintT(<<"CASE", ToJson(c)>>)

(* K(n) tabulated, exported for the comparison with GetGroupK *)
ASSUME PrintT(<<"KTABLE", ToJson([n \in 1..20 |-> K(n)])>>)

(* group sizes (beyond the default maximum) at which rounding 51 n / 100 up and "floor + 1" differ:
   a DKG degree derived one way and a signing threshold derived the other way disagree exactly there *)
ASSUME PrintT(<<"BIGN", ToJson({n \in 11..128 : (51 * n) % 100 = 0})>>)
=============================================================================
