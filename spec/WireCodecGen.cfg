SPECIFICATION Spec
CONSTANTS
  Pairs = "some"
  MaxAbsent = 2
  GroupProduct = FALSE
  OddAll = FALSE
INVARIANTS Theorems
CHECK_DEADLOCK FALSE
