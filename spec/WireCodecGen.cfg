SPECIFICATION Spec
CONSTANTS
  Pairs = "some"
  MaxAbsent = 2
  GroupProduct = FALSE
INVARIANTS Theorems
CHECK_DEADLOCK FALSE
