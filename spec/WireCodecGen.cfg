SPECIFICATION Spec
CONSTANTS
  Pairs = "some"
  MaxAbsent = 2
  GroupProduct = FALSE
  OddAll = FALSE
  MaxSeq = 2
INVARIANTS Theorems
CHECK_DEADLOCK FALSE
