SPECIFICATION GenSpec
CONSTANTS
  KeyIds = {1, 2, 3, 4, 6}
  ValIds = {1, 7}
  Depth = 30
  Seed = 0
  Runs = 0
  VBlocks = 0
VIEW MptView
INVARIANTS GenInv
CHECK_DEADLOCK FALSE
