--------------------------- MODULE GroupChainInd ---------------------------
(***************************************************************************)
(* The group chain at the level of whole calls (AddGroup / remove of the   *)
(* last group, as composed in GroupChain!AddPost / RemovePost), with an    *)
(* INDUCTIVE invariant in first-order form (no recursion), so that the     *)
(* safety of the design does not rest on the small bounds of the TLC runs: *)
(*   Apalache:  Init => IndInv   and   IndInv /\ Next => IndInv'            *)
(*   (any number of steps, any state satisfying IndInv, not only the       *)
(*   reachable ones within a depth bound).                                  *)
(* IndInv implies the clauses of property C19 (Implied below): the         *)
(* predecessor walk from the last group is hidx[count-1], ..., hidx[0] =   *)
(* genesis, so the list has `count` elements and lookups by height / id    *)
(* agree with it.                                                          *)
(***************************************************************************)
EXTENDS Integers

CONSTANTS
  \* @type: Set(Int);
  Ids,          \* group ids other than genesis (positive integers)
  \* @type: Int;
  MaxH          \* heights 0..MaxH exist in the index

Genesis == 0
None == -1
AllIds == Ids \union {Genesis}
Heights == 0..MaxH

VARIABLES
  \* @type: Int -> { pre: Int, height: Int, present: Bool };
  store,
  \* @type: Int -> Int;
  hidx,
  \* @type: Int;
  count,
  \* @type: Int;
  last

vars == <<store, hidx, count, last>>

Absent == [pre |-> None, height |-> 0, present |-> FALSE]

Init ==
  /\ store = [i \in AllIds |-> IF i = Genesis THEN [pre |-> None, height |-> 0, present |-> TRUE] ELSE Absent]
  /\ hidx = [h \in Heights |-> IF h = 0 THEN Genesis ELSE None]
  /\ count = 1
  /\ last = Genesis

(* AddGroup(g) naming the current last group as its predecessor (any other call is refused and
   changes nothing) *)
Add(g) ==
  /\ g \in Ids /\ ~store[g].present /\ count <= MaxH
  /\ store' = [store EXCEPT ![g] = [pre |-> last, height |-> count, present |-> TRUE]]
  /\ hidx' = [hidx EXCEPT ![count] = g]
  /\ count' = count + 1
  /\ last' = g

(* remove(last group), after the repair of the height index *)
Remove ==
  /\ last # Genesis
  /\ store' = [store EXCEPT ![last] = Absent]
  /\ hidx' = [hidx EXCEPT ![count - 1] = None]
  /\ count' = count - 1
  /\ last' = store[last].pre

Next == (\E g \in Ids : Add(g)) \/ Remove

(* negative control: remove() as it was before the repair (an entry one past the old top that
   points at the predecessor, the removed group's own entry left behind) must break IndInv *)
RemoveAsCoded ==
  /\ last # Genesis /\ count <= MaxH
  /\ store' = [store EXCEPT ![last] = Absent]
  /\ hidx' = [hidx EXCEPT ![count] = store[last].pre]
  /\ count' = count - 1
  /\ last' = store[last].pre
NextAsCoded == (\E g \in Ids : Add(g)) \/ RemoveAsCoded

TypeOK ==
  /\ store \in [AllIds -> [pre : AllIds \union {None}, height : Heights, present : BOOLEAN]]
  /\ hidx \in [Heights -> AllIds \union {None}]
  /\ count \in 1..(MaxH + 1)
  /\ last \in AllIds

IndInv ==
  /\ TypeOK
  /\ hidx[0] = Genesis
  /\ last = hidx[count - 1]
  /\ \A h \in Heights : h >= count => hidx[h] = None
  /\ \A h \in Heights : h < count =>
        /\ hidx[h] # None
        /\ store[hidx[h]].present
        /\ store[hidx[h]].height = h
        /\ (h > 0 => store[hidx[h]].pre = hidx[h - 1])
  /\ \A g \in AllIds : store[g].present => (store[g].height < count /\ hidx[store[g].height] = g)
  /\ \A g \in AllIds : ~store[g].present => store[g] = Absent

(* the clauses of C19 in index form: following predecessor links from the last group visits
   hidx[count-1], ..., hidx[1], hidx[0] = genesis, i.e. exactly `count` groups; height lookups
   below count return those groups, none at or above count; every listed group is found by id *)
Implied ==
  /\ last = hidx[count - 1] /\ hidx[0] = Genesis
  /\ \A h \in Heights : (0 < h /\ h < count) => store[hidx[h]].pre = hidx[h - 1]
  /\ \A h \in Heights : h < count => (hidx[h] \in AllIds /\ store[hidx[h]].present)
  /\ \A h \in Heights : h >= count => hidx[h] = None
  /\ \A h1, h2 \in Heights : (h1 < count /\ h2 < count /\ h1 # h2) => hidx[h1] # hidx[h2]

Spec == Init /\ [][Next]_vars
=============================================================================
