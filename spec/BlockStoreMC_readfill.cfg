SPECIFICATION Spec
CONSTANTS
  ReorgMarked = TRUE
  N = 3
  MaxDeliver = 3
  MaxCrash = 1
  Readers = 1
  ReadFill = TRUE
  Forks = FALSE
  Gaps = FALSE
INVARIANTS InvCache
CHECK_DEADLOCK FALSE
