------------------------------- MODULE Mpt -------------------------------
(***************************************************************************)
(* The Merkle-Patricia trie of go-rangers (src/storage/trie) at the level  *)
(* of its node structure.                                                  *)
(*                                                                         *)
(* Two layers.                                                             *)
(*  (1) Canon(content): the Ethereum (Yellow Paper, appendix D) definition *)
(*      of the trie for a set of key/value pairs, as a recursive operator. *)
(*      Keys are nibble sequences ending in the terminator 16 (exactly     *)
(*      keybytesToHex of encoding.go), so no key is a prefix of another    *)
(*      and the "value of a branch" is simply child 16.                    *)
(*  (2) The implementation's algorithm, transcribed from trie.go:          *)
(*      Insert / Delete / Lookup with their case analysis (whole-key match,*)
(*      branch-out at matchlen, replacement of the short node at index 0,  *)
(*      merge short{short} after delete, reduction of a single-child       *)
(*      branch with resolution of the remaining child, value in slot 16),  *)
(*      working on a tree in which any separately stored sub-tree may be   *)
(*      present only as a hash reference <<"H", sub>> (hashNode: the model *)
(*      keeps the referenced canonical sub-tree where the code keeps a     *)
(*      digest that NodeDatabase resolves).                                *)
(*                                                                         *)
(* Nodes are tuples whose first element is a tag:                          *)
(*    <<"N">>            nil                                               *)
(*    <<"V", v>>         valueNode, v a value id                           *)
(*    <<"S", key, c>>    shortNode (extension, or leaf when key ends in 16)*)
(*    <<"F", ch>>        fullNode, ch a 17-tuple (index i+1 = nibble i)    *)
(*    <<"H", sub>>       hashNode standing for the stored sub-tree sub     *)
(*                                                                         *)
(* The cache life-cycle (Hash, Commit, Reopen, SetCacheLimit/unload) is    *)
(* modelled as actions that may only move sub-trees between "resolved" and *)
(* "hash reference": they must not change the content.                     *)
(*                                                                         *)
(* Key and value universes are fixed tables (KeyBytes, VLen, VFirst); a    *)
(* configuration selects the ids it uses.  The Go driver owns the concrete *)
(* bytes and logs the tables so that the monitor can cross-check them.     *)
(***************************************************************************)
EXTENDS Naturals, Sequences, FiniteSets, TLC

CONSTANTS KeyIds,    \* key ids used by this configuration (subset of 1..8)
          ValIds     \* value ids used (subset of 1..8); 0 = absent / empty value

-----------------------------------------------------------------------------
(* Universe                                                                *)

Rep(n, b) == [i \in 1..n |-> b]

KeyBytes(k) ==
  CASE k = 1 -> <<>>                                   \* the empty key
    [] k = 2 -> <<18>>                                 \* 0x12      strict prefix of 3,4,5
    [] k = 3 -> <<18, 52>>                             \* 0x1234
    [] k = 4 -> <<18, 53>>                             \* 0x1235    leaves 3 after 3 nibbles (odd)
    [] k = 5 -> <<18, 68>>                             \* 0x1244    leaves 3 after 2 nibbles (even)
    [] k = 6 -> <<160>> \o Rep(30, 17) \o <<1>>        \* 32 bytes
    [] k = 7 -> <<160>> \o Rep(30, 17) \o <<2>>        \* 32 bytes, shares 63 nibbles with 6
    [] k = 8 -> <<161>> \o Rep(31, 34)                 \* 32 bytes, shares 1 nibble with 6,7
    (* long keys: nodes deeper than 255 nibbles (P = 128 bytes 0x5a, Q = 0x3c bytes) *)
    [] k = 9  -> Rep(128, 90) \o <<1>>                  \* 129 bytes
    [] k = 10 -> Rep(128, 90) \o <<2>>                  \* 129 bytes, shares 257 nibbles with 9
    [] k = 11 -> Rep(128, 90) \o <<19>>                 \* 129 bytes, shares 256 nibbles with 9, 10
    [] k = 12 -> Rep(128, 90)                           \* 128 bytes: a prefix of 9, 10, 11, 13, 14
    [] k = 13 -> Rep(128, 90) \o Rep(128, 60)           \* 256 bytes
    [] k = 14 -> Rep(128, 90) \o Rep(127, 60)           \* 255 bytes: a prefix of 13
    [] k = 15 -> Rep(127, 90)                           \* 127 bytes: a prefix of 12
    [] k = 16 -> <<90>> \o Rep(63, 7)                   \* 64 bytes, shares 1 byte with the long ones

Nibbles(bs) == [i \in 1..(2 * Len(bs)) |-> IF i % 2 = 1 THEN bs[(i + 1) \div 2] \div 16 ELSE bs[i \div 2] % 16]

Term == 16
AllKeyIds == 1..16
AllValIds == 1..9
PathOf(k) == Nibbles(KeyBytes(k)) \o <<Term>>           \* keybytesToHex

(* value id -> length in bytes and first byte (all that RLP sizes depend on) *)
VLen(v)   == CASE v = 1 -> 1  [] v = 2 -> 1  [] v = 3 -> 28 [] v = 4 -> 29
               [] v = 5 -> 31 [] v = 6 -> 32 [] v = 7 -> 40 [] v = 8 -> 56 [] v = 9 -> 33
VFirst(v) == CASE v = 1 -> 42 [] v = 2 -> 128 [] OTHER -> 224 + v


-----------------------------------------------------------------------------
(* Node constructors and helpers                                           *)

Nil         == <<"N">>
Val(v)      == <<"V", v>>
Short(k, c) == <<"S", k, c>>
Full(ch)    == <<"F", ch>>
Hsh(sub)    == <<"H", sub>>
EmptyCh     == [i \in 1..17 |-> Nil]

Kind(n) == n[1]
HasTerm(key) == Len(key) > 0 /\ key[Len(key)] = Term
Drop(s, n) == SubSeq(s, n + 1, Len(s))
Take(s, n) == SubSeq(s, 1, n)

(* length of the common prefix, by bisection on sub-sequence equality (keys may be 513 nibbles long) *)
RECURSIVE PrefixBetween(_, _, _, _)
PrefixBetween(a, b, lo, hi) ==     \* the first lo elements agree; the answer is in lo..hi
  IF lo = hi THEN lo
  ELSE LET mid == (lo + hi + 1) \div 2
       IN  IF SubSeq(a, lo + 1, mid) = SubSeq(b, lo + 1, mid) THEN PrefixBetween(a, b, mid, hi)
           ELSE PrefixBetween(a, b, lo, mid - 1)
PrefixLen(a, b) == PrefixBetween(a, b, 0, IF Len(a) < Len(b) THEN Len(a) ELSE Len(b))

-----------------------------------------------------------------------------
(* RLP sizes, computed structurally (hasher.store embeds a child whose     *)
(* encoding is shorter than 32 bytes and references the others by hash)    *)

LenOfLen(n)      == IF n < 256 THEN 1 ELSE IF n < 65536 THEN 2 ELSE 3
StrItemLen(n, f) == IF n = 1 /\ f < 128 THEN 1
                    ELSE IF n < 56 THEN 1 + n ELSE 1 + LenOfLen(n) + n
ListItemLen(p)   == IF p < 56 THEN 1 + p ELSE 1 + LenOfLen(p) + p
(* hexToCompact: flag byte (< 0x40) + one byte per nibble pair *)
CompactLen(key)  == LET nn == IF HasTerm(key) THEN Len(key) - 1 ELSE Len(key)
                    IN (nn \div 2) + 1

RECURSIVE EncLen(_), RefLen(_), SumRef(_, _)
RefLen(c) ==
  CASE Kind(c) = "N" -> 1
    [] Kind(c) = "V" -> StrItemLen(VLen(c[2]), VFirst(c[2]))
    [] Kind(c) = "H" -> 33
    [] OTHER -> LET e == EncLen(c) IN IF e < 32 THEN e ELSE 33
SumRef(ch, i) == IF i = 0 THEN 0 ELSE RefLen(ch[i]) + SumRef(ch, i - 1)
EncLen(n) ==
  CASE Kind(n) = "S" -> ListItemLen(StrItemLen(CompactLen(n[2]), 0) + RefLen(n[3]))
    [] Kind(n) = "F" -> ListItemLen(SumRef(n[2], 17))
    [] Kind(n) = "H" -> EncLen(n[2])

(* a node that is stored under its own hash (not inside its parent) *)
Hashable(n) == Kind(n) \in {"S", "F"} /\ EncLen(n) >= 32

-----------------------------------------------------------------------------
(* Layer 1: the canonical trie of a content                                *)

(* S: set of <<path, v>> with distinct terminated paths (relative to the   *)
(* current position)                                                       *)
CommonLen(S) ==
  LET e0 == CHOOSE e \in S : TRUE
      ls == {PrefixLen(e0[1], e[1]) : e \in S}
  IN  CHOOSE n \in ls : \A m \in ls : n <= m

RECURSIVE CanonS(_)
CanonS(S) ==
  IF S = {} THEN Nil
  ELSE IF Cardinality(S) = 1
    THEN LET e == CHOOSE e \in S : TRUE
         IN  IF e[1] = <<>> THEN Val(e[2]) ELSE Short(e[1], Val(e[2]))
  ELSE LET cp == CommonLen(S) IN
    IF cp > 0
      THEN LET e0 == CHOOSE e \in S : TRUE
           IN  Short(Take(e0[1], cp), CanonS({<<Drop(e[1], cp), e[2]>> : e \in S}))
      ELSE Full([i \in 1..17 |->
                   CanonS({<<Tail(e[1]), e[2]>> : e \in {x \in S : x[1][1] = i - 1}})])

Pairs(c)  == {<<PathOf(k), c[k]>> : k \in {x \in DOMAIN c : c[x] # 0}}
Canon(c)  == CanonS(Pairs(c))

-----------------------------------------------------------------------------
(* Loading a stored node (decodeNode): embedded children come inline,      *)
(* separately stored children as hash references                           *)

RECURSIVE Load(_), Ref(_)
Ref(c) == IF Kind(c) \in {"N", "V"} THEN c
          ELSE IF EncLen(c) < 32 THEN Load(c) ELSE Hsh(c)
Load(sub) ==
  CASE Kind(sub) = "S" -> Short(sub[2], Ref(sub[3]))
    [] Kind(sub) = "F" -> Full([i \in 1..17 |-> Ref(sub[2][i])])
    [] OTHER -> sub

(* the tree with every hash reference replaced by what it stands for *)
RECURSIVE Expand(_)
Expand(n) ==
  CASE Kind(n) = "H" -> n[2]
    [] Kind(n) = "S" -> Short(n[2], Expand(n[3]))
    [] Kind(n) = "F" -> Full([i \in 1..17 |-> Expand(n[2][i])])
    [] OTHER -> n

-----------------------------------------------------------------------------
(* Layer 2: trie.go transcribed.  Results are <<dirty, node>> as in the    *)
(* code; `val` is a node (valueNode, or the old child when branching out). *)

RECURSIVE InsertR(_, _, _)
InsertR(n, key, val) ==
  IF key = <<>>
    THEN IF Kind(n) = "V" THEN <<n # val, val>> ELSE <<TRUE, val>>
  ELSE CASE Kind(n) = "S" ->
         LET m == PrefixLen(key, n[2]) IN
         IF m = Len(n[2])
           THEN (* whole key of the short node matches: update below it *)
                LET r == InsertR(n[3], Drop(key, m), val) IN
                IF ~r[1] THEN <<FALSE, n>> ELSE <<TRUE, Short(n[2], r[2])>>
           ELSE (* branch out where they differ *)
                LET old == InsertR(Nil, Drop(n[2], m + 1), n[3])[2]
                    new == InsertR(Nil, Drop(key, m + 1), val)[2]
                    br  == Full([i \in 1..17 |-> IF i = n[2][m + 1] + 1 THEN old
                                                 ELSE IF i = key[m + 1] + 1 THEN new
                                                 ELSE Nil])
                IN  IF m = 0 THEN <<TRUE, br>> ELSE <<TRUE, Short(Take(key, m), br)>>
       [] Kind(n) = "F" ->
         LET r == InsertR(n[2][key[1] + 1], Tail(key), val) IN
         IF ~r[1] THEN <<FALSE, n>>
         ELSE <<TRUE, Full([n[2] EXCEPT ![key[1] + 1] = r[2]])>>
       [] Kind(n) = "N" -> <<TRUE, Short(key, val)>>
       [] Kind(n) = "H" ->
         LET rn == Load(n[2])
             r  == InsertR(rn, key, val)
         IN  IF ~r[1] THEN <<FALSE, rn>> ELSE r
       [] Kind(n) = "V" -> <<TRUE, n>>    \* unreachable with terminated keys

NonNil(ch) == {i \in 1..17 : ch[i] # Nil}

RECURSIVE DeleteR(_, _)
DeleteR(n, key) ==
  CASE Kind(n) = "S" ->
         LET m == PrefixLen(key, n[2]) IN
         IF m < Len(n[2]) THEN <<FALSE, n>>            \* not in the trie
         ELSE IF m = Len(key) THEN <<TRUE, Nil>>       \* whole match: drop n
         ELSE LET r == DeleteR(n[3], Drop(key, Len(n[2]))) IN
              IF ~r[1] THEN <<FALSE, n>>
              ELSE IF Kind(r[2]) = "S"
                     THEN <<TRUE, Short(n[2] \o r[2][2], r[2][3])>>   \* merge short{short}
                     ELSE <<TRUE, Short(n[2], r[2])>>
    [] Kind(n) = "F" ->
         LET r == DeleteR(n[2][key[1] + 1], Tail(key)) IN
         IF ~r[1] THEN <<FALSE, n>>
         ELSE LET ch   == [n[2] EXCEPT ![key[1] + 1] = r[2]]
                  left == NonNil(ch)
              IN  IF Cardinality(left) = 1
                    THEN LET pos == CHOOSE i \in left : TRUE
                             cn  == IF Kind(ch[pos]) = "H" THEN Load(ch[pos][2]) ELSE ch[pos]
                         IN  IF pos # 17 /\ Kind(cn) = "S"
                               THEN <<TRUE, Short(<<pos - 1>> \o cn[2], cn[3])>>
                               ELSE <<TRUE, Short(<<pos - 1>>, ch[pos])>>
                    ELSE <<TRUE, Full(ch)>>
    [] Kind(n) = "V" -> <<TRUE, Nil>>
    [] Kind(n) = "N" -> <<FALSE, Nil>>
    [] Kind(n) = "H" ->
         LET rn == Load(n[2])
             r  == DeleteR(rn, key)
         IN  IF ~r[1] THEN <<FALSE, rn>> ELSE r

(* tryGet: <<value id or 0, tree with the path resolved>> *)
RECURSIVE LookupR(_, _)
LookupR(n, key) ==
  CASE Kind(n) = "N" -> <<0, n>>
    [] Kind(n) = "V" -> <<n[2], n>>
    [] Kind(n) = "S" ->
         IF Len(key) < Len(n[2]) \/ Take(key, Len(n[2])) # n[2] THEN <<0, n>>
         ELSE LET r == LookupR(n[3], Drop(key, Len(n[2]))) IN <<r[1], Short(n[2], r[2])>>
    [] Kind(n) = "F" ->
         LET r == LookupR(n[2][key[1] + 1], Tail(key))
         IN  <<r[1], Full([n[2] EXCEPT ![key[1] + 1] = r[2]])>>
    [] Kind(n) = "H" -> LookupR(Load(n[2]), key)

Insert(t, k, v) == InsertR(t, PathOf(k), Val(v))[2]
Delete(t, k)    == DeleteR(t, PathOf(k))[2]
Lookup(t, k)    == LookupR(t, PathOf(k))[1]

(* TryUpdate: an empty value is a delete *)
UpdateTree(t, k, v) == IF v = 0 THEN Delete(t, k) ELSE Insert(t, k, v)

-----------------------------------------------------------------------------
(* Iteration order: pre-order of the trie, i.e. ascending order of the     *)
(* terminated nibble paths (Iterator / NodeIterator of iterator.go)        *)

PathLess(a, b) == LET m == PrefixLen(a, b)
                  IN  IF m = Len(a) THEN m < Len(b)
                      ELSE IF m = Len(b) THEN FALSE
                      ELSE a[m + 1] < b[m + 1]

(* all keys of the universe in that order (checked once by the ASSUME) *)
KeyOrder == <<3, 4, 5, 2, 16, 9, 10, 11, 13, 14, 12, 15, 6, 7, 8, 1>>
ASSUME /\ {KeyOrder[i] : i \in 1..Len(KeyOrder)} = AllKeyIds /\ Len(KeyOrder) = 16
       /\ \A i \in 1..15 : PathLess(PathOf(KeyOrder[i]), PathOf(KeyOrder[i + 1]))

(* The statement's "ascending key order" read literally is the order of the key BYTES: a key   *)
(* that is a proper prefix of another comes first.  The trie's pre-order puts it last (the    *)
(* value slot of a branch is child 16).  The two differ only when a live key is a proper      *)
(* prefix of another live key.                                                                *)
BytesLess(a, b) == LET m == PrefixLen(a, b)
                   IN  IF m = Len(a) THEN m < Len(b) ELSE IF m = Len(b) THEN FALSE ELSE a[m + 1] < b[m + 1]
KeyOrderBytes == <<1, 2, 3, 4, 5, 16, 15, 12, 9, 10, 11, 14, 13, 6, 7, 8>>
ASSUME /\ {KeyOrderBytes[i] : i \in 1..Len(KeyOrderBytes)} = AllKeyIds /\ Len(KeyOrderBytes) = 16
       /\ \A i \in 1..15 : BytesLess(KeyBytes(KeyOrderBytes[i]), KeyBytes(KeyOrderBytes[i + 1]))

Live(c)     == {k \in DOMAIN c : c[k] # 0}
IterOf(c)   == LET s == SelectSeq(KeyOrder, LAMBDA k : k \in Live(c)) IN [i \in 1..Len(s) |-> <<s[i], c[s[i]]>>]
IterBytesOf(c) == LET s == SelectSeq(KeyOrderBytes, LAMBDA k : k \in Live(c)) IN [i \in 1..Len(s) |-> <<s[i], c[s[i]]>>]

(* pre-order list of the nodes of a resolved tree:                         *)
(*   <<path, kind, key-or-value, embedded>>                                *)
RECURSIVE FlatAt(_, _, _)
FlatAt(n, path, top) ==
  CASE Kind(n) = "N" -> <<>>
    [] Kind(n) = "V" -> << <<path, "V", <<n[2]>>, TRUE>> >>
    [] Kind(n) = "S" -> << <<path, "S", n[2], ~top /\ EncLen(n) < 32>> >>
                        \o FlatAt(n[3], path \o n[2], FALSE)
    [] Kind(n) = "F" ->
         LET RECURSIVE Kids(_)
             Kids(i) == IF i > 17 THEN <<>>
                        ELSE FlatAt(n[2][i], path \o <<i - 1>>, FALSE) \o Kids(i + 1)
         IN  << <<path, "F", <<>>, ~top /\ EncLen(n) < 32>> >> \o Kids(1)
Flat(t) == FlatAt(t, <<>>, TRUE)

-----------------------------------------------------------------------------
(* The state machine                                                       *)

VARIABLES content,   \* key id -> value id, 0 = absent   (the abstract content)
          tree,      \* the in-memory node graph (Trie.root)
          limit,     \* Trie.cachelimit
          prov       \* where the resolved nodes that no call has rebuilt since come from:
                     \*   "built"  made by insert/delete, never committed (dirty)
                     \*   "clean"  the same objects after a Commit (hash cached, clean)
                     \*   "mem"    re-loaded from the NodeDatabase's memory layer (expandNode)
                     \*   "disk"   re-loaded from the disk store (decodeNode)
                     \* It does not influence any result of the reference; it makes the
                     \* generator visit every content / cache state once per provenance,
                     \* because the code paths that materialise a node differ.

VARIABLE dbst         \* the NodeDatabase memory layer: "empty" (nothing inserted since it was created),
                      \* "cached" (commits inserted nodes), "partly" (NodeDatabase.Cap flushed the older
                      \* part to disk), "flushed" (Cap(0): everything went to disk).  Like prov it never
                      \* influences a result of the reference: Cap may not change what any version reads.

vars == <<content, tree, limit, prov, dbst>>

Init == /\ content = [k \in KeyIds |-> 0]
        /\ tree = Nil
        /\ limit = 0
        /\ prov = "built"
        /\ dbst = "empty"

KeepProv == prov' = IF tree' = Nil THEN "built" ELSE prov

Update(k, v) ==
  /\ content' = [content EXCEPT ![k] = v]
  /\ tree' = UpdateTree(tree, k, v)
  /\ KeepProv
  /\ UNCHANGED <<limit, dbst>>

Del(k) ==
  /\ content' = [content EXCEPT ![k] = 0]
  /\ tree' = Delete(tree, k)
  /\ KeepProv
  /\ UNCHANGED <<limit, dbst>>

Get(k) ==
  /\ tree' = LookupR(tree, PathOf(k))[2]
  /\ UNCHANGED <<content, limit, prov, dbst>>

HashOnly == UNCHANGED vars          \* caches digests in the flags, nothing else

(* Commit stores every node; with cachelimit 0 clean nodes are unloaded    *)
(* (replaced by their hash), with a larger limit they stay resolved.       *)
Collapsed(t) == IF Kind(t) \in {"N", "V"} THEN t ELSE Load(Expand(t))
Commit ==
  /\ tree' = IF limit = 0 THEN Collapsed(tree) ELSE tree
  /\ prov' = IF tree = Nil THEN "built"
             ELSE IF prov = "built" THEN "clean"               \* first commit: same objects, now clean
             ELSE IF prov = "clean" /\ limit = 0 THEN "mem"    \* clean nodes are unloaded, come back from the db
             ELSE prov
  /\ dbst' = IF tree = Nil THEN dbst ELSE "cached"
  /\ UNCHANGED <<content, limit>>

(* NewTrie(root, db): the root is resolved, everything below it by need *)
Reopen(from) ==
  /\ tree' = Collapsed(tree)
  /\ limit' = 0
  /\ prov' = IF tree = Nil THEN "built" ELSE from
  /\ dbst' = IF from = "disk" THEN "empty" ELSE IF tree = Nil THEN dbst ELSE "cached"
  /\ UNCHANGED content

SetLimit(l) ==
  /\ limit' = l
  /\ UNCHANGED <<content, tree, prov, dbst>>

(* NodeDatabase.Cap(limit): flush the oldest cached nodes to disk until the memory layer is   *)
(* below the limit and drop them from memory (the driver computes the limit that flushes    *)
(* exactly the m oldest nodes).                                                              *)
(* memory.  No version may read differently afterwards, and whatever version has its root   *)
(* on disk must resolve from disk alone.                                                     *)
Cap(how) ==     \* how = 0: limit 0 (everything); how = m > 0: exactly the m oldest nodes of the flush-list
  /\ dbst' = IF dbst \in {"cached", "partly"} THEN (IF how = 0 THEN "flushed" ELSE "partly") ELSE dbst
  /\ UNCHANGED <<content, tree, limit, prov>>

Next ==
  \/ \E k \in KeyIds, v \in ValIds \cup {0} : Update(k, v)
  \/ \E k \in KeyIds : Del(k)
  \/ \E k \in KeyIds : Get(k)
  \/ HashOnly \/ Commit \/ Reopen("mem") \/ Reopen("disk")
  \/ \E l \in {0, 2} : SetLimit(l)
  \/ \E how \in {0, 1, 2} : Cap(how)

Spec == Init /\ [][Next]_vars

-----------------------------------------------------------------------------
(* The property on the model                                               *)

(* minimal form: what insert/delete maintain is the canonical trie *)
InvCanon   == Expand(tree) = Canon(content)
(* reads return the last value written *)
InvLookup  == \A k \in KeyIds : Lookup(tree, k) = content[k]
(* a hash reference only ever stands for a node that is stored separately *)
RECURSIVE RefsOk(_)
RefsOk(n) == CASE Kind(n) = "H" -> Hashable(n[2])
               [] Kind(n) = "S" -> RefsOk(n[3])
               [] Kind(n) = "F" -> \A i \in 1..17 : RefsOk(n[2][i])
               [] OTHER -> TRUE
InvEmbedded == RefsOk(tree)
(* never short{short}, never a branch with fewer than two children *)
RECURSIVE Minimal(_)
Minimal(n) == CASE Kind(n) = "S" -> /\ Kind(n[3]) # "S" /\ Len(n[2]) > 0
                                    /\ (Kind(n[3]) = "V" <=> HasTerm(n[2]))
                                    /\ Minimal(n[3])
                [] Kind(n) = "F" -> /\ Cardinality(NonNil(n[2])) >= 2
                                    /\ \A i \in 1..17 : Minimal(n[2][i])
                [] OTHER -> TRUE
InvMinimal == Minimal(Expand(tree))
TypeOK == /\ content \in [KeyIds -> ValIds \cup {0}]
          /\ limit \in {0, 2}
          /\ prov \in {"built", "clean", "mem", "disk"}
          /\ dbst \in {"empty", "cached", "partly", "flushed"}
=============================================================================
