SPECIFICATION GenSpec
CONSTANTS
  LongFrames = {}
  Accounts = {1, 2}
  Keys = {1, 2}
  MaxDepth = 4
  Depth = 4
  OpKinds = {"SN", "IN", "SD", "SC", "AB", "SB", "TB", "CA", "SU", "AR", "SR", "AL", "AA", "AS", "TS", "FIN", "PRE"}
  Seed = 0
  Runs = 0
INVARIANTS GenInv Dump
CHECK_DEADLOCK FALSE
