SPECIFICATION TraceSpec
CONSTANTS
  GasLimit = 1
  DepthLimit = 1
  Costs = {1}
  Requests = {1}
INVARIANT Report
CHECK_DEADLOCK FALSE
