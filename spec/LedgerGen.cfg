SPECIFICATION Spec
CONSTANTS
  Accounts = {1, 2, 3}
  MaxAmt = 2
  Depth = 6
INVARIANT Dump
CHECK_DEADLOCK FALSE
