SPECIFICATION TraceSpec
CONSTANTS
  MaxBal = 3
  Sorted = FALSE
INVARIANT Report
CHECK_DEADLOCK FALSE
