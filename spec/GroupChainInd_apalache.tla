----------------------- MODULE GroupChainInd_apalache -----------------------
(* GroupChainInd with concrete constants, for Apalache:
     apalache-mc check --init=Init    --inv=IndInv  --length=0 GroupChainInd_apalache.tla
     apalache-mc check --init=IndInit --inv=IndInv  --length=1 GroupChainInd_apalache.tla
     apalache-mc check --init=IndInit --inv=Implied --length=0 GroupChainInd_apalache.tla
     apalache-mc check --init=IndInit --next=NextAsCoded --inv=IndInv --length=1 ...   (must FAIL) *)
Ids == {1, 2, 3, 4, 5}
MaxH == 5
VARIABLES
  \* @type: Int -> { pre: Int, height: Int, present: Bool };
  store,
  \* @type: Int -> Int;
  hidx,
  \* @type: Int;
  count,
  \* @type: Int;
  last
INSTANCE GroupChainInd
IndInit == IndInv
=============================================================================
