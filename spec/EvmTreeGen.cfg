SPECIFICATION TSpec
CONSTANTS
  WB = 32
  StackLimit = 1024
  Alphabet = {0}
  MaxLen = 1
  Datas <- TreeDatas
INVARIANTS TInv TDump
CHECK_DEADLOCK FALSE
