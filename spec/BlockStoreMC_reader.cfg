SPECIFICATION Spec
CONSTANTS
  ReorgMarked = TRUE
  N = 3
  MaxDeliver = 3
  MaxCrash = 1
  Readers = 2
  ReadFill = FALSE
  Forks = FALSE
  Gaps = FALSE
INVARIANTS InvCache InvHeadLinked InvIndex InvHeadState InvMarks InvExecuted
CHECK_DEADLOCK FALSE
