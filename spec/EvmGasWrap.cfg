SPECIFICATION WSpec
INVARIANTS WInv WDump
CHECK_DEADLOCK FALSE
