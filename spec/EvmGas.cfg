SPECIFICATION GSpec
CONSTANTS
  GasLimit = 14
  DepthLimit = 2
  Costs = {1, 2, 3}
  Requests = {0, 1, 5, 100}
INVARIANTS Conserved Bounded DepthOK
PROPERTY Progress
CHECK_DEADLOCK FALSE
