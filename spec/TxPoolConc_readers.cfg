SPECIFICATION Spec
CONSTANTS
  Atomic = FALSE
  Readers = 2
  CachedView = FALSE
INVARIANT InvPackSeesPool
CHECK_DEADLOCK FALSE
