SPECIFICATION GSpec
CONSTANTS
  GasLimit = 40
  DepthLimit = 3
  Costs = {1, 2, 5}
  Requests = {0, 3, 10, 1000}
INVARIANTS Conserved Bounded DepthOK
PROPERTY Progress
CHECK_DEADLOCK FALSE
