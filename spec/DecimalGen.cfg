SPECIFICATION Spec
CONSTANTS
  SmallLen = 3
  SmallScale = 3
  IntLens = {0, 1, 2, 17, 18, 19, 20, 39, 60, 77, 78}
  FracLens = {0, 1, 2, 9, 17, 18}
  NumLens = {1, 2, 17, 18, 19, 20, 36, 37, 55, 77, 78}
  Decs = {0, 1, 6, 8, 9, 17, 18}
INVARIANTS Theorems
CHECK_DEADLOCK FALSE
