--------------------------- MODULE SignPartyGen ---------------------------
(***************************************************************************)
(* Behaviour generator for the SignParty extension: sequences of handler   *)
(* calls (cast messages of competing proposals, verify messages before and *)
(* after the proposal, the node's own share, re-deliveries, shares over    *)
(* another block, party time-outs) of length MaxLen -- exhaustively for    *)
(* short sequences, by seeded TLC simulation for long ones.  The design    *)
(* invariants are checked along every sequence; each sequence is printed   *)
(* as JSON and replayed on the real Processor by harness/cmd/c15p.         *)
(***************************************************************************)
EXTENDS SignParty, Json

GenInv == TypeOK /\ FinalisedAtMostOncePerBlock /\ OneBlockPerProposalKey /\ OnlySharesForTheBlock /\ LateSharesCount

Dump == (Len(hist) = MaxLen) =>
          PrintT(<<"HIST", ToJson([h |-> hist, nadd |-> Len(added), nparties |-> Cardinality(DOMAIN parties)])>>)
=============================================================================
