------------------------------ MODULE EvmGasWrap ------------------------------
(***************************************************************************)
(* Generator of C11 cases around the 64-bit boundary of the dynamic gas    *)
(* under Proposal026 (all dynamic gas x30, the memory fee already x30      *)
(* inside it).  For an instruction with a memory range of w words and a    *)
(* per-word / per-byte part over wl words, the node charges                *)
(*        ( Fee(w) * 30 + c0 + k * wl ) * 30,   Fee(w) = 3w + w*w \div 512  *)
(* Computed here in unbounded integers (BigNat, base 256).  The spec finds *)
(* by bisection the largest w whose fee part stays below ceil(2^64 / 30),  *)
(* and the wl that puts the total just below, and at or just above, 2^64.  *)
(* Every such cost is far above any gas limit, so the step must end its    *)
(* frame out of gas without resizing memory; an implementation that lets   *)
(* the product wrap charges a few gas and tries to allocate ~96 GiB.       *)
(* Each case is printed with its operands as big-endian byte strings.      *)
(***************************************************************************)
EXTENDS BigNat, Json, TLC

B == 256
N(n) == FromNat(n, B)
Two64 == [i \in 1..9 |-> IF i = 9 THEN 1 ELSE 0]
Two32 == [i \in 1..5 |-> IF i = 5 THEN 1 ELSE 0]
Threshold == Div(Add(Two64, N(29), B), N(30), B)          \* ceil(2^64 / 30)

Fee(w) == Add(MulSmall(w, 3, B), Div(Mul(w, w, B), N(512), B), B)
Inner(w, wl, c0, k) == Add(Add(MulSmall(Fee(w), 30, B), N(c0), B), MulSmall(wl, k, B), B)
Cost(w, wl, c0, k) == MulSmall(Inner(w, wl, c0, k), 30, B)

(* smallest w in lo..hi with Fee(w) * 30 + c0 >= Threshold *)
RECURSIVE Bisect(_, _, _)
Bisect(lo, hi, c0) ==
  IF lo = hi THEN lo
  ELSE LET mid == DivModSmall(Add(lo, hi, B), 2, B)[1] IN
       IF Le(Threshold, Add(MulSmall(Fee(mid), 30, B), N(c0), B)) THEN Bisect(lo, mid, c0)
       ELSE Bisect(Add(mid, <<1>>, B), hi, c0)

(* instruction classes: name, constant part c0, per-word price k of the length operand (in words of 32 bytes) *)
Classes == {[op |-> "calldatacopy", c0 |-> 0, k |-> 3], [op |-> "codecopy", c0 |-> 0, k |-> 3],
            [op |-> "mcopy", c0 |-> 0, k |-> 3], [op |-> "sha3", c0 |-> 0, k |-> 6],
            [op |-> "log0", c0 |-> 375, k |-> 256], [op |-> "log2", c0 |-> 1125, k |-> 256],
            [op |-> "create2", c0 |-> 0, k |-> 6]}
Positions == {"below", "first-above", "above"}

WOf(c) == Sub(Bisect(<<>>, Two32, c.c0), <<1>>, B)                     \* the largest w still below the threshold
WlFirst(c) == LET need == Sub(Threshold, Add(MulSmall(Fee(WOf(c)), 30, B), N(c.c0), B), B)
              IN Div(Add(need, N(c.k - 1), B), N(c.k), B)               \* ceil(need / k)
WlOf(c, pos) == CASE pos = "below" -> Sub(WlFirst(c), <<1>>, B)
                  [] pos = "first-above" -> WlFirst(c)
                  [] OTHER -> Add(WlFirst(c), N(1000), B)

BE(x) == LET d == Norm(x) IN [i \in 1..Len(d) |-> d[Len(d) - i + 1]]   \* big-endian bytes
Times32(x) == MulSmall(x, 32, B)

CaseOf(c, pos) ==
  LET w == WOf(c)  wl == WlOf(c, pos)  cost == Cost(w, wl, c.c0, c.k)
  IN [op |-> c.op, pos |-> pos,
      len |-> BE(Times32(wl)), off |-> BE(Times32(Sub(w, wl, B))),      \* the range [off, off + len) ends at word w
      above |-> Le(Two64, cost),                                         \* the true cost does not fit in 64 bits
      wrapped |-> BE(LowDigits(cost, 8))]                                \* what a 64-bit product would give

VARIABLE wc
WInit == wc \in Classes \X Positions
WSpec == WInit /\ [][FALSE]_wc
(* sanity of the construction: the length fits in the range, below is below and the others are not, and *)
(* every one of these costs is beyond any gas limit the node admits (10^12 is far above them all)       *)
WInv == LET c == wc[1]  pos == wc[2]  w == WOf(c)  wl == WlOf(c, pos)  cost == Cost(w, wl, c.c0, c.k) IN
        /\ Le(wl, w)
        /\ (pos = "below") = Lt(cost, Two64)
        /\ Lt(N(1000000), Convert(cost, B, B)) /\ Lt(Two32, cost)
WDump == PrintT(<<"WRAP", ToJson(CaseOf(wc[1], wc[2]))>>)
=============================================================================
