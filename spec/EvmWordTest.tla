---------------------------- MODULE EvmWordTest ----------------------------
(***************************************************************************)
(* Exhaustive comparison of EvmWord's digit-sequence definitions with      *)
(* TLC's native integer arithmetic on small words (WB = 1: all 65 536      *)
(* operand pairs; WB = 2: boundary-biased operand sets).  Each state is    *)
(* one operand triple; the invariant evaluates all 25 operations.          *)
(***************************************************************************)
EXTENDS EvmWord, TLC

CONSTANTS AVals, BVals, CVals        \* sets of native integers below 256^WB
VARIABLES a, b, c

M == 256 ^ WB
H == M \div 2
ToW(n) == FromNat(n, 256)
S(n) == IF n >= H THEN n - M ELSE n          \* signed reading
U(z) == z % M                                \* back to unsigned (TLC's % is the mathematical modulus)
AbsI(z) == IF z < 0 THEN 0 - z ELSE z
Sgn(z) == IF z < 0 THEN 0 - 1 ELSE 1

(* products without leaving 32-bit integers *)
RECURSIVE MulModNat(_, _, _)
MulModNat(x, y, n) == IF y = 0 THEN 0 ELSE (2 * MulModNat(x, y \div 2, n) + (y % 2) * x) % n
RECURSIVE ExpNat(_, _)
ExpNat(x, e) == IF e = 0 THEN 1 % M
                ELSE LET h == ExpNat(x, e \div 2)  h2 == MulModNat(h, h, M)
                     IN IF e % 2 = 1 THEN MulModNat(h2, x, M) ELSE h2
Bit(x, i) == (x \div (2 ^ i)) % 2
RECURSIVE BitFold(_, _, _, _)
BitFold(f(_, _), x, y, i) == IF i = WBits THEN 0 ELSE (2 ^ i) * f(Bit(x, i), Bit(y, i)) + BitFold(f, x, y, i + 1)
AndB(p, q) == p * q
OrB(p, q) == IF p + q > 0 THEN 1 ELSE 0
XorB(p, q) == (p + q) % 2

NSDiv(x, y) == IF y = 0 THEN 0 ELSE U(Sgn(S(x)) * Sgn(S(y)) * (AbsI(S(x)) \div AbsI(S(y))))
NSMod(x, y) == IF y = 0 THEN 0 ELSE U(Sgn(S(x)) * (AbsI(S(x)) % AbsI(S(y))))
NSignExt(k, x) == IF k >= WB - 1 THEN x
                  ELSE LET t == 2 ^ (8 * k + 8) IN
                       IF Bit(x, 8 * k + 7) = 1 THEN (x % t) + (M - t) ELSE x % t
NByte(i, x) == IF i >= WB THEN 0 ELSE (x \div (256 ^ (WB - 1 - i))) % 256
NShl(s, x) == IF s >= WBits THEN 0 ELSE MulModNat(x, 2 ^ s, M)
NShr(s, x) == IF s >= WBits THEN 0 ELSE x \div (2 ^ s)
NSar(s, x) == IF s >= WBits THEN (IF S(x) < 0 THEN M - 1 ELSE 0) ELSE U(S(x) \div (2 ^ s))
NB(p) == IF p THEN 1 ELSE 0

Check2(x, y) ==
  LET X == ToW(x)  Y == ToW(y) IN
  /\ IsWord(X) /\ IsWord(Y)
  /\ ADD(X, Y) = ToW((x + y) % M)
  /\ SUB(X, Y) = ToW(U(x - y))
  /\ MUL(X, Y) = ToW(MulModNat(x, y, M))
  /\ DIV(X, Y) = ToW(IF y = 0 THEN 0 ELSE x \div y)
  /\ MOD(X, Y) = ToW(IF y = 0 THEN 0 ELSE x % y)
  /\ SDIV(X, Y) = ToW(NSDiv(x, y))
  /\ SMOD(X, Y) = ToW(NSMod(x, y))
  /\ EXP(X, Y) = ToW(ExpNat(x, y))
  /\ SIGNEXTEND(X, Y) = ToW(NSignExt(x, y))
  /\ LT(X, Y) = ToW(NB(x < y)) /\ GT(X, Y) = ToW(NB(x > y))
  /\ SLT(X, Y) = ToW(NB(S(x) < S(y))) /\ SGT(X, Y) = ToW(NB(S(x) > S(y)))
  /\ EQ(X, Y) = ToW(NB(x = y)) /\ ISZERO(X) = ToW(NB(x = 0))
  /\ AND(X, Y) = ToW(BitFold(AndB, x, y, 0))
  /\ OR(X, Y) = ToW(BitFold(OrB, x, y, 0))
  /\ XOR(X, Y) = ToW(BitFold(XorB, x, y, 0))
  /\ NOT(X) = ToW(M - 1 - x)
  /\ BYTE(X, Y) = ToW(NByte(x, y))
  /\ SHL(X, Y) = ToW(NShl(x, y)) /\ SHR(X, Y) = ToW(NShr(x, y)) /\ SAR(X, Y) = ToW(NSar(x, y))
  /\ \A op \in BinaryOps : IsWord(Binary(op, X, Y))

Check3(x, y, z) ==
  LET X == ToW(x)  Y == ToW(y)  Z == ToW(z) IN
  /\ ADDMOD(X, Y, Z) = ToW(IF z = 0 THEN 0 ELSE ((x % z) + (y % z)) % z)
  /\ MULMOD(X, Y, Z) = ToW(IF z = 0 THEN 0 ELSE MulModNat(x % z, y % z, z))

(* one initial state per first operand; its successors (one per second and   *)
(* third operand) are evaluated by TLC's workers in parallel                  *)
Init == a \in AVals /\ b = 0 - 1 /\ c = 0 - 1
Next == b = 0 - 1 /\ b' \in BVals /\ c' \in CVals /\ a' = a
Spec == Init /\ [][Next]_<<a, b, c>>

(* binary operations are checked once per pair (at the first c) *)
CMin == CHOOSE m \in CVals : \A k \in CVals : m <= k
Agree == b >= 0 => ((c = CMin => Check2(a, b)) /\ Check3(a, b, c))

=============================================================================
