------------------------------- MODULE EvmMC -------------------------------
(* Model-checking instances of Evm: constant definitions a .cfg cannot express *)
EXTENDS Evm
DatasSmall == {<<>>, <<7, 91>>}
(* STOP ADD SUB DIV JUMP JUMPI JUMPDEST PUSH1 DUP1 MSTORE MLOAD *)
AlphaJump == {0, 1, 3, 4, 86, 87, 91, 96, 128, 82, 81}
(* every defined 1-byte-word opcode class once: arithmetic, memory, copy, stack, flow *)
AlphaWide == {0, 1, 2, 10, 11, 16, 21, 25, 26, 29, 32, 53, 54, 55, 56, 57, 61, 62, 80, 81, 82, 83, 86, 87,
              88, 89, 91, 94, 95, 96, 128, 129, 144, 243, 253, 254}
=============================================================================
