SPECIFICATION SSpec2
CONSTANTS
  WB = 32
  StackLimit = 1024
  Alphabet = {0}
  MaxLen = 1
  Datas <- StackDatas
INVARIANTS SInv2 SDump2
CHECK_DEADLOCK FALSE
