SPECIFICATION Spec
CONSTANTS
  MaxId = 5
  MaxOps = 7
  AsCoded = TRUE
INVARIANTS NothingDueWaits
CHECK_DEADLOCK FALSE
