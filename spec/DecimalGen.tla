----------------------------- MODULE DecimalGen -----------------------------
(***************************************************************************)
(* Exhaustive small-domain theorems of the decimal reference (Decimal.tla) *)
(* and generator of the case lattice replayed by harness/cmd/c18.          *)
(*                                                                         *)
(* phase 0: seeds; phase 1: one case per state                             *)
(*   [op |-> "small", neg, d]        every number of <= SmallLen digits:   *)
(*        theorems at the small scales 0..SmallScale, where the digit      *)
(*        semantics is also compared with TLC's own integer arithmetic     *)
(*   [op |-> "parse", neg, int, frac, dot]   literal shapes: integer-part  *)
(*        length x fractional length x digit patterns x sign               *)
(*   [op |-> "num", neg, d]          amounts: length x pattern x sign, and *)
(*        2^255, 2^256-1, 2^256                                            *)
(*   [op |-> "rescale", neg, d, dec] amounts x token decimal counts        *)
(* Theorems: Parse(Format(n)) = n at every scale; ToErc20(n,18) = n;       *)
(* ToErc20(ToLedger(n,d),d) = n; parsing is the arithmetic value; the      *)
(* byte <-> digit conversions used by the monitor are mutually inverse.    *)
(***************************************************************************)
EXTENDS Decimal, TLC, Json, FiniteSets

CONSTANTS SmallLen, SmallScale,
          IntLens, FracLens,     \* lengths of the parts of parsed literals
          NumLens,               \* digit counts of amounts
          Decs                   \* token decimal counts

VARIABLES phase, c
vars == <<phase, c>>

(* ---------------------------------------------------------------- patterns *)
PatNames == {"zeros", "nines", "one0", "four9", "five0", "mix"}
Pat(p, L) ==
  CASE p = "zeros" -> Zeros(L)
    [] p = "nines" -> [i \in 1..L |-> 9]
    [] p = "one0"  -> [i \in 1..L |-> IF i = 1 THEN 1 ELSE 0]
    [] p = "four9" -> [i \in 1..L |-> IF i = 1 THEN 4 ELSE 9]
    [] p = "five0" -> [i \in 1..L |-> IF i = 1 THEN 5 ELSE 0]
    [] p = "mix"   -> [i \in 1..L |-> (7 * i + 3) % 10]
PatSet(L, names) == { Pat(p, L) : p \in names }

Max256Digits == Rev(Convert([i \in 1..32 |-> 255], 256, 10))
Pow256Digits == Rev(Convert([i \in 1..33 |-> IF i = 33 THEN 1 ELSE 0], 256, 10))
Pow255Digits == Rev(Convert([i \in 1..32 |-> IF i = 32 THEN 128 ELSE 0], 256, 10))
Specials == {Max256Digits, Pow256Digits, Pow255Digits, <<>>}

(* ------------------------------------------------------------------- cases *)
SmallDigits == UNION { {s \in [1..n -> 0..9] : n = 0 \/ s[1] # 0} : n \in 0..SmallLen }

LitSet(il) ==
  UNION { UNION { UNION { { [op |-> "parse", neg |-> ng, int |-> i, frac |-> f, dot |-> (f # <<>>) \/ dt]
                            : dt \in (IF f = <<>> /\ il > 0 THEN BOOLEAN ELSE {TRUE}) }
                          : f \in {x \in UNION {PatSet(fl, PatNames) : fl \in FracLens} : il > 0 \/ x # <<>>} }
                  : i \in PatSet(il, PatNames) } : ng \in BOOLEAN }

Amounts(L) == { Num(ng, s) : ng \in BOOLEAN, s \in PatSet(L, PatNames \ {"zeros"}) }

(* strings offered as they are (class, text): zero-padded amounts, the literal syntaxes of Go/C,
   exponents, signs, blanks, lone dots, words *)
Raw(cls, str) == [op |-> "raw", cls |-> cls, s |-> str]
Ints == {"0", "1", "7", "8", "9", "10", "12", "100", "777", "2010", "18446744073709551616"}
RawCases ==
  { Raw("leadzero", sg \o z \o i \o f) :
      sg \in {"", "-", "+"}, z \in {"0", "00", "000"}, i \in Ints, f \in {"", ".5", ".50", ".000000000000000001"} }
  \cup { Raw("plain", sg \o i \o f) : sg \in {"", "-"}, i \in Ints, f \in {"", ".5", ".50"} }
  \cup { Raw("radix", str) : str \in {"0x10", "0X1f", "0x", "0xg", "-0x10", "0b11", "0B1", "0b2", "0o17", "0O7", "0o8", "0x1p4", "0x.8p1"} }
  \cup { Raw("separator", str) : str \in {"1_000", "1_0.5", "_1", "1_", "0_1", "1,000", "1'000"} }
  \cup { Raw("exponent", str) : str \in {"1e3", "1E3", "1e+3", "1e-3", "1.5e1", "12e-2", "1e0", "1e18", "1e-18", "-2.5e2", "00e1", "1e", "e3", "1e+", "1.e2", ".5e1"} }
  \cup { Raw("binexp", str) : str \in {"1p3", "1P3", "1p-1", "3p0", "1.5p1"} }
  \cup { Raw("sign", str) : str \in {"-", "+", "+1", "-0", "+0", "-0.0", "--1", "+-1", "-+1", "1-", "1+1"} }
  \cup { Raw("blank", str) : str \in {" 1", "1 ", "1 0", " ", "- 1", "1. 5"} }
  \cup { Raw("dots", str) : str \in {".5", "5.", ".", "-.5", "1.2.3", "1..2", "..", "-."} }
  \cup { Raw("word", str) : str \in {"Inf", "inf", "-Inf", "+inf", "Infinity", "infinity", "NaN", "nan", "abc", "0a", "1f", "1d"} }

Seeds == { [op |-> "seed", fam |-> "small", first |-> a] : a \in 0..9 }
         \cup { [op |-> "seed", fam |-> "parse", il |-> il] : il \in IntLens }
         \cup { [op |-> "seed", fam |-> "num", L |-> L] : L \in NumLens }
         \cup { [op |-> "seed", fam |-> "special"] }
         \cup { [op |-> "seed", fam |-> "raw"] }

NumCases(n) == { [op |-> "num", neg |-> n.neg, d |-> n.d] }
               \cup { [op |-> "rescale", neg |-> n.neg, d |-> n.d, dec |-> k] : k \in Decs }

CasesOf(s) ==
  CASE s.fam = "small" ->
         { [op |-> "small", neg |-> ng /\ d # <<>>, d |-> d] :
             ng \in BOOLEAN, d \in {x \in SmallDigits : (x = <<>> /\ s.first = 0) \/ (x # <<>> /\ x[1] = s.first)} }
    [] s.fam = "parse" -> LitSet(s.il)
    [] s.fam = "num" -> UNION { NumCases(n) : n \in Amounts(s.L) }
    [] s.fam = "raw" -> RawCases
    [] s.fam = "special" -> UNION { NumCases(Num(ng, d)) : ng \in BOOLEAN, d \in Specials }

Init == phase = 0 /\ c \in Seeds
Next == phase = 0 /\ phase' = 1 /\ c' \in CasesOf(c)
Spec == Init /\ [][Next]_vars

(* ---------------------------------------------------------------- theorems *)
RECURSIVE IntOf(_)
IntOf(d) == IF d = <<>> THEN 0 ELSE 10 * IntOf(SubSeq(d, 1, Len(d) - 1)) + d[Len(d)]
RECURSIVE Pow10(_)
Pow10(k) == IF k = 0 THEN 1 ELSE 10 * Pow10(k - 1)
Signed(n) == IF n.neg THEN 0 - IntOf(n.d) ELSE IntOf(n.d)

SmallTheorems(n) ==
  \A S \in 0..SmallScale :
    /\ Parse(Format(n, S), S) = n                                         \* lossless at every scale
    /\ LET l == Format(n, S) IN                                           \* the literal denotes n / 10^S
         IntOf(l.int) * Pow10(S) + IntOf(l.frac) = IntOf(n.d)
    /\ \A k \in 0..S :                                                    \* rescaling
         /\ Parse(Format(Parse(Format(n, k), S), S), k) = n               \*   token -> ledger -> token
         /\ Signed(Parse(Format(n, k), S)) = Signed(n) * Pow10(S - k)     \*   is a multiplication
         /\ LET t == Parse(Format(n, S), k) IN                            \*   ledger -> token truncates
              IntOf(t.d) = IntOf(n.d) \div Pow10(S - k) /\ (t.neg = (n.neg /\ t.d # <<>>))
    /\ Parse(Format(n, S), S) = n

BigTheorems(n) ==
  /\ Parse(FormatAmount(n), 18) = n
  /\ ToErc20(n, 18) = n /\ ToLedger(n, 18) = n
  /\ \A k \in 0..18 : ToErc20(ToLedger(n, k), k) = n
  /\ DigitsOfBytes(BytesOfDigits(n.d)) = n.d
  /\ Render(FormatAmount(n)) = (IF n.d = <<>> THEN "0" ELSE Render(Format(n, 18)))

ParseTheorems(l) ==
  LET n == Parse(l, 18) IN
  /\ Len(l.frac) <= 18
  /\ n.d = StripLZ(l.int \o l.frac \o Zeros(18 - Len(l.frac)))
  /\ Parse(FormatAmount(n), 18) = n

Theorems == phase = 1 =>
  CASE c.op = "small" -> SmallTheorems([neg |-> c.neg, d |-> c.d])
    [] c.op = "parse" -> ParseTheorems(c)
    [] c.op = "raw" -> TRUE
    [] c.op = "num" -> BigTheorems([neg |-> c.neg, d |-> c.d])
    [] c.op = "rescale" -> LET n == [neg |-> c.neg, d |-> c.d] IN
                           /\ ToErc20(ToLedger(n, c.dec), c.dec) = n
                           /\ (c.dec = 18 => ToErc20(n, 18) = n /\ ToLedger(n, 18) = n)

(* the reading of strings: leading zeros are insignificant, exponents shift, the rest is no amount *)
Codes(ds) == [i \in 1..Len(ds) |-> ds[i] + 48]
ASSUME LET l == ReadLiteral(<<48, 49, 48, 48>>) IN l.ok /\ Denoted(l).n = Parse([neg |-> FALSE, int |-> <<1, 0, 0>>, frac |-> <<>>, dot |-> FALSE], 18)
ASSUME \A z \in 0..3 : \A i \in {<<1>>, <<7, 7, 7>>, <<8>>} :
         LET l == ReadLiteral(Codes(Zeros(z) \o i)) IN l.ok /\ Denoted(l).n.d = i \o Zeros(18)
ASSUME LET l == ReadLiteral(<<49, 101, 45, 51>>) IN l.ok /\ Denoted(l).n.d = <<1>> \o Zeros(15) /\ Denoted(l).inScope    \* 1e-3
ASSUME ~ReadLiteral(<<48, 120, 49, 48>>).ok /\ ~ReadLiteral(<<49, 95, 48>>).ok /\ ~ReadLiteral(<<49, 112, 51>>).ok     \* 0x10 1_0 1p3
ASSUME ~ReadLiteral(<<73, 110, 102>>).ok /\ ~ReadLiteral(<<45>>).ok /\ ~ReadLiteral(<<32, 49>>).ok /\ ~ReadLiteral(<<46>>).ok
ASSUME ~Denoted(ReadLiteral(<<49, 101, 45, 49, 57>>)).inScope                                                       \* 1e-19

Dump == (phase = 1 /\ c.op # "small") => PrintT(<<"CASE", ToJson(c)>>)
=============================================================================
