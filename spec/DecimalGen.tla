----------------------------- MODULE DecimalGen -----------------------------
(***************************************************************************)
(* Exhaustive small-domain theorems of the decimal reference (Decimal.tla) *)
(* and generator of the case lattice replayed by harness/cmd/c18.          *)
(*                                                                         *)
(* phase 0: seeds; phase 1: one case per state                             *)
(*   [op |-> "small", neg, d]        every number of <= SmallLen digits:   *)
(*        theorems at the small scales 0..SmallScale, where the digit      *)
(*        semantics is also compared with TLC's own integer arithmetic     *)
(*   [op |-> "parse", neg, int, frac, dot]   literal shapes: integer-part  *)
(*        length x fractional length x digit patterns x sign               *)
(*   [op |-> "num", neg, d]          amounts: length x pattern x sign, and *)
(*        2^255, 2^256-1, 2^256                                            *)
(*   [op |-> "rescale", neg, d, dec] amounts x token decimal counts        *)
(* Theorems: Parse(Format(n)) = n at every scale; ToErc20(n,18) = n;       *)
(* ToErc20(ToLedger(n,d),d) = n; parsing is the arithmetic value; the      *)
(* byte <-> digit conversions used by the monitor are mutually inverse.    *)
(***************************************************************************)
EXTENDS Decimal, TLC, Json, FiniteSets

CONSTANTS SmallLen, SmallScale,
          IntLens, FracLens,     \* lengths of the parts of parsed literals
          NumLens,               \* digit counts of amounts
          Decs                   \* token decimal counts

VARIABLES phase, c
vars == <<phase, c>>

(* ---------------------------------------------------------------- patterns *)
PatNames == {"zeros", "nines", "one0", "four9", "five0", "mix"}
Pat(p, L) ==
  CASE p = "zeros" -> Zeros(L)
    [] p = "nines" -> [i \in 1..L |-> 9]
    [] p = "one0"  -> [i \in 1..L |-> IF i = 1 THEN 1 ELSE 0]
    [] p = "four9" -> [i \in 1..L |-> IF i = 1 THEN 4 ELSE 9]
    [] p = "five0" -> [i \in 1..L |-> IF i = 1 THEN 5 ELSE 0]
    [] p = "mix"   -> [i \in 1..L |-> (7 * i + 3) % 10]
PatSet(L, names) == { Pat(p, L) : p \in names }

Max256Digits == Rev(Convert([i \in 1..32 |-> 255], 256, 10))
Pow256Digits == Rev(Convert([i \in 1..33 |-> IF i = 33 THEN 1 ELSE 0], 256, 10))
Pow255Digits == Rev(Convert([i \in 1..32 |-> IF i = 32 THEN 128 ELSE 0], 256, 10))
Specials == {Max256Digits, Pow256Digits, Pow255Digits, <<>>}

(* ------------------------------------------------------------------- cases *)
SmallDigits == UNION { {s \in [1..n -> 0..9] : n = 0 \/ s[1] # 0} : n \in 0..SmallLen }

LitSet(il) ==
  UNION { UNION { UNION { { [op |-> "parse", neg |-> ng, int |-> i, frac |-> f, dot |-> (f # <<>>) \/ dt]
                            : dt \in (IF f = <<>> /\ il > 0 THEN BOOLEAN ELSE {TRUE}) }
                          : f \in {x \in UNION {PatSet(fl, PatNames) : fl \in FracLens} : il > 0 \/ x # <<>>} }
                  : i \in PatSet(il, PatNames) } : ng \in BOOLEAN }

Amounts(L) == { Num(ng, s) : ng \in BOOLEAN, s \in PatSet(L, PatNames \ {"zeros"}) }

Seeds == { [op |-> "seed", fam |-> "small", first |-> a] : a \in 0..9 }
         \cup { [op |-> "seed", fam |-> "parse", il |-> il] : il \in IntLens }
         \cup { [op |-> "seed", fam |-> "num", L |-> L] : L \in NumLens }
         \cup { [op |-> "seed", fam |-> "special"] }

NumCases(n) == { [op |-> "num", neg |-> n.neg, d |-> n.d] }
               \cup { [op |-> "rescale", neg |-> n.neg, d |-> n.d, dec |-> k] : k \in Decs }

CasesOf(s) ==
  CASE s.fam = "small" ->
         { [op |-> "small", neg |-> ng /\ d # <<>>, d |-> d] :
             ng \in BOOLEAN, d \in {x \in SmallDigits : (x = <<>> /\ s.first = 0) \/ (x # <<>> /\ x[1] = s.first)} }
    [] s.fam = "parse" -> LitSet(s.il)
    [] s.fam = "num" -> UNION { NumCases(n) : n \in Amounts(s.L) }
    [] s.fam = "special" -> UNION { NumCases(Num(ng, d)) : ng \in BOOLEAN, d \in Specials }

Init == phase = 0 /\ c \in Seeds
Next == phase = 0 /\ phase' = 1 /\ c' \in CasesOf(c)
Spec == Init /\ [][Next]_vars

(* ---------------------------------------------------------------- theorems *)
RECURSIVE IntOf(_)
IntOf(d) == IF d = <<>> THEN 0 ELSE 10 * IntOf(SubSeq(d, 1, Len(d) - 1)) + d[Len(d)]
RECURSIVE Pow10(_)
Pow10(k) == IF k = 0 THEN 1 ELSE 10 * Pow10(k - 1)
Signed(n) == IF n.neg THEN 0 - IntOf(n.d) ELSE IntOf(n.d)

SmallTheorems(n) ==
  \A S \in 0..SmallScale :
    /\ Parse(Format(n, S), S) = n                                         \* lossless at every scale
    /\ LET l == Format(n, S) IN                                           \* the literal denotes n / 10^S
         IntOf(l.int) * Pow10(S) + IntOf(l.frac) = IntOf(n.d)
    /\ \A k \in 0..S :                                                    \* rescaling
         /\ Parse(Format(Parse(Format(n, k), S), S), k) = n               \*   token -> ledger -> token
         /\ Signed(Parse(Format(n, k), S)) = Signed(n) * Pow10(S - k)     \*   is a multiplication
         /\ LET t == Parse(Format(n, S), k) IN                            \*   ledger -> token truncates
              IntOf(t.d) = IntOf(n.d) \div Pow10(S - k) /\ (t.neg = (n.neg /\ t.d # <<>>))
    /\ Parse(Format(n, S), S) = n

BigTheorems(n) ==
  /\ Parse(FormatAmount(n), 18) = n
  /\ ToErc20(n, 18) = n /\ ToLedger(n, 18) = n
  /\ \A k \in 0..18 : ToErc20(ToLedger(n, k), k) = n
  /\ DigitsOfBytes(BytesOfDigits(n.d)) = n.d
  /\ Render(FormatAmount(n)) = (IF n.d = <<>> THEN "0" ELSE Render(Format(n, 18)))

ParseTheorems(l) ==
  LET n == Parse(l, 18) IN
  /\ Len(l.frac) <= 18
  /\ n.d = StripLZ(l.int \o l.frac \o Zeros(18 - Len(l.frac)))
  /\ Parse(FormatAmount(n), 18) = n

Theorems == phase = 1 =>
  CASE c.op = "small" -> SmallTheorems([neg |-> c.neg, d |-> c.d])
    [] c.op = "parse" -> ParseTheorems(c)
    [] c.op = "num" -> BigTheorems([neg |-> c.neg, d |-> c.d])
    [] c.op = "rescale" -> LET n == [neg |-> c.neg, d |-> c.d] IN
                           /\ ToErc20(ToLedger(n, c.dec), c.dec) = n
                           /\ (c.dec = 18 => ToErc20(n, 18) = n /\ ToLedger(n, 18) = n)

Dump == (phase = 1 /\ c.op # "small") => PrintT(<<"CASE", ToJson(c)>>)
=============================================================================
