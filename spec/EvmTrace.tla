------------------------------ MODULE EvmTrace ------------------------------
(***************************************************************************)
(* Trace monitor for C10.  trace.ndjson is the step stream hook H6 records *)
(* while the real interpreter runs programs (harness/cmd/c10):             *)
(*   Begin  - a program starts: code, call data                            *)
(*   Enter / Exit - a callee frame (CALL family, CREATE) starts with its    *)
(*            code and input / ends; callee frames are judged like the     *)
(*            outermost one, each from the initial machine state           *)
(*   Step   - an instruction completed: the stack (top first), memory and  *)
(*            return data as the interpreter left them, the pc of the next *)
(*            instruction of the frame (or -1 and how the frame ended)     *)
(*   Fault  - an instruction ended its frame with an error                 *)
(*   End    - the outermost call returned                                  *)
(*   Final  - for TLC-generated programs: the final state EvmGen predicted *)
(*            next to the one observed                                     *)
(*   Vector - one of the repository's testdata vectors next to the result  *)
(*            the interpreter produced for it                              *)
(* The monitor's variables always hold the *observed* state after the      *)
(* previous event; every Step is recomputed from them with Evm!Exec and    *)
(* the observed post-state is judged against the result.                   *)
(* Verdict tags (prefix Inv.) are clauses of the property: post-state equality,  *)
(* jump landing, faults the reference does not have.  Tags with prefix Proj. or Ref. are   *)
(* coherence judgements about the recording or the reference itself.       *)
(***************************************************************************)
EXTENDS Evm, Json, TLC

Trace == ndJsonDeserialize("trace.ndjson")
NoDatas == {<<>>}

VARIABLES l, bad, live,
          fstack,                \* suspended caller frames: <<code, data, st, live>>, outermost first
          dead                   \* recording of this run stopped (StepBound): nothing more is judged
tvars == <<vars, l, bad, live, fstack, dead>>
CurDepth == Len(fstack) + 1

OpName(op) ==
  CASE op = 1 -> "ADD" [] op = 2 -> "MUL" [] op = 3 -> "SUB" [] op = 4 -> "DIV" [] op = 5 -> "SDIV"
    [] op = 6 -> "MOD" [] op = 7 -> "SMOD" [] op = 8 -> "ADDMOD" [] op = 9 -> "MULMOD" [] op = 10 -> "EXP"
    [] op = 11 -> "SIGNEXTEND" [] op = 16 -> "LT" [] op = 17 -> "GT" [] op = 18 -> "SLT" [] op = 19 -> "SGT"
    [] op = 20 -> "EQ" [] op = 21 -> "ISZERO" [] op = 22 -> "AND" [] op = 23 -> "OR" [] op = 24 -> "XOR"
    [] op = 25 -> "NOT" [] op = 26 -> "BYTE" [] op = 27 -> "SHL" [] op = 28 -> "SHR" [] op = 29 -> "SAR"
    [] op = STOP -> "STOP" [] op = SHA3 -> "SHA3" [] op = CALLDATALOAD -> "CALLDATALOAD"
    [] op = CALLDATASIZE -> "CALLDATASIZE" [] op = CALLDATACOPY -> "CALLDATACOPY" [] op = CODESIZE -> "CODESIZE"
    [] op = CODECOPY -> "CODECOPY" [] op = RETURNDATASIZE -> "RETURNDATASIZE" [] op = RETURNDATACOPY -> "RETURNDATACOPY"
    [] op = POP -> "POP" [] op = MLOAD -> "MLOAD" [] op = MSTORE -> "MSTORE" [] op = MSTORE8 -> "MSTORE8"
    [] op = JUMP -> "JUMP" [] op = JUMPI -> "JUMPI" [] op = PCOP -> "PC" [] op = MSIZE -> "MSIZE"
    [] op = JUMPDEST -> "JUMPDEST" [] op = MCOPY -> "MCOPY" [] op = PUSH0 -> "PUSH0" [] op = RETURN -> "RETURN"
    [] op = REVERT -> "REVERT" [] IsPush(op) -> "PUSH" [] IsDup(op) -> "DUP" [] IsSwap(op) -> "SWAP"
    [] OTHER -> "OTHER"

Tag(c, t) == IF c THEN <<>> ELSE <<t>>

(* an out-of-gas fault is justified (gas is ample in C10 runs) only by a memory requirement beyond MemFloor *)
MemFloor == 65536

ObsMem(e) == IF e.memc THEN e.mem ELSE st.mem
ObsRd(e)  == IF e.rdc THEN e.rd ELSE st.rd

JudgeStep(e) ==
  LET op == e.op
      nm == OpName(op)
      r  == Exec(code, data, st, LAMBDA bs : IF bs = e.auxin THEN e.aux ELSE <<"slice-differs">>)
  IN Tag(e.pc = st.pc /\ OpAt(code, st.pc) = op /\ e.sl0 = Len(st.stack) /\ e.ml0 = Len(st.mem), "Proj.chain") \o
     Tag(~e.memBig, "Proj.memory-image-missing") \o
     IF ~Defined(op) THEN <<>>
     ELSE IF r.kind = "fault" THEN <<"Inv.accepted-" \o r.how \o ":" \o nm>>
     ELSE IF r.kind = "halt" THEN
          Tag(e.npc = 0 - 1, "Inv.pc:" \o nm) \o
          Tag(e.halt = (IF r.how = "revert" THEN "revert" ELSE "halt"), "Inv.halt:" \o nm) \o
          Tag(e.ret = r.ret, "Inv.ret:" \o nm) \o
          Tag(e.stack = r.st.stack, "Inv.stack:" \o nm) \o
          Tag(ObsMem(e) = r.st.mem, "Inv.mem:" \o nm)
     ELSE Tag(e.stack = r.st.stack, "Inv.stack:" \o nm) \o
          Tag(ObsMem(e) = r.st.mem, "Inv.mem:" \o nm) \o
          Tag(e.npc = r.st.pc, "Inv.pc:" \o nm) \o
          Tag(~e.rdc, "Inv.rd:" \o nm) \o
          (IF op \in {JUMP, JUMPI} /\ e.npc # st.pc + 1
             THEN Tag(e.npc >= 0 /\ e.npc < Len(code) /\ code[e.npc + 1] = JUMPDEST /\ InstrStart(code, e.npc),
                      "Inv.jumpdest:" \o nm)
             ELSE <<>>)

JudgeFault(e) ==
  LET op == e.op
      nm == OpName(op)
      r  == Exec(code, data, st, LAMBDA bs : <<>>)
      need == IF Defined(op) /\ Len(st.stack) >= Pops(op) THEN MemNeed(op, st.stack) ELSE 0
  IN Tag(e.pc = st.pc /\ OpAt(code, st.pc) = op, "Proj.chain") \o
     IF ~Defined(op) THEN <<>>               \* outside the computational set (CALL family, CREATE ...): not judged
     ELSE IF e.err \in {"oog", "gasoverflow"} THEN Tag(need > MemFloor, "Inv.fault-unjustified-oog:" \o nm)
     ELSE IF r.kind # "fault" THEN <<"Inv.fault-unjustified-" \o e.err \o ":" \o nm>>
     ELSE Tag(r.how = e.err, "Inv.fault-class:" \o nm)

JudgeFinal(e) ==
  Tag(e.obs.status = e.exp.status, "Inv.final-status") \o
  (IF e.exp.status \in {"stop", "return", "revert"}
     THEN Tag(e.obs.stack = e.exp.stack, "Inv.final-stack") \o Tag(e.obs.mem = e.exp.mem, "Inv.final-mem") \o
          Tag(e.obs.ret = e.exp.ret, "Inv.final-ret")
     ELSE <<>>)

JudgeVector(e) ==
  Tag(e.got = e.expected, "Inv.vector:" \o OpName(e.op)) \o
  Tag(Binary(e.op, e.y, e.x) = e.expected, "Ref.vector:" \o OpName(e.op))

Judge(e) ==
  CASE e.event = "Step" /\ e.depth = CurDepth /\ live /\ ~dead  -> JudgeStep(e)
    [] e.event = "Fault" /\ e.depth = CurDepth /\ live /\ ~dead -> JudgeFault(e)
    [] e.event = "Final"  -> JudgeFinal(e)
    [] e.event = "Vector" -> JudgeVector(e)
    (* StepBound: the driver stopped recording this run after its step bound (the bound keeps the traces of     *)
    (* programs that loop - legitimately, or because of a deviation - small).  Every recorded step before it    *)
    (* was judged, and a deviation that makes a program run on is judged at its step; the rest of the run is    *)
    (* simply not judged (the drivers count such runs).                                                         *)
    [] e.event \in {"Begin", "End", "Step", "Fault", "Enter", "Exit", "StepBound", "Sync"} -> <<>>
    [] OTHER -> <<"Proj.unknown-event">>

TraceInit == /\ code = <<>> /\ data = <<>> /\ st = InitState /\ status = "run" /\ jumped = FALSE /\ ret = <<>>
             /\ l = 1 /\ bad = <<>> /\ live = FALSE /\ fstack = <<>> /\ dead = FALSE

TraceNext ==
  /\ l <= Len(Trace)
  /\ l' = l + 1
  /\ LET e == Trace[l]
         j == Judge(e)
     IN /\ bad' = bad \o [i \in 1..Len(j) |-> <<l, e.event, j[i]>>]
        /\ CASE e.event = "Begin" ->
                  /\ code' = e.code /\ data' = e.data /\ st' = InitState /\ live' = TRUE
                  /\ fstack' = <<>> /\ dead' = FALSE
             (* a callee frame (CALL family, CREATE): the caller is suspended, the callee starts from the initial  *)
             (* machine state with its own code and input                                                          *)
             [] e.event = "Enter" /\ e.depth = CurDepth + 1 ->
                  /\ fstack' = Append(fstack, [code |-> code, data |-> data, st |-> st, live |-> live])
                  /\ code' = e.code /\ data' = e.data /\ st' = InitState /\ live' = TRUE
                  /\ UNCHANGED dead
             [] e.event = "Exit" /\ e.depth = CurDepth /\ fstack # <<>> ->
                  /\ code' = fstack[Len(fstack)].code /\ data' = fstack[Len(fstack)].data
                  /\ st' = fstack[Len(fstack)].st /\ live' = fstack[Len(fstack)].live
                  /\ fstack' = SubSeq(fstack, 1, Len(fstack) - 1)
                  /\ UNCHANGED dead
             [] e.event = "Step" /\ e.depth = CurDepth /\ live ->
                  /\ st' = [pc |-> e.npc, stack |-> e.stack, mem |-> ObsMem(e), rd |-> ObsRd(e)]
                  /\ live' = (e.npc >= 0)
                  /\ UNCHANGED <<code, data, fstack, dead>>
             (* Sync: a long prefix of the program (e.g. filling the stack) was not recorded step by step; the   *)
             (* complete observed state after it is bound here and the steps that follow are judged from it       *)
             [] e.event = "Sync" /\ CurDepth = 1 ->
                  /\ st' = [pc |-> e.npc, stack |-> e.stack, mem |-> e.mem, rd |-> e.rd]
                  /\ live' = (e.npc >= 0)
                  /\ UNCHANGED <<code, data, fstack, dead>>
             [] e.event = "StepBound" ->
                  /\ dead' = TRUE /\ UNCHANGED <<code, data, st, live, fstack>>
             [] e.event = "Fault" /\ e.depth = CurDepth ->
                  /\ live' = FALSE /\ UNCHANGED <<code, data, st, fstack, dead>>
             [] OTHER -> UNCHANGED <<code, data, st, live, fstack, dead>>
        /\ UNCHANGED <<status, jumped, ret>>

TraceSpec == TraceInit /\ [][TraceNext]_tvars

Report == (l = Len(Trace) + 1) => PrintT(<<"VERDICT", Len(Trace), ToJson(bad)>>)
=============================================================================
