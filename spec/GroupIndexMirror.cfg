SPECIFICATION Spec
CONSTANTS
  Ids = {1, 2, 3}
  MaxCrash = 1
INVARIANT RowsCoverChain
CHECK_DEADLOCK FALSE
