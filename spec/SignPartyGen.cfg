SPECIFICATION Spec
CONSTANTS
  Props = {"A", "A2", "B"}
  Others = {2, 3}
  KThr = 2
  MaxDup = 1
  MaxLen = 4
  MaxTimeouts = 1
  MaxForged = 2
  MaxFire = 1
INVARIANTS GenInv Dump
CHECK_DEADLOCK FALSE
