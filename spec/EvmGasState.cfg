SPECIFICATION SSpec
CONSTANTS
  GasLimit = 1
  DepthLimit = 1
  Costs = {1}
  Requests = {0}
  Values = {0, 1, 2}
  MaxWrites = 3
INVARIANTS RefundNonNegative NetAtLeastSload RestoredIsCheap ActiveNotCheaper SDump
CHECK_DEADLOCK FALSE
