SPECIFICATION Spec
CONSTANTS
  MaxBal = 3
  Sorted = FALSE
INVARIANT Dump
CHECK_DEADLOCK FALSE
