SPECIFICATION Spec
CONSTANTS
  NMem = 4
  KThr = 3
  Byz = {4}
  MaxByz = 3
  MaxDup = 1
  MaxLen = 6
  Focus = "keys"
  AsCoded = TRUE
INVARIANTS TypeOK OnlyValidShares ThresholdImpliesValidGroupSig OneFaultTolerated BeaconFollowsBlock KeyTableGenuine
CHECK_DEADLOCK FALSE
