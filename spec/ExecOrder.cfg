SPECIFICATION Spec
CONSTANTS
  MaxBal = 3
  Sorted = TRUE
INVARIANTS Confluent FoldsCommute
CHECK_DEADLOCK FALSE
