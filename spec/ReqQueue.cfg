SPECIFICATION Spec
CONSTANTS
  MaxId = 5
  MaxOps = 7
  AsCoded = FALSE
INVARIANTS TypeOK InOrder Settled NothingDueWaits
PROPERTIES NoStaleAfterSet
CHECK_DEADLOCK FALSE
