SPECIFICATION Spec
CONSTANTS
  Cap = 2
  Limit = 5
  Depth = 0
  MaxBlocks = 2
INVARIANTS InvAtMostOnce InvExecutedIsChain InvNoDoubleExecution InvPack
CHECK_DEADLOCK FALSE
