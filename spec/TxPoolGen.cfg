SPECIFICATION Spec
CONSTANTS
  Cap = 200
  Limit = 50000
  Depth = 3
  MaxBlocks = 3
INVARIANT Dump
CHECK_DEADLOCK FALSE
