SPECIFICATION CallSpec
CONSTANTS
  GasLimit = 200
  DepthLimit = 2
  Costs = {1}
  Requests = {0}
  NCalls = 2
  GasArgs = {"0", "2300", "all"}
  Targets = {"empty", "returner", "reverter"}
INVARIANTS CallInv CallDump
CHECK_DEADLOCK FALSE
