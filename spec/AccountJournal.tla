-------------------------- MODULE AccountJournal --------------------------
(***************************************************************************)
(* Reference semantics of Snapshot / RevertToSnapshot of the account state *)
(* (src/storage/account, AccountDB) over its observable state.             *)
(*                                                                         *)
(* The observable state is what the exported queries answer:               *)
(*   per account  ex (Exist), nonce, code, st (storage slots), ss (the     *)
(*                EVM word slot of SetState), sui (HasSuicided), bal       *)
(*                (GetBalance), ftOwn / ftBnd (amount of the fungible token*)
(*                FT kept in the holder's own storage / in the storage of  *)
(*                the contract FT is bound to; GetFT answers the one the   *)
(*                binding selects)                                         *)
(*   global       refund, logs (number of logs per transaction hash),      *)
(*                logSize, accA / accS (access list), tr (transient        *)
(*                storage), tx (transaction the logs are filed under),     *)
(*                bound (an ERC20 binding of FT is registered)             *)
(*                                                                         *)
(* Amounts of debits come from the lattice {1, b-1, b, b+1} around the     *)
(* current balance b of the debited account (exact-balance boundary).      *)
(*                                                                         *)
(* Reference: Snapshot() remembers the whole observable state under a new  *)
(* id; RevertToSnapshot(id) restores exactly that state and forgets id and *)
(* every younger snapshot; Finalise / IntermediateRoot / Commit end the    *)
(* transaction: they forget all snapshots.  The implementation keeps an    *)
(* undo journal instead (transition.go); the property (C04) says the two   *)
(* are indistinguishable.                                                  *)
(*                                                                         *)
(* The mutators are given a plain reference meaning on the observable      *)
(* state.  Whatever their meaning, the theorem TLC checks here is the one  *)
(* the root oracle of the conformance check relies on: the state after a   *)
(* history equals the state after its *surviving* calls only (calls that   *)
(* are not between a snapshot and a revert to it) - SurvivingEquivalent.   *)
(***************************************************************************)
EXTENDS Naturals, Sequences, FiniteSets, TLC

CONSTANTS LongFrames, \* numbers of successful inner frames of the call "LS" ({} in most configurations)
          Accounts,   \* 1..NA
          Keys,       \* storage keys 1..NK
          MaxDepth    \* bound on the history length explored

NA == Cardinality(Accounts)
NK == Cardinality(Keys)

NoAcct == [ex |-> FALSE, nonce |-> 0, code |-> 0, st |-> [k \in Keys |-> 0], ss |-> 0, sui |-> FALSE, bal |-> 0,
           ftOwn |-> 0, ftBnd |-> 0]

(* the three committed start states of the conformance check *)
Start(s) ==
  [acct |-> [a \in Accounts |->
               IF s = 1 THEN NoAcct
               ELSE IF s = 2 THEN (IF a = 1 THEN [NoAcct EXCEPT !.ex = TRUE, !.nonce = 1, !.st = [k \in Keys |-> IF k = 1 THEN 1 ELSE 0], !.bal = 5]
                                   ELSE NoAcct)
               ELSE (IF a = 1 THEN [NoAcct EXCEPT !.ex = TRUE, !.nonce = 3, !.code = 1, !.st = [k \in Keys |-> 2], !.ss = 1, !.bal = 9, !.ftOwn = 4]
                     ELSE [NoAcct EXCEPT !.ex = TRUE, !.st = [k \in Keys |-> IF k = 1 THEN 1 ELSE 0]])],
   refund |-> 0,
   logs |-> <<0, 0>>,
   logSize |-> 0,
   accA |-> [a \in Accounts |-> FALSE],
   accS |-> [a \in Accounts |-> FALSE],
   tr |-> [a \in Accounts |-> 0],
   tx |-> 1,
   bound |-> FALSE]

-----------------------------------------------------------------------------
(* Calls: <<op, a, x, y>>                                                  *)

Touch(s, a)    == [s EXCEPT !.acct[a].ex = TRUE]
IsEmptyAcct(r) == r.nonce = 0 /\ r.code = 0 /\ r.ss = 0 /\ r.ftOwn = 0 /\ \A k \in Keys : r.st[k] = 0

FT(s, a) == IF s.bound THEN s.acct[a].ftBnd ELSE s.acct[a].ftOwn
SetFTv(s, a, v) == IF s.bound THEN [s EXCEPT !.acct[a].ftBnd = v]
                   ELSE [Touch(s, a) EXCEPT !.acct[a].ftOwn = v]
(* amounts around a balance b *)
Lat(b) == {x \in {1, b, b + 1} \cup (IF b > 1 THEN {b - 1} ELSE {}) : x >= 1}

Mut(s, c) ==
  LET op == c[1]  a == c[2]  x == c[3]  y == c[4] IN
  CASE op = "SN" -> [Touch(s, a) EXCEPT !.acct[a].nonce = x]
    [] op = "IN" -> [Touch(s, a) EXCEPT !.acct[a].nonce = s.acct[a].nonce + 1]
    [] op = "SD" -> [Touch(s, a) EXCEPT !.acct[a].st[x] = y]
    [] op = "SS" -> [Touch(s, a) EXCEPT !.acct[a].ss = x]
    [] op = "GC" -> s                                  \* GetCommittedState: a query made inside the history
    [] op = "LS" -> (* x successful inner frames: Snapshot(); IncreaseNonce(a) each, none reverted *)
                    [Touch(s, a) EXCEPT !.acct[a].nonce = s.acct[a].nonce + x]
    [] op = "SC" -> [Touch(s, a) EXCEPT !.acct[a].code = x]
    [] op = "AB" -> [s EXCEPT !.acct[a].bal = s.acct[a].bal + x]
    [] op = "SB" -> IF s.acct[a].bal >= x THEN [s EXCEPT !.acct[a].bal = s.acct[a].bal - x] ELSE s
    [] op = "TB" -> [s EXCEPT !.acct[a].bal = x]
    [] op = "TR" -> (* Transfer(a, y, x): debit if covered, credit in any case (callers check CanTransfer) *)
                    LET s1 == IF s.acct[a].bal >= x THEN [s EXCEPT !.acct[a].bal = s.acct[a].bal - x] ELSE s
                    IN  [s1 EXCEPT !.acct[y].bal = s1.acct[y].bal + x]
    [] op = "AF" -> SetFTv(s, a, FT(s, a) + x)
    [] op = "SF" -> IF FT(s, a) >= x THEN SetFTv(s, a, FT(s, a) - x) ELSE s
    [] op = "TF" -> SetFTv(s, a, x)
    [] op = "BI" -> [s EXCEPT !.bound = TRUE]          \* AddERC20Binding: write-once
    [] op = "CA" -> Touch(s, a)
    [] op = "SU" -> IF s.acct[a].ex THEN [s EXCEPT !.acct[a].sui = TRUE, !.acct[a].bal = 0] ELSE s
    [] op = "AR" -> [s EXCEPT !.refund = s.refund + x]
    [] op = "SR" -> [s EXCEPT !.refund = s.refund - x]
    [] op = "AL" -> [s EXCEPT !.logs[s.tx] = s.logs[s.tx] + 1, !.logSize = s.logSize + 1]
    [] op = "AA" -> [s EXCEPT !.accA[a] = TRUE]
    [] op = "AS" -> [s EXCEPT !.accA[a] = TRUE, !.accS[a] = TRUE]
    [] op = "TS" -> [s EXCEPT !.tr[a] = x]

(* end of a transaction: self-destructed and empty accounts disappear, the refund counter is reset *)
Final(s) ==
  [s EXCEPT !.acct = [a \in Accounts |-> IF s.acct[a].ex /\ (s.acct[a].sui \/ IsEmptyAcct(s.acct[a]))
                                          THEN [NoAcct EXCEPT !.bal = s.acct[a].bal, !.ftBnd = s.acct[a].ftBnd] ELSE s.acct[a]],
            !.refund = 0]

(* start of a transaction *)
Prep(s, t) == [s EXCEPT !.tx = t, !.accA = [a \in Accounts |-> FALSE], !.accS = [a \in Accounts |-> FALSE]]

(* the calls that can be made in state s (debit amounts depend on the balances) *)
Mutators(s) ==
  {<<"SN", a, n, 0>> : a \in Accounts, n \in {0, 2}} \cup
  {<<"IN", a, 0, 0>> : a \in Accounts} \cup
  {<<"SD", a, k, v>> : a \in Accounts, k \in Keys, v \in {0, 1, 2}} \cup
  {<<"SS", a, v, 0>> : a \in Accounts, v \in {0, 1}} \cup
  {<<"GC", a, 0, 0>> : a \in Accounts} \cup
  {<<"LS", 1, n, 0>> : n \in LongFrames} \cup
  {<<"SC", a, c, 0>> : a \in Accounts, c \in {1, 2}} \cup
  {<<"AB", a, x, 0>> : a \in Accounts, x \in {0, 3}} \cup
  UNION {{<<"SB", a, x, 0>> : x \in Lat(s.acct[a].bal)} : a \in Accounts} \cup
  {<<"TB", a, 7, 0>> : a \in Accounts} \cup
  UNION {{<<"TR", a, x, b>> : x \in Lat(s.acct[a].bal)} : a \in Accounts, b \in Accounts} \cup
  {<<"AF", a, x, 0>> : a \in Accounts, x \in {0, 3}} \cup
  UNION {{<<"SF", a, x, 0>> : x \in Lat(FT(s, a))} : a \in Accounts} \cup
  {<<"TF", a, 7, 0>> : a \in Accounts} \cup
  {<<"BI", 0, 0, 0>>} \cup
  {<<"CA", a, 0, 0>> : a \in Accounts} \cup
  {<<"SU", a, 0, 0>> : a \in Accounts} \cup
  {<<"AR", 0, 5, 0>>, <<"SR", 0, 2, 0>>, <<"AL", 0, 0, 0>>} \cup
  {<<"AA", a, 0, 0>> : a \in Accounts} \cup
  {<<"AS", a, 0, 0>> : a \in Accounts} \cup
  {<<"TS", a, v, 0>> : a \in Accounts, v \in {0, 1}}

(* a state-independent superset of Mutators(s) within the depth bound (TLC then reports the *)
(* coverage of DoMut by name)                                                              *)
Amounts == 1..(10 + 3 * MaxDepth)
CallUniverse ==
  Mutators(Start(1)) \cup
  {<<"SB", a, x, 0>> : a \in Accounts, x \in Amounts} \cup
  {<<"TR", a, x, b>> : a \in Accounts, b \in Accounts, x \in Amounts} \cup
  {<<"SF", a, x, 0>> : a \in Accounts, x \in Amounts}

(* SubRefund panics below zero: never called that way *)
Callable(s, c) == /\ c[1] = "SR" => s.refund >= c[3]
                  /\ c[1] = "TR" => c[2] # c[4]

-----------------------------------------------------------------------------
VARIABLES st,       \* the observable state
          snaps,    \* stack of <<id, state, number of surviving calls at that time>>
          nextId,   \* AccountDB.nextRevisionID
          hist,     \* all calls so far
          surv,     \* the surviving calls
          start     \* which start state

vars == <<st, snaps, nextId, hist, surv, start>>

Init == /\ start \in {1, 2, 3}
        /\ st = Start(start)
        /\ snaps = <<>> /\ nextId = 0
        /\ hist = <<>> /\ surv = <<>>

Bound == Len(hist) < MaxDepth

DoMut(c) ==
  /\ Bound /\ c \in Mutators(st) /\ Callable(st, c)
  /\ st' = Mut(st, c)
  /\ hist' = Append(hist, c) /\ surv' = Append(surv, c)
  /\ nextId' = IF c[1] = "LS" THEN nextId + c[3] ELSE nextId     \* the inner snapshots are never reverted to
  /\ UNCHANGED <<snaps, start>>

Snapshot ==
  /\ Bound
  /\ snaps' = Append(snaps, <<nextId, st, Len(surv)>>)
  /\ nextId' = nextId + 1
  /\ hist' = Append(hist, <<"SNAP", nextId, 0, 0>>)
  /\ UNCHANGED <<st, surv, start>>

Revert(i) ==
  /\ Bound /\ i \in 1..Len(snaps)
  /\ st' = snaps[i][2]
  /\ surv' = SubSeq(surv, 1, snaps[i][3])
  /\ snaps' = SubSeq(snaps, 1, i - 1)
  /\ hist' = Append(hist, <<"REV", snaps[i][1], 0, 0>>)
  /\ UNCHANGED <<nextId, start>>

Finalise ==
  /\ Bound
  /\ st' = Final(st)
  /\ snaps' = <<>>
  /\ hist' = Append(hist, <<"FIN", 0, 0, 0>>) /\ surv' = Append(surv, <<"FIN", 0, 0, 0>>)
  /\ UNCHANGED <<nextId, start>>

Prepare(t) ==
  /\ Bound
  /\ snaps = <<>>                      \* a transaction starts outside any snapshot
  /\ st' = Prep(st, t)
  /\ hist' = Append(hist, <<"PRE", t, 0, 0>>) /\ surv' = Append(surv, <<"PRE", t, 0, 0>>)
  /\ UNCHANGED <<snaps, nextId, start>>

Next ==
  \/ \E c \in CallUniverse : DoMut(c)
  \/ Snapshot
  \/ \E i \in 1..MaxDepth : Revert(i)      \* (guarded by i <= Len(snaps))
  \/ Finalise
  \/ Prepare(2)

Spec == Init /\ [][Next]_vars

-----------------------------------------------------------------------------
(* replay of a list of surviving calls from the start state *)
RECURSIVE Replay(_, _)
Replay(s, cs) ==
  IF cs = <<>> THEN s
  ELSE LET c == Head(cs)
           s2 == IF c[1] = "FIN" THEN Final(s) ELSE IF c[1] = "PRE" THEN Prep(s, c[2]) ELSE Mut(s, c)
       IN  Replay(s2, Tail(cs))

(* the state is the state the surviving calls alone would have produced *)
SurvivingEquivalent == st = Replay(Start(start), surv)
(* snapshot ids on the stack are increasing and older than nextId *)
SnapIdsOrdered == \A i \in 1..Len(snaps) : /\ snaps[i][1] < nextId
                                           /\ (i > 1 => snaps[i - 1][1] < snaps[i][1])
                                           /\ snaps[i][3] <= Len(surv)
(* reverting restores exactly (action property) *)
RevertRestores == [][\A i \in 1..Len(snaps) :
                       (hist' = Append(hist, <<"REV", snaps[i][1], 0, 0>>)) => st' = snaps[i][2]]_vars
TypeOK == /\ nextId \in Nat /\ Len(hist) <= MaxDepth /\ Len(surv) <= Len(hist)
=============================================================================
