SPECIFICATION TraceSpec
INVARIANT Report
CHECK_DEADLOCK FALSE
