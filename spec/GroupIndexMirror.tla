--------------------------- MODULE GroupIndexMirror ---------------------------
(***************************************************************************)
(* Extension beyond C19's statement: the sqlite group index                *)
(* (src/middleware/mysql/group_index.go) as a mirror of the group chain.   *)
(* save() writes its store batch and then inserts the group's row;         *)
(* remove() writes its store batch and then deletes the row; a process     *)
(* death can fall between the two.  initGroupChain compares the number of  *)
(* rows with the chain's count and, when they differ, re-inserts a row for *)
(* every group of the chain (REPLACE: rows that are already there stay,    *)
(* rows of groups no longer on the chain are not deleted).                 *)
(*                                                                         *)
(* The chain itself is abstracted to the set of ids on it (C19 proper is   *)
(* GroupChain / GroupChainCrashInd).  Claims:                              *)
(*   RowsCoverChain   at rest every group of the chain has a row           *)
(*                    (prepareMiner loads groups through the rows);        *)
(*   holds with at most one death (MaxCrash = 1), and TLC refutes it with  *)
(*   two: a death after a removal's batch leaves a stale row, a death      *)
(*   after a later add's batch leaves a row missing, the counts agree      *)
(*   again and the restart does not repair the index.                      *)
(***************************************************************************)
EXTENDS Naturals, FiniteSets

CONSTANTS Ids,        \* group ids other than genesis
          MaxCrash    \* process deaths explored

VARIABLES chain,      \* ids on the chain (store)
          rows,       \* ids with a row in the sqlite index
          pc, work,   \* "idle" | "addrow" | "delrow": the row operation still to do, for id work
          crashes
vars == <<chain, rows, pc, work, crashes>>

Init == chain = {} /\ rows = {} /\ pc = "idle" /\ work = 0 /\ crashes = 0

AddBatch(g) == /\ pc = "idle" /\ g \in Ids \ chain
               /\ chain' = chain \cup {g} /\ pc' = "addrow" /\ work' = g
               /\ UNCHANGED <<rows, crashes>>
AddRow      == /\ pc = "addrow" /\ rows' = rows \cup {work} /\ pc' = "idle" /\ work' = 0
               /\ UNCHANGED <<chain, crashes>>
RemBatch(g) == /\ pc = "idle" /\ g \in chain
               /\ chain' = chain \ {g} /\ pc' = "delrow" /\ work' = g
               /\ UNCHANGED <<rows, crashes>>
DelRow      == /\ pc = "delrow" /\ rows' = rows \ {work} /\ pc' = "idle" /\ work' = 0
               /\ UNCHANGED <<chain, crashes>>
(* process death before the row operation, then initGroupChain: refreshCache *)
CrashRestart == /\ pc # "idle" /\ crashes < MaxCrash
                /\ rows' = IF Cardinality(rows) # Cardinality(chain) THEN rows \cup chain ELSE rows
                /\ pc' = "idle" /\ work' = 0 /\ crashes' = crashes + 1
                /\ UNCHANGED chain

Next == (\E g \in Ids : AddBatch(g) \/ RemBatch(g)) \/ AddRow \/ DelRow \/ CrashRestart
Spec == Init /\ [][Next]_vars

RowsCoverChain == pc = "idle" => chain \subseteq rows
=============================================================================
