SPECIFICATION TraceSpec
CONSTANTS
  N = 10
  P = 11
  IdSeq <- IdsId
  Coefs = {1}
  HSet = {1}
INVARIANT Report
CHECK_DEADLOCK FALSE
