SPECIFICATION TraceSpec
CONSTANTS
  N = 128
  P = 131
  IdSeq <- IdsId
  Coefs = {1}
  FreshRedeal = FALSE
  HSet = {1}
INVARIANT Report
CHECK_DEADLOCK FALSE
