--------------------------- MODULE MinerRegistryCore --------------------------
(***************************************************************************)
(* Miner registry and stake accounting of go-rangers (src/service/         *)
(* miner_manager.go, refund_manager.go, src/executor/miner_executor.go):   *)
(* reference semantics of the miner-management transactions, as the        *)
(* property C20 demands them.                                              *)
(*                                                                         *)
(* A registry R is a function id -> [present, type, stake, account, abort].*)
(* type 1 = proposer (minimum stake 2000), type 0 = validator (400).       *)
(* Amounts are whole tokens (the code converts to 18 decimals when it      *)
(* touches balances).                                                      *)
(***************************************************************************)
EXTENDS Integers, Sequences, FiniteSets, TLC

MinStake(type) == IF type = 1 THEN 2000 ELSE 400
NoAccount == 0
Absent == [present |-> FALSE, type |-> 0, stake |-> 0, account |-> NoAccount, abort |-> FALSE]

Occupied(R, a) == \E i \in DOMAIN R : R[i].present /\ R[i].account = a
OwnerOf(R, a) == IF Occupied(R, a) THEN CHOOSE i \in DOMAIN R : R[i].present /\ R[i].account = a ELSE 0

(* a transaction: [kind, id, type, stake, account, source]; stake is the applied / added /
   refunded amount; stake = -1 in a refund means "everything" (MaxUint64 on the wire) *)

(* --- guards: is the transaction accepted? bal = liquid whole tokens of the source (floor) --- *)
(* Rv is the registry the by-account index reflects.  The property demands Rv = R.  As coded,
   GetMinerIdByAccount iterates the miner records of the storage trie as of the start of the block
   (a miner created by an earlier transaction of the same block is not among them) and reads each
   record's account live: Rv = current records of the miners that existed at block start.  The reference (Accepts) and the as-coded variant (AcceptsV) differ only there. *)
ApplyOkV(R, Rv, tx, bal) ==
  /\ tx.type \in {0, 1}
  /\ tx.stake >= MinStake(tx.type)
  /\ bal >= tx.stake
  /\ ~R[tx.id].present
  /\ ~Occupied(Rv, tx.account)
ApplyOk(R, tx, bal) == ApplyOkV(R, R, tx, bal)

AddOk(R, tx, bal) == tx.stake = 0 \/ (bal >= tx.stake /\ R[tx.id].present)

RefundAmount(R, tx) == IF tx.stake = -1 THEN R[tx.id].stake ELSE tx.stake
RefundOk(R, tx) ==
  /\ R[tx.id].present
  /\ R[tx.id].account = tx.source
  /\ R[tx.id].stake >= RefundAmount(R, tx)

ChangeOkV(R, Rv, tx) ==
  /\ R[tx.id].present
  /\ R[tx.id].account # tx.account
  /\ R[tx.id].account = tx.source
  /\ ~Occupied(Rv, tx.account)
ChangeOk(R, tx) == ChangeOkV(R, R, tx)

Accepts(R, tx, bal) ==
  CASE tx.kind = "Apply"  -> ApplyOk(R, tx, bal)
    [] tx.kind = "Add"    -> AddOk(R, tx, bal)
    [] tx.kind = "Refund" -> RefundOk(R, tx)
    [] tx.kind = "Change" -> ChangeOk(R, tx)

AcceptsV(R, Rv, tx, bal) ==
  CASE tx.kind = "Apply"  -> ApplyOkV(R, Rv, tx, bal)
    [] tx.kind = "Add"    -> AddOk(R, tx, bal)
    [] tx.kind = "Refund" -> RefundOk(R, tx)
    [] tx.kind = "Change" -> ChangeOkV(R, Rv, tx)

(* --- effects on the registry --- *)
ApplyPost(R, tx) ==
  [R EXCEPT ![tx.id] = [present |-> TRUE, type |-> tx.type, stake |-> tx.stake, account |-> tx.account, abort |-> FALSE]]

AddPost(R, tx) ==
  IF tx.stake = 0 THEN R
  ELSE LET ns == R[tx.id].stake + tx.stake IN
       [R EXCEPT ![tx.id].stake = ns,
                 ![tx.id].abort = IF ns > MinStake(R[tx.id].type) THEN FALSE ELSE R[tx.id].abort]

RefundPost(R, tx) ==
  LET left == R[tx.id].stake - RefundAmount(R, tx) IN
  IF left >= MinStake(R[tx.id].type) THEN [R EXCEPT ![tx.id].stake = left]
  ELSE IF left = 0 THEN [R EXCEPT ![tx.id] = Absent]
  ELSE [R EXCEPT ![tx.id].stake = left, ![tx.id].abort = TRUE]

ChangePost(R, tx) == [R EXCEPT ![tx.id].account = tx.account]

Post(R, tx) ==
  CASE tx.kind = "Apply"  -> ApplyPost(R, tx)
    [] tx.kind = "Add"    -> AddPost(R, tx)
    [] tx.kind = "Refund" -> RefundPost(R, tx)
    [] tx.kind = "Change" -> ChangePost(R, tx)

(* tokens leaving (+) the source's liquid balance / entering escrow for the account *)
Locked(R, tx) == CASE tx.kind = "Apply" -> tx.stake [] tx.kind = "Add" -> tx.stake [] OTHER -> 0
Escrowed(R, tx) == IF tx.kind = "Refund" THEN RefundAmount(R, tx) ELSE 0

(* --- the property on a registry --- *)
OneMinerPerAccount(R) ==
  \A i, j \in DOMAIN R : (i # j /\ R[i].present /\ R[j].present) => R[i].account # R[j].account
=============================================================================
