"""C19 - the group chain is a gap-free linked list whose height index matches it."""
import json
import os

from common import SPEC, Inconclusive, add_violations_from_bad, finish, log


def tlc_histories(ctx, ids, depth, early=False, split=False, norecheck=False):
    cfg = """SPECIFICATION GenSpec
CONSTANTS
  Ids = {%s}
  MaxCount = 6
  AsCoded = FALSE
  Crashes = FALSE
  Batched = TRUE
  Recheck = %s
  Depth = %d
  Forks = TRUE
  Concs = TRUE
  Early = %s
  SplitLock = %s
INVARIANTS GenInv Dump
CHECK_DEADLOCK FALSE
""" % (", ".join(str(i) for i in ids), "FALSE" if norecheck else "TRUE", depth, "TRUE" if early else "FALSE", "TRUE" if split else "FALSE")
    if early or split or norecheck:
        return ctx.tlc("GroupChainGen", cfg_text=cfg.replace("INVARIANTS GenInv Dump", "INVARIANTS GenInv"), allow_violation=True), []
    res = ctx.tlc("GroupChainGen", cfg_text=cfg)
    hs = []
    seen = set()
    for raw in ctx.tlc_lines(res, "HIST"):
        s = raw.strip()[1:-1].replace('\\"', '"')
        if s not in seen:     # an overlapping add has several outcomes in the model: one history
            seen.add(s)
            hs.append(json.loads(s))
    if not hs:
        raise Inconclusive("TLC generated no histories")
    return res, hs


def design_proof(ctx, thorough):
    """Unbounded design-level safety: the inductive invariant of GroupChainInd proved with TLAPS for
    every set of ids and every height bound; Apalache re-checks inductiveness on concrete constants
    and refutes the pre-repair remove() (negative control).  The outcome is recorded in the
    evidence; it never changes the verdict (the provers' time-outs depend on machine load)."""
    import shutil
    import subprocess
    d = os.path.join(ctx.scratch, "proof")
    os.makedirs(d, exist_ok=True)
    for f in ("GroupChainInd.tla", "GroupChainIndProof.tla", "GroupChainInd_apalache.tla",
              "GroupChainCrashInd.tla", "GroupChainCrashIndProof.tla", "GroupChainCrashInd_apalache.tla"):
        shutil.copyfile(os.path.join(SPEC, f), os.path.join(d, f))
    out = {}
    try:
        p = subprocess.run(["tlapm", "--threads", "4", "GroupChainIndProof.tla"], cwd=d, capture_output=True, text=True, timeout=600)
        txt = p.stdout + p.stderr
        m = [l for l in txt.splitlines() if "obligations" in l]
        out["tlaps"] = m[-1].strip() if m else "no summary (exit %d)" % p.returncode
        out["tlaps_proved"] = bool(m) and "All" in m[-1] and "proved" in m[-1]
    except Exception as e:   # noqa
        out["tlaps"] = "not run: %s" % e
        out["tlaps_proved"] = False
    # the same at the level of records and mirror fields with a process death anywhere (one-batch writes)
    try:
        p = subprocess.run(["tlapm", "--threads", "4", "GroupChainCrashIndProof.tla"], cwd=d, capture_output=True, text=True, timeout=600)
        m = [l for l in (p.stdout + p.stderr).splitlines() if "obligations" in l]
        out["tlaps_crash_level"] = m[-1].strip() if m else "no summary (exit %d)" % p.returncode
        out["tlaps_crash_level_proved"] = bool(m) and "All" in m[-1] and "proved" in m[-1]
    except Exception as e:   # noqa
        out["tlaps_crash_level"] = "not run: %s" % e
        out["tlaps_crash_level_proved"] = False
    if thorough:
        def apa(args, mod="GroupChainInd_apalache.tla"):
            try:
                p = subprocess.run(["apalache-mc", "check"] + args + [mod], cwd=d,
                                   capture_output=True, text=True, timeout=900)
                return "NoError" if "The outcome is: NoError" in p.stdout else ("Error" if "The outcome is: Error" in p.stdout else "unknown")
            except Exception as e:   # noqa
                return "not run: %s" % e
        out["apalache_init"] = apa(["--init=Init", "--inv=IndInv", "--length=0"])
        out["apalache_step"] = apa(["--init=IndInit", "--inv=IndInv", "--length=1"])
        out["apalache_implied"] = apa(["--init=IndInit", "--inv=Implied", "--length=0"])
        out["apalache_pre_repair_remove_refuted"] = apa(["--init=IndInit", "--next=NextAsCoded", "--inv=IndInv", "--length=1"]) == "Error"
        cm = "GroupChainCrashInd_apalache.tla"
        out["apalache_crash_level_init"] = apa(["--init=Init", "--inv=IndInv", "--length=0"], cm)
        out["apalache_crash_level_step"] = apa(["--init=IndInit", "--inv=IndInv", "--length=1"], cm)
        out["apalache_separate_writes_refuted"] = apa(["--init=IndInit", "--next=NextUnbatched", "--inv=IndInv", "--length=1"], cm) == "Error"
    log("design proof: %s" % out)
    return out


def run(ctx):
    quick = ctx.quick()
    proof = design_proof(ctx, not quick)
    # 1. design level: the reference keeps the invariants, also with a process death between any
    # two store writes (save() and remove() write one batch each); with the four separate writes of
    # the pinned tree (negative control) a death between two of them breaks them
    ref = ctx.tlc("GroupChain", cfg="GroupChain.cfg", coverage=not quick)
    crash = ctx.tlc("GroupChain", cfg="GroupChain_crash.cfg")
    unbatched = ctx.tlc("GroupChain", cfg="GroupChain_crash_unbatched.cfg", allow_violation=True)
    if not unbatched["error"]:
        raise Inconclusive("negative control: separate store writes with crashes were not refuted by the model")
    # extension beyond the statement (design level only, never part of the verdict): the sqlite group
    # index as a mirror of the chain - at rest every group of the chain has a row: holds with one
    # process death, refuted with two (a stale row and a missing row make the counts agree again)
    mirror = {}
    try:
        m1 = ctx.tlc("GroupIndexMirror", cfg="GroupIndexMirror.cfg", allow_violation=True)
        m2 = ctx.tlc("GroupIndexMirror", cfg="GroupIndexMirror_two.cfg", allow_violation=True)
        mirror = {"rows_cover_chain_with_one_death": not m1["error"], "refuted_with_two_deaths": bool(m2["error"])}
    except Exception as e:   # noqa
        mirror = {"not_run": str(e)[:200]}
    # 2. TLC-generated call histories (model -> code)
    # (three ids at depth 4 would be 3.2 M histories: the thorough tier takes every history of two ids
    #  at depth 4 - plain, fork-switch and a large sample of the overlapping-call ones - plus every
    #  history of three ids at depth 3)
    gen, hists = tlc_histories(ctx, [1, 2], 4)
    if not quick:
        gen3, hists3 = tlc_histories(ctx, [1, 2, 3], 3)
        gen["distinct"] += gen3["distinct"]
        gen["generated"] += gen3["generated"]
        hists = hists + hists3
    # negative control: were the predecessor compared before the lock, overlapping adds would break the list
    early, _ = tlc_histories(ctx, [1, 2], 3, early=True)
    if not early["error"]:
        raise Inconclusive("negative control: the early-predecessor-check variant was not refuted by the model")
    split, _ = tlc_histories(ctx, [1, 2], 4, split=True)
    if not split["error"]:
        raise Inconclusive("negative control: the lock-per-removal variant of the fork switch was not refuted by the model")
    norecheck, _ = tlc_histories(ctx, [1, 2], 4, norecheck=True)
    if not norecheck["error"]:
        raise Inconclusive("negative control: AddGroup without the id lookup under the lock was not refuted by the model")
    # histories ending in a group fork switch are numerous: the quick tier replays a seeded sample
    import random
    rng = random.Random(ctx.seed)
    concs = [h for h in hists if any(o["op"] == "Conc" for o in h)]
    if not concs:
        raise Inconclusive("TLC generated no history with overlapping calls")
    cforks = [h for h in hists if h[-1]["op"] == "ConcFork"]
    if not cforks:
        raise Inconclusive("TLC generated no history with an add overlapping a fork switch")
    # the same with the call free to go for chain.lock while the removals are under way
    rng.shuffle(cforks)
    # first those in which the switch itself adds the id the overlapping call brings
    cforks.sort(key=lambda h: 0 if h[-1]["b"]["g"] in h[-1]["ids"] and h[-1]["j"] >= 1 else 1)
    locks = [h[:-1] + [dict(h[-1], first="lock")] for h in cforks if h[-1]["j"] == 0]
    cforks = cforks[:(400 if quick else 9000)] + locks[:(150 if quick else 3000)]
    plain = [h for h in hists if h[-1]["op"] not in ("Fork", "Conc", "ConcFork")]
    forks = [h for h in hists if h[-1]["op"] == "Fork"]
    rng.shuffle(forks)
    # forks that are not a line (a group names something else than the group before it) first
    forks.sort(key=lambda h: 0 if any(p != 98 for p in h[-1]["pres"]) else 1)
    bent = [h for h in forks if any(p != 98 for p in h[-1]["pres"])]
    if not bent:
        raise Inconclusive("TLC generated no fork switch with a bent branch")
    forks = bent[:(300 if quick else 8000)] + [h for h in forks if not any(p != 98 for p in h[-1]["pres"])]
    rng.shuffle(concs)
    log("histories: %d plain, %d ending in a fork switch, %d ending in overlapping calls" % (len(plain), len(forks), len(concs)))
    # the quick tier replays a seeded sample of the plain histories too (the thorough tier all of them)
    rng.shuffle(plain)
    hists = (plain[:5000] if quick else plain) + (forks[:500] if quick else forks[:20000]) + (concs[:600] if quick else concs[:25000]) + cforks
    drv = ctx.build("c19")
    # one driver process per chunk of histories: every history opens fresh stores (and the node's
    # logger set-up leaks two file descriptors per initialisation), so a process stays well below
    # a file-descriptor limit of 1024
    chunk = 350
    shards = max(8 if quick else 16, (len(hists) + chunk - 1) // chunk)
    argvs, traces = [], []
    for k in range(shards):
        part = hists[k::shards]
        sp = os.path.join(ctx.scratch, "script%d.json" % k)
        json.dump(part, open(sp, "w"))
        tp = os.path.join(ctx.scratch, "trace%d.ndjson" % k)
        traces.append(tp)
        nrand = (6 if quick else 40) if k < (8 if quick else 16) else 0
        argvs.append([drv, "--script", sp, "--out", tp, "--scratch", os.path.join(ctx.scratch, "stores%d" % k),
                      "--random", str(nrand), "--len", str(40 if quick else 80), "--salt", str(k)])
    # process death before every store write of the last call of a history, then a restart:
    # every plain history that ends in an accepted add / a removal, and a sample of the fork switches
    cr = [h for h in plain if h[-1]["op"] in ("Add", "Remove")]
    rng.shuffle(cr)
    cr = cr[:(300 if quick else 4000)] + forks[:(100 if quick else 2500)]
    ncr = max(4 if quick else 16, (len(cr) * 3 + chunk - 1) // chunk)
    for k in range(ncr):
        sp = os.path.join(ctx.scratch, "cscript%d.json" % k)
        json.dump(cr[k::ncr], open(sp, "w"))
        tp = os.path.join(ctx.scratch, "ctrace%d.ndjson" % k)
        traces.append(tp)
        argvs.append([drv, "--script", sp, "--out", tp, "--scratch", os.path.join(ctx.scratch, "cstores%d" % k),
                      "--crash", "--salt", str(100 + k)])
    outs = ctx.run_parallel(argvs)
    calls = sum(int(o.split("calls=")[1].split()[0]) for o in outs)
    ncrash = sum(int(o.split("crashes=")[1].split()[0]) for o in outs)
    nplaced = sum(int(o.split("placed=")[1].split()[0]) for o in outs)
    if nplaced == 0:
        raise Inconclusive("vacuity: no add was placed between two removals of a fork switch")
    if ncrash == 0:
        raise Inconclusive("vacuity: no process death was placed inside a call")
    nhist = sum(int(o.split("histories=")[1].split()[0]) for o in outs)
    # 3. judge every trace against the specification
    total_events, tags = 0, {}
    samples = []
    # fewer, larger TLC runs: the chunk traces are concatenated (every history starts with a Reset)
    merged = []
    per = max(1, len(traces) // (8 if quick else 16))
    for i in range(0, len(traces), per):
        mp = os.path.join(ctx.scratch, "merged%d.ndjson" % (i // per))
        with open(mp, "w") as out:
            for tp in traces[i:i + per]:
                with open(tp) as f:
                    out.write(f.read())
        merged.append(mp)
    traces = merged
    for tp in traces:
        n, bad = ctx.validate_trace("GroupChainTrace", tp)
        total_events += n
        add_violations_from_bad(ctx, bad, tp)
        if not samples:
            with open(tp) as f:
                samples = [json.loads(next(f)) for _ in range(4)]
    states = ref["distinct"] + crash["distinct"] + gen["distinct"]
    coverage = {
        "states": states,
        "transitions": ref["generated"] + crash["generated"] + gen["generated"],
        "traces_validated_against_impl": nhist,
        "events_validated": total_events,
        "real_calls": calls,
        "tlc_generated_histories": len(plain) + len(forks) + len(concs),
        "tlc_histories_replayed": len(hists),
        "fork_switch_histories_replayed": min(len(forks), 500 if quick else 20000),
        "overlapping_call_histories_generated": len(concs),
        "add_overlapping_fork_switch_histories_replayed": len(cforks),
        "add_overlapping_fork_switch_placed": nplaced,
        "lock_per_removal_variant_refuted_in_model": bool(split["error"]),
        "id_lookup_only_before_lock_variant_refuted_in_model": bool(norecheck["error"]),
        "overlapping_call_histories_replayed": min(len(concs), 600 if quick else 25000),
        "samples": samples,
        "design_level_inductive_invariant": proof,
        "extension_group_index_mirror_model": mirror,
        "action_coverage": ref["coverage"],
        "crash_restart_cycles": ncrash,
        "separate_writes_variant_refuted_in_model": bool(unbatched["error"]),
        "exhaustive": True,
        "explanation": "GroupChain.tla model-checked exhaustively (reference remove, Ids={1,2,3}, MaxCount=4); "
                       "every call history of the atomic alphabet to the stated depth generated by TLC and replayed on the real "
                       "core.groupChain plus seeded random histories; every recorded step judged by GroupChainTrace "
                       "(step relation per call + Linked/CountIsLength/IndexExact/ById/SyncGroups on the API's answers).",
    }
    finish(ctx, "model_checking", coverage, [
        "consensus group checks are stubbed (CheckGroup accepts): the property concerns the store, not group validity",
        "group fork switches are driven through hook export VerifGroupForkSwitch (triggerOnChain without the network, consensus checks stubbed)",
        "restart is initGroupChain re-run in-process over the same LevelDB instance",
        "a process death inside a call is a panic raised in the H2 hook in front of the k-th physical write of the call to the group store (k = 1.. number of writes), caught by the driver, after which the chain object is dropped and initGroupChain re-run over the stores as they are: what is in memory is lost, what was written stays; power loss (unsynced buffers) and a death inside LevelDB's own batch write are not modelled; the sqlite group index is not part of the judged state",
        "sqlite group index is present as in production",
        "lookups by height and id from six goroutines at once (no writer) after every third history, each answer compared with the single-goroutine answer taken just before",
        "an add overlapping a fork switch, position known: the call is parked inside consensusHelper.CheckGroup (past its unlocked id check, made after the first removal) and released when the switch has added j of its groups; the switch waits inside CheckGroup of its next group until the call has returned",
        "an add overlapping a fork switch, position left to the scheduler: the switch is held right after its first removal (the switch logs each removal: hook export VerifWrapSyncLogger) while a second goroutine calls AddGroup naming the then-last group; the hold ends when that call returns or after 40 ms (it is then waiting for chain.lock)",
        "overlapping calls: two AddGroup calls (or AddGroup and a removal) are both past the unlocked id check, inside consensusHelper.CheckGroup (the stub parks them), when the first one takes chain.lock; both release orders; finer schedules inside the locked sections do not exist (one mutex)",
    ])
