"""C14 - BLS verification accepts exactly the one valid signature; encodings faithful; pairing bilinear."""
import json
import os
import re

from common import Inconclusive, add_violations_from_bad, finish, log


def fmt_set(xs):
    return "{" + ", ".join(str(x) for x in sorted(set(xs))) + "}"


def gen_cases(ctx, quick):
    if quick:
        trunc_sig = [0, 1, 31, 32, 33, 63]
        trunc_pk = [0, 64, 127]
        bits_sig = sorted(set(list(range(0, 512, 8)) + [7, 255, 256, 257, 511]))
        bits_pk = sorted(set(list(range(0, 1024, 32)) + [1023]))
    else:
        trunc_sig = list(range(0, 64))
        trunc_pk = list(range(0, 128, 4)) + [127]
        bits_sig = list(range(0, 512))
        bits_pk = list(range(0, 1024))
    cfg = """SPECIFICATION GenSpec
CONSTANTS
  NK = 2
  NM = 2
  R = 1009
  TruncSig = %s
  TruncPk = %s
  Extra = {1, 32}
  BitsSig = %s
  BitsPk = %s
INVARIANTS UniquenessInv Dump
CHECK_DEADLOCK FALSE
""" % (fmt_set(trunc_sig), fmt_set(trunc_pk), fmt_set(bits_sig), fmt_set(bits_pk))
    res = ctx.tlc("BlsVerifyGen", cfg_text=cfg, timeout=900)
    cases = [json.loads(raw.strip()[1:-1].replace('\\"', '"')) for raw in ctx.tlc_lines(res, "CASE")]
    mc = ctx.tlc_lines(res, "MSGCASES")
    if not cases or not mc:
        raise Inconclusive("TLC generated no cases")
    msgcases = json.loads(mc[0].strip()[1:-1].replace('\\"', '"'))
    kc = ctx.tlc_lines(res, "KEYSIGCASES")
    if not kc:
        raise Inconclusive("TLC generated no key x signature cases")
    keycases = json.loads(kc[0].strip()[1:-1].replace('\\"', '"'))
    return res, cases, msgcases, keycases


def run(ctx):
    quick = ctx.quick()
    # 1. design level: uniqueness in the generic group model for the whole class lattice, pairing laws
    ref = ctx.tlc("BlsVerify", cfg="BlsVerify.cfg", coverage=not quick)
    gen, cases, msgcases, keycases = gen_cases(ctx, quick)
    ksp = os.path.join(ctx.scratch, "keycases.json")
    json.dump(keycases, open(ksp, "w"))
    msp = os.path.join(ctx.scratch, "msgcases.json")
    json.dump(msgcases, open(msp, "w"))
    drv = ctx.build("c14")
    shards = 8 if quick else 16
    # every shard (own keys and messages) runs the whole lattice; the bit-flip sweep is divided among the shards
    core = [c for c in cases if c["enc"] != "bitflip"]
    flips = [c for c in cases if c["enc"] == "bitflip"]
    worlds = 1 if quick else 6
    argvs, traces = [], []
    for k in range(shards):
        tp = os.path.join(ctx.scratch, "trace%d.ndjson" % k)
        traces.append(tp)
        sp = os.path.join(ctx.scratch, "script%d.json" % k)
        json.dump(core + (flips if quick else flips[k::shards]), open(sp, "w"))
        # + honest sign/verify of many fresh messages (the message enters through the hash to the curve)
        argv = [drv, "--script", sp, "--out", tp, "--salt", str(k), "--worlds", str(worlds),
                "--sweep", str(250 if quick else 1500),
                # related message pairs: every process meets each pair in one order only (even shards: m1 first)
                "--msgscript", msp, "--msgorder", "fwd" if k % 2 == 0 else "rev", "--others", str(1300 if quick else 2500)]
        if k < 4:
            # malformed key x degenerate signature x parsing entry points; simultaneous signers / verifiers
            argv += ["--keyscript", ksp, "--concurrent", str(60 if quick else 200)]
        if k == 0:
            argv += ["--extras", "--bigpairs", str(4 if quick else 12)]
        argvs.append(argv)
    outs = ctx.run_parallel(argvs, timeout=1500)
    counts = {}
    for o in outs:
        line = [l for l in o.splitlines() if l.startswith("c14:")]
        if not line:
            print(o[-2000:])
            raise Inconclusive("driver printed no summary")
        for key, v in re.findall(r"(\w+)=(\d+)", line[-1]):
            counts[key] = counts.get(key, 0) + int(v)
    for need in ("verify", "g1parse", "roundtrip", "pair", "pairbig", "gteq", "msgpair", "history", "keysig", "keySigAccepted", "concurrent", "shared"):
        if counts.get(need, 0) == 0:
            raise Inconclusive("vacuity: no %s events were produced" % need)
    total, accepted, classes = 0, 0, set()
    samples = []
    for tp in traces:
        n, bad = ctx.validate_trace("BlsVerifyTrace", tp, timeout=1500)
        total += n
        add_violations_from_bad(ctx, bad, tp, reset_event="none")
        with open(tp) as f:
            for line in f:
                e = json.loads(line)
                if e["event"] != "Verify":
                    continue
                c = e["case"]
                classes.add((c["what"], c["kind"], c["enc"]))
                if e["verdict"]:
                    accepted += 1
                if len(samples) < 5 and (c["what"], c["kind"], c["enc"]) not in \
                        [(s["case"]["what"], s["case"]["kind"], s["case"]["enc"]) for s in samples]:
                    samples.append(e)
    if accepted == 0 and not ctx.violations:
        raise Inconclusive("vacuity: the real VerifySig accepted nothing (honest signatures must verify)")
    coverage = {
        "evaluations": counts["verify"],
        "distinct_nontrivial": len(cases),
        "rule": "a case is (presented as signature|public key, element kind, encoding class, key, message, length/bit argument) "
                "enumerated by TLC from BlsVerify.tla (distinct by construction; every case differs from the honest exact "
                "encoding except kind=honest/enc=exact); each is instantiated with fresh real keys and messages per shard",
        "samples": samples,
        "states": ref["distinct"] + gen["distinct"],
        "transitions": ref["generated"] + gen["generated"],
        "traces_validated_against_impl": len(traces),
        "events_validated": total,
        "case_classes": len(classes),
        "accepted_by_real_code": accepted,
        "not_applicable_instantiations": counts.get("notApplicable", 0),
        "key_x_signature_cases": len(keycases),
        "key_x_signature_evaluations": counts["keysig"],
        "concurrent_sign_verify_runs": counts["concurrent"],
        "shared_object_families": counts["shared"],
        "related_message_pairs": len(msgcases) // 2,
        "related_message_cross_tables": counts["msgpair"],
        "history_independence_observations": counts["history"],
        "round_trips": counts["roundtrip"],
        "pairings_small": counts["pair"],
        "pairings_255bit": counts["pairbig"],
        "pairing_value_comparisons": counts["gteq"],
        "point_parse_observations": counts["g1parse"],
        "action_coverage": ref["coverage"],
        "exhaustive": not quick,
        "explanation": "BlsVerify.tla: generic-group model of VerifySig with the class lattice of presented values; the uniqueness "
                       "equivalence is model-checked for every class under generic concrete values; TLC enumerates the cases "
                       "(thorough: every truncation length, all 512 signature bits and 1024 public-key bits) and the expected verdict "
                       "comes from BlsVerify!Expected in the trace monitor; round trips, bilinearity (small and 255-bit scalars, "
                       "product reduced modulo the real group order with BigNat) and the 12-coordinate comparison of pairing values "
                       "are judged by the same monitor.",
    }
    finish(ctx, "exploration", coverage, [
        "generic group model: algebraic relations other than sums/negations/multiples of observed signatures are not expressible",
        "a non-canonical encoding (trailing bytes, non-reduced coordinate) of the SAME public key is recorded but not judged: the statement decides only values presented as signatures",
        "the well-formed identity public key (128 zero bytes, secret key 0) with the identity signature (its signature) is not judged; every malformed key encoding with every signature class, the identity included, is",
        "non-reduced coordinate cases apply only when coordinate + p < 2^256 (about 78% of coordinates)",
    ])
