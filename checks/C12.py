"""C12 - failed / static EVM frames leave no trace; per-transaction scratch state does not leak.

1. EvmFrames.tla (journal, snapshot on frame entry, undo on failure, sticky static flag,
   Prepare) model-checked exhaustively: a failing frame restores the ghost state of its entry,
   static frames are pure, a transaction starts clean, receipts hold their own logs.
   With AsCoded = TRUE (the deviations read in the code) TLC must find counterexamples; they
   are candidates only - verdicts come from the real runs below.
2. EvmFramesGen: every call history of the model up to its bounds is printed by TLC,
   compiled to real byte code (one contract per frame) by harness/cmd/c12 and executed as
   transactions back to back on one real AccountDB (Prepare -> EVM.Call -> GetLogs), together
   with seeded random frame trees (depth <= 4, up to 3 transactions).
3. EvmFramesTrace judges the recorded projections: state and logs after a failed call / create
   instruction equal those before it, state and logs at the exit of a static frame equal those
   at its entry, no state-modifying instruction gets past the interpreter in static context,
   access list / transient storage / logs are empty after Prepare, earlier receipts unchanged.
"""
import json
import os
import threading
import time

from common import Inconclusive, add_violations_from_bad, finish, log


def threads(fns, limit=3):
    """Run callables concurrently, at most `limit` at a time (staggered starts); re-raise the first exception."""
    res, errs = [None] * len(fns), []
    sem = threading.Semaphore(limit)

    def wrap(i, f):
        with sem:
            try:
                res[i] = f()
            except BaseException as e:  # noqa
                errs.append(e)
    ts = []
    for i, f in enumerate(fns):
        t = threading.Thread(target=wrap, args=(i, f))
        t.start()
        ts.append(t)
        time.sleep(0.25)
    for t in ts:
        t.join()
    if errs:
        raise errs[0]
    return res


def gen_cfg(depth, frames, tx, muts):
    return """SPECIFICATION Spec
CONSTANTS
  Accts = {1}
  MaxDepth = %d
  MaxFrames = %d
  MaxTx = %d
  MaxMuts = %d
  AsCoded = FALSE
INVARIANTS GenInv Dump
CHECK_DEADLOCK FALSE
""" % (depth, frames, tx, muts)


def histories(ctx, res):
    hs = []
    for raw in ctx.tlc_lines(res, "HIST"):
        hs.append(json.loads(raw.strip()[1:-1].replace('\\"', '"')))
    return hs


def run(ctx):
    quick = ctx.quick()
    mc, built, gens = {}, {}, {}
    jobs = [lambda: mc.setdefault("ref", ctx.tlc("EvmFrames", cfg="EvmFrames.cfg", workers=4, coverage=not quick)),
            lambda: mc.setdefault("tx", ctx.tlc("EvmFrames", cfg="EvmFrames_tx.cfg", workers=2)),
            lambda: mc.setdefault("ascoded", ctx.tlc("EvmFrames", cfg="EvmFrames_ascoded.cfg", workers=2, allow_violation=True)),
            lambda: gens.setdefault("one", ctx.tlc("EvmFramesGen", cfg_text=gen_cfg(3, 3, 1, 1), workers=4)),
            lambda: built.setdefault("drv", ctx.build("c12"))]
    threads(jobs)
    if not quick:
        threads([lambda: mc.setdefault("big", ctx.tlc("EvmFrames", cfg="EvmFrames_big.cfg", workers=8, timeout=1500)),
                 lambda: gens.setdefault("two", ctx.tlc("EvmFramesGen", cfg_text=gen_cfg(2, 2, 2, 1), workers=4))])
    if not mc["ascoded"]["error"]:
        raise Inconclusive("the as-coded model no longer violates any property: the named deviations need review")
    hs = histories(ctx, gens["one"])
    def has(h, pred):
        return any(pred(t) for t in h)
    all_one = list(hs)
    attempts = [h for h in hs if has(h, lambda t: t.get("mode") == "write")]
    valued = [h for h in hs if not has(h, lambda t: t.get("mode") == "write")
              and has(h, lambda t: t.get("op") == "precall" and t.get("v") == 1)]
    others = [h for h in hs if not has(h, lambda t: t.get("mode") == "write")
              and not has(h, lambda t: t.get("op") == "precall" and t.get("v") == 1)]
    log("EvmFramesGen: %d histories (%d with a write attempt in static context, %d with a value-bearing call of a failing "
        "precompile)" % (len(hs), len(attempts), len(valued)))
    if quick:
        # every write attempt in static context, every 16th value-bearing failing precompile call, every 64th of the rest
        hs = attempts + valued[ctx.seed % 16::16] + others[ctx.seed % 64::64]
    else:
        hs = attempts + valued[ctx.seed % 2::2] + others[ctx.seed % 4::4]
        two = histories(ctx, gens["two"])
        step = max(1, len(two) // 20000)
        log("EvmFramesGen: %d two-transaction histories (every %d-th replayed)" % (len(two), step))
        hs += two[ctx.seed % step::step]
    if not hs:
        raise Inconclusive("TLC generated no call histories")
    log("EvmFramesGen: %d call histories replayed" % len(hs))

    # receipt layer: every one-transaction history with a log site, executed as a real transaction by the block executor
    def burning_creates(h):
        # creation frames that end with a fault take 63/64 of the transaction's gas with them: at most one per history,
        # so that the rest of the tree runs as the model says
        stack, n = [], 0
        for t in h:
            if t["op"] == "enter":
                stack.append(t["kind"])
            elif t["op"] in ("ok", "fail") and stack:
                k = stack.pop()
                if t["op"] == "fail" and k == "create" and t.get("mode") in ("fault", "write", "oversize"):
                    n += 1
        return n
    rhist = [h for h in all_one if has(h, lambda t: t.get("op") == "log") and burning_creates(h) <= 1]
    if quick:
        rhist = [h for h in rhist if has(h, lambda t: t.get("op") == "fail")] + \
                [h for h in rhist if not has(h, lambda t: t.get("op") == "fail")][ctx.seed % 4::4]
    rsp = os.path.join(ctx.scratch, "receipts.json")
    json.dump(rhist, open(rsp, "w"))
    rtrace = os.path.join(ctx.scratch, "receipts.ndjson")

    drv = built["drv"]
    shards = 4
    nrand = 300 if quick else 4000
    argvs, traces = [], []
    for k in range(shards):
        sp = os.path.join(ctx.scratch, "script%d.json" % k)
        json.dump(hs[k::shards], open(sp, "w"))
        tp = os.path.join(ctx.scratch, "trace%d.ndjson" % k)
        traces.append(tp)
        argvs.append([drv, "--out", tp, "--scratch", os.path.join(ctx.scratch, "st%d" % k), "--script", sp,
                      "--random", str(nrand), "--salt", str(k)] + (["--custom"] if k == 0 else []))
    # Proposal026-on configuration (jump table rebuilt by doProposal026, all gas x30): the write attempts in static
    # context and random trees once more
    psp = os.path.join(ctx.scratch, "script_p026.json")
    json.dump(attempts, open(psp, "w"))
    ptrace = os.path.join(ctx.scratch, "trace_p026.ndjson")
    argvs.append([drv, "--out", ptrace, "--scratch", os.path.join(ctx.scratch, "stp"), "--script", psp, "--p026",
                  "--random", str(100 if quick else 1500), "--salt", "77"])
    traces.append(ptrace)
    argvs.append([drv, "--receipts", rsp, "--out", rtrace, "--scratch", os.path.join(ctx.scratch, "rst")])
    outs = ctx.run_parallel(argvs, timeout=1500)
    traces.append(rtrace)
    tot = {}
    for o in outs:
        for line in o.splitlines():
            if line.startswith("c12:"):
                for kv in line.split()[1:]:
                    k, v = kv.split("=")
                    tot[k] = tot.get(k, 0) + int(v)
    log("c12 drivers: %s" % tot)
    # vacuity: the situations the judgements are about must have occurred
    for need in ("failed:revert", "failed:oog", "failed:opcode", "failed:write", "failed:none", "failed:noframe", "logs", "failed_txs",
                 "custom_scenarios"):
        if tot.get(need, 0) == 0:
            raise Inconclusive("vacuity: no occurrence of %s in this run" % need)

    results = threads([(lambda tp=tp: ctx.validate_trace("EvmFramesTrace", tp, timeout=1500)) for tp in traces])
    total_events, notes = 0, {}
    kinds = {}
    for tp, (n, bad) in zip(traces, results):
        total_events += n
        for b in bad:
            if b[2].startswith("Note."):
                notes[b[2]] = notes.get(b[2], 0) + 1
        add_violations_from_bad(ctx, [b for b in bad if not b[2].startswith("Note.")], tp)
        with open(tp) as f:
            for line in f:
                ev = line[line.find('"event":"') + 9:]
                ev = ev[:ev.find('"')]
                kinds[ev] = kinds.get(ev, 0) + 1
    for need in ("TxBegin", "Before", "After", "Enter", "Exit", "TxEnd", "Receipt"):
        if kinds.get(need, 0) == 0:
            raise Inconclusive("vacuity: no %s event recorded" % need)
    samples = []
    with open(traces[0]) as f:
        want = ["TxBegin", "Before", "After", "TxEnd"]
        for line in f:
            e = json.loads(line)
            if want and e["event"] == want[0]:
                samples.append(e)
                want.pop(0)
            if not want:
                break
    ref = [mc[k] for k in mc if k != "ascoded"] + list(gens.values())
    coverage = {
        "states": sum(r["distinct"] for r in ref),
        "transitions": sum(r["generated"] for r in ref),
        "traces_validated_against_impl": tot.get("tlc_scenarios", 0) + tot.get("random_scenarios", 0),
        "events_validated": total_events,
        "transactions_executed": tot.get("txs", 0),
        "call_instructions_observed": tot.get("calls", 0),
        "failed_call_instructions": {k[7:]: v for k, v in tot.items() if k.startswith("failed:")},
        "event_histogram": kinds,
        "tlc_generated_histories": tot.get("tlc_scenarios", 0),
        "receipt_layer_transactions": tot.get("receipts", 0),
        "as_coded_model_violates": True,
        "notes_outside_verdict": notes,
        "action_coverage": mc["ref"]["coverage"],
        "samples": samples,
        "exhaustive": True,
        "explanation": "EvmFrames.tla model-checked exhaustively (2 accounts, depth 3, 3 frames, 2 modifications per transaction; "
                       "2 transactions with depth 2); every call history of the model (depth 3, 3 frames, 1 modification) generated by "
                       "TLC, compiled to byte code and executed on the real EVM over one AccountDB, plus seeded random frame trees; "
                       "every recorded call instruction, static frame, Prepare and transaction end judged by EvmFramesTrace.",
    }
    finish(ctx, "model_checking", coverage, [
        "receipt layer: the one-transaction histories with a log site are also executed as contract transactions through core.VMExecutor (core.VerifExecuteBlock) at height 100 on a state opened at the dev genesis root, contracts placed directly in that state; Proposal013 is active at every height of the dev schedule (the pre-013 receipt rule is not reachable); the receipts root is a function of the judged receipt fields and is not compared separately",
        "transactions are executed the way core.VMExecutor does with Proposal013 active: AccountDB.Prepare(txHash, {}, i), vm.NewEVMWithNFT(...).Call, receipt.Logs = AccountDB.GetLogs(txHash); the executor itself (fees, nonce of the sender) is not part of the check",
        "the projection covers the sender, up to 12 frame contracts, 2 plain accounts and the addresses those contracts can CREATE (2 levels): balances, nonces, code length, existence, suicided flag, storage slots 0-2, transient slots 0-2, and the state object's log list",
        "CREATE / CREATE2 increment the creator's nonce before the frame's snapshot is taken; the creator's nonce is therefore not compared for failed creations",
        "the zero-value touch of STATICCALL happens before the frame is entered and is therefore outside the static frame",
        "the log list the outermost call returns (it goes into the receipt's message, which is not hashed) is reported as a note, not judged",
        "two fixed process-global jump-table configurations at height 100: Proposal026 inactive (all scenarios) and Proposal026 active (x30 gas; the write attempts in static context and random trees)",
    ])
