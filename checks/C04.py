"""C04 - reverting to a snapshot restores the account state exactly."""
import json
import os
import re

from common import Inconclusive, add_violations_from_bad, finish, log
from statechecks import require_actions, count_events, parse_hist, shard, validate_parallel

LONG_FRAMES = [1023, 1024, 1025, 1026, 1027, 1500, 3000]   # successful inner frames under one outer snapshot
CORE = ["SN", "IN", "SD", "SS", "GC", "SC", "AB", "SB", "TB", "CA", "SU", "AR", "SR", "AL", "AA", "AS", "TS", "FIN", "PRE"]
TOKEN = ["AB", "SB", "TB", "TR", "AF", "SF", "TF", "BI", "SU", "CA", "FIN"]     # balance / FT / binding calls, amounts at the balance boundary
ALL_KINDS = CORE + ["TR", "AF", "SF", "TF", "BI"]

GEN_CFG = """SPECIFICATION %(spec)s
CONSTANTS
  LongFrames = {%(frames)s}
  Accounts = {%(accts)s}
  Keys = {%(keys)s}
  MaxDepth = %(depth)d
  Depth = %(depth)d
  OpKinds = {%(kinds)s}
  Seed = %(seed)d
  Runs = %(runs)d
INVARIANTS GenInv %(dump)s
CHECK_DEADLOCK FALSE
"""

FIELDS = ["existence", "empty", "nonce", "code", "codeSize", "codeHash", "storage", "suicided", "balance",
          "stateWord", "committedWord", "canTransfer", "ft",
          "refund", "logs", "logIndex", "accessAddresses", "accessSlots", "transient", "binding", "bindingAccount"]
NEVER_RESTORED = {"committedWord"}   # GetCommittedState cannot change inside a transaction: nothing to restore


def gen(ctx, spec, accts, keys, depth, kinds, runs=0, frames=()):
    cfg = GEN_CFG % dict(frames=", ".join(map(str, frames)), spec=spec, accts=", ".join(map(str, accts)), keys=", ".join(map(str, keys)), depth=depth,
                         kinds=", ".join('"%s"' % k for k in kinds), seed=ctx.seed % 1000, runs=runs,
                         dump="Dump" if spec == "GenSpec" else "DeepDump")
    res = ctx.tlc("AccountJournalGen", cfg_text=cfg, timeout=1500)
    hs = parse_hist(ctx, res)
    if not hs:
        raise Inconclusive("TLC generated no histories")
    return res, hs


def run(ctx):
    quick = ctx.quick()
    # 1. design level: reverting restores, and the state is the state of the surviving calls alone
    if quick:
        base = ctx.tlc("AccountJournal", cfg="AccountJournal_quick.cfg")
    else:
        base = ctx.tlc("AccountJournal", cfg="AccountJournal.cfg", coverage=True, timeout=1500)
    require_actions(base, ["DoMut", "Snapshot", "Revert", "Finalise", "Prepare"])
    # 2. TLC-generated histories (model -> code)
    gens, hists = [], []
    if quick:
        plans = [("GenSpec", [1, 2], [1], 4, CORE, 0),
                 # token level: balances, the fungible token, its binding, Transfer; debit amounts from {1, b-1, b, b+1}
                 ("GenSpec", [1, 2], [1], 4, TOKEN, 0),
                 # account life-cycle / balance alphabet one call deeper (e.g. Suicide; fund again; Snapshot; Suicide; Revert)
                 ("GenSpec", [1], [1], 5, ["SU", "AB", "TB", "SN"], 0),
                 ("DeepSpec", [1, 2], [1, 2], 16, ALL_KINDS, 300)]
    else:
        plans = [("GenSpec", [1, 2], [1, 2], 4, CORE, 0),
                 ("GenSpec", [1, 2], [1], 4, TOKEN, 0),
                 ("GenSpec", [1], [1], 5, TOKEN, 0),
                 ("GenSpec", [1, 2], [1], 5, ["SN", "SD", "SC", "CA", "SU", "AL", "FIN"], 0),
                 ("GenSpec", [1], [1, 2], 5, ["IN", "SD", "SS", "TB", "CA", "SU", "AR", "SR", "AA", "AS", "PRE"], 0),
                 ("GenSpec", [1], [1], 6, ["SU", "AB", "TB", "SN", "CA"], 0),
                 ("DeepSpec", [1, 2], [1, 2], 24, ALL_KINDS, 5000)]
    n_exh = 0
    # long transactions: an outer snapshot, then N successful inner frames (Snapshot + write each), then the revert
    plans.append(("GenSpec", [1], [1], 3 if quick else 4, ["LS", "SD", "SS"], 0, LONG_FRAMES))
    for plan in plans:
        spec, accts, keys, depth, kinds, runs = plan[:6]
        res, hs = gen(ctx, spec, accts, keys, depth, kinds, runs, frames=plan[6] if len(plan) > 6 else ())
        gens.append(res)
        hists += hs
        if spec == "GenSpec":
            n_exh += len(hs)
    log("histories: %d exhaustive, %d pseudo-random" % (n_exh, len(hists) - n_exh))
    drv = ctx.build("c04")
    shards = shard(hists, 8 if quick else 64)
    argvs, traces = [], []
    for k, part in enumerate(shards):
        sp = os.path.join(ctx.scratch, "script%d.json" % k)
        json.dump(part, open(sp, "w"))
        tp = os.path.join(ctx.scratch, "trace%d.ndjson" % k)
        traces.append(tp)
        argv = [drv, "--script", sp, "--out", tp, "--scratch", os.path.join(ctx.scratch, "node%d" % k)]
        if os.environ.get("VERIF_C04_CORRUPT"):
            argv += ["--corrupt", os.environ["VERIF_C04_CORRUPT"]]
        argvs.append(argv)
    outs = ctx.run_parallel(argvs)
    calls = sum(int(o.split("calls=")[1].split()[0]) for o in outs)
    kinds = {}
    for tp in traces:
        for k, v in count_events(tp).items():
            kinds[k] = kinds.get(k, 0) + v
    for k in ALL_KINDS + ["LS", "PRE", "SNAP", "REV", "Final", "Reset"]:
        if not kinds.get(k):
            raise Inconclusive("no %s event was recorded: the check would be vacuous for it" % k)
    # 3. judge every trace against the specification
    results = validate_parallel(ctx, "AccountJournalTrace", traces, timeout=1500 if quick else 6000, stats=True)
    total, stats = 0, None
    for tp, (n, bad, st) in zip(traces, results):
        total += n
        stats = st if stats is None else [a + b for a, b in zip(stats, st)]
        # a root comparison inside a history (Cut) is the same judgement as the one at its end (Final)
        add_violations_from_bad(ctx, bad, tp, sig_of=lambda line, event, tag: "%s@%s" % (tag, "Final" if event == "Cut" else event))
    restored = dict(zip(FIELDS, stats[:len(FIELDS)]))
    for f, c in restored.items():
        if c == 0 and f not in NEVER_RESTORED:
            raise Inconclusive("no revert ever had to restore '%s': the check would be vacuous for that query" % f)
    with open(traces[0]) as f:
        samples = [json.loads(next(f)) for _ in range(6)]
    coverage = {
        "states": base["distinct"] + sum(g["distinct"] for g in gens),
        "transitions": base["generated"] + sum(g["generated"] for g in gens),
        "traces_validated_against_impl": len(hists),
        "events_validated": total,
        "events_by_call": kinds,
        "real_calls": calls,
        "exhaustive_histories": n_exh,
        "pseudo_random_histories": len(hists) - n_exh,
        "reverts": stats[len(FIELDS)],
        "reverts_that_had_to_restore_something": stats[len(FIELDS) + 1],
        "reverts_that_had_to_restore_each_query": restored,
        "root_comparisons_real_vs_twin": kinds.get("Final", 0),
        "action_coverage": base["coverage"],
        "samples": samples,
        "exhaustive": True,
        "explanation": "AccountJournal.tla (reference: Snapshot copies the observable state, Revert restores it) model-checked "
                       "exhaustively (revert restores; state == state of the surviving calls alone); every history of the stated "
                       "depth in which a revert undoes something, from 3 committed start states, plus seeded pseudo-random deep "
                       "histories, replayed on a real AccountDB; full observable projection after every call judged by "
                       "AccountJournalTrace.tla (Snapshot pure, Revert restores every query), and the real root of each history "
                       "compared with the real root of a twin AccountDB that ran only the surviving calls.",
    }
    finish(ctx, "model_checking", coverage, [
        "dev chain configuration (Proposal002 active: balance writes are journaled); balances live in the storage of the "
        "token contract account bound to SYSTEM-RPG (the zero address when no binding exists), which exists in every start state",
        "the observable projection is taken on a clone (fresh AccountDB on the committed start root + the history prefix), because "
        "the package's getters cache storage values and accountObject.empty() consults that cache",
        "mutators are not judged against a reference (their observed effect is bound); only Snapshot, RevertToSnapshot and the final roots are",
        "universe: 2 accounts x 2 storage slots x {absent, 2-byte, 40-byte} values, one EVM word slot, 2 code blobs, one transient key, one access-list slot, 2 tx hashes, "
        "one fungible token other than the native one (own-storage slot until AddERC20Binding routes it to a contract slot); debit amounts (SubBalance, Transfer, SubFT) from {1, b-1, b, b+1} around the model's balance b",
        "not in the alphabet: Reset/Clean (drop the journal wholesale), Commit inside a history (the chain opens a new AccountDB after it; it ends every history), SetStorage (debug helper over SetData), "
        "RemoveData (= SetData nil, covered), MarkAccountObjectDirty (internal callback); the tree has no NFT-level mutators on AccountDB",
    ])
