"""Specification modules that go beyond the listed properties.  Each function model-checks the
module, replays TLC-generated histories on the real code, validates the recorded trace and files
every failed judgement as an extension observation (tags Ext.*: informational, never a verdict).
They are run from the check of the closest listed property and report their counts there."""
import json
import os

from common import Inconclusive, add_violations_from_bad, log


def reqqueue(ctx):
    """Gateway request queue (middleware.PriorityQueue), the intake in front of the pool of C17."""
    quick = ctx.quick()
    mc = ctx.tlc("ReqQueue", cfg="ReqQueue.cfg")
    coded = ctx.tlc("ReqQueue", cfg="ReqQueue_ascoded.cfg")
    if mc["error"] or coded["error"]:
        raise Inconclusive("ReqQueue: the reference model violates its own invariants")
    # as coded, a due request can stay behind duplicates of the id handed over last (model-level
    # candidate, reproduced on the real queue as Ext.ReqQueue.NothingDueWaits)
    due = ctx.tlc("ReqQueue", cfg="ReqQueue_ascoded_due.cfg", allow_violation=True)
    depth = 4 if quick else 5
    cfg = """SPECIFICATION GenSpec
CONSTANTS
  MaxId = 4
  MaxOps = %d
  AsCoded = FALSE
INVARIANTS GenInv Dump
CHECK_DEADLOCK FALSE
""" % depth
    gen = ctx.tlc("ReqQueueGen", cfg_text=cfg, timeout=900)
    hists = [json.loads(raw.strip()[1:-1].replace('\\"', '"')) for raw in ctx.tlc_lines(gen, "HIST")]
    if not hists:
        raise Inconclusive("ReqQueueGen produced no histories")
    drv = ctx.build("xreqqueue")
    shards = 4
    argvs, traces = [], []
    for k in range(shards):
        sp = os.path.join(ctx.scratch, "rq-script%d.json" % k)
        json.dump(hists[k::shards], open(sp, "w"))
        tp = os.path.join(ctx.scratch, "rq-trace%d.ndjson" % k)
        traces.append(tp)
        argvs.append([drv, "--script", sp, "--out", tp, "--scratch", os.path.join(ctx.scratch, "rq-st%d" % k),
                      "--random", str(40 if quick else 400), "--len", "40", "--salt", str(k + 10 * ctx.seed)])
    ctx.run_parallel(argvs)
    events = 0
    for tp in traces:
        n, bad = ctx.validate_trace("ReqQueueTrace", tp, timeout=1500)
        events += n
        add_violations_from_bad(ctx, bad, tp, what_prefix="extension ReqQueue: ")
    return {"model_states": mc["distinct"] + coded["distinct"] + gen["distinct"],
            "as_coded_model_lets_a_due_request_wait": bool(due["error"]), "tlc_generated_histories": len(hists), "events_validated": events}
