"""C10 - EVM computational opcodes implement the Ethereum specification.

1. EvmWord.tla (word operations on BigNat digit sequences, generic word width) is compared
   exhaustively with TLC's native integer arithmetic on 1-byte and 2-byte words.
2. Evm.tla (the frame machine) is model-checked exhaustively on small words: every program up
   to a length over an opcode alphabet; the machine never executes push data and jumps land
   on JUMPDEST instruction starts.
3. EvmGen.tla (TLC simulation) emits programs with the final state the reference predicts.
4. harness/cmd/c10 runs those programs, seeded boundary-biased programs and the repository's
   testdata vectors on the real EVM; hook H6 records every interpreter step.
5. EvmTrace.tla recomputes every recorded step from the recorded pre-state and judges the
   real post-state (stack, memory, pc, return data, halting result, faults, jump landing).
"""
import json
import os
import threading
import time

from common import Inconclusive, add_violations_from_bad, finish, log, REPO

# opcodes the monitor judges (must each occur in the recorded steps)
WORD_OPS = [1, 2, 3, 4, 5, 6, 7, 8, 9, 10, 11, 16, 17, 18, 19, 20, 21, 22, 23, 24, 25, 26, 27, 28, 29]
OTHER_OPS = [32, 53, 54, 55, 56, 57, 61, 62, 80, 81, 82, 83, 86, 87, 88, 89, 91, 94, 95, 96, 127, 128, 144, 243, 253]
FAULTS = ["jump", "returndata", "underflow", "opcode"]


def threads(fns, limit=3):
    """Run callables concurrently, at most `limit` at a time (staggered starts); re-raise the first exception."""
    res, errs = [None] * len(fns), []
    sem = threading.Semaphore(limit)

    def wrap(i, f):
        with sem:
            try:
                res[i] = f()
            except BaseException as e:  # noqa
                errs.append(e)
    ts = []
    for i, f in enumerate(fns):
        t = threading.Thread(target=wrap, args=(i, f))
        t.start()
        ts.append(t)
        time.sleep(0.25)
    for t in ts:
        t.join()
    if errs:
        raise errs[0]
    return res


def gen_programs(ctx, num, instr):
    cfg = """SPECIFICATION GenSpec
CONSTANTS
  WB = 32
  StackLimit = 1024
  Alphabet = {0}
  MaxLen = 1
  Datas <- GenDatas
  MaxInstr = %d
INVARIANTS GenInv Dump
CHECK_DEADLOCK FALSE
""" % instr
    res = ctx.tlc("EvmGen", cfg_text=cfg, simulate="num=%d" % num, depth=12 * instr + 10,
                  extra=["-seed", str(ctx.seed)], workers=4, timeout=900)
    progs = []
    for raw in ctx.tlc_lines(res, "PROG"):
        s = raw.strip()[1:-1].replace('\\"', '"')
        progs.append(json.loads(s))
    if not progs:
        raise Inconclusive("EvmGen produced no programs")
    return res, progs


def gen_jump_sweep(ctx, aligns):
    """EvmJumpGen: PUSH width x alignment x position of a 0x5b data byte, JUMP / taken JUMPI to exactly that byte."""
    cfg = """SPECIFICATION JSpec
CONSTANTS
  WB = 32
  StackLimit = 1024
  Alphabet = {0}
  MaxLen = 1
  Datas <- GenDatasJ
  Widths = {%s}
  Aligns = {%s}
INVARIANTS JInv JDump
CHECK_DEADLOCK FALSE
""" % (", ".join(str(i) for i in range(1, 33)), ", ".join(str(i) for i in aligns))
    res = ctx.tlc("EvmJumpGen", cfg_text=cfg, workers=4, timeout=1500)
    progs = []
    for raw in ctx.tlc_lines(res, "PROG"):
        progs.append(json.loads(raw.strip()[1:-1].replace('\\"', '"')))
    if not progs:
        raise Inconclusive("EvmJumpGen produced no programs")
    return res, progs


def gen_stack_sweep(ctx):
    """EvmStackGen: stack height 1022 / 1023 / 1024 x every instruction with net effect +1."""
    res = ctx.tlc("EvmStackGen", cfg="EvmStackGen.cfg", workers=2, timeout=600)
    progs = [json.loads(raw.strip()[1:-1].replace('\\"', '"')) for raw in ctx.tlc_lines(res, "PROG")]
    if len(progs) < 72:
        raise Inconclusive("EvmStackGen produced %d programs" % len(progs))
    return res, progs


def gen_trees(ctx):
    """EvmTreeGen: factories that CREATE two different init codes with jumps, parents with two sibling sub calls."""
    res = ctx.tlc("EvmTreeGen", cfg="EvmTreeGen.cfg", workers=2, timeout=600)
    trees = []
    for raw in ctx.tlc_lines(res, "TREE"):
        trees.append(json.loads(raw.strip()[1:-1].replace('\\"', '"')))
    if not trees:
        raise Inconclusive("EvmTreeGen produced no call trees")
    return res, trees


def run(ctx):
    quick = ctx.quick()
    # 1+2. design level, concurrently with the harness build
    mc = {}

    def mc_run(name, module, cfg, cov=False):
        def f():
            mc[name] = ctx.tlc(module, cfg=cfg, workers=4 if quick else 8, coverage=cov)
        return f
    jobs = [mc_run("word1", "EvmWordTest", "EvmWordTest.cfg" if quick else "EvmWordTest_full1.cfg"),
            mc_run("word2", "EvmWordTest", "EvmWordTest_w2.cfg"),
            mc_run("evm", "EvmMC", "Evm.cfg", cov=not quick)]
    if not quick:
        jobs.append(mc_run("evmwide", "EvmMC", "Evm_wide.cfg", cov=True))
    built = {}
    jobs.append(lambda: built.setdefault("drv", ctx.build("c10")))
    gen = {}
    jobs.append(lambda: gen.setdefault("r", gen_programs(ctx, 30 if quick else 600, 14)))
    jobs.append(lambda: gen.setdefault("j", gen_jump_sweep(ctx, range(8) if quick else range(64))))
    jobs.append(lambda: gen.setdefault("t", gen_trees(ctx)))
    jobs.append(lambda: gen.setdefault("s", gen_stack_sweep(ctx)))
    threads(jobs)
    drv = built["drv"]
    genres, progs = gen["r"]
    jumpres, jprogs = gen["j"]
    log("EvmGen: %d programs; EvmJumpGen: %d jump-destination cases" % (len(progs), len(jprogs)))
    stackres, sprogs = gen["s"]
    progs = progs + jprogs + sprogs
    treeres, trees = gen["t"]
    if quick:  # every factory, every third sibling tree
        trees = [t for t in trees if t["fam"] == "factory"] + [t for t in trees if t["fam"] != "factory"][ctx.seed % 3::3]
    log("EvmTreeGen: %d call trees" % len(trees))

    # 4. real runs
    shards = 4 if quick else 16
    nprog = 14 if quick else 200
    perfile = 4 if quick else 0
    argvs, traces = [], []
    for k in range(shards):
        sp = os.path.join(ctx.scratch, "script%d.json" % k)
        json.dump(progs[k::shards], open(sp, "w"))
        tp = os.path.join(ctx.scratch, "trace%d.ndjson" % k)
        traces.append(tp)
        tsp = os.path.join(ctx.scratch, "trees%d.json" % k)
        json.dump(trees[k::shards], open(tsp, "w"))
        argvs.append([drv, "--out", tp, "--scratch", os.path.join(ctx.scratch, "st%d" % k), "--script", sp, "--trees", tsp,
                      "--programs", str(nprog), "--snippets", "12", "--salt", str(k),
                      "--vectors", os.path.join(REPO, "src/vm/testdata"), "--vecperfile", str(perfile),
                      "--shard", str(k), "--shards", str(shards), "--matrix", "quick" if quick else "full", "--exp", str((1 if k < 2 else 0) if quick else 4)])
    outs = ctx.run_parallel(argvs, timeout=900)
    tot = {"programs": 0, "steps": 0, "events": 0, "vectors": 0, "tlc_programs": 0, "matrix_programs": 0, "truncated_runs": 0, "tree_programs": 0}
    ops, faults = {}, {}
    for o in outs:
        for line in o.splitlines():
            if line.startswith("c10:"):
                for kv in line.split()[1:]:
                    k, v = kv.split("=")
                    tot[k] += int(v)
            elif line.startswith("OPS "):
                for kv in line.split()[1:]:
                    k, v = kv.split(":")
                    ops[int(k)] = ops.get(int(k), 0) + int(v)
            elif line.startswith("FAULTS "):
                for kv in line.split()[1:]:
                    k, v = kv.rsplit(":", 1)
                    faults[k] = faults.get(k, 0) + int(v)
    log("c10 drivers: %s" % tot)
    missing = [o for o in WORD_OPS + OTHER_OPS if ops.get(o, 0) == 0]
    if missing and (not quick or len(missing) > 2 or any(o in WORD_OPS for o in missing)):
        raise Inconclusive("vacuity: opcodes never executed in this run: %s" % missing)
    if missing:
        log("note: opcodes not executed in this quick run: %s" % missing)
    if not quick:
        mf = [f for f in FAULTS + ["oog"] if faults.get(f, 0) == 0]
        if mf:
            raise Inconclusive("vacuity: fault classes never observed: %s" % mf)

    # 5. judge every trace (one TLC process per shard, concurrently)
    results = threads([(lambda tp=tp: ctx.validate_trace("EvmTrace", tp, timeout=1500)) for tp in traces])
    total_events = 0
    for tp, (n, bad) in zip(traces, results):
        total_events += n
        add_violations_from_bad(ctx, bad, tp, reset_event="Begin")
    samples = []
    with open(traces[0]) as f:
        for line in f:
            e = json.loads(line)
            if e["event"] in ("Step", "Vector", "Final") and e.get("op", 1) in WORD_OPS + [0] and len(samples) < 4:
                e.pop("auxin", None)
                samples.append(e)
    states = sum(r["distinct"] for r in mc.values()) + genres["generated"] + jumpres["distinct"]
    coverage = {
        "states": states,
        "transitions": sum(r["generated"] for r in mc.values()) + genres["generated"] + jumpres["generated"],
        "jump_destination_sweep_cases": len(jprogs),
        "stack_limit_sweep_cases": len(sprogs),
        "call_trees": tot["tree_programs"],
        "runs_recorded_up_to_the_step_bound_only": tot["truncated_runs"],
        "traces_validated_against_impl": tot["programs"],
        "events_validated": total_events,
        "interpreter_steps_recorded": tot["steps"],
        "generated_programs": tot["programs"] - tot["vectors"] - tot["tlc_programs"] - tot["matrix_programs"] - tot["tree_programs"],
        "boundary_matrix_programs": tot["matrix_programs"],
        "tlc_generated_programs": tot["tlc_programs"],
        "repository_vectors": tot["vectors"],
        "opcode_histogram": {str(k): ops[k] for k in sorted(ops)},
        "fault_histogram": faults,
        "word_selftest_states": {k: mc[k]["distinct"] for k in mc},
        "action_coverage": mc["evm"]["coverage"],
        "samples": samples,
        "exhaustive": True,
        "explanation": "EvmWord.tla compared exhaustively with native TLC arithmetic (1-byte words: %s operand triples; 2-byte "
                       "words: boundary sets); Evm.tla model-checked on all programs up to length 4 over 11 byte values (1-byte words); "
                       "every recorded step of the real interpreter recomputed by EvmTrace from its recorded pre-state."
                       % mc["word1"]["distinct"],
    }
    finish(ctx, "model_checking", coverage, [
        "jump table of the dev configuration at height 100 (proposals 014/022 active, 026 inactive: BootServices raises Proposal026Block); process-global common.LocalChainConfig is a fixed configuration",
        "gas is ample (400 000) in C10 runs: an out-of-gas fault is accepted only for a memory requirement above 64 KiB; gas itself is C11's subject",
        "KECCAK256 is computed by the harness (x/crypto) over the memory slice, which the monitor compares with the slice the reference selects",
        "call instructions and CREATE are outside the computational set: their own step is not judged, but every callee frame is judged like the outermost one, from the initial machine state with its own code and input (call trees: 30 000 000 gas, because a faulting callee takes 63/64 of it)",
        "the stack limit is swept at heights 1022 / 1023 / 1024 for every instruction with net effect +1; the steps that fill the stack are not recorded one by one (the complete state after them is, event Sync)",
    ])
