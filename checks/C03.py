"""C03 - a committed state root is durable, complete and never invalidates older roots."""
import json
import os
import re

from common import Inconclusive, add_violations_from_bad, finish, log
from statechecks import require_actions, validate_parallel


def run(ctx):
    quick = ctx.quick()
    # 1. design level: every DAG over Nodes, any sharing, a crash anywhere, batches of Ideal puts
    # quick: all DAGs over 4 nodes with crashes and failing writes; thorough: the same with action coverage, plus all DAGs
    # over 5 nodes with crashes (sibling states persisted in any order in both)
    base = ctx.tlc("TrieCommit", cfg="TrieCommit_quick.cfg", coverage=not quick, timeout=1500)
    big = None if quick else ctx.tlc("TrieCommit", cfg="TrieCommit.cfg", timeout=1700)
    require_actions(base, ["InsertTrie", "CommitBegin", "SkipKnown", "Descend", "PutNode", "Flush", "CommitEnd", "Crash", "WriteFails"])
    # negative control: a pre-order walk must break Closed (the invariant is not vacuous)
    neg = ctx.tlc("TrieCommit", cfg="TrieCommit_preorder.cfg", allow_violation=True)
    if not neg["error"] or "Closed" not in neg["error"]:
        raise Inconclusive("negative control: the pre-order walk did not violate Closed in the model")
    # second negative control: a put-once flag on the cached node must break durability once a write fails
    neg2 = ctx.tlc("TrieCommit", cfg="TrieCommit_dedup.cfg", allow_violation=True)
    if not neg2["error"] or not ("DurableKept" in neg2["error"] or "Closed" in neg2["error"]):
        raise Inconclusive("negative control: the flagged-node shortcut with failing writes did not violate durability in the model")
    # third negative control: uncache that drops the flush-list up to the root loses sibling states
    neg3 = ctx.tlc("TrieCommit", cfg="TrieCommit_prefixuncache.cfg", allow_violation=True)
    if not neg3["error"] or not any(k in neg3["error"] for k in ("NothingLost", "DurableKept", "Closed")):
        raise Inconclusive("negative control: prefix uncache with sibling states did not lose a node in the model")
    # 2. the real write sequences, every prefix re-opened by the real code
    drv = ctx.build("c03")
    procs = 4
    per = 6 if quick else 80
    blocks = 5 if quick else 6
    argvs, traces = [], []
    for k in range(procs):
        tp = os.path.join(ctx.scratch, "trace%d.ndjson" % k)
        traces.append(tp)
        argv = [drv, "--out", tp, "--scratch", os.path.join(ctx.scratch, "node%d" % k), "--histories", str(per),
                "--blocks", str(blocks), "--mutations", str((2500 if k % 2 == 0 else 1500) if quick else (5000 if k % 2 == 0 else 2000)), "--accounts", str(300 if k < 2 else 120),
                "--keys", str(14 if k < 2 else 30), "--salt", str(k),
                # the first histories again, once per physical write, with that write returning an error
                "--faultruns", str(2 if quick else 6),
                # sibling states on one parent sharing the memory layer, persisted in every order
                "--siblingruns", str(1 if quick else 4)]
        if os.environ.get("VERIF_C03_CORRUPT"):
            argv += ["--corrupt", os.environ["VERIF_C03_CORRUPT"]]
        argvs.append(argv)
    outs = ctx.run_parallel(argvs)
    tot = {"writes": 0, "nodes": 0, "reopens": 0, "failedWrites": 0, "successAfterFailure": 0, "siblingPersists": 0}
    max_batches = 0
    kinds = {}
    for o in outs:
        line = [x for x in o.splitlines() if x.startswith("c03:")][-1]
        for key in tot:
            tot[key] += int(re.search(key + r"=(\d+)", line).group(1))
        max_batches = max(max_batches, int(re.search(r"maxBatchesPerCommit=(\d+)", line).group(1)))
        for name, n in re.findall(r"(\w+):(\d+)", line.split("kinds=map[")[1]):
            kinds[name] = kinds.get(name, 0) + int(n)
    # vacuity: what the check relies on must have happened
    present = older_while_newer_absent = rewritten = prefixes = 0
    samples = []
    for tp in traces:
        with open(tp) as f:
            for line in f:
                e = json.loads(line)
                if e["event"] == "Write":
                    prefixes += 1
                    rewritten += len(e["again"])
                    if len(samples) < 1:
                        s = dict(e)
                        s["nodes"] = s["nodes"][:6] + ["... %d more" % max(0, len(e["nodes"]) - 6)]
                        s["again"] = s["again"][:6]
                        samples.append(s)
                elif e["event"] == "Reopen":
                    rs = e["roots"]
                    present += sum(1 for r in rs if r["present"])
                    if rs and not rs[-1]["present"] and any(r["present"] for r in rs[:-1]):
                        older_while_newer_absent += 1
                    if len(samples) < 3 and len(rs) > 1:
                        samples.append(e)
                elif e["event"] == "Committed" and len(samples) < 4:
                    samples.append(e)
    vacuous = []
    if max_batches < 3:
        vacuous.append("no commit was split over at least 3 batch writes")
    if tot["failedWrites"] == 0 or tot["successAfterFailure"] == 0:
        vacuous.append("no physical write failed / no commit reported success after a failed write")
    if tot["siblingPersists"] == 0:
        vacuous.append("no sibling state was persisted")
    if older_while_newer_absent == 0 or present == 0 or rewritten == 0:
        vacuous.append("no prefix with an older root on disk during a later commit / no root re-opened / no shared node")
    for k in ("SetData", "AddBalance", "SetNonce", "SetCode", "CloneStorage", "Suicide", "CreateAccount", "CodeOnlyUniqueCode", "CodeOnlySharedCode", "RevertedScope"):
        if not kinds.get(k):
            vacuous.append("mutation kind %s never generated" % k)
    # 3. judge the write sequences against the specification, at every prefix
    results = validate_parallel(ctx, "TrieCommitTrace", traces, timeout=1500 if quick else 6000)
    total = 0
    for tp, (n, bad) in zip(traces, results):
        total += n
        add_violations_from_bad(ctx, bad, tp)
    if vacuous and not ctx.violations:
        raise Inconclusive("vacuous: " + "; ".join(vacuous))
    coverage = {
        "evaluations": tot["reopens"],
        "distinct_nontrivial": present,
        "rule": "a case is (history, prefix k of the real sequence of physical writes, state root produced so far): a fresh store holding "
                "exactly the first k writes is opened by fresh account.NewDatabase/NewAccountDB and fully walked; non-trivial = the root's "
                "top node is on disk in that prefix (so it must resolve completely and equal what was readable before its commit); "
                "cases are distinct by construction (one per (history, k, root))",
        "samples": samples,
        "crash_points": prefixes,
        "failed_writes_injected": tot["failedWrites"],
        "commits_reported_successful_after_a_failed_write": tot["successAfterFailure"],
        "sibling_states_persisted_out_of_insertion_order_and_in_order": tot["siblingPersists"],
        "crash_points_inside_a_commit_with_older_roots_on_disk": older_while_newer_absent,
        "nodes_written": tot["nodes"],
        "nodes_written_again_shared": rewritten,
        "max_batch_writes_per_commit": max_batches,
        "mutations_by_kind": kinds,
        "histories": procs * per,
        "blocks_per_history": blocks,
        "states": base["distinct"] + neg["distinct"] + neg2["distinct"] + neg3["distinct"] + (big["distinct"] if big else 0),
        "transitions": base["generated"] + neg["generated"] + neg2["generated"] + neg3["generated"] + (big["generated"] if big else 0),
        "traces_validated_against_impl": procs * per,
        "events_validated": total,
        "action_coverage": base["coverage"],
        "negative_control_preorder_violates_Closed": True,
        "negative_control_put_once_flag_with_failing_write_violates_durability": True,
        "negative_control_prefix_uncache_loses_sibling_state": True,
        "exhaustive": True,
        "explanation": "exhaustive over the prefixes of each recorded write sequence (every crash point between two physical writes); "
                       "plus, for the fault histories, every physical write failing once; "
                       "TrieCommit.tla exhaustive over all DAGs of the configured size with crashes and failing writes anywhere",
    }
    finish(ctx, "fault_enumeration", coverage, [
        "a Batch.Write is atomic (xdb.Batch contract; LevelDB batch): crash points are between physical writes, not inside one",
        "the disk store is the package's MemDatabase behind a recording xdb.Database wrapper (the NodeDatabase only sees the interface)",
        "references are extracted from the stored blobs by the harness's own RLP splitter: hash references inside trie nodes, and "
        "storage root / code hash inside account leaves (the empty trie root and the empty-code hashes are not references)",
        "3% of the mutations of a block are reverted scopes: a slot written earlier in the block is written again (with another slot, "
        "a balance, the nonce) inside a Snapshot that is reverted before the block is committed",
        "one account in ten is a contract without any storage slot of its own (code, nonce, balance only), with code no other account has or code shared with storage-ful accounts",
        "expected content of a root = what the live AccountDB answered (Exist, nonce, balance, code, every slot of the universe) "
        "after IntermediateRoot(true) and before Commit(true) of that block",
        "sibling states: for some histories 2-3 states are built on one persisted parent through real AccountDBs (disjoint accounts / "
        "the same accounts / two identical states), AccountDB.Commit-ed into the shared memory layer and then persisted with "
        "NodeDatabase.Commit in every order (also: first persist fails on its first write, another sibling is persisted, the first retried)",
        "write errors: for some histories every physical write in turn returns an error once (nothing of that batch reaches the store, "
        "the process goes on: retry of the same root for even write indices, next block on top for odd ones); every root whose commit "
        "REPORTED success is then re-opened from the store alone",
    ])
