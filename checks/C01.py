"""C01 - block execution is replica-deterministic."""
import collections
import json
import os
import random

from common import Inconclusive, add_violations_from_bad, finish, log


def lines(ctx, res, marker):
    return [json.loads(raw.strip()[1:-1].replace('\\"', '"')) for raw in ctx.tlc_lines(res, marker)]


def run(ctx):
    quick = ctx.quick()
    rng = random.Random(ctx.seed)
    ref = ctx.tlc("ExecOrder", cfg="ExecOrder.cfg")                                   # sorted iteration: confluent
    asc = ctx.tlc("ExecOrder", cfg="ExecOrder_ascoded.cfg", allow_violation=True)    # any order: sensitive inputs exist
    gen = ctx.tlc("ExecOrder", cfg="ExecOrderGen.cfg")
    inputs = lines(ctx, gen, "INPUT")
    sens = [x for x in inputs if x["sensitive"]]
    rest = [x for x in inputs if not x["sensitive"]]
    rng.shuffle(rest)
    rng.shuffle(sens)
    if not sens or not rest:
        raise Inconclusive("generator produced no (in)sensitive inputs")
    chosen = (sens if not quick else sens[:60]) + rest[:(150 if quick else 1352)]
    led_cfg = """SPECIFICATION Spec
CONSTANTS
  Accounts = {1, 2, 3}
  MaxAmt = 2
  Depth = %d
INVARIANT Dump
CHECK_DEADLOCK FALSE
""" % (6 if quick else 9)
    led = ctx.tlc("Ledger", cfg_text=led_cfg, simulate="num=%d" % (20 if quick else 120), depth=(7 if quick else 10),
                  extra=["-seed", str(ctx.seed)])
    mixed = lines(ctx, led, "HIST")
    if not mixed:
        raise Inconclusive("no mixed histories generated")
    drv = ctx.build("c01")
    shards = 8 if quick else 16
    argvs, traces = [], []
    for k in range(shards):
        tpath = os.path.join(ctx.scratch, "tin%d.json" % k)
        mpath = os.path.join(ctx.scratch, "mixed%d.json" % k)
        json.dump(chosen[k::shards], open(tpath, "w"))
        json.dump(mixed[k::shards], open(mpath, "w"))
        tp = os.path.join(ctx.scratch, "trace%d.ndjson" % k)
        traces.append(tp)
        argvs.append([drv, "--transfers", tpath, "--mixed", mpath, "--out", tp, "--scratch", os.path.join(ctx.scratch, "st%d" % k),
                      "--n-sensitive", str(64 if quick else 128), "--n-plain", str(6 if quick else 12)]
                     + (["--shared-reward", str(96 if quick else 256)] if k == 0 else [])
                     + (["--cast"] if k == 1 else [])
                     + (["--destroyed-funded", str(48 if quick else 160)] if k == 2 else [])
                     + (["--scratch-memory", str(24 if quick else 96)] if k == 3 else [])
                     + (["--stake-reward", str(32 if quick else 120)] if k == 4 else [])
                     + (["--executed-store", str(16 if quick else 64)] if k == 5 else []))
    outs = ctx.run_parallel(argvs)
    nruns = sum(int(o.split("runs=")[1].split()[0]) for o in outs)
    total, classes, samples = 0, collections.Counter(), []
    for tp in traces:
        n, bad = ctx.validate_trace("ExecOrderTrace", tp)
        total += n
        add_violations_from_bad(ctx, bad, tp)
        with open(tp) as f:
            for line in f:
                e = json.loads(line)
                classes[e["class"]] += 1
                if len(samples) < 3 and (len(e["targets"]) > 1 or e["class"] == "mixed"):
                    s = dict(e)
                    s["runs"] = e["runs"][:2]
                    s["transferOk"] = e["transferOk"][:4]
                    samples.append(s)
    if classes["transfer"] == 0 or classes["mixed"] == 0 or classes["shared-reward-account"] == 0 or classes["cast-cut-off-then-verify"] == 0 \
            or classes["destroyed-then-funded"] == 0 or classes["uninitialised-memory-reader"] == 0 \
            or classes["stake-change-with-reward"] == 0 or classes["executed-store-history"] == 0:
        raise Inconclusive("vacuity: classes %s" % dict(classes))
    coverage = {
        "states": ref["distinct"] + asc["distinct"] + gen["distinct"],
        "transitions": ref["generated"] + asc["generated"] + gen["generated"],
        "traces_validated_against_impl": total,
        "inputs": total,
        "independent_executions": nruns,
        "order_sensitive_inputs_in_model": len(sens),
        "order_sensitive_inputs_replayed": len([x for x in chosen if x["sensitive"]]),
        "inputs_by_class": dict(classes),
        "any_order_model_is_not_confluent": bool(asc["error"]),
        "samples": samples,
    }
    finish(ctx, "model_checking", coverage, [
        "every run executes the whole input (funding block + transfer block, or a mixed history of all transaction kinds) on a fresh AccountDB opened at the same root, with the account caches warmed in a run-specific order",
        "Go randomises the start of a map iteration: an order-sensitive input with k targets is reversed/rotated in a given run with probability ~1/8 per rotation, so it is replayed 64 (quick) / 128 (thorough) times",
        "process-global fork switches (common.IsProposalNNN read the node's height) are a fixed configuration",
        "wall-clock cut-off of the casting situation is not exercised (verification situation)",
    ])
