"""Registry of claimed checks; bin/mkmanifest turns it into MANIFEST.json.
One JSON file per claimed property in checks/registry.d/."""
import glob
import json
import os

HERE = os.path.dirname(os.path.abspath(__file__))

HOOK_COMMITS = [l.strip() for l in open(os.path.join(HERE, "hook_commits.txt")) if l.strip()]

CHECKS = {}
for p in sorted(glob.glob(os.path.join(HERE, "registry.d", "C*.json"))):
    CHECKS[os.path.basename(p)[:-5]] = json.load(open(p))

NA = {}
_na = os.path.join(HERE, "not_applicable.json")
if os.path.exists(_na):
    NA = json.load(open(_na))

NOT_YET = "check not built yet in this round (see DESIGN.md section 5 for the plan)"
