"""Registry of claimed checks; bin/mkmanifest turns it into MANIFEST.json."""

HOOK_COMMITS = [
    "40f3f45 verif hook H1: disable NTP lookup under build tag verif",
    "6b819e9 verif hook H2: store write observation point",
    "2fcbc28 verif hook H4: in-package exports for chain boot, group removal and block execution",
]

CHECKS = {
    "C19": dict(
        level="model_checking",
        text="GroupChain.tla (store writes of save/remove, restart, crash) model-checked exhaustively by TLC; "
             "TLC-generated call histories replayed on the real core.groupChain and every recorded step judged by "
             "GroupChainTrace.tla (step relation + list/index/by-id invariants on the API's answers).",
        note="consensus CheckGroup stubbed; restart = initGroupChain re-run in-process; bounds Ids<=5, MaxCount=6",
        technique="TLA+ spec + TLC exhaustive; TLC-generated histories replayed on real code; TLC trace validation",
        design_ref="5 (C19)",
        engine="groupchain",
    ),
}

NOT_YET = "check not built yet in this round (see DESIGN.md section 5 for the plan)"
