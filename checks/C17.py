"""C17 - tx pool hands each transaction to the chain at most once, never ahead of nonce."""
import collections
import json
import os

from common import Inconclusive, add_violations_from_bad, finish, log


def parse_json_lines(ctx, res, marker):
    out = []
    for raw in ctx.tlc_lines(res, marker):
        out.append(json.loads(raw.strip()[1:-1].replace('\\"', '"')))
    return out


def run(ctx):
    quick = ctx.quick()
    mc = ctx.tlc("TxPoolMC", cfg="TxPoolMC.cfg", coverage=not quick)
    atomic = ctx.tlc("TxPoolConc", cfg="TxPoolConc_atomic.cfg")
    ascoded = ctx.tlc("TxPoolConc", cfg="TxPoolConc_ascoded.cfg", allow_violation=True)
    sched_run = ctx.tlc("TxPoolConc", cfg="TxPoolConc.cfg")
    readers = ctx.tlc("TxPoolConc", cfg="TxPoolConc_readers.cfg")
    negcache = ctx.tlc("TxPoolConc", cfg="TxPoolConc_negcache.cfg", allow_violation=True)
    if not negcache["error"]:
        raise Inconclusive("negative control: the negative-lookup-cache variant was not refuted by the model")
    cached = ctx.tlc("TxPoolConc", cfg="TxPoolConc_cachedview.cfg", allow_violation=True)
    if not cached["error"]:
        raise Inconclusive("negative control: the cached-pending-view variant was not refuted by the model")
    scheds = parse_json_lines(ctx, sched_run, "SCHED")
    # schedules with a two-step lookup are many: all of those without one, and of the others a few
    # per pattern (initial pool state, bookkeeping call, order of the lookup's two steps relative to
    # the critical sections of the bookkeeping call)
    import random as _r
    _rng = _r.Random(ctx.seed)
    plain_s = [x for x in scheds if 4 not in x["sched"]]
    by_pat = collections.defaultdict(list)
    for x in scheds:
        if 4 in x["sched"]:
            by_pat[(x["init"], x["op2"], tuple(t for t in x["sched"] if t in (2, 4)))].append(x)
    picked = []
    for k in sorted(by_pat):
        _rng.shuffle(by_pat[k])
        picked += by_pat[k][:(3 if quick else 12)]
    n_patterns = len(by_pat)
    scheds = plain_s + picked
    gen_cfg = """SPECIFICATION Spec
CONSTANTS
  Cap = 200
  Limit = 50000
  Depth = %d
  MaxBlocks = 3
INVARIANT Dump
CHECK_DEADLOCK FALSE
""" % (3 if quick else 4)
    gen = ctx.tlc("TxPoolMC", cfg_text=gen_cfg, timeout=1200)
    hists = parse_json_lines(ctx, gen, "HIST")
    if not hists or not scheds:
        raise Inconclusive("TLC generated no histories / schedules")
    # the generator's PackMark = Pack + Mark of what the real pool packed
    drv = ctx.build("c17")
    shards = 8 if quick else 16
    argvs, traces = [], []
    sp_conc = os.path.join(ctx.scratch, "sched.json")
    json.dump(scheds, open(sp_conc, "w"))
    for k in range(shards):
        sp = os.path.join(ctx.scratch, "script%d.json" % k)
        json.dump(hists[k::shards], open(sp, "w"))
        tp = os.path.join(ctx.scratch, "trace%d.ndjson" % k)
        traces.append(tp)
        a = [drv, "--script", sp, "--out", tp, "--scratch", os.path.join(ctx.scratch, "st%d" % k),
             "--random", str(25 if quick else 150), "--len", str(30 if quick else 60), "--salt", str(k)]
        if k < (2 if quick else 8):
            a += ["--big", "1"]
        if k in (0, 1):
            a += ["--conc", sp_conc]
        if k == 2:
            a += ["--fullpool"]
        if k == 3:
            a += ["--tickrace", "1500" if quick else "8000"]
        # block-size boundaries (the pool's internal write batches, the per-block limit)
        size_sets = ["1,2,99,100,101", "199,200", "201,250", "150,300"] if quick else \
                    ["1,2,3,50,99,100,101", "149,150,151", "198,199", "200", "201,202", "250,299", "300,301", "400", "64,128,256", "32,512"]
        if k >= 2 and k - 2 < len(size_sets):
            a += ["--sizes", size_sets[k - 2]]
        argvs.append(a)
    outs = ctx.run_parallel(argvs)
    stat = collections.Counter()
    for o in outs:
        line = [l for l in o.splitlines() if l.startswith("c17:")][-1]
        for kv in line.split()[1:]:
            k, v = kv.split("=")
            stat[k] += int(v)
    total, kinds, gates, samples = 0, collections.Counter(), collections.Counter(), []
    for tp in traces:
        n, bad = ctx.validate_trace("TxPoolTrace", tp, timeout=1500)
        total += n
        add_violations_from_bad(ctx, bad, tp)
        with open(tp) as f:
            for line in f:
                e = json.loads(line)
                kinds[e["event"]] += 1
                if e["event"] == "Conc":
                    for g in e["followed"]:
                        gates[g] += 1
                    if len(samples) < 2:
                        samples.append(e)
                elif e["event"] in ("Pack", "UnMark") and len(samples) < 4 and len(e["state"]["pending"]) < 12:
                    samples.append(e)
    for need in ("Add", "Pack", "Mark", "UnMark", "Conc", "FullPoolReorg", "Tick", "TickRace"):
        if kinds[need] == 0:
            raise Inconclusive("vacuity: no %s event" % need)
    if gates["add.checked"] == 0 or (gates["mark.written"] == 0 and gates["blocked"] == 0):
        raise Inconclusive("vacuity: the scheduling gates (hook H7) were never reached: %s" % dict(gates))
    runs = [mc, atomic, ascoded, sched_run, gen, readers]
    # the clause "removed by a reorg -> pending again, new chain -> executed" through the chain's own
    # bookkeeping, including a process death before every store write of the reorg and the restart:
    # block trees with transactions from BlockStoreGen, replayed on the real chain + pool by the c05
    # driver, judged by BlockStoreTrace; only the pool clauses are verdicts here (the store clauses
    # belong to C05)
    import random
    import C05
    rng = random.Random(ctx.seed)
    gen5, scs = C05.gen_scenarios(ctx, 3, 3, False, forks=False)
    runs.append(gen5)
    reorg_tx = [s_ for s_ in scs if s_["feat"]["maxRem"] >= 1 and any(b["txs"] for b in s_["tree"])]
    feat = lambda s_: (s_["feat"]["maxRem"], tuple(sorted(set(s_["feat"]["res"]))), tuple(bool(b["txs"]) for b in s_["tree"]))
    sel, _ = C05.stratified(reorg_tx, 10 if quick else 80, rng, feat)
    drv5 = ctx.build("c05")
    sp5 = os.path.join(ctx.scratch, "scen-reorg.json")
    json.dump([{"tree": s_["tree"], "order": s_["order"]} for s_ in sel], open(sp5, "w"))
    tp5 = os.path.join(ctx.scratch, "trace-reorg.ndjson")
    p5 = ctx.run([drv5, "batch", "--scen", sp5, "--out", tp5, "--scratch", os.path.join(ctx.scratch, "st-reorg"),
                  "--crash", "all", "--par", "16"], timeout=3000)
    st5 = dict(kv.split("=") for kv in [l for l in p5.stdout.splitlines() if l.startswith("c05:")][-1].split()[1:])
    n5, bad5 = ctx.validate_trace("BlockStoreTrace", tp5, timeout=2400)
    pool_tags = ("Inv.ExecutedAgrees", "Inv.RemovedTxsPending")
    add_violations_from_bad(ctx, [b for b in bad5 if b[2] in pool_tags], tp5, what_prefix="reorg/crash family: ",
                            verdict=lambda t: t in pool_tags)
    total += n5
    if int(st5["crashruns"]) == 0:
        raise Inconclusive("vacuity: no crash inside a reorg with transactions was exercised")
    # extension beyond the listed property: the gateway request queue in front of the pool
    import extensions
    ext_rq = extensions.reqqueue(ctx)
    coverage = {
        "extension_request_queue": ext_rq,
        "states": sum(r["distinct"] for r in runs),
        "transitions": sum(r["generated"] for r in runs),
        "traces_validated_against_impl": stat["histories"] + stat["schedules"],
        "events_validated": total,
        "real_calls": stat["calls"],
        "tlc_generated_histories": len(hists),
        "tlc_generated_schedules": len(scheds),
        "lookup_schedule_patterns": n_patterns,
        "events_by_kind": dict(kinds),
        "reorg_scenarios_with_transactions": len(sel),
        "reorg_crash_restart_cycles": int(st5["crashruns"]),
        "gate_outcomes": dict(gates),
        "unlocked_model_violates_at_most_once": bool(ascoded["error"]),
        "samples": samples,
        "action_coverage": mc["coverage"],
    }
    finish(ctx, "model_checking", coverage, [
        "pack/mark/unmark are driven on the real TxPool with its real LevelDB executed store; state nonces come from a real AccountDB",
        "the dev fork schedule below height 12 is in force (Transactions.Less of Proposal021)",
        "lock-free existence lookups (IsExisted) are a two-step thread of the schedules: the executed-store read is held by a pausing wrapper (hook export VerifWrapExecutedStore) and released at the scheduled point",
        "lock-free readers (PackForCast, GetReceived) are one more thread of the schedules: a read may fall between any two critical sections of the overlapping calls",
        "concurrency: every interleaving of the pool's unlocked critical sections for two overlapping calls (Add with Add/Mark/UnMark of the same transaction) "
        "is enumerated by TLC and replayed with the gate hook; schedules of three or more overlapping calls and the goroutine schedules the Go runtime "
        "would produce on its own are not explored",
        "reorgs with a process death before every store write (real chain, real pool, fresh process restart) reuse C05's driver and monitor; only the pool clauses (executed set = transactions of the canonical chain, transactions of removed blocks pending) are verdicts of C17",
        "transaction expiry: the ageing pass of the pending container (growRing, normally on a one-minute ticker) is run on request (hook export VerifPoolTick): sequentially as an operation of the histories (a transaction is dropped at its fifth tick), and concurrently with bookings followed by a reorg (tick-race rounds; the goroutine schedule inside a pass is the runtime's, so this family is a best-effort search, not an enumeration)",
    ])
