"""C20 - miner registry and stake accounting agree with the applied miner transactions."""
import collections
import json
import os
import random

from common import Inconclusive, add_violations_from_bad, finish, log


def hist_lines(ctx, res):
    out = []
    for raw in ctx.tlc_lines(res, "HIST"):
        out.append(json.loads(raw.strip()[1:-1].replace('\\"', '"')))
    return out


def gen_cfg(depth, seeded=False, cold=False):
    return """SPECIFICATION Spec
CONSTANTS
  Depth = %d
  MaxOps = 0
  Seeded = %s
  ColdSeed = %s
INVARIANT Dump
CHECK_DEADLOCK FALSE
""" % (depth, "TRUE" if seeded else "FALSE", "TRUE" if cold else "FALSE")


def run(ctx):
    quick = ctx.quick()
    rng = random.Random(ctx.seed)
    mc_cfg = """SPECIFICATION Spec
CONSTANTS
  Depth = 0
  MaxOps = %d
  Seeded = FALSE
  ColdSeed = FALSE
INVARIANTS InvOneMinerPerAccount InvConservation InvStakeAccounting InvNonNegative InvStakeFloor
CHECK_DEADLOCK FALSE
""" % (4 if quick else 5)
    mc = ctx.tlc("MinerRegistryMC", cfg_text=mc_cfg, coverage=not quick, timeout=2400)
    g2 = ctx.tlc("MinerRegistryMC", cfg_text=gen_cfg(2), timeout=1200)
    h2 = hist_lines(ctx, g2)
    rng.shuffle(h2)
    if quick:
        # always keep the two-transaction single-block histories (same-block visibility), sample the rest
        same_block = [h for h in h2 if not h[1]["nb"]]
        rest = [h for h in h2 if h[1]["nb"]]
        h2 = same_block[:2500] + rest[:1500]
    # every pair of non-apply transactions (with / without a block boundary) on a registry that
    # already holds a proposer and a validator of two different accounts
    g4 = ctx.tlc("MinerRegistryMC", cfg_text=gen_cfg(4, seeded=True), timeout=1200)
    h4 = hist_lines(ctx, g4)
    rng.shuffle(h4)
    if quick:
        h4 = h4[:2500]
    if not h4:
        raise Inconclusive("TLC generated no seeded histories")
    # the same on a registry whose proposer was applied FOR a cold account (an address without any
    # state object, named explicitly in the apply)
    g4c = ctx.tlc("MinerRegistryMC", cfg_text=gen_cfg(4, seeded=True, cold=True), timeout=1200)
    h4c = hist_lines(ctx, g4c)
    rng.shuffle(h4c)
    if quick:
        h4c = h4c[:1500]
    if not h4c:
        raise Inconclusive("TLC generated no cold-account histories")
    h4 = h4 + h4c
    h2 = h2 + h4
    deep_depth = 6 if quick else 8
    gs = ctx.tlc("MinerRegistryMC", cfg_text=gen_cfg(deep_depth), simulate="num=%d" % (40 if quick else 250),
                 depth=deep_depth + 1, extra=["-seed", str(ctx.seed)], timeout=1200)
    hs = hist_lines(ctx, gs)
    hists = h2 + hs
    if not h2 or not hs:
        raise Inconclusive("TLC generated no histories (exhaustive %d, simulated %d)" % (len(h2), len(hs)))
    drv = ctx.build("c20")
    shards = 8 if quick else 16
    argvs, traces = [], []
    for k in range(shards):
        sp = os.path.join(ctx.scratch, "script%d.json" % k)
        json.dump(hists[k::shards], open(sp, "w"))
        tp = os.path.join(ctx.scratch, "trace%d.ndjson" % k)
        traces.append(tp)
        argvs.append([drv, "--script", sp, "--out", tp, "--scratch", os.path.join(ctx.scratch, "st%d" % k)])
    outs = ctx.run_parallel(argvs)
    blocks = sum(int(o.split("blocks=")[1].split()[0]) for o in outs)
    total, accepted, rejected, kinds, samples = 0, 0, 0, collections.Counter(), []
    for tp in traces:
        n, bad = ctx.validate_trace("MinerRegistryTrace", tp, timeout=2400)
        total += n
        add_violations_from_bad(ctx, bad, tp)
        with open(tp) as f:
            for line in f:
                e = json.loads(line)
                if e["event"] != "Block":
                    continue
                for t in e["txs"]:
                    kinds[(t["kind"], t["ok"])] += 1
                if len(samples) < 3 and len(e["txs"]) > 1:
                    samples.append({"txs": e["txs"], "byId": e["state"]["byId"], "byAccount": e["state"]["byAccount"]})
    for k in ("Apply", "Add", "Refund", "Change"):
        if kinds[(k, True)] == 0 or kinds[(k, False)] == 0:
            raise Inconclusive("vacuity: %s transactions were never both accepted and rejected: %s" % (k, dict(kinds)))
    from common import tlaps
    proof = tlaps(ctx, ["MinerRegistryCore.tla"], "MinerRegistryProof")
    coverage = {
        "design_level_theorems": proof,
        "states": mc["distinct"] + g2["distinct"],
        "transitions": mc["generated"] + g2["generated"],
        "traces_validated_against_impl": len(hists),
        "events_validated": total,
        "real_blocks_executed": blocks,
        "tx_outcomes": {"%s:%s" % (k, "ok" if ok else "rejected"): v for (k, ok), v in sorted(kinds.items())},
        "tlc_histories_exhaustive_depth2": len(h2),
        "tlc_histories_simulated": len(hs),
        "samples": samples,
        "action_coverage": mc["coverage"],
    }
    finish(ctx, "model_checking", coverage, [
        "transactions run through core.VMExecutor.Execute (fee, snapshot/revert, refund scheduling, block reward) on an AccountDB opened at the dev genesis root; blocks are not committed",
        "block rewards are scheduled at multiples of 36000 and are excluded from the conservation sum; refunds mature at height+36000 (Proposal012)",
        "universe: 2 miner ids, 3 accounts (two funded with 1e9 RPG, one with 2 RPG), stakes below/at/above the minimum",
        "the registry is observed after every block (IntermediateRoot), which is when the by-account index and the iteration see the block's writes",
    ])
