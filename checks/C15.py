"""C15 - verifiers count only signature shares valid for the block being signed."""
import json
import os
import random
import re

from common import Inconclusive, add_violations_from_bad, finish, log

KINDS = ["honest", "otherHash", "replay", "garbage", "offcurve", "badRand", "emptyRand", "nonMember"]


def gen_histories(ctx, byz, depth):
    cfg = """SPECIFICATION GenSpec
CONSTANTS
  NMem = 4
  KThr = 3
  Byz = {%s}
  MaxByz = 2
  MaxDup = 1
  AsCoded = FALSE
  Depth = %d
INVARIANTS GenInv Dump
CHECK_DEADLOCK FALSE
""" % (", ".join(str(b) for b in byz), depth)
    res = ctx.tlc("SignRoundGen", cfg_text=cfg, timeout=1500)
    hs = [json.loads(raw.strip()[1:-1].replace('\\"', '"')) for raw in ctx.tlc_lines(res, "HIST")]
    if not hs:
        raise Inconclusive("TLC generated no histories")
    return res, hs


def run(ctx):
    quick = ctx.quick()
    # 1. design level: the reference handler keeps the three invariants for every message order;
    #    the as-coded handler (share checked against the sender-supplied hash) is explored for candidates
    ref = ctx.tlc("SignRound", cfg="SignRound.cfg" if quick else "SignRound_wide.cfg", coverage=not quick, timeout=1500)
    ascoded = {}
    for inv in ("OnlyValidShares", "ThresholdImpliesValidGroupSig", "OneFaultTolerated"):
        r = ctx.tlc("SignRound", cfg="SignRound_ascoded_%s.cfg" % inv, allow_violation=True)
        ascoded[inv] = bool(r["error"])
    # 2. TLC-generated message sequences
    gen, hists = gen_histories(ctx, [4], 5)
    rnd = random.Random(ctx.seed)
    rnd.shuffle(hists)
    want = 1600 if quick else len(hists)
    chosen = hists[:want]
    drv = ctx.build("c15")
    shards = 8 if quick else 16
    argvs, traces = [], []
    for k in range(shards):
        part = chosen[k::shards]
        sp = os.path.join(ctx.scratch, "script%d.json" % k)
        json.dump(part, open(sp, "w"))
        tp = os.path.join(ctx.scratch, "trace%d.ndjson" % k)
        traces.append(tp)
        argvs.append([drv, "--script", sp, "--out", tp, "--scratch", os.path.join(ctx.scratch, "run%d" % k), "--salt", str(k)])
    outs = ctx.run_parallel(argvs, timeout=1500)
    counts = {}
    for o in outs:
        line = [l for l in o.splitlines() if l.startswith("c15:")]
        if not line:
            print(o[-2000:])
            raise Inconclusive("driver printed no summary")
        for key, v in re.findall(r"(\w+)=(\d+)", line[-1]):
            counts[key] = counts.get(key, 0) + int(v)
    for need in KINDS + ["wire", "recovered", "messages"]:
        if counts.get(need, 0) == 0:
            raise Inconclusive("vacuity: no %s occurred in the driven sequences" % need)
    total = 0
    samples = []
    # merge shard traces pairwise (a Start event resets the bound state): fewer JVM starts
    merged = []
    for k in range(0, len(traces), 4):
        mp = os.path.join(ctx.scratch, "trace-m%d.ndjson" % k)
        with open(mp, "w") as f:
            for tp in traces[k:k + 4]:
                f.write(open(tp).read())
        merged.append(mp)
    for tp in merged:
        n, bad = ctx.validate_trace("SignRoundTrace", tp, timeout=1500)
        total += n
        add_violations_from_bad(ctx, bad, tp, reset_event="Start")
        if not samples:
            with open(tp) as f:
                for line in f:
                    e = json.loads(line)
                    if e["event"] == "Msg" and e["m"]["kind"] not in [s["m"]["kind"] for s in samples] and len(samples) < 4:
                        samples.append(e)
    coverage = {
        "states": ref["distinct"] + gen["distinct"],
        "transitions": ref["generated"] + gen["generated"],
        "traces_validated_against_impl": counts["histories"],
        "events_validated": total,
        "real_update_calls": counts["messages"],
        "sequences_through_wire_codec": counts["wire"],
        "sequences_reaching_recovery": counts["recovered"],
        "messages_by_kind": {k: counts[k] for k in KINDS},
        "tlc_generated_sequences": len(hists),
        "sequences_replayed": len(chosen),
        "as_coded_model_violates": ascoded,
        "samples": samples,
        "action_coverage": ref["coverage"],
        "exhaustive": len(chosen) == len(hists),
        "explanation": "SignRound.tla (reference handler: add iff member, not duplicate, share valid for this block's hash, beacon share "
                       "valid) model-checked exhaustively for 4 members, threshold 3, <= 2 Byzantine/outsider messages, all orders; the "
                       "as-coded alternative is explored for candidate scenarios only. TLC generates every message sequence of length 5; "
                       "a seeded sample (thorough: all of them) is fed to the real round1.Update of a round built for a group from "
                       "the node's DKG, half of the sequences through the protobuf wire codec; after every message the share sets, the "
                       "validity of every stored share, the recovery flags and round2.checkSignature are logged and judged by SignRoundTrace.",
    }
    finish(ctx, "model_checking", coverage, [
        "round 0 (acceptance of the proposer's cast message) is taken as done: the round is constructed with group, previous and proposed header injected (hook H3); the block chain is a stub that has no block with the proposed hash",
        "member public shares are served by the real JoinedGroupStorage/GetMemberSignPubKey with the shares the DKG members derived; the requesting of unknown public shares over the network is disabled",
        "validity of a share = verdict of the real groupsig.VerifySig under the member's public share (C14 decides whether that verdict is right)",
        "4 members, threshold 3 (the node's GetGroupK), one Byzantine member plus one outsider",
    ])
