"""C15 - verifiers count only signature shares valid for the block being signed.

Extension (SignParty): admission of cast / verify messages by the real Processor, buffering and
replay of early messages, party re-keying, time-out, finalisation.  Its judgements are tagged
Ext.* (informational) except the literal restatement of C15's first clause on that path."""
import json
import os
import random
import re
import threading
import time

from common import Inconclusive, add_violations_from_bad, finish, log

KINDS = ["honest", "otherHash", "replay", "garbage", "offcurve", "badRand", "emptyRand", "swapped", "shiftRandom", "shiftSmall", "staleShare",
         "selfGarbage", "selfOther", "selfSender", "announce", "announceOther", "announceOutsider", "underOtherKey", "nonMember"]
PARTY_TYPES = ["cast", "verify", "own", "wrongBlock", "forged", "timeout"]
MAX_JVMS = 3


def overlapped(jobs):
    """Run callables (each one TLC JVM) at most MAX_JVMS at a time; results in order.
    Starts are staggered: ctx.tlc numbers its run directory in its first instructions."""
    results = [None] * len(jobs)
    errors = []
    sem = threading.Semaphore(MAX_JVMS)

    def work(i, fn):
        try:
            results[i] = fn()
        except BaseException as e:       # Inconclusive included: re-raised in the caller's thread
            errors.append(e)
        finally:
            sem.release()

    threads = []
    for i, fn in enumerate(jobs):
        sem.acquire()
        t = threading.Thread(target=work, args=(i, fn))
        t.start()
        threads.append(t)
        time.sleep(0.4)
    for t in threads:
        t.join()
    if errors:
        raise errors[0]
    return results


def parse(raw):
    return json.loads(raw.strip()[1:-1].replace('\\"', '"'))


def gen_histories(ctx, byz, depth, focus="shares"):
    cfg = """SPECIFICATION GenSpec
CONSTANTS
  NMem = 4
  KThr = 3
  Byz = {%s}
  MaxByz = %d
  MaxDup = 1
  MaxLen = %d
  Focus = "%s"
  AsCoded = FALSE
  Depth = %d
INVARIANTS GenInv Dump
CHECK_DEADLOCK FALSE
""" % (", ".join(str(b) for b in byz), 3 if focus == "keys" else 2, depth, focus, depth)
    res = ctx.tlc("SignRoundGen", cfg_text=cfg, timeout=1500)
    hs = [parse(raw) for raw in ctx.tlc_lines(res, "HIST")]
    if not hs:
        raise Inconclusive("TLC generated no histories")
    return res, hs


PARTY_CFG = """SPECIFICATION Spec
CONSTANTS
  Props = {"A", "A2", "B"}
  Others = {2, 3}
  KThr = 2
  MaxDup = 1
  MaxLen = %d
  MaxTimeouts = 1
  MaxForged = 2
  MaxFire = %d
INVARIANTS GenInv Dump
CHECK_DEADLOCK FALSE
"""


def gen_party(ctx, maxlen, simulate=None, depth=None, fire=1):
    """Handler-call sequences of SignParty: exhaustive to maxlen, or seeded simulation."""
    kw = {}
    if simulate:
        kw = dict(simulate="num=%d" % simulate, depth=depth, extra=("-seed", str(ctx.seed)), workers=1)
    res = ctx.tlc("SignPartyGen", cfg_text=PARTY_CFG % (maxlen, fire), timeout=1500, **kw)
    seen, hs = set(), []
    for raw in ctx.tlc_lines(res, "HIST"):
        if raw in seen:
            continue
        seen.add(raw)
        hs.append(parse(raw))
    if not hs:
        raise Inconclusive("TLC generated no party sequences")
    return res, hs


def has_timeout(h):
    return any(m["type"] == "timeout" for m in h["h"])


def forged_first(h):
    """A forgery under a member's id is buffered before that member's real share, before the proposal,
    and the proposal and enough valid shares follow (model: the block finalises)."""
    seq = h["h"]
    for i, m in enumerate(seq):
        if m["type"] != "forged":
            continue
        for j in range(i + 1, len(seq)):
            v = seq[j]
            if v["type"] in ("verify", "own") and v["filed"] == m["filed"] and v["sender"] == m["sender"]:
                if any(c["type"] == "cast" and c["filed"] == m["filed"] for c in seq[j + 1:]) and \
                        not any(c["type"] == "cast" and c["filed"] == m["filed"] for c in seq[:j]):
                    return h["nadd"] >= 1
    return False


def choose_party(rnd, short, deep, n_short, n_deep, n_two, n_timeout, n_forged):
    """Stratified seeded sample: short exhaustive sequences, deep simulated ones, sequences in which
    the model finalises two blocks, and a bounded number with a time-out (10 s of wall time each)."""
    rnd.shuffle(short)
    rnd.shuffle(deep)
    out = [h for h in short if not has_timeout(h)][:n_short]
    deep_nt = [h for h in deep if not has_timeout(h)]
    ff = [h for h in short + deep_nt if not has_timeout(h) and forged_first(h)]
    own_ff = [h for h in ff if any(m["type"] == "forged" and m["sender"] == 1 for m in h["h"])]
    out += own_ff[:n_forged // 2] + [h for h in ff if h not in own_ff[:n_forged // 2]][:n_forged - min(len(own_ff), n_forged // 2)]
    out += [h for h in deep_nt if h["nadd"] >= 2][:n_two]
    out += [h for h in deep_nt if h["nadd"] < 2][:n_deep]
    tos = [h for h in short if has_timeout(h)][:n_timeout // 2] + [h for h in deep if has_timeout(h)][:n_timeout - n_timeout // 2]
    return out, tos


def summary(outs, prefix):
    counts = {}
    for o in outs:
        line = [l for l in o.splitlines() if l.startswith(prefix)]
        if not line:
            print(o[-2000:])
            raise Inconclusive("driver printed no summary")
        for key, v in re.findall(r"(\w+)=(\d+)", line[-1]):
            counts[key] = counts.get(key, 0) + int(v)
    return counts


def run(ctx):
    quick = ctx.quick()
    rnd = random.Random(ctx.seed)
    # 1. design level (C15): the reference handler keeps the three invariants for every message order; the
    #    as-coded handler of the pinned tree before the fix is explored for candidate scenarios.
    #    Extension: the party/processor model keeps its design invariants; one slot invariant is known not to hold.
    jobs = [
        lambda: ctx.tlc("SignRound", cfg="SignRound.cfg" if quick else "SignRound_wide.cfg", coverage=not quick, timeout=1500),
        lambda: gen_histories(ctx, [4], 5),
        lambda: gen_histories(ctx, [4], 6, focus="keys"),
        lambda: ctx.tlc("SignRound", cfg="SignRound_keys.cfg", timeout=1500),
        lambda: ctx.tlc("SignRound", cfg="SignRound_keys_ascoded.cfg", allow_violation=True),
        lambda: ctx.tlc("SignParty", cfg="SignParty.cfg" if quick else "SignParty_wide.cfg", coverage=not quick, timeout=1500),
        # thorough: length 5 without, length 4 (below) with a proposal handled under fire -- the sequences of
        # length 5 with one are 5.2 million (2.7 GB of TLC output)
        lambda: gen_party(ctx, 4) if quick else gen_party(ctx, 5, fire=0),
        lambda: gen_party(ctx, 9, simulate=150 if quick else 2500, depth=10),
        lambda: ctx.tlc("SignParty", cfg="SignParty_slot.cfg", allow_violation=True),
    ]
    asc_invs = () if quick else ("OnlyValidShares", "ThresholdImpliesValidGroupSig", "OneFaultTolerated")
    for inv in asc_invs:
        jobs.append(lambda inv=inv: ctx.tlc("SignRound", cfg="SignRound_ascoded_%s.cfg" % inv, allow_violation=True))
    if not quick:
        jobs.append(lambda: gen_party(ctx, 4))
    res = overlapped(jobs)
    ref, (gen, hists), (kgen, khists), kref, kasc, pref, (pgen, pshort), (psim, pdeep), pslot = res[:9]
    if not quick:
        pshort = pshort + res[-1][1]
        res = res[:-1]
    ascoded = {inv: bool(r["error"]) for inv, r in zip(asc_invs, res[9:])}
    ascoded["KeyTableGenuine (first announcer wins)"] = bool(kasc["error"])
    # 2. TLC-generated message sequences (C15) and handler-call sequences (extension)
    rnd.shuffle(hists)
    rnd.shuffle(khists)
    # key-table sequences: always some in which another key is announced for the late member before its own
    def impersonator_first(h):
        for m in h:
            if m["kind"] == "announce":
                return False
            if m["kind"] == "announceOther" and m["sender"] == 2:
                return True
        return False
    def blocks_the_block(h):
        """impersonator first, its share under the victim's id, and members 1, 3, 4 answering honestly"""
        honest = {m["sender"] for m in h if m["kind"] == "honest"}
        return impersonator_first(h) and {1, 3, 4} <= honest and \
            any(m["kind"] == "underOtherKey" and m["sender"] == 2 for m in h) and \
            not any(m["kind"] in ("announceOutsider", "nonMember") for m in h)   # the last clause is not judged with an outsider acting
    def outsider_first(h):
        """a node outside the group announces a key for its own id before its share arrives"""
        for i, m in enumerate(h):
            if m["kind"] == "announceOutsider":
                return any(x["kind"] == "nonMember" for x in h[i + 1:])
            if m["kind"] == "nonMember":
                return False
        return False
    def outsider_in_recovery(h):
        """... and its share is among the first threshold shares of a round that reaches the threshold"""
        if not outsider_first(h):
            return False
        at = [i for i, m in enumerate(h) if m["kind"] == "nonMember"][0]
        before = len({m["sender"] for m in h[:at] if m["kind"] == "honest" and m["sender"] != 2})
        total = len({m["sender"] for m in h if m["kind"] == "honest" and m["sender"] != 2})
        return before <= 1 and total >= 2 and not any(m["kind"] in ("announceOther", "underOtherKey") for m in h)
    kblock = [h for h in khists if blocks_the_block(h)]
    kout = [h for h in khists if outsider_in_recovery(h)]
    kfirst = kblock[:10 if quick else 400] + kout[:10 if quick else 400] + \
        [h for h in khists if (impersonator_first(h) and not blocks_the_block(h)) or (outsider_first(h) and not outsider_in_recovery(h))]
    krest = [h for h in khists if not impersonator_first(h) and not outsider_first(h)]
    early_vacuous = []
    if not kout:
        early_vacuous.append("no generated sequence has an outsider's announced share among the first threshold shares")
    chosen = hists[:1400 if quick else 60000] + kfirst[:100 if quick else 8000] + krest[:200 if quick else 16000]
    rnd.shuffle(chosen)
    if quick:
        pchosen, ptimeouts = choose_party(rnd, pshort, pdeep, 150, 60, 12, 8, 24)
    else:
        pchosen, ptimeouts = choose_party(rnd, pshort, pdeep, 5000, 1500, 200, 96, 600)
    # the same sequences with every proposal handled WHILE the faulty member's share over the party key,
    # filed under the party key, keeps arriving (for the reference handler a cast like any other: v = 1);
    # first those in which a member's share for the proposal follows the proposal (the threshold is reached)
    def share_after_cast(h):
        seq = h["h"]
        return any(c["type"] == "cast" and any(v["type"] == "verify" and v["filed"] == c["filed"] for v in seq[i + 1:])
                   for i, c in enumerate(seq))
    fire = sorted(pchosen, key=lambda h: not share_after_cast(h))[:40 if quick else 1500]
    under_fire = [dict(h, h=[dict(m, v=1) if m["type"] == "cast" else m for m in h["h"]]) for h in fire]
    if not any(share_after_cast(h) for h in under_fire):
        early_vacuous.append("(extension) no sequence with a proposal handled under party-key shares and a share after it")
    pchosen = pchosen + under_fire
    drv = ctx.build("c15")
    pdrv = ctx.build("c15p")
    shards = 8 if quick else 16
    pshards = 4 if quick else 8
    argvs, traces, ptraces = [], [], []
    for k in range(shards):
        sp = os.path.join(ctx.scratch, "script%d.json" % k)
        json.dump(chosen[k::shards], open(sp, "w"))
        tp = os.path.join(ctx.scratch, "trace%d.ndjson" % k)
        traces.append(tp)
        argvs.append([drv, "--script", sp, "--out", tp, "--scratch", os.path.join(ctx.scratch, "run%d" % k), "--salt", str(k)])
    for k in range(pshards):
        sp = os.path.join(ctx.scratch, "pscript%d.json" % k)
        # sequences with a time-out first: their 10 s waits overlap with the replay of the others
        json.dump(ptimeouts[k::pshards] + pchosen[k::pshards], open(sp, "w"))
        tp = os.path.join(ctx.scratch, "ptrace%d.ndjson" % k)
        ptraces.append(tp)
        argvs.append([pdrv, "--script", sp, "--out", tp, "--scratch", os.path.join(ctx.scratch, "prun%d" % k), "--salt", str(k),
                      "--workers", "16", "--quiet", "25" if quick else "40"])
    outs = ctx.run_parallel(argvs, timeout=1500)
    counts = summary(outs[:shards], "c15:")
    pcounts = summary(outs[shards:], "c15p:")
    for o in outs[shards:]:
        for line in o.splitlines():
            if line.startswith("c15p-log:"):
                log(line)
    vacuous = early_vacuous + ["no %s occurred in the driven sequences" % need
               for need in KINDS + ["wire", "recovered", "messages"] if counts.get(need, 0) == 0]
    if not any(forged_first(h) for h in pchosen):
        vacuous.append("(extension) no sequence with a forgery buffered before the honest share and the proposal")
    for need in PARTY_TYPES + ["finalised", "twoBlocks", "castUnderFire"]:
        if pcounts.get(need, 0) == 0:
            vacuous.append("(extension) no %s occurred in the driven party sequences" % need)
    # 3. monitors: merged shard traces (a Start event resets the bound state), at most MAX_JVMS at a time
    merged = []
    for k in range(0, len(traces), 4):
        mp = os.path.join(ctx.scratch, "trace-m%d.ndjson" % k)
        with open(mp, "w") as f:
            for tp in traces[k:k + 4]:
                f.write(open(tp).read())
        merged.append(("SignRoundTrace", mp))
    pm = os.path.join(ctx.scratch, "ptrace-all.ndjson")
    with open(pm, "w") as f:
        for tp in ptraces:
            f.write(open(tp).read())
    merged.append(("SignPartyTrace", pm))
    verdicts = overlapped([lambda mod=mod, tp=tp: ctx.validate_trace(mod, tp, timeout=1500) for mod, tp in merged])
    total, ptotal = 0, 0
    samples, psamples = [], []
    for (mod, tp), (n, bad) in zip(merged, verdicts):
        add_violations_from_bad(ctx, bad, tp, reset_event="Start")
        if mod == "SignRoundTrace":
            total += n
            if not samples:
                with open(tp) as f:
                    for line in f:
                        e = json.loads(line)
                        if e["event"] == "Msg" and e["m"]["kind"] not in [s["m"]["kind"] for s in samples] and len(samples) < 4:
                            samples.append(e)
        else:
            ptotal += n
            with open(tp) as f:
                for line in f:
                    e = json.loads(line)
                    if e["event"] == "Call" and e["m"]["type"] not in [s["m"]["type"] for s in psamples]:
                        psamples.append(e)
    # a run in which something the check relies on never happened decides nothing -- unless the real code
    # already showed a violation (e.g. no round recovers because every honest share is refused)
    if vacuous and not ctx.violations:
        raise Inconclusive("vacuity: " + "; ".join(vacuous))
    coverage = {
        "states": ref["distinct"] + gen["distinct"] + kref["distinct"] + kgen["distinct"],
        "transitions": ref["generated"] + gen["generated"] + kref["generated"] + kgen["generated"],
        "key_table_sequences_generated": len(khists),
        "traces_validated_against_impl": counts["histories"],
        "events_validated": total,
        "real_update_calls": counts["messages"],
        "sequences_through_wire_codec": counts["wire"],
        "sequences_reaching_recovery": counts["recovered"],
        "messages_by_kind": {k: counts[k] for k in KINDS},
        "tlc_generated_sequences": len(hists) + len(khists),
        "sequences_replayed": len(chosen),
        "as_coded_model_violates": ascoded,
        "samples": samples,
        "action_coverage": ref["coverage"],
        "exhaustive": len(chosen) == len(hists) + len(khists),
        "extension_party": {
            "model_states": pref["distinct"] + pgen["distinct"],
            "model_transitions": pref["generated"] + pgen["generated"],
            "simulated_walks_distinct": len(pdeep),
            "slot_invariant_violated_in_model": bool(pslot["error"]),
            "generated_sequences_exhaustive": len(pshort),
            "generated_sequences_simulated": len(pdeep),
            "sequences_replayed": pcounts["histories"],
            "handler_calls": pcounts["calls"],
            "calls_by_type": {k: pcounts[k] for k in PARTY_TYPES},
            "sequences_finalising": pcounts["finalised"],
            "sequences_finalising_two_blocks": pcounts["twoBlocks"],
            "sequences_slower_than_the_party_timeout_not_judged": pcounts.get("slow", 0),
            "party_errors_logged_by_the_processor": pcounts.get("partyErrors", 0),
            "sequences_forgery_buffered_before_honest_share": sum(1 for h in pchosen if forged_first(h)),
            "events_validated": ptotal,
            "action_coverage": pref["coverage"],
            "samples": psamples[:5],
        },
        "explanation": "SignRound.tla (reference handler: add iff member, not duplicate, share valid for this block's hash, beacon share "
                       "valid) model-checked exhaustively for 4 members, threshold 3, <= 2 Byzantine/outsider messages, all orders; the "
                       "as-coded alternative is explored for candidate scenarios only. TLC generates every message sequence of length 5; "
                       "a seeded sample (thorough: all of them) is fed to the real round1.Update of a round built for a group from "
                       "the node's DKG, half of the sequences through the protobuf wire codec; after every message the share sets, the "
                       "validity of every stored share, the recovery flags and round2.checkSignature are logged and judged by SignRoundTrace. "
                       "Extension SignParty.tla (cast admission, buffering/replay of early messages, party re-keying, time-out, "
                       "finalisation; 3 members, threshold 2, three competing proposals of one slot): model-checked, sequences of handler "
                       "calls generated exhaustively (short) and by seeded simulation (long), replayed on the real Processor over a real "
                       "chain whose genesis holds the harness' proposer and DKG group, judged by SignPartyTrace (Ext.* observations).",
    }
    finish(ctx, "model_checking", coverage, [
        "round 0 (acceptance of the proposer's cast message) is taken as done in the C15 part: the round is constructed with group, previous and proposed header injected (hook H3); the block chain is a stub that has no block with the proposed hash",
        "member public shares are served by the real JoinedGroupStorage/GetMemberSignPubKey with the shares the DKG members derived; the requesting of unknown public shares over the network is disabled",
        "validity of a share = verdict of the real groupsig.VerifySig under the member's public share (C14 decides whether that verdict is right)",
        "4 members, threshold 3 (the node's GetGroupK), one Byzantine member plus one outsider",
        "extension: the chain the parties finalise into records AddBlockOnChain instead of adding (every sequence starts from the genesis block); observations are taken at quiescence (25 ms without change of the projection); the passage of the 10 s party time-out is real; the pre-block-unknown wait of round 0 and LRU eviction of the buffers are not driven",
    ])
