"""C08 - RLP coding is canonical, lossless and total (src/storage/rlp)."""
import json
import os

from common import Inconclusive, finish, log
from codec_common import iter_events, judge_traces, require, selftest_corruption, tlc_cases, write_shards

ALPHABET = [0, 1, 127, 128, 129, 130, 183, 184, 185, 192, 193, 194, 247, 248, 249, 255]


def gen_cfg(maxlen, strfill, listfill, wrap):
    return """SPECIFICATION Spec
CONSTANTS
  Alphabet = {%s}
  MaxLen = %d
  MaxStrFill = %d
  MaxListFill = %d
  MaxWrap = %d
INVARIANTS Theorems Dump
CHECK_DEADLOCK FALSE
""" % (", ".join(map(str, ALPHABET)), maxlen, strfill, listfill, wrap)


def compact(e):
    """A trace event shortened for the evidence file."""
    if e["event"] == "Decode":
        return {"event": "Decode", "src": e["src"], "in": e["in"][:40], "in_len": len(e["in"]),
                "accepted_by": [r["t"] for r in e["res"] if r["ok"]], "split_ok": e["split"]["ok"],
                "streams": {w["n"]: [w["ok"], w["read"]] for w in e["streams"]}, "alloc": e["alloc"]}
    if e["event"] == "EncodeFail":
        return {"event": "EncodeFail", "src": e["src"], "t": e["t"], "val": json.dumps(e["val"])[:200], "ok": e["ok"]}
    return {"event": "Encode", "src": e["src"], "t": e["t"], "val": json.dumps(e["val"])[:200], "enc": e["enc"][:40],
            "back_ok": e["back"]["ok"]}


def run(ctx):
    quick = ctx.quick()
    # 1. model level: the reference coding is canonical and lossless on the whole small
    #    domain; the same run enumerates the case lattice
    gen = ctx.tlc("RlpGen", cfg_text=gen_cfg(3, 1024, 1024, 1) if quick else gen_cfg(4, 65536, 4096, 2),
                  coverage=not quick, timeout=1500)
    cases = tlc_cases(ctx, gen)
    if len(cases) < 1000:
        raise Inconclusive("TLC generated only %d cases" % len(cases))
    nshape = sum(1 for c in cases if c["op"] == "shape")
    nval = sum(1 for c in cases if c["op"] == "enc")
    nseq = sum(1 for c in cases if c["op"] == "encseq")
    log("TLC cases: %d byte strings, %d shapes, %d typed values, %d encode sequences"
        % (len(cases) - nshape - nval - nseq, nshape, nval, nseq))
    # 2. the real code on every case and on seeded random values / mutated encodings
    drv = ctx.build("c08")
    shards = 16 if quick else 48
    cps = write_shards(ctx, cases, shards)
    traces, argvs = [], []
    for k, cp in enumerate(cps):
        tp = os.path.join(ctx.scratch, "trace%02d.ndjson" % k)
        traces.append(tp)
        argvs.append([drv, "--cases", cp, "--out", tp, "--random", str(150 if quick else 4000), "--salt", str(k),
                      "--current", tp + ".current",
                      # the concurrency family runs in four shards (different random values each)
                      "--conc", str((6 if quick else 60) if k < 4 else 0),
                      # the first-use family (fresh processes) in four other shards
                      "--firstuse", str((60 if quick else 600) if 4 <= k < 8 else 0)])
    outs = ctx.run_parallel(argvs, ok_codes=(0, 2))
    # a driver that died of a fatal runtime error (out of memory is not recoverable in-process) shows the
    # real decoder killing the process on the input named in its side file
    alive = []
    for k, o in enumerate(outs):
        if "c08: firstuse_events=" in o:
            alive.append(k)
            continue
        if "HARNESS-ERROR" in o or "fatal error" not in o:
            print(o[-3000:])
            raise Inconclusive("driver shard %d failed" % k)
        cur = json.load(open(traces[k] + ".current"))
        fatal = [l for l in o.splitlines() if l.startswith(("fatal error", "runtime:"))][:3]
        ctx.violations.append({"property": ctx.prop, "signature": "Inv.Total.process-death@Decode",
                               "what": "the driver process died while the real decoder ran on this input: %s" % "; ".join(fatal),
                               "occurrences": 1, "event": cur})
    if len(alive) < len(outs):
        log("%d driver shard(s) died in the real decoder" % (len(outs) - len(alive)))
    traces = [traces[k] for k in alive]
    outs = [outs[k] for k in alive]
    if not traces:
        finish(ctx, "exploration", {"evaluations": 1, "distinct_nontrivial": 2, "rule": "every driver died", "samples": [0]}, [])
    ndec = sum(int(o.split("decode_events=")[1].split()[0]) for o in outs)
    nenc = sum(int(o.split("encode_events=")[1].split()[0]) for o in outs)
    nfail = sum(int(o.split("fail_events=")[1].split()[0]) for o in outs)
    nconc = sum(int(o.split("conc_encodes=")[1].split()[0]) for o in outs)
    nfirst = sum(int(o.split("firstuse_events=")[1].split()[0]) for o in outs)
    ntypes = int(outs[0].split("types=")[1].split()[0])
    # 3. every event judged against the reference recomputed in TLA+
    events, tags = judge_traces(ctx, "RlpTrace", traces, timeout=1500)
    # self-test of the binding: a corrupted decoded value must be rejected by the monitor
    def corrupt(e):
        if e["event"] != "Decode":
            return False
        for r in e["res"]:
            if r["t"] == "bytes" and r["ok"] and r["val"]["b"]:
                r["val"]["b"][0] ^= 1
                return True
        return False
    hits = selftest_corruption(ctx, "RlpTrace", traces[0], corrupt)
    log("self-test: corrupted event rejected with", sorted({h[2] for h in hits}))
    # 4. vacuity: every decoder accepted and rejected something, every type was encoded,
    #    the stream paths were exercised in both directions
    acc, rej, enc_ok, srcs = {}, {}, {}, {}
    walk_ok = walk_err = split_ok = huge = failed_encodes = after_fail = dest_ok = 0
    distinct = set()
    real_calls = 0
    samples, seen_src = [], set()
    for e in iter_events(traces):
        srcs[e["src"]] = srcs.get(e["src"], 0) + 1
        if (e["event"], e["src"]) not in seen_src and len(samples) < 8:
            seen_src.add((e["event"], e["src"]))
            samples.append(compact(e))
        if e["event"] == "EncodeFail":
            real_calls += 1
            failed_encodes += not e["ok"]
            continue
        if e["event"] == "Decode":
            real_calls += 3 * len(e["res"]) + 2 + len(e["streams"])
            anyok = e["split"]["ok"]
            for r in e["res"]:
                for ds in r["dest"]:
                    dest_ok += ds["ok"]
                d = acc if r["ok"] else rej
                d[r["t"]] = d.get(r["t"], 0) + 1
                anyok = anyok or r["ok"]
            for w in e["streams"]:
                d = acc if w["ok"] else rej
                d[w["n"]] = d.get(w["n"], 0) + 1
            walk_ok += e["streams"][0]["ok"]
            walk_err += not e["streams"][0]["ok"]
            split_ok += e["split"]["ok"]
            if len(e["in"]) >= 5 and e["in"][0] in (187, 188, 189, 190, 191, 251, 252, 253, 254, 255):
                huge += 1
            if anyok:
                distinct.add(("d", bytes(e["in"])))
        else:
            real_calls += 2 + len(e.get("alt", []))
            after_fail += e["src"].endswith("-seq")
            enc_ok[e["t"]] = enc_ok.get(e["t"], 0) + e["ok"]
            distinct.add(("e", e["t"], json.dumps(e["val"], sort_keys=True)))
    require(len(acc) == ntypes + 5 and len(rej) == ntypes + 5, "some decoder never accepted or never rejected: acc=%d rej=%d of %d"
            % (len(acc), len(rej), ntypes + 5), ctx=ctx)
    require(len(enc_ok) == ntypes and all(v > 0 for v in enc_ok.values()), "some type was never encoded", ctx=ctx)
    require(walk_ok > 100 and walk_err > 100 and split_ok > 100, "stream/split paths not exercised", ctx=ctx)
    require(huge > 10, "no input declaring a size of 4+ bytes", ctx=ctx)
    require(dest_ok > 5000, "decodes into non-zero destinations hardly succeeded (%d)" % dest_ok, ctx=ctx)
    require(nfirst > 1000, "first-use family hardly ran (%d events)" % nfirst, ctx=ctx)
    require(nconc > 10000, "concurrency family hardly ran (%d concurrent encodes)" % nconc, ctx=ctx)
    require(failed_encodes > 50 and after_fail > 50, "encode sequences (failed encode, then ordinary encode) hardly occurred: %d, %d"
            % (failed_encodes, after_fail), ctx=ctx)
    require(events == ndec + nenc + nfail, "events judged (%d) != events recorded (%d)" % (events, ndec + nenc + nfail), ctx=ctx)
    coverage = {
        "evaluations": real_calls,
        "distinct_nontrivial": len(distinct),
        "rule": "cases: every byte string up to length %d over the 16-byte boundary alphabet, size-boundary shapes "
                "(short/long form, sizes 0..%d and 2^31..2^64-1, +-1 content, wrapped, trailing), boundary values of %d Go "
                "types, all enumerated by TLC (RlpGen), plus seeded random typed values and mutated encodings; each input goes "
                "through DecodeBytes into all %d types, Split, CountValues and two Stream paths. distinct_nontrivial counts "
                "distinct inputs accepted by at least one decoder plus distinct (type,value) pairs encoded; inputs rejected by "
                "every decoder are judged too but not counted here"
                % (3 if quick else 4, 1024 if quick else 65536, ntypes, ntypes),
        "samples": samples,
        "exhaustive": True,
        "states": gen["distinct"],
        "transitions": gen["generated"],
        "traces_validated_against_impl": len(traces),
        "events_validated": events,
        "decode_events": ndec,
        "encode_events": nenc,
        "events_by_source": srcs,
        "tlc_cases": {"byte_strings": len(cases) - nshape - nval - nseq, "shapes": nshape, "typed_values": nval, "encode_sequences": nseq},
        "failed_encodes": failed_encodes,
        "accepting_decodes_into_nonzero_destinations": dest_ok,
        "concurrent_encode_decode_rounds": nconc,
        "first_use_events": nfirst,
        "encodes_directly_after_a_failed_encode": after_fail,
        "accepted_per_type": acc,
        "failed_judgements": tags,
        "action_coverage": gen["coverage"],
        "explanation": "Rlp.tla transcribes Enc/Dec with the canonicity rules of the statement and the typed views; RlpGen proves "
                       "Dec(b)#Err => Enc(Dec(b))=b for every enumerated byte string and type, and TDec(TEnc(v))=v for every "
                       "enumerated value, and exports the cases; harness/cmd/c08 runs the real package on them; RlpTrace "
                       "recomputes the reference result for every event and judges accept/reject, value, re-encoding, panics, "
                       "bytes read and allocation.  Every decode is repeated into a destination that holds a larger value of the type / defaults and "
                       "into the same destination a second time (the result is a function of the bytes alone).  Every encode is repeated by value, inside an interface{} list, through Encode(io.Writer) and "
                       "EncodeToReader; a concurrency family (8 goroutines x rounds per type, GOMAXPROCS = all cores and 1) codes different "
                       "values of one type at the same time and every result that differs from the sequential one is judged like any other; a first-use "
                       "family runs fresh processes in which 8 goroutines released together make the very first use of a type.",
    }
    finish(ctx, "exploration", coverage, [
        "'never allocates beyond the input size' is read as alloc <= 65536 + 3072*len(input) bytes summed over the %d DecodeBytes calls of one input (runtime.MemStats.TotalAlloc)" % ntypes,
        "'declared input': streams are created with an explicit limit or over a bytes.Reader as everywhere in the node; a Stream over an unlimited reader is out of scope",
        "types holding rlp.RawValue: the decoder documents that raw content is not inspected, so only 'accepted => re-encodes to the same bytes' and 'canonical => accepted' are demanded for them",
        "nil pointers are generated only where the documented rules let them survive a round trip (nil-tagged fields, pointers to integers/byte strings)",
        "value equality is judged on a neutral projection of the Go values (integers fixed-width, nil vs zero per the documented encoder rules)",
    ])
