"""C13 - any threshold subset of group members yields the same valid group signature."""
import json
import os
import re

from common import Inconclusive, add_violations_from_bad, finish, log


def gen_cases(ctx, nmax, coefs, max_subset_check):
    cfg = """SPECIFICATION GenSpec
CONSTANTS
  NMin = 3
  N = %d
  P = 11
  IdSeq <- IdsId
  FreshRedeal = FALSE
  Coefs = {%s}
  HSet = {3}
  H = 3
  MaxSubsetCheck = %d
INVARIANTS CaseInv Dump
CHECK_DEADLOCK FALSE
""" % (nmax, ", ".join(str(c) for c in coefs), max_subset_check)
    res = ctx.tlc("ThresholdGen", cfg_text=cfg, timeout=1500)
    cases = []
    for raw in ctx.tlc_lines(res, "CASE"):
        cases.append(json.loads(raw.strip()[1:-1].replace('\\"', '"')))
    kt = ctx.tlc_lines(res, "KTABLE")
    bn = ctx.tlc_lines(res, "BIGN")
    if not cases or not kt or not bn:
        raise Inconclusive("TLC generated no cases")
    ktable = json.loads(kt[0].strip()[1:-1].replace('\\"', '"'))
    bign = json.loads(bn[0].strip()[1:-1].replace('\\"', '"'))
    return res, cases, ktable, bign


def run(ctx):
    quick = ctx.quick()
    # 1. design level: DKG + Lagrange recovery over GF(P), every dealing, delivery order, arrival order
    ref = ctx.tlc("Threshold", cfg="Threshold.cfg" if quick else "Threshold_wide.cfg", coverage=not quick, timeout=1500)
    # candidate behaviour (a re-dealing dealer picks a new polynomial): the design invariant breaks in the model
    redeal = ctx.tlc("Threshold", cfg="Threshold_redeal.cfg", allow_violation=True)
    # 2. TLC enumerates (n, responding subset, order class) and checks the recovery algebra per case
    gen, cases, ktable, bign = gen_cases(ctx, 7 if quick else 10, [1, 7], 6 if quick else 7)
    drv = ctx.build("c13")
    shards = 8 if quick else 16
    argvs, traces = [], []
    for k in range(shards):
        part = cases[k::shards]
        sp = os.path.join(ctx.scratch, "script%d.json" % k)
        json.dump(part, open(sp, "w"))
        tp = os.path.join(ctx.scratch, "trace%d.ndjson" % k)
        traces.append(tp)
        argv = [drv, "--script", sp, "--out", tp, "--scratch", os.path.join(ctx.scratch, "run%d" % k),
                "--random", str(3 if quick else 12), "--reps", str(2 if quick else 4), "--salt", str(k)]
        if k == 0:
            # thresholds of the signing side and of the DKG for every group size up to 1024
            argv += ["--ksweep", "1024"]
        if k in (2, 3):
            # groups with structured member ids, several in one process (history dependence of the recovery)
            argv += ["--structured", "4,5" if quick else "3,4,5,6,7"]
        if k in (4, 5):
            # key generations of several groups at the same time in one process, dealers dealing at the same time
            argv += ["--concdkg", "16,4" if quick else "16,24"]
        if k == 1:
            # one real DKG + recovery where rounding up and "floor + 1" of 51% differ (n = 100), and next to it
            big = sorted(set(bign + ([] if quick else [b + d for b in bign for d in (-1, 1)])))
            argv += ["--big", ",".join(str(b) for b in big)]
        argvs.append(argv)
    outs = ctx.run_parallel(argvs, timeout=1500)
    counts = {}
    for o in outs:
        line = [l for l in o.splitlines() if l.startswith("c13:")]
        if not line:
            print(o[-2000:])
            raise Inconclusive("driver printed no summary")
        for key, v in re.findall(r"(\w+)=(\d+)", line[-1]):
            counts[key] = counts.get(key, 0) + int(v)
    # 3. one monitor run over all shards (DkgStart / CaseStart reset the bound state)
    allp = os.path.join(ctx.scratch, "trace-all.ndjson")
    with open(allp, "w") as f:
        for tp in traces:
            f.write(open(tp).read())
    n, bad = ctx.validate_trace("ThresholdTrace", allp, timeout=1500)
    add_violations_from_bad(ctx, bad, allp, reset_event="DkgStart")
    for need in ("cases", "dkg", "deliver", "dupDeliver", "arrive", "recovered", "superset", "below", "k", "big", "concurrent", "redeal",
                 "structuredCases", "concurrentDkg"):
        if counts.get(need, 0) == 0 and not ctx.violations:
            raise Inconclusive("vacuity: no %s events were produced" % need)
    samples = []
    with open(allp) as f:
        for line in f:
            e = json.loads(line)
            if e["event"] in ("DkgEnd", "CaseStart", "Recovered") and len(samples) < 5 and \
                    e["event"] not in [s["event"] for s in samples[-2:]]:
                samples.append(e)
    sizes = sorted({c["n"] for c in cases})
    coverage = {
        "states": ref["distinct"] + gen["distinct"],
        "transitions": ref["generated"] + gen["generated"],
        "traces_validated_against_impl": counts["cases"],
        "events_validated": n,
        "evaluations": counts["recovered"],
        "distinct_nontrivial": len(cases),
        "rule": "a case is (group size n, responding subset S with |S| >= K(n), arrival order class) enumerated by TLC "
                "(distinct by construction); each is replayed on a group produced by the node's own DKG: generator path "
                "(AddWitnessSign in arrival order) and direct RecoverGroupSignature over the whole subset, plus seeded random "
                "subsets/orders; evaluations = recoveries performed on the real code",
        "samples": samples,
        "group_sizes": sizes,
        "dkg_runs": counts["dkg"],
        "share_deliveries": counts["deliver"],
        "duplicate_deliveries": counts["dupDeliver"],
        "share_arrivals": counts["arrive"],
        "superset_recoveries": counts["superset"],
        "below_threshold_cases": counts["below"],
        "fresh_redeal_breaks_model_invariant": bool(redeal["error"]),
        "k_table_model": ktable[:10],
        "threshold_sweep_sizes": counts["k"],
        "concurrent_recovery_runs": counts["concurrent"],
        "dealers_dealing_a_second_time": counts["redeal"],
        "cases_on_groups_with_structured_ids": counts["structuredCases"],
        "big_group_sizes": bign if quick else sorted(set(bign + [b + d for b in bign for d in (-1, 1)])),
        "action_coverage": ref["coverage"],
        "exhaustive": True,
        "explanation": "Threshold.tla (DKG dealing/delivery/aggregation + Lagrange recovery over GF(P)) model-checked exhaustively "
                       "for N=3; ThresholdGen enumerates every subset of size >= K(n) for n=3..%d with 4 order classes and checks "
                       "the recovery algebra for each; every case replayed on the real groupNodeInfo DKG, Sign, "
                       "GroupSignGenerator.AddWitnessSign, RecoverGroupSignature, VerifySig; every call judged by ThresholdTrace."
                       % sizes[-1],
    }
    finish(ctx, "model_checking", coverage, [
        "secret shares and curve points are not visible to TLA+: the driver logs verdicts of the real VerifySig, return codes, counts and equality classes of serialized values",
        "the member public share is GeneratePubkey(member secret share) as the node publishes it (the DKG publishes no coefficient commitments)",
        "exhaustive subsets for group sizes 3..%d (dev minimum 3, default maximum 10); beyond that only the threshold consistency sweep (1..1024) and one DKG + one recovery at the sizes where rounding modes of 51%% differ; member ids are seeded 32-byte values, one per group with leading zero bytes" % sizes[-1],
        "the design-level model works over GF(11)/GF(7) instead of the 254-bit group order",
    ])
