"""C02 - the state trie root is the canonical Merkle-Patricia commitment of its content."""
import json
import os

from common import Inconclusive, add_violations_from_bad, finish, log
from statechecks import require_actions, count_events, parse_hist, shard, validate_parallel

GEN_CFG = """SPECIFICATION %(spec)s
CONSTANTS
  KeyIds = {%(keys)s}
  ValIds = {%(vals)s}
  Depth = %(depth)d
  Seed = 0
  Runs = 0
  VBlocks = %(vblocks)d
%(view)s
INVARIANTS GenInv %(dump)s
CHECK_DEADLOCK FALSE
"""


def gen_edges(ctx, keys, vals):
    """Every (model state, operation) pair of Mpt over the given universe, as call histories."""
    cfg = GEN_CFG % dict(spec="GenSpec", keys=", ".join(map(str, keys)), vals=", ".join(map(str, vals)),
                         depth=40, view="VIEW MptView", dump="", vblocks=0)
    res = ctx.tlc("MptGen", cfg_text=cfg, timeout=900)
    hs = parse_hist(ctx, res)
    if not hs:
        raise Inconclusive("TLC generated no edge histories")
    # the edges of one model state share the call path that reaches it: one Reset, then the fan of calls
    fans = {}
    for h in hs:
        fans.setdefault(json.dumps(h[:-1]), []).append(h[-1])
    return res, len(hs), [{"mode": "fan", "prefix": json.loads(p), "ops": ops} for p, ops in fans.items()]


def gen_deep(ctx, keys, vals, num, depth):
    cfg = GEN_CFG % dict(spec="DeepSpec", keys=", ".join(map(str, keys)), vals=", ".join(map(str, vals)),
                         depth=depth, view="", dump="Dump", vblocks=0)
    cfg = cfg.replace("Seed = 0", "Seed = %d" % (ctx.seed % 1000)).replace("Runs = 0", "Runs = %d" % num)
    res = ctx.tlc("MptGen", cfg_text=cfg, timeout=1200)
    hs = parse_hist(ctx, res)
    if len(hs) != num:
        raise Inconclusive("TLC generated %d of %d deep histories" % (len(hs), num))
    return res, [{"mode": "full", "prefix": [], "ops": h} for h in hs]


def gen_versions(ctx, keys, vals, vblocks, sweep):
    """Histories that commit vblocks+1 versions, each one change away from the previous (delete + re-insert, overwrite
    back to an old value ...), each followed by the fan of Cap calls that flush exactly the m oldest nodes, m = 1..sweep, and Cap(0)."""
    cfg = GEN_CFG % dict(spec="VerSpec", keys=", ".join(map(str, keys)), vals=", ".join(map(str, vals)),
                         depth=0, view="", dump="VerDump", vblocks=vblocks)
    res = ctx.tlc("MptGen", cfg_text=cfg, timeout=1200)
    hs = parse_hist(ctx, res)
    if not hs:
        raise Inconclusive("TLC generated no version histories")
    fan = [["P", 0, m] for m in range(1, sweep + 1)] + [["P", 0, 0]]
    return res, [{"mode": "fan", "prefix": h, "ops": fan} for h in hs]


def run(ctx):
    quick = ctx.quick()
    # 1. design level: the transcribed insert/delete keep the canonical form under every cache state
    if quick:
        base = ctx.tlc("Mpt", cfg="Mpt_quick.cfg")
    else:
        base = ctx.tlc("Mpt", cfg="Mpt.cfg", coverage=True, timeout=1500)
    require_actions(base, ["Update", "Del", "Get", "HashOnly", "Commit", "Reopen", "SetLimit", "Cap"])
    # 2. TLC-generated histories (model -> code)
    runs = []
    if quick:
        universes = [([2, 3, 6], [1, 7]), ([2, 3, 4, 5, 6], [1]), ([1, 7, 8], [4, 6]), ([9, 10, 11, 12], [1])]
        deep = [([1, 2, 3, 4, 5, 6, 7, 8], [1, 2, 3, 4, 5, 6, 7, 8], 80, 30), ([2, 3, 4, 5, 6], [1, 2], 80, 30),
                # long keys (nodes deeper than 255 nibbles), values of 1 / 31 / 32 / 33 bytes
                ([9, 10, 11, 12, 13, 14, 15, 16], [1, 5, 6, 9], 40, 25)]
        versions = [([3, 4, 5], [7, 8], 3, 18)]
    else:
        universes = [([2, 3, 4, 6], [1, 7]), ([1, 5, 7, 8], [4, 6]), ([2, 3, 4, 5, 6], [1, 2]), ([2, 3, 4], [2, 3, 4]),
                     ([3, 6, 7, 8], [5, 8])]
        deep = [([1, 2, 3, 4, 5, 6, 7, 8], [1, 2, 3, 4, 5, 6, 7, 8], 3000, 40),
                ([2, 3, 4, 5], [3, 4, 5, 6], 1500, 40), ([2, 3, 4, 5, 6], [1, 2], 1500, 40),
                ([9, 10, 11, 12, 13, 14, 15, 16], [1, 5, 6, 9], 600, 30), ([6, 7, 8, 15, 16], [5, 6, 9], 400, 30)]
        universes.append(([9, 10, 11, 12, 13], [6]))
        versions = [([3, 4, 5], [7, 8], 5, 24), ([3, 4, 6, 7], [7], 4, 24), ([9, 10, 11, 12], [7], 3, 24)]
    hists, gens = [], []
    n_edges = 0
    for keys, vals in universes:
        res, ne, hs = gen_edges(ctx, keys, vals)
        gens.append(res)
        hists += hs
        n_edges += ne
    n_states = len(hists)
    n_versions = 0
    for keys, vals, vblocks, sweep in versions:
        res, hs = gen_versions(ctx, keys, vals, vblocks, sweep)
        gens.append(res)
        hists += hs
        n_versions += len(hs)
        n_edges += len(hs) * (sweep + 1)
        n_states += len(hs)
    for keys, vals, num, depth in deep:
        res, hs = gen_deep(ctx, keys, vals, num, depth)
        gens.append(res)
        hists += hs
    n_deep = len(hists) - n_states
    # large-commit families: one NodeDatabase.Commit spanning several batch writes, reload from disk
    n_bulk = 3 if quick else 24
    hists += [{"mode": "bulk", "prefix": [], "ops": [], "n": [3000, 4500, 6000][i % 3], "salt": ctx.seed * 100 + i} for i in range(n_bulk)]
    log("histories: %d model edges, %d simulated" % (n_edges, n_deep))
    drv = ctx.build("c02")
    shards = shard(hists, 8 if quick else 64)
    argvs, traces = [], []
    for k, part in enumerate(shards):
        sp = os.path.join(ctx.scratch, "script%d.json" % k)
        json.dump(part, open(sp, "w"))
        tp = os.path.join(ctx.scratch, "trace%d.ndjson" % k)
        traces.append(tp)
        argv = [drv, "--script", sp, "--out", tp]
        if os.environ.get("VERIF_C02_CORRUPT"):
            argv += ["--corrupt", os.environ["VERIF_C02_CORRUPT"]]
        argvs.append(argv)
    outs = ctx.run_parallel(argvs)
    calls = sum(int(o.split("calls=")[1].split()[0]) for o in outs)
    # 3. judge every trace against the specification
    kinds = {}
    for tp in traces:
        for k, v in count_events(tp).items():
            kinds[k] = kinds.get(k, 0) + v
    for k in ("Reset", "U", "D", "G", "H", "C", "R", "X", "L", "P", "Bulk"):
        if not kinds.get(k):
            raise Inconclusive("no %s event was recorded: the check would be vacuous for it" % k)
    results = validate_parallel(ctx, "MptTrace", traces, timeout=1500 if quick else 6000)
    total = 0
    for tp, (n, bad) in zip(traces, results):
        total += n
        # the byte-order reading of the iteration clause is one finding whatever call preceded the observation
        add_violations_from_bad(ctx, bad, tp, sig_of=lambda line, event, tag: tag + "@any" if tag == "Inv.IterationAscendingByteOrder"
                                else "%s@%s" % (tag, event))
    with open(traces[0]) as f:
        samples = [json.loads(next(f)) for _ in range(3)]
    for s in samples:
        for big in ("keys",):
            s[big] = "(omitted)" if s[big] else s[big]
    coverage = {
        "states": base["distinct"] + sum(g["distinct"] for g in gens),
        "transitions": base["generated"] + sum(g["generated"] for g in gens),
        "traces_validated_against_impl": n_edges + n_deep,
        "model_states_replayed": n_states,
        "events_validated": total,
        "events_by_call": kinds,
        "real_calls": calls,
        "model_edges_replayed": n_edges,
        "simulated_histories_replayed": n_deep,
        "version_histories_with_cap_sweep": n_versions,
        "large_commit_families": n_bulk,
        "action_coverage": base["coverage"],
        "samples": samples,
        "exhaustive": True,
        "explanation": "Mpt.tla (Canon = Yellow-Paper trie; insert/delete/lookup of trie.go transcribed, any stored sub-tree "
                       "possibly present only as a hash reference) model-checked exhaustively; every (model state, call) edge over "
                       "the listed key/value universes (model state = content x which sub-trees are hash references x cache limit x provenance of the resolved nodes: built / clean / reloaded from the NodeDatabase memory layer / reloaded from disk x state of the NodeDatabase memory layer: empty / cached / partly or fully flushed by NodeDatabase.Cap; every version a history committed is re-opened on the same and on a fresh NodeDatabase after every call) and seeded TLC simulations replayed on the real trie.Trie; after every call "
                       "the full projection of a clone (TryGet of all 8 keys, Iterator pairs, NodeIterator nodes, in-memory graph, "
                       "stored graph decoded with own RLP, Hash, Commit, own-keccak digest of the stored graph, root of a fresh "
                       "sorted-insert trie) judged by MptTrace.tla against Canon(content).",
    }
    finish(ctx, "model_checking", coverage, [
        "Inv.IterationOrder judges the trie's pre-order, i.e. ascending order of the terminated nibble paths: a key that is a proper "
        "prefix of another is yielded after it (upstream go-ethereum's order, encoded in its own iterator tests; with no prefix keys it is "
        "the order of the key bytes); the literal reading of the statement (ascending key bytes) is judged separately by "
        "Inv.IterationAscendingByteOrder, which is a known finding on the pinned tree for prefix keys",
        "keccak-256 and RLP used for the reference digest are golang.org/x/crypto/sha3 and a 100-line encoder in "
        "harness/internal/trieutil, self-tested against the empty-trie root, the doe/dog/dogglesworth root and a single-leaf vector at start-up",
        "key universe: 16 byte keys (empty key, prefix pair, divergence after odd/even nibble counts, 32-byte keys sharing 63 / 1 nibbles; "
        "keys of 64, 127, 128, 129, 255, 256 bytes sharing 1, 127, 128 bytes, several of them prefixes of others: nodes deeper than 255 nibbles); "
        "values of 1, 28, 29, 31, 32, 33, 40, 56 bytes (embedded/hashed boundary, 32-byte value, long-string RLP header)",
        "the in-memory node graph is read by reflection (no source hook)",
    ])
