"""C09 - block/header/transaction/group wire codecs are lossless and total (src/middleware/types/serialization.go)."""
import json
import os

from common import Inconclusive, finish, log
from codec_common import iter_events, judge_traces, require, selftest_corruption, tlc_cases, write_shards

KINDS = ["tx", "txs", "header", "block", "group", "member", "pbblock", "pbgroup"]


def gen_cfg(quick):
    return """SPECIFICATION Spec
CONSTANTS
  Pairs = "%s"
  MaxAbsent = %d
  GroupProduct = %s
  OddAll = %s
  MaxSeq = %d
INVARIANTS Theorems Dump
CHECK_DEADLOCK FALSE
""" % (("some", 2, "FALSE", "FALSE", 3) if quick else ("all", 3, "TRUE", "TRUE", 4))


def compact(e):
    out = {k: e[k] for k in ("event", "kind", "src") if k in e}
    if e["event"] == "Life":
        out["steps"] = [[st["o"], st["f"], st["h"][:12]] for st in e["steps"]]
        return out
    if e["event"] == "RoundTrip":
        out.update({"cls": e["cls"], "inter": e["inter"], "pass1": e["pass1"]["res"], "pass2": e["pass2"]["res"],
                    "h0": e["h0"][:16], "h1": e["h1"][:16], "h2": e["h2"][:16]})
    else:
        out.update({"present": e["present"], "hpresent": e["hpresent"], "txs": e["txs"], "tv": e["tv"], "cv": e["cv"], "in": e["in"][:80],
                    "res": e["res"], "where": e["where"]})
    return out


def run(ctx):
    quick = ctx.quick()
    # 1. model level: the normalisation table is idempotent, lands in the producible classes and
    #    is lossless on them; the same run enumerates class combinations and presence patterns
    gen = ctx.tlc("WireCodecGen", cfg_text=gen_cfg(quick), coverage=not quick, timeout=1500)
    cases = tlc_cases(ctx, gen)
    nrt = sum(1 for c in cases if c["op"] == "rt")
    npres = len(cases) - nrt
    log("TLC cases: %d class combinations, %d presence patterns" % (nrt, npres))
    if nrt < 1000 or npres < 30000:
        raise Inconclusive("TLC generated too few cases (%d, %d)" % (nrt, npres))
    # 2. the real codecs on every case, on seeded random values, random bytes, mutated encodings
    drv = ctx.build("c09")
    shards = 16 if quick else 32
    cps = write_shards(ctx, cases, shards)
    traces, argvs = [], []
    for k, cp in enumerate(cps):
        tp = os.path.join(ctx.scratch, "trace%02d.ndjson" % k)
        traces.append(tp)
        argvs.append([drv, "--cases", cp, "--out", tp, "--scratch", os.path.join(ctx.scratch, "run%02d" % k),
                      "--random", str(40 if quick else 600), "--salt", str(k),
                      "--conc", str((4 if quick else 40) if k < 4 else 0)])
    outs = ctx.run_parallel(argvs)
    nev = sum(int(o.split(" events=")[1].split()[0]) for o in outs)
    nconc = sum(int(o.split("conc_passes=")[1].split()[0]) for o in outs)
    # 3. every event judged against the reference in TLA+
    events, tags = judge_traces(ctx, "WireCodecTrace", traces, timeout=1500)

    def corrupt(e):
        if e["event"] == "RoundTrip" and e["kind"] == "header" and e["pass1"]["res"] == "object" and e["x1"]["Castor"]["h"]:
            e["x1"]["Castor"]["h"] = "00" + e["x1"]["Castor"]["h"]
            return True
        return False
    hits = selftest_corruption(ctx, "WireCodecTrace", traces[0], corrupt, take=10)
    log("self-test: corrupted event rejected with", sorted({h[2] for h in hits}))
    # 4. vacuity and counts
    rt_obj, parse_res, srcs = {}, {}, {}
    prod = nonprod = parsed_objects = 0
    classes_seen, cards, inters = set(), set(), {}
    lives, mutated = {}, set()
    distinct = set()
    samples, seen = [], set()
    for e in iter_events(traces):
        k = e["kind"]
        srcs[e["src"]] = srcs.get(e["src"], 0) + 1
        key = (e["event"], k, e["src"])
        if key not in seen and len(samples) < 12:
            seen.add(key)
            samples.append(compact(e))
        if e["event"] == "Life":
            lives[k] = lives.get(k, 0) + 1
            for st in e["steps"]:
                if st["o"] == "M":
                    mutated.add((k, st["f"]))
            distinct.add(("life", k, json.dumps([[st["o"], st["f"]] for st in e["steps"]])))
            continue
        if e["event"] == "RoundTrip":
            if e["pass1"]["res"] == "object" and e["pass2"]["res"] == "object":
                rt_obj[k] = rt_obj.get(k, 0) + 1
            for f, c in e["cls"].items():
                classes_seen.add((k, f, c))
                if f.startswith("#") and c.isdigit():
                    cards.add((k, f, int(c)))
            inters[e["inter"]] = inters.get(e["inter"], 0) + 1
            if k == "header":
                if e["x"]["Transactions"]["nil"] or e["x"]["EvictedTxs"]["nil"] or e["x"]["ProveValue"]["neg"]:
                    nonprod += 1
                else:
                    prod += 1
            distinct.add(("rt", k, json.dumps(e["cls"], sort_keys=True)) if e["src"] == "tlc" else ("rt", k, e["h0"]))
        else:
            d = parse_res.setdefault(k, {})
            d[e["res"]] = d.get(e["res"], 0) + 1
            parsed_objects += e["res"] == "object"
            if e["src"] == "presence":
                distinct.add(("p", k, tuple(e["present"]), tuple(e["hpresent"]), json.dumps(e["txs"]), e["tv"], e["cv"]))
            elif e["res"] != "error":
                distinct.add(("b", k, e["in"]))
    for k in KINDS:
        require(rt_obj.get(k, 0) > 20, "hardly any round trip of kind %s completed" % k, ctx=ctx)
        require(k == "member" or parse_res.get(k, {}).get("object", 0) > 5 and parse_res.get(k, {}).get("error", 0) > 5,
                "parser of kind %s: object/error classes not both seen (%s)" % (k, parse_res.get(k)), ctx=ctx)
    require(prod > 50 and nonprod > 5, "producible / arbitrary header values not both exercised (%d, %d)" % (prod, nonprod), ctx=ctx)
    require(("block", "#txs", 200) in cards and ("block", "#txs", 201) in cards and ("group", "#Members", 10) in cards
            and ("header", "#EvictedTxs", 200) in cards, "cardinality boundaries not exercised: %s" % sorted(cards)[:8], ctx=ctx)
    require(inters.get("same-goroutine", 0) > 10 and inters.get("other-goroutine", 0) > 10 and nconc > 5000,
            "retention / concurrency families hardly ran: %s, %d concurrent passes" % (inters, nconc), ctx=ctx)
    require(min(lives.get(k, 0) for k in ("header", "tx", "gheader")) > 50 and len({f for k, f in mutated if k == "header"}) == 19,
            "object lives hardly ran or not every header field was changed: %s, %d header fields" % (lives, len({f for k, f in mutated if k == "header"})), ctx=ctx)
    require(len(classes_seen) > 200, "few field classes instantiated (%d)" % len(classes_seen), ctx=ctx)
    require(events == nev, "events judged (%d) != events recorded (%d)" % (events, nev), ctx=ctx)
    coverage = {
        "evaluations": events,
        "distinct_nontrivial": len(distinct),
        "rule": "cases enumerated by TLC (WireCodecGen): for transaction, transaction list, header, block, group every field x every "
                "value class (nil/empty/zero/typical/extreme/leading-zero/zone/sub-second ...) and %s two-field combinations, each "
                "run through two real serialise/parse passes; field-presence patterns written with an independent protobuf encoder: all "
                "2^15 transaction subsets, header subsets with <=%d absent or <=2 present fields plus malformed time fields, group "
                "header x group subsets, blocks and transaction lists; repeated fields at 0, 1, 2, limit-1, limit, limit+1 elements for the limits "
                "the node enforces (200 transactions per block, 5..10 group members); a retention family (serialise, keep the bytes, serialise "
                "another value on the same / another goroutine, then parse the kept bytes) for every Marshal* function incl. Member; a "
                "concurrency family (8 goroutines serialise and parse different values of a kind at once, GOMAXPROCS all cores and 1); lives of "
                "one object (header, transaction, group header): every order of GenHash / value copy / field change up to 0 steps, the "
                "changes walking through all fields, then Hash := GenHash(), wire, GenHash; and the same patterns with odd field contents (signature not 65 bytes, "
                "hashes of the wrong length, non-JSON in JSON-carrying fields, empty prove value); plus seeded random values, random byte strings and mutated "
                "encodings. distinct_nontrivial: distinct class combinations, distinct presence patterns, and distinct random/mutated "
                "inputs that were not plain parse errors" % ("selected" if quick else "all", 2 if quick else 3),
        "samples": samples,
        "exhaustive": True,
        "states": gen["distinct"],
        "transitions": gen["generated"],
        "traces_validated_against_impl": len(traces),
        "events_validated": events,
        "events_by_source": srcs,
        "tlc_cases": {"class_combinations": nrt, "presence_patterns": npres},
        "field_classes_instantiated": len(classes_seen),
        "object_lives": lives,
        "cardinality_points": sorted("%s/%s=%d" % c for c in cards),
        "round_trips_by_interleaving": inters,
        "concurrent_passes": nconc,
        "parse_results": parse_res,
        "round_trips_completed": rt_obj,
        "failed_judgements": tags,
        "action_coverage": gen["coverage"],
        "explanation": "WireCodec.tla holds the field kinds of the four messages with the documented normalisation, the content view "
                       "and the producible classes of each, and the req/opt presence rules of x.proto; WireCodecGen checks the table "
                       "(idempotent, lossless on producible classes) and enumerates the lattice; harness/cmd/c09 runs the real "
                       "Marshal*/UnMarshal* and GenHash on it; WireCodecTrace judges panics, neither-results, content and hash "
                       "after one pass (producible and parsed values) and the fixed point after two (all values).",
    }
    finish(ctx, "exploration", coverage, [
        "Transaction.SocketRequestId is a node-local routing tag that MarshalTransaction never writes; GroupHeader.ReadyHeight/WorkHeight/DismissHeight are not wire fields (the receiver derives them in groupChain.AddGroup): none of them counts as content",
        "values with nil hash lists (Transactions, EvictedTxs) or a negative ProveValue are arbitrary in-memory values (the node builds the lists with make() and prove values from bytes): only the fixed-point law is demanded for them",
        "nil Header pointers in blocks and groups are not generated (serialising them is outside the statement)",
        "content equality: time = (unix seconds, nanoseconds, zone offset); nil and empty byte fields/maps/lists are the same content, while the identifying hash is compared as the real digest, so representation changes that alter it are still caught",
        "digests (sha256 inside GenHash) are computed by the real code only; the monitor compares them as opaque strings",
    ])
