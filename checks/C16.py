"""C16 - VRF proofs are complete, mutation-proof, survive header transport; quality number within 1..max."""
import json
import os
import re

from common import Inconclusive, add_violations_from_bad, finish, log


def gen_qual_cases(ctx, quick):
    res = ctx.tlc("VrfGen", cfg="VrfGen.cfg" if quick else "VrfGen_full.cfg", timeout=1500)
    cases = [json.loads(raw.strip()[1:-1].replace('\\"', '"')) for raw in ctx.tlc_lines(res, "CASE")]
    mc = ctx.tlc_lines(res, "VRFMSGCASES")
    if not cases or not mc:
        raise Inconclusive("TLC generated no qualification cases")
    msgcases = json.loads(mc[0].strip()[1:-1].replace('\\"', '"'))
    return res, cases, msgcases


def run(ctx):
    quick = ctx.quick()
    # 1. design level: which adversarial proofs verify in the symbolic group with a small-order component,
    #    uniqueness of the reference lottery output; the as-coded output (raw Gamma) is explored for candidates
    ref = ctx.tlc("Vrf", cfg="Vrf.cfg", coverage=not quick, timeout=1500)
    asc = ctx.tlc("Vrf", cfg="Vrf_ascoded.cfg", allow_violation=True)
    # 2. the qualification / quality-number rule, exhaustive in a one-byte value domain
    qn = ctx.tlc("VrfQn", cfg="VrfQn_quick.cfg" if quick else "VrfQn.cfg", timeout=1500)
    # 3. TLC computes the decision points of the rule for every stake configuration
    gen, qcases, msgcases = gen_qual_cases(ctx, quick)
    msp = os.path.join(ctx.scratch, "vrfmsg.json")
    json.dump(msgcases, open(msp, "w"))
    nvalues = sum(len(c["values"]) for c in qcases)
    drv = ctx.build("c16")
    shards = 4 if quick else 16
    sp = os.path.join(ctx.scratch, "qual.json")
    json.dump(qcases, open(sp, "w"))
    argvs, traces = [], []
    for k in range(shards):
        tp = os.path.join(ctx.scratch, "trace%d.ndjson" % k)
        traces.append(tp)
        argv = [drv, "--out", tp, "--scratch", os.path.join(ctx.scratch, "run%d" % k), "--salt", str(k),
                "--keys", "1" if quick else "2", "--msgs", "2" if quick else "3",
                "--stride", "1" if (k == 0 or not quick) else "4",
                "--maxz", "2" if k % 4 == 1 else "1", "--attempts", "8"]
        if k == 0:
            argv += ["--script", sp]
        if k < 2:
            argv += ["--msgscript", msp]
        argvs.append(argv)
    outs = ctx.run_parallel(argvs, timeout=1500)
    counts = {}
    for o in outs:
        line = [l for l in o.splitlines() if l.startswith("c16:")]
        if not line:
            print(o[-2000:])
            raise Inconclusive("driver printed no summary")
        for key, v in re.findall(r"(\w+)=(\d+)", line[-1]):
            counts[key] = counts.get(key, 0) + int(v)
    vacuous = ["no %s observations were produced" % need
               for need in ("blockVrf", "overlong", "validateLong", "total", "msgpair", "askedAgain", "retain", "concurrent", "boundary", "prove",
                            "transport", "z0", "z1", "z2", "mutate", "torsion", "torsionAccepted", "validate", "qualified")
               if counts.get(need, 0) == 0]
    if counts.get("validate", 0) == counts.get("qualified", 0):
        vacuous.append("no unqualified lottery value among the generated cases")
    merged = []
    step = 2 if quick else 4
    for k in range(0, len(traces), step):
        mp = os.path.join(ctx.scratch, "trace-m%d.ndjson" % k)
        with open(mp, "w") as f:
            for tp in traces[k:k + step]:
                f.write(open(tp).read())
        merged.append(mp)
    total = 0
    samples = []
    for tp in merged:
        n, bad = ctx.validate_trace("VrfTrace", tp, timeout=1500)
        total += n
        add_violations_from_bad(ctx, bad, tp, reset_event="VrfCase")
        with open(tp) as f:
            for line in f:
                e = json.loads(line)
                if e["event"] in ("Transport", "Torsion", "ValidateProve", "Mutate") and \
                        e["event"] not in [s["event"] for s in samples]:
                    samples.append(e)
    if vacuous and not ctx.violations:
        raise Inconclusive("vacuity: " + "; ".join(vacuous))
    evaluations = counts["transport"] + counts["mutate"] + counts["torsion"] + counts["validate"]
    coverage = {
        "evaluations": evaluations,
        "distinct_nontrivial": nvalues + counts["mutate"] + counts["torsion"],
        "rule": "distinct cases: every (stake, working miners, difficulty flag, 32-byte lottery value) decision point computed by TLC "
                "(set-valued, hence distinct), every single-bit mutation (distinct bit positions per proof/message/key) and every "
                "adversarial proving attempt (distinct torsion shift, guess and nonce); honest proofs searched until their encoding "
                "starts with 0, 1 and 2 zero bytes",
        "samples": samples,
        "states": ref["distinct"] + qn["distinct"] + gen["distinct"],
        "transitions": ref["generated"] + qn["generated"] + gen["generated"],
        "traces_validated_against_impl": len(merged),
        "events_validated": total,
        "mutations_presented_to_verifyBlockVRF": counts["blockVrf"],
        "related_message_pairs": counts["msgpair"],
        "qualification_questions_asked_again": counts["askedAgain"],
        "retained_proof_observations": counts["retain"],
        "concurrent_prover_runs": counts["concurrent"],
        "activation_height_observations": counts["boundary"],
        "proofs": counts["prove"],
        "proofs_by_leading_zero_bytes": {"0": counts["z0"], "1": counts["z1"], "2": counts["z2"]},
        "single_bit_mutations": counts["mutate"],
        "adversarial_attempts": counts["torsion"],
        "adversarial_accepted": counts["torsionAccepted"],
        "torsion_shifted_accepted": counts.get("shiftedAccepted", 0),
        "qualification_cases": counts["validate"],
        "qualified_cases": counts["qualified"],
        "stake_configurations": len(qcases),
        "as_coded_output_model_violates_uniqueness": bool(asc["error"]),
        "action_coverage": ref["coverage"],
        "exhaustive": False,
        "explanation": "Vrf.tla: transport rule on byte strings, verification in a symbolic group with an explicit small-order component "
                       "(which torsion-shifted proofs verify, uniqueness of the reference output) model-checked exhaustively; the "
                       "qualification/quality-number rule in BigNat arithmetic checked exhaustively in a one-byte domain against native "
                       "arithmetic and used by TLC to compute every decision point for the real 256-bit domain; the real VRFGenProve/"
                       "VRFVerify/verifyBlockVRF/validateProve and an adversarial prover (hook H5) are driven and every call is judged "
                       "by VrfTrace (exact recomputation of the rule from the logged bytes).",
    }
    finish(ctx, "exploration", coverage, [
        "the challenge hash is a random oracle in the model; the driver observes c mod 8 of the real hash and the monitor predicts the verdict from it",
        "lottery value 2^256-1 is excluded: it is not the canonical encoding of a curve point",
        "total stake below 2^53 (calcStakeRatio converts it through float64) and working miners <= total stake (otherwise the difficulty is 0 and calQn divides by zero)",
        "quality numbers that a float64 quotient within relative 2^-48 below an integer rounds up are admitted as conformant inside the range (the statement fixes the range, not the rounding), and reported when they leave the range",
        "single-bit mutations of s are judged on the 256-bit encoding; adding the group order to s is not a single-bit mutation",
    ])
