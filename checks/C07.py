"""C07 - only authentic transactions are admitted (service.TransactionPool.VerifyTransaction)."""
import json
import os

from common import Inconclusive, finish, log
from codec_common import iter_events, judge_traces, require, selftest_corruption, tlc_cases, write_shards


def rng_set(xs):
    return "{" + ", ".join(str(x) for x in sorted(set(xs))) + "}"


def gen_cfg(quick, seed):
    if quick:
        # a seeded sample of the bit positions, plus the boundary bits
        import random
        r = random.Random(seed)
        hashb = [0, 7, 8, 128, 255] + r.sample(range(256), 32)
        signb = [0, 255, 256, 511, 512, 519] + r.sample(range(520), 48)
        srcb = [0, 16, 335] + r.sample(range(336), 24)
        fieldb = [0, 9] + r.sample(range(64), 6)
        # 118/126: the recipient byte of a contract creation with a 3/4-byte nonce (regression bits of the
        # known finding ed:flip:80>c0, met by the full sweep of the thorough tier)
        edb = [0, 8, 118, 126] + r.sample(range(880), 64)
    else:
        hashb, signb, srcb, fieldb, edb = range(256), range(520), range(336), range(64), range(880)
    keyset = ", ".join(map(str, range(1, 2001)))
    vdeltas = ", ".join(map(str, range(1, 61)))
    return ("""SPECIFICATION Spec
CONSTANTS
  KeyScalars = {""" + keyset + """}
  VDeltas = {""" + vdeltas + """}
""" + """  DataLens = {0, 1, 2, 3, 4, 5, 6, 7, 8, 9, 10, 11, 12, 13, 14, 15, 16, 17, 18, 19, 20, 21, 22, 23, 24, 25, 26, 27, 28, 29, 30, 31, 32, 33, 34, 35, 36, 37, 38, 39, 40, 41, 42, 43, 44, 45, 46, 47, 48, 49, 50, 51, 52, 53, 54, 55, 56, 57, 58, 59, 60, 61, 62, 63, 64}
  HashBits = %s
  SignBits = %s
  SourceBits = %s
  FieldBits = %s
  EdBits = %s
  CtxAll = %s
INVARIANTS Theorems Dump
CHECK_DEADLOCK FALSE
""") % (rng_set(hashb), rng_set(signb), rng_set(srcb), rng_set(fieldb), rng_set(edb), "FALSE" if quick else "TRUE")


def compact(e):
    return {k: e[k] for k in ("event", "kind", "h", "mut", "cls", "ctx", "ok", "pooled", "holds", "err", "conc")} | {
        "differs_from_base": sorted(k for k, v in e["same"].items() if not v)}


def run(ctx):
    quick = ctx.quick()
    # 1. model level: on the whole mutation lattice every change of an authenticated field, of the
    #    hash, the signature, the chain id or the encoding flips Accept to FALSE, unauthenticated
    #    fields leave it TRUE; the same run exports the lattice
    gen = ctx.tlc("TxAuthGen", cfg_text=gen_cfg(quick, ctx.seed), coverage=not quick, timeout=1500)
    cases = tlc_cases(ctx, gen)
    if len(cases) < 300:
        raise Inconclusive("TLC generated only %d cases" % len(cases))
    log("TLC cases: %d (native %d, eth %d)" % (len(cases), sum(c["tx"]["kind"] == "native" for c in cases),
                                                sum(c["tx"]["kind"] == "eth" for c in cases)))
    # 2. every abstract case instantiated with real keys/digests/signatures and offered to the real pool
    drv = ctx.build("c07")
    shards = 8 if quick else 16
    cps = write_shards(ctx, cases, shards)
    traces, argvs = [], []
    for k, cp in enumerate(cps):
        tp = os.path.join(ctx.scratch, "trace%02d.ndjson" % k)
        traces.append(tp)
        argvs.append([drv, "--cases", cp, "--out", tp, "--scratch", os.path.join(ctx.scratch, "node%02d" % k),
                      "--inst", str(4 if quick else 3), "--salt", str(k)])
    outs = ctx.run_parallel(argvs)
    nev = sum(int(o.split("events=")[1].split()[0]) for o in outs)
    # 3. the acceptance predicate evaluated in TLA+ for every event
    events, tags = judge_traces(ctx, "TxAuthTrace", traces, timeout=1500)

    def corrupt(e):
        if e["cls"] == "auth" and not e["ok"]:
            e["ok"] = True      # pretend the pool admitted a forged transaction
            return True
        return False
    hits = selftest_corruption(ctx, "TxAuthTrace", traces[0], corrupt, take=10)
    log("self-test: corrupted event rejected with", sorted({h[2] for h in hits}))
    # 4. vacuity and counts
    by_cls, muts, samples, seen, ctxs = {}, {}, [], set(), {}
    ctx_ok = 0
    distinct = set()
    for e in iter_events(traces):
        key = (e["kind"], e["cls"], e["ok"])
        by_cls[key] = by_cls.get(key, 0) + 1
        m = (e["kind"], e["mut"])
        muts[m] = muts.get(m, 0) + 1
        ctxs[e["ctx"]] = ctxs.get(e["ctx"], 0) + 1
        if e["ctx"] in ("orig-pending", "orig-unmarked", "other-pending"):
            ctx_ok += e["pending_before"] == 1
        fam = (e["kind"], e["mut"].split(":")[0], e["ctx"] != "empty", e["ok"])
        if fam not in seen and len(samples) < 14:
            seen.add(fam)
            samples.append(compact(e))
        if e["cls"] != "honest" or e["mut"] != "honest":
            distinct.add((e["kind"], e["h"], e["mut"], e["ctx"], json.dumps(e["tx"], sort_keys=True)))
    for kind in ("native", "eth"):
        require(by_cls.get((kind, "honest", True), 0) > 10, "no honest %s transaction was accepted" % kind, ctx=ctx)
        require(by_cls.get((kind, "auth", False), 0) > 100, "hardly any forged %s transaction was rejected" % kind, ctx=ctx)
        require(by_cls.get((kind, "unauth", True), 0) > 10, "no %s transaction with a changed unauthenticated field was accepted" % kind, ctx=ctx)
    require(len(ctxs) == 6 and min(ctxs.values()) > 100, "pool contexts not all exercised: %s" % ctxs, ctx=ctx)
    need = ctxs.get("orig-pending", 0) + ctxs.get("orig-unmarked", 0) + ctxs.get("other-pending", 0)
    require(ctx_ok == need, "the real pool was not in the intended context in %d of %d events" % (need - ctx_ok, need), ctx=ctx)
    for how in ("long", "lead0"):
        require(muts.get(("eth", "reframe:" + how), 0) > 10 and muts.get(("eth", "reframe-data:" + how), 0) > 10,
                "re-framing %s was hardly applied" % how, ctx=ctx)
    # a single byte below 0x80 only occurs as a one-byte call datum (all other payload items are longer)
    require(muts.get(("eth", "reframe-data:wrap1"), 0) > 5, "re-framing wrap1 was hardly applied", ctx=ctx)
    require(sum(v for (k, m), v in muts.items() if m.startswith("textual:")) > 20, "textual variations not exercised", ctx=ctx)
    require(len(muts) >= 60, "few mutation classes exercised (%d)" % len(muts), ctx=ctx)
    require(events == nev, "events judged (%d) != events recorded (%d)" % (events, nev), ctx=ctx)
    coverage = {
        "evaluations": events,
        "distinct_nontrivial": len(distinct),
        "rule": "cases enumerated by TLC (TxAuthGen): for native and wrapped-Ethereum transactions, at both sides of the chain-id "
                "switch: every single-field change of a hashed/compared field (stale hash, re-hashed, re-hashed and re-signed, by "
                "the owner or another key), chain id of another chain/height (incl. replay), single-bit flips of %s of Hash, "
                "Sign, Source, of the content fields and of the RLP payload, nil/random/foreign/malleated signatures, "
                "damaged encodings (case, garbage, truncated, trailing), re-framings of every item of the signed payload that keep the decoded "
                "content (explicit-length form for sizes <= 55, leading zero in a length, single byte wrapped as a string; call data of every "
                "length 0..64), textual variations of native fields (white space, key order, number format, letter case), payloads signed for another chain or without EIP-155, "
                "and every unauthenticated field; every case offered in six pool contexts (empty pool, honest original pending / executed in a "
                "block / executed and rolled back, another transaction of the sender pending, the same transaction delivered before; %s); "
                "each instantiated %d times with fresh real keys and contents. "
                "distinct_nontrivial: distinct (kind, height, mutated abstract transaction) other than the plain honest one"
                % ("a seeded sample of the bit positions" if quick else "every bit position",
                   "the bit sweeps in the empty pool only" if quick else "full product", 4 if quick else 3),
        "samples": samples,
        "exhaustive": True,
        "states": gen["distinct"],
        "transitions": gen["generated"],
        "traces_validated_against_impl": len(traces),
        "events_validated": events,
        "tlc_cases": len(cases),
        "mutation_classes": len(muts),
        "events_by_pool_context": ctxs,
        "outcomes": {"%s/%s/%s" % (k[0], k[1], "accepted" if k[2] else "rejected"): v for k, v in sorted(by_cls.items())},
        "failed_judgements": tags,
        "action_coverage": gen["coverage"],
        "explanation": "TxAuth.tla states the acceptance predicate over abstract transactions with injective digests and "
                       "signatures; TxAuthGen proves on the whole lattice that every mutation of an authenticated field / hash / "
                       "signature / chain id / encoding is rejected and unauthenticated ones are not, and exports the lattice; "
                       "harness/cmd/c07 interprets each abstract transaction with real secp256k1 keys, sha256 digests, signatures and "
                       "EIP-155/Homestead-signed RLP payloads and calls the real VerifyTransaction; TxAuthTrace evaluates the "
                       "predicate for every event and compares.",
    }
    finish(ctx, "exploration", coverage, [
        "admission is observed the way the node's receive paths do it (network/worker_conn.go TransactionGotMsg, core/game_executor.go write/runWrite): VerifyTransaction on the pool singleton, then AddTransaction when it returned nil; the pool is put into each context through AddTransaction / MarkExecuted / UnMarkExecuted; the game executor itself (needs the chain and the client network) is not booted",
        "digests and signatures are injective: a damaged hash/signature/encoding is assumed different from every honest one (a bit-flipped signature recovers to nobody's key); the real digests, keys and signatures come from crypto/sha256 and the repository's secp256k1/eth_tx libraries used as generators of inputs",
        "the chain id is made height-dependent by setting LocalChainConfig.OriginalChainId=9400 and Proposal001Block=100 after boot (dev config has one id at all heights)",
        "the honest Ethereum wrapper is the one eth_tx.ConvertTx derives on the submitting node; the driver checks that it declares the nonce/sender/target it chose for the payload",
        "the malleated twin (r, n-s, v^1) of the signature of a native transaction is a change of the signature and must be rejected (the statement's last sentence); the Sign field of a wrapped Ethereum transaction is not authenticated and may change freely; rejection of a transaction whose only change is in an unauthenticated field would be a conformance mismatch, not a violation",
        "two-field changes that keep the concatenated hash preimage unchanged (field boundary shifts) are outside the statement's single-field quantifier",
    ])
