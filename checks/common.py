"""Shared machinery of the go-rangers model-based checks.

Every check is `bin/check <Cnn> quick|thorough`.  A check
  1. model-checks the property's TLA+ specification with TLC (design level),
  2. optionally lets TLC generate behaviours that are replayed on the real code,
  3. runs a Go driver (built from /repo's working tree with -tags verif) that
     exercises the real code and records ndjson traces,
  4. lets TLC validate the traces against the trace specification ("monitor":
     spec variables are bound to the observed projection at every step, each
     step is judged against the reference actions and invariants; failed
     judgements come back as (line, event, tag) triples),
  5. writes evidence/<id>.json and decides the exit code.

Exit codes: 0 held, 1 violation on the real code (VIOLATION line printed),
2 inconclusive (machinery failure) - never reported as a violation.
"""
import atexit
import collections
import json
import os
import re
import shutil
import subprocess
import sys
import tempfile
import time

VERIF = os.path.dirname(os.path.dirname(os.path.abspath(__file__)))
REPO = os.environ.get("VERIF_REPO", "/repo")
SPEC = os.path.join(VERIF, "spec")
HARNESS = os.path.join(VERIF, "harness")
NCPU = os.cpu_count() or 4

GOENV = dict(os.environ, GOFLAGS="-mod=mod", GOPROXY="off", GOSUMDB="off",
             GOTOOLCHAIN="local", CGO_CFLAGS="-w")


class Inconclusive(Exception):
    pass


def log(*a):
    print("[check]", *a, flush=True)


class Ctx:
    def __init__(self, prop, tier, seed):
        self.prop = prop
        self.tier = tier
        self.seed = seed
        self.t0 = time.time()
        base = os.environ.get("VERIF_SCRATCH") or tempfile.gettempdir()
        self.scratch = tempfile.mkdtemp(prefix="verif-%s-" % prop, dir=base)
        atexit.register(self._cleanup)
        self.bindir = os.path.join(self.scratch, "bin")
        os.makedirs(self.bindir)
        self.tlc_runs = []          # summaries of every TLC run
        self.violations = []        # dicts: signature, what, replay
        self.known_hits = []        # known findings met in this run
        self.conformance = []       # model/code conformance failures (not verdicts)
        self.extensions = []        # observations on behaviour beyond the property's quantifier (tags Ext.*)
        self.n_tlc = 0

    def _cleanup(self):
        if os.environ.get("VERIF_KEEP"):
            log("scratch kept:", self.scratch)
            return
        shutil.rmtree(self.scratch, ignore_errors=True)

    def quick(self):
        return self.tier == "quick"

    def sub(self, name):
        d = os.path.join(self.scratch, name)
        os.makedirs(d, exist_ok=True)
        return d

    # ------------------------------------------------------------------ build
    def harness_dir(self):
        """The harness module. Normally /verif/harness (go.mod replaces the node module by /repo).
        With VERIF_REPO set to another tree (mutation testing on a scratch copy, so that /repo
        itself is never modified while other checks run) the module is copied into the scratch
        directory with the replace directive pointing at that tree."""
        if os.path.abspath(REPO) == "/repo":
            return HARNESS
        d = os.path.join(self.scratch, "harness")
        if not os.path.isdir(d):
            shutil.copytree(HARNESS, d)
            gm = open(os.path.join(d, "go.mod")).read()
            gm = re.sub(r"replace com\.tuntun\.rangers/node => \S+", "replace com.tuntun.rangers/node => " + os.path.abspath(REPO), gm)
            open(os.path.join(d, "go.mod"), "w").write(gm)
        return d

    def build(self, cmd, race=False):
        """Build harness/cmd/<cmd> against the node's current working tree."""
        out = os.path.join(self.bindir, cmd + ("-race" if race else ""))
        hd = self.harness_dir()
        gosum = os.path.join(hd, "go.sum")
        try:
            shutil.copyfile(os.path.join(REPO, "go.sum"), gosum)
        except OSError:
            pass
        args = ["go", "build", "-tags", "verif", "-o", out]
        if race:
            args.append("-race")
        args.append("./cmd/" + cmd)
        t = time.time()
        p = subprocess.run(args, cwd=hd, env=GOENV, stdout=subprocess.PIPE,
                           stderr=subprocess.STDOUT, text=True)
        if p.returncode != 0:
            print(p.stdout)
            raise Inconclusive("harness build failed for %s" % cmd)
        log("built %s in %.1fs" % (cmd, time.time() - t))
        return out

    def run(self, argv, timeout=3600, cwd=None, env=None, ok_codes=(0,), quiet=False):
        e = dict(GOENV)
        e["VERIF_SEED"] = str(self.seed)
        e["VERIF_TIER"] = self.tier
        if env:
            e.update(env)
        try:
            p = subprocess.run(argv, cwd=cwd or self.scratch, env=e, stdout=subprocess.PIPE,
                               stderr=subprocess.STDOUT, text=True, timeout=timeout,
                               errors="replace")
        except subprocess.TimeoutExpired:
            raise Inconclusive("timeout running %s" % " ".join(argv[:3]))
        if p.returncode not in ok_codes:
            print(p.stdout[-4000:])
            raise Inconclusive("%s exited %d" % (os.path.basename(argv[0]), p.returncode))
        if not quiet:
            for line in p.stdout.splitlines():
                if line.startswith(("c", "C")) and ":" in line[:12]:
                    log(line)
        return p

    def run_parallel(self, argvs, timeout=3600, env=None, ok_codes=(0,)):
        """Run several driver processes concurrently (at most NCPU at a time)."""
        e = dict(GOENV)
        e["VERIF_SEED"] = str(self.seed)
        e["VERIF_TIER"] = self.tier
        if env:
            e.update(env)
        pending = list(enumerate(argvs))
        running = []
        outs = [None] * len(argvs)
        deadline = time.time() + timeout
        while pending or running:
            while pending and len(running) < NCPU:
                i, a = pending.pop(0)
                running.append((i, subprocess.Popen(a, cwd=self.scratch, env=e, stdout=subprocess.PIPE,
                                                    stderr=subprocess.STDOUT, text=True, errors="replace")))
            still = []
            for i, p in running:
                if p.poll() is None:
                    still.append((i, p))
                else:
                    outs[i] = p.stdout.read()
                    if p.returncode not in ok_codes:
                        print(outs[i][-3000:])
                        for _, q in still + running:
                            if q.poll() is None:
                                q.kill()
                        raise Inconclusive("driver exited %d" % p.returncode)
            running = still
            if time.time() > deadline:
                for _, q in running:
                    q.kill()
                raise Inconclusive("timeout in parallel drivers")
            time.sleep(0.02)
        return outs

    # -------------------------------------------------------------------- TLC
    def tlc(self, module, cfg=None, files=(), workers=None, timeout=1800, extra=(),
            coverage=False, simulate=None, depth=None, allow_violation=False, jvm=(),
            cfg_text=None, dfid=False, heap="4g"):
        """Run TLC on spec/<module>.tla in a private copy of the spec directory.

        files: iterable of (src_path, name_in_run_dir) made available to the spec.
        Returns a dict: out, generated, distinct, depth, error (None | text),
        coverage ({action: count}).
        """
        self.n_tlc += 1
        d = self.sub("tlc%03d-%s" % (self.n_tlc, module))
        for f in os.listdir(SPEC):
            if f.endswith((".tla", ".cfg")):
                shutil.copyfile(os.path.join(SPEC, f), os.path.join(d, f))
        for src, name in files:
            dst = os.path.join(d, name)
            if os.path.abspath(src) != os.path.abspath(dst):
                try:
                    os.link(src, dst)
                except OSError:
                    shutil.copyfile(src, dst)
        cfgname = cfg or (module + ".cfg")
        if cfg_text is not None:
            cfgname = module + "_gen%d.cfg" % self.n_tlc
            with open(os.path.join(d, cfgname), "w") as f:
                f.write(cfg_text)
        w = workers or NCPU
        # every JVM gets an explicit heap bound: the default (25% of RAM each) lets a handful of
        # concurrent TLC runs exhaust the machine
        jtmp = os.path.join(d, "jtmp")     # TLC's own temporary files stay inside the run's scratch directory
        os.makedirs(jtmp, exist_ok=True)
        argv = ["java", "-XX:+UseParallelGC", "-Xss256m", "-Xmx" + heap, "-Djava.io.tmpdir=" + jtmp] + list(jvm) + [
            "-cp", "/opt/veriftools/tla/tla2tools.jar:/opt/veriftools/tla/CommunityModules-deps.jar",
            "tlc2.TLC", "-workers", str(w), "-metadir", os.path.join(d, "meta"),
            "-config", cfgname, "-noGenerateSpecTE"]
        if coverage:
            argv += ["-coverage", "1"]
        if simulate:
            argv += ["-simulate", simulate]
        if depth:
            argv += ["-depth", str(depth)]
        argv += list(extra) + [module + ".tla"]
        t = time.time()
        try:
            p = subprocess.run(argv, cwd=d, stdout=subprocess.PIPE, stderr=subprocess.STDOUT,
                               text=True, timeout=timeout, errors="replace")
        except subprocess.TimeoutExpired:
            raise Inconclusive("TLC timeout on %s/%s" % (module, cfgname))
        out = p.stdout
        res = {"module": module, "cfg": cfgname, "out": out, "dir": d, "wall_s": round(time.time() - t, 2),
               "generated": 0, "distinct": 0, "depth": 0, "error": None, "coverage": {}}
        m = re.search(r"(\d+) states generated, (\d+) distinct states found", out)
        if m:
            res["generated"], res["distinct"] = int(m.group(1)), int(m.group(2))
        m = re.search(r"depth of the complete state graph search is (\d+)", out)
        if m:
            res["depth"] = int(m.group(1))
        err = re.search(r"^Error: .*$", out, re.M)
        if err:
            res["error"] = out[err.start():err.start() + 3000]
        elif p.returncode != 0 and "Model checking completed. No error" not in out and not simulate:
            res["error"] = "TLC exited %d\n%s" % (p.returncode, out[-2000:])
        if coverage:
            for cm in re.finditer(r"^<(\w+) line \d+, col \d+ to line \d+, col \d+ of module (\w+)>: (\d+):(\d+)", out, re.M):
                res["coverage"][cm.group(1)] = res["coverage"].get(cm.group(1), 0) + int(cm.group(4))
        self.tlc_runs.append({k: res[k] for k in ("module", "cfg", "generated", "distinct", "depth", "wall_s")}
                             | {"error": bool(res["error"])})
        if res["error"] and not allow_violation:
            print(res["error"])
            raise Inconclusive("TLC reported an error on %s/%s (model-level, not a verdict on the code)"
                               % (module, cfgname))
        log("TLC %s/%s: %d generated, %d distinct, depth %d, %.1fs%s" % (
            module, cfgname, res["generated"], res["distinct"], res["depth"], res["wall_s"],
            " [error]" if res["error"] else ""))
        return res

    def tlc_lines(self, res, marker):
        """All TLC PrintT tuples <<"marker", ...>> of a run: returns the raw text after the marker."""
        outs = []
        pat = '<<"%s", ' % marker
        for line in res["out"].splitlines():
            if line.startswith(pat):
                outs.append(line[len(pat):-2])
        return outs

    def validate_trace(self, module, trace_path, cfg=None, timeout=1800, extra_files=(), cfg_text=None):
        """Monitor-style trace validation: returns (n_events, bad) where bad is a
        list of [line, event, tag] judgements that failed."""
        res = self.tlc(module, cfg=cfg, files=[(trace_path, "trace.ndjson")] + list(extra_files),
                       workers=1, timeout=timeout, cfg_text=cfg_text)
        got = None
        for line in res["out"].splitlines():
            m = re.match(r'<<"VERDICT", (\d+), "(.*)">>$', line)
            if m:
                n = int(m.group(1))
                s = m.group(2).encode().decode("unicode_escape") if "\\u" in m.group(2) else m.group(2).replace('\\"', '"').replace("\\\\", "\\")
                got = (n, json.loads(s))
        if got is None:
            print(res["out"][-3000:])
            raise Inconclusive("trace spec %s produced no VERDICT (trace not consumed to the end)" % module)
        n, bad = got
        if res["distinct"] != n + 1:
            raise Inconclusive("trace spec %s: %d states for %d events (expected a linear trace)"
                               % (module, res["distinct"], n))
        return n, bad


def read_trace_line(path, lineno):
    with open(path) as f:
        for i, line in enumerate(f, 1):
            if i == lineno:
                return json.loads(line)
    return None


def history_before(path, lineno, reset_event="Reset", maxlen=60):
    """Events from the last reset up to lineno (the replayable history)."""
    hist = []
    with open(path) as f:
        for i, line in enumerate(f, 1):
            if i > lineno:
                break
            e = json.loads(line)
            if e.get("event") == reset_event:
                hist = []
            hist.append(e)
    return hist[-maxlen:]


# ------------------------------------------------------------ known findings
def load_known(prop):
    known, fixed = {}, {}
    p = os.path.join(VERIF, "known_findings.jsonl")
    if os.path.exists(p):
        for line in open(p):
            line = line.strip()
            if not line or line.startswith("#"):
                continue
            r = json.loads(line)
            if r.get("property") != prop:
                continue
            (known if r.get("status") == "known" else fixed)[r["signature"]] = r
    return known, fixed


def finish(ctx, level, coverage, assumptions):
    """Classify violations against known findings, write evidence, exit."""
    known, _fixed = load_known(ctx.prop)
    new = []
    hits = collections.OrderedDict()
    for v in ctx.violations:
        if v["signature"] in known:
            hits.setdefault(v["signature"], v)
        else:
            new.append(v)
    for sig, v in hits.items():
        print("KNOWN-FINDING: property=%s %s (%s)" % (ctx.prop, sig, known[sig].get("what", "")))
    for x in ctx.extensions:
        print("EXTENSION-OBSERVATION property=%s %s (%d occurrences; outside the property's quantifier, not a verdict)"
              % (ctx.prop, x["signature"], x["occurrences"]))
    replay_paths = []
    if new:
        rdir = os.path.join(VERIF, "replays", ctx.prop)
        os.makedirs(rdir, exist_ok=True)
        seen = set()
        for v in new:
            if v["signature"] in seen:
                continue
            seen.add(v["signature"])
            name = re.sub(r"[^A-Za-z0-9_.-]+", "_", v["signature"])[:80] + ".json"
            path = os.path.join(rdir, name)
            with open(path, "w") as f:
                json.dump(v, f, indent=1, default=str)
            replay_paths.append(path)
            print("VIOLATION property=%s replay=%s" % (ctx.prop, path))
            print("  signature: %s" % v["signature"])
            print("  what: %s" % str(v.get("what", ""))[:600])
    ev = {
        "property_id": ctx.prop,
        "tier": ctx.tier,
        "seed": ctx.seed,
        "level": level,
        "coverage": coverage,
        "assumptions": assumptions,
        "wall_s": round(time.time() - ctx.t0, 2),
        "violations": len({v["signature"] for v in new}),
        "known_findings_met": list(hits.keys()),
        "model_mismatches": [c["signature"] for c in ctx.conformance],
        "extension_observations": [{"signature": c["signature"], "occurrences": c["occurrences"]} for c in ctx.extensions],
        "tlc_runs": ctx.tlc_runs,
    }
    evdir = os.environ.get("VERIF_EVIDENCE_DIR") or os.path.join(VERIF, "evidence")
    os.makedirs(evdir, exist_ok=True)
    with open(os.path.join(evdir, ctx.prop + ".json"), "w") as f:
        json.dump(ev, f, indent=1, default=str)
    if not new and ctx.conformance:
        rdir = os.path.join(VERIF, "replays", ctx.prop)
        os.makedirs(rdir, exist_ok=True)
        for c in ctx.conformance[:10]:
            print("MODEL-MISMATCH property=%s %s" % (ctx.prop, c["what"]))
        with open(os.path.join(rdir, "model-mismatch.json"), "w") as f:
            json.dump(ctx.conformance[:20], f, indent=1, default=str)
        print("INCONCLUSIVE property=%s: the real code took steps the reference model does not describe, while every "
              "predicate of the property held on the observed states (details: replays/%s/model-mismatch.json)"
              % (ctx.prop, ctx.prop))
        sys.exit(2)
    log("%s %s: %s in %.1fs" % (ctx.prop, ctx.tier, "VIOLATION" if new else "held", time.time() - ctx.t0))
    sys.exit(1 if new else 0)


def tlaps(ctx, files, module, timeout=600):
    """Run the TLA+ proof system on spec/<module>.tla (with the listed spec files beside it).
    Returns {"tlaps": summary line, "tlaps_proved": bool}.  Never raises: the outcome of a proof
    is recorded in the evidence and is not part of a verdict (SMT time-outs depend on load)."""
    d = os.path.join(ctx.scratch, "proof-" + module)
    os.makedirs(d, exist_ok=True)
    out = {}
    try:
        for f in list(files) + [module + ".tla"]:
            shutil.copyfile(os.path.join(SPEC, f), os.path.join(d, f))
        p = subprocess.run(["tlapm", "--threads", "4", module + ".tla"], cwd=d, capture_output=True, text=True, timeout=timeout)
        m = [l for l in (p.stdout + p.stderr).splitlines() if "obligation" in l]
        out["tlaps"] = m[-1].strip() if m else "no summary (exit %d)" % p.returncode
        out["tlaps_proved"] = bool(m) and "All" in m[-1] and "proved" in m[-1]
    except Exception as e:   # noqa
        out["tlaps"] = "not run: %s" % e
        out["tlaps_proved"] = False
    log("TLAPS %s: %s" % (module, out["tlaps"]))
    return out


def add_violations_from_bad(ctx, bad, trace_path, what_prefix="", sig_of=None, reset_event="Reset",
                            verdict=lambda tag: tag.startswith("Inv."), max_report=8):
    """Turn monitor judgements into violations.

    Tags for which verdict(tag) holds are the property's own predicates evaluated on real
    observations: they become violations (signature tag@event unless sig_of is given).  All other
    tags are conformance judgements (the reference action / projection coherence): a failure means
    the model does not describe the code, which is reported as inconclusive (exit 2) by finish()
    unless a real violation was found as well."""
    groups = collections.OrderedDict()
    for line, event, tag in bad:
        sig = sig_of(line, event, tag) if sig_of else "%s@%s" % (tag, event)
        groups.setdefault((sig, verdict(tag)), []).append(line)
    for (sig, is_verdict), lines in groups.items():
        first = lines[0]
        rec = {
            "property": ctx.prop,
            "signature": sig,
            "what": "%sjudgement %s failed at trace line %d (%d occurrences)" % (what_prefix, sig, first, len(lines)),
            "occurrences": len(lines),
            "trace_line": first,
            "event": read_trace_line(trace_path, first),
            "history": history_before(trace_path, first, reset_event),
        }
        if sig.startswith("Ext."):
            ctx.extensions.append(rec)   # informational: outside the listed property's quantifier
        else:
            (ctx.violations if is_verdict else ctx.conformance).append(rec)


def main(run):
    if len(sys.argv) < 3:
        print("usage: check <Cnn> quick|thorough")
        sys.exit(2)
    prop, tier = sys.argv[1], sys.argv[2]
    seed = int(os.environ.get("VERIF_SEED", "1") or 1)
    ctx = Ctx(prop, tier, seed)
    try:
        run(ctx)
    except Inconclusive as e:
        # a violation already observed on the real code stays a violation when a later part of the
        # check (a vacuity condition, a model run) could not be completed
        known, _fixed = load_known(prop)
        if any(v["signature"] not in known for v in ctx.violations):
            print("NOTE property=%s: the check did not complete (%s); reporting what was observed before" % (prop, e))
            finish(ctx, "model_checking", {"states": 0, "transitions": 0, "incomplete": str(e)}, [])
        print("INCONCLUSIVE property=%s: %s" % (prop, e))
        sys.exit(2)
