"""C06 - native token is conserved by every transaction; balances never go negative."""
import collections
import json
import os

from common import Inconclusive, add_violations_from_bad, finish, log


def run(ctx):
    quick = ctx.quick()
    mc = ctx.tlc("Ledger", cfg="Ledger.cfg", coverage=not quick)
    gen_cfg = """SPECIFICATION Spec
CONSTANTS
  Accounts = {1, 2, 3}
  MaxAmt = 2
  Depth = %d
INVARIANT Dump
CHECK_DEADLOCK FALSE
""" % (6 if quick else 9)
    gen = ctx.tlc("Ledger", cfg_text=gen_cfg, simulate="num=%d" % (60 if quick else 400), depth=(7 if quick else 10),
                  extra=["-seed", str(ctx.seed)])
    hists = []
    for raw in ctx.tlc_lines(gen, "HIST"):
        hists.append(json.loads(raw.strip()[1:-1].replace('\\"', '"')))
    if not hists:
        raise Inconclusive("TLC generated no op sequences")
    drv = ctx.build("c06")
    shards = 8 if quick else 16
    argvs, traces = [], []
    for k in range(shards):
        sp = os.path.join(ctx.scratch, "script%d.json" % k)
        json.dump(hists[k::shards], open(sp, "w"))
        tp = os.path.join(ctx.scratch, "trace%d.ndjson" % k)
        traces.append(tp)
        argvs.append([drv, "--script", sp, "--out", tp, "--scratch", os.path.join(ctx.scratch, "st%d" % k),
                      "--random", str(25 if quick else 200), "--len", str(14 if quick else 24), "--salt", str(k)]
                     + (["--scripted"] if k in (0, 1) else [])
                     + (["--p026"] if k % 2 == 1 else []))
    outs = ctx.run_parallel(argvs)
    blocks = sum(int(o.split("blocks=")[1].split()[0]) for o in outs)
    nh = sum(int(o.split("histories=")[1].split()[0]) for o in outs)
    total, kinds, feats, samples, amounts = 0, collections.Counter(), collections.Counter(), [], collections.Counter()
    for tp in traces:
        n, bad = ctx.validate_trace("LedgerTrace", tp, timeout=2400)
        total += n
        add_violations_from_bad(ctx, bad, tp)
        with open(tp) as f:
            for line in f:
                e = json.loads(line)
                if e["event"] != "Block":
                    continue
                kinds[(e["kind"], e["ok"])] += 1
                amounts[e["amount"][:12]] += 1
                if e["burn"]:
                    feats["burn"] += 1
                if e["lockTokens"]:
                    feats["stake-locked"] += 1
                if e["kind"] == "Mature" and e["matured"]:
                    feats["refund-matured"] += 1
                if e["kind"].startswith("ConUnstake") and e["ok"]:
                    feats["contract-unstake"] += 1
                if e["kind"].startswith("ConAddStake") and e["lockTokens"] > 0:
                    feats["contract-stake-locked"] += 1
                if e["kind"] == "Mature" and e["matured"] and e.get("expectMatured"):
                    feats["payout-equals-released-stake-judged"] += 1
                if e["kind"] == "MatureRewards" and e["matured"]:
                    feats["reward-matured"] += 1
                if len(samples) < 4 and e["kind"] in ("SelfDestruct", "CallRevert", "Stake", "Mature") and e["ok"]:
                    samples.append({k: v for k, v in e.items() if k != "slots"})
    for k in ("Transfer", "Deploy", "CallForward", "CallRevert", "SelfDestruct", "CallCreate", "Stake", "Refund", "EthForward"):
        if kinds[(k, True)] == 0 or kinds[(k, False)] == 0:
            raise Inconclusive("vacuity: %s never both succeeded and failed: %s" % (k, dict(kinds)))
    for x in ("all", "over", "huge"):
        for way in ("call", "create", "callcode"):
            if not any(k.startswith("CallExplicit.%s.%s." % (x, way)) and ok for (k, ok) in kinds):
                raise Inconclusive("vacuity: no successful transaction with an inner %s naming %s of the contract's balance" % (way, x))
    if not any(k.startswith("CallExplicit.") and k.endswith(".self") and ok for (k, ok) in kinds):
        raise Inconclusive("vacuity: no contract called itself with value")
    for f in ("burn", "stake-locked", "refund-matured", "reward-matured", "contract-unstake", "contract-stake-locked",
              "payout-equals-released-stake-judged"):
        if feats[f] == 0:
            raise Inconclusive("vacuity: no block with %s" % f)
    coverage = {
        "states": mc["distinct"],
        "transitions": mc["generated"],
        "traces_validated_against_impl": nh,
        "events_validated": total,
        "real_blocks_executed": blocks,
        "outcomes": {"%s:%s" % (k, "ok" if ok else "failed"): v for (k, ok), v in sorted(kinds.items())},
        "sum_changing_blocks": dict(feats),
        "distinct_amount_strings": len(amounts),
        "tlc_generated_sequences": len(hists),
        "samples": samples,
        "action_coverage": mc["coverage"],
    }
    finish(ctx, "model_checking", coverage, [
        "the total is the sum of ALL balance slots of the native token contract's storage (iterated after every block), so value sent to any address is counted",
        "one transaction per block; the per-block delta is judged exactly (big-number arithmetic in TLA+)",
        "the reward block 36000 adds to the escrow it pays out is taken to equal the reward of the equally empty block 35999",
        "wrapped Ethereum transactions (type 188) are driven at the executor level (nonce check, eviction), their signature recovery belongs to C07; operator-node (type 7) is not driven (needs the main-node contract)",
        "dev fork schedule; the node reads its fork flags from a process-global height (0 in the harness), so every fork with activation height 0 is active; Proposal026 (fee 0.001, gas x 30) cannot be active while the dev genesis is created: half of the driver processes switch it on after the boot (--p026)",
    ])
