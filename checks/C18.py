"""C18 - decimal amount strings and 18-decimal integers convert without loss (src/utility/data_convert.go)."""
import json
import os

from common import Inconclusive, finish, log
from codec_common import iter_events, judge_traces, require, selftest_corruption, tlc_cases, write_shards


def fmt_set(xs):
    return "{" + ", ".join(str(x) for x in xs) + "}"


def gen_cfg(quick):
    if quick:
        il = [0, 1, 2, 17, 18, 19, 20, 39, 60, 77, 78]
        fl = [0, 1, 2, 9, 17, 18]
        nl = [1, 2, 17, 18, 19, 20, 36, 37, 55, 77, 78]
        decs = [0, 1, 6, 8, 9, 17, 18]
        small = (3, 3)
    else:
        # every length up to 22, every third above, and the neighbourhoods of 39/58/78 digits
        il = sorted(set(range(0, 23)) | set(range(25, 79, 3)) | {38, 39, 40, 57, 58, 59, 60, 76, 77, 78})
        fl = list(range(0, 19))
        nl = list(range(1, 79))
        decs = list(range(0, 19))
        small = (4, 3)
    return """SPECIFICATION Spec
CONSTANTS
  SmallLen = %d
  SmallScale = %d
  IntLens = %s
  FracLens = %s
  NumLens = %s
  Decs = %s
INVARIANTS Theorems Dump
CHECK_DEADLOCK FALSE
""" % (small[0], small[1], fmt_set(il), fmt_set(fl), fmt_set(nl), fmt_set(decs))


def run(ctx):
    quick = ctx.quick()
    # 1. model level: the digit-sequence reference is lossless at every scale (exhaustive over
    #    all numbers of <= SmallLen digits, compared with TLC's integer arithmetic) and on the
    #    18-decimal lattice; the same run enumerates the lattice
    gen = ctx.tlc("DecimalGen", cfg_text=gen_cfg(quick), coverage=not quick, timeout=1500)
    cases = tlc_cases(ctx, gen)
    kinds = {}
    for c in cases:
        kinds[c["op"]] = kinds.get(c["op"], 0) + 1
    log("TLC cases:", kinds)
    if kinds.get("parse", 0) < 500 or kinds.get("num", 0) < 50 or kinds.get("rescale", 0) < 200:
        raise Inconclusive("TLC generated too few cases: %s" % kinds)
    # 2. the real code on every case and on seeded random amounts / literals
    drv = ctx.build("c18")
    shards = 16 if quick else 64
    cps = write_shards(ctx, cases, shards)
    traces, argvs = [], []
    for k, cp in enumerate(cps):
        tp = os.path.join(ctx.scratch, "trace%02d.ndjson" % k)
        traces.append(tp)
        argvs.append([drv, "--cases", cp, "--out", tp, "--random", str(60 if quick else 200), "--salt", str(k),
                      # concurrency family in four shards: 8 goroutines with different token decimals
                      "--conc", str((12 if quick else 60) if k < 4 else 0),
                      # the EVM end of the value path (boots the chain) in two other shards
                      "--evm", str((6 if quick else 60) if 4 <= k < 6 else 0), "--scratch", os.path.join(ctx.scratch, "chain%02d" % k)])
    outs = ctx.run_parallel(argvs)
    nev = sum(int(o.split(" events=")[1].split()[0]) for o in outs)
    nconc = sum(int(o.split("conc_conversions=")[1].split()[0]) for o in outs)
    # 3. every event judged against the reference recomputed in TLA+
    events, tags = judge_traces(ctx, "DecimalTrace", traces, timeout=1500)

    def corrupt(e):
        if e["event"] == "Parse" and e["ok"] and e["out"]["b"] and e["lit"]["int"] and (e["lit"]["frac"] or not e["lit"]["dot"]):
            e["out"]["b"][-1] ^= 1
            return True
        return False
    hits = selftest_corruption(ctx, "DecimalTrace", traces[0], corrupt)
    log("self-test: corrupted event rejected with", sorted({h[2] for h in hits}))
    # 4. vacuity and counts
    by_event, srcs, raw_cls, evm = {}, {}, {}, {}
    distinct = set()
    id18 = frac18 = int78 = neg = tenth = 0
    samples, seen = [], set()
    for e in iter_events(traces):
        by_event[e["event"]] = by_event.get(e["event"], 0) + 1
        srcs[e["src"]] = srcs.get(e["src"], 0) + 1
        if (e["event"], e["src"]) not in seen and len(samples) < 10:
            seen.add((e["event"], e["src"]))
            samples.append(e)
        if e["event"] == "Parse":
            lit = e["lit"]
            frac18 += len(lit["frac"]) == 18
            int78 += len(lit["int"]) == 78
            neg += lit["neg"]
            # a literal whose value is not a dyadic rational (needs the rounding mode)
            if any(lit["frac"]):
                tenth += 1
                distinct.add(("p", e["s"]))
        elif e["event"] == "EvmValue":
            evm[(e["recipient"], e["p015"], e["ok"])] = evm.get((e["recipient"], e["p015"], e["ok"]), 0) + 1
            if e["n"]["b"]:
                distinct.add(("evm", e["recipient"], e["p015"], bytes(e["n"]["b"])))
        elif e["event"] == "Alias":
            pass
        elif e["event"] == "ParseRaw":
            raw_cls[e["cls"]] = raw_cls.get(e["cls"], 0) + 1
            distinct.add(("raw", e["s"]))
        elif e["event"] == "Rescale":
            id18 += e["dec"] == 18
            if e["n"]["b"]:
                distinct.add(("r", e["dir"], e["dec"], e["n"]["neg"], bytes(e["n"]["b"])))
        elif e["n"]["b"]:
            distinct.add((e["event"], e["n"]["neg"], bytes(e["n"]["b"])))
    require(len(raw_cls) >= 10 and raw_cls.get("leadzero", 0) > 100, "raw string classes missing: %s" % raw_cls, ctx=ctx)
    for rcp in ("fresh", "funded"):
        for p015 in (True, False):
            require(evm.get((rcp, p015, True), 0) > 5, "hardly any wrapped transaction was executed (%s, p015=%s): %s" % (rcp, p015, evm), ctx=ctx)
    for k in ("Parse", "ParseRaw", "Format", "RoundTrip", "Rescale", "EthValue", "EvmValue", "Alias"):
        require(by_event.get(k, 0) > 20, "event kind %s hardly occurred" % k, ctx=ctx)
    require(id18 > 20 and frac18 > 20 and int78 > 20 and neg > 20 and tenth > 100,
            "boundary classes missing (dec=18: %d, 18 fraction digits: %d, 78 integer digits: %d, negative: %d, non-dyadic: %d)"
            % (id18, frac18, int78, neg, tenth), ctx=ctx)
    require(nconc > 200000, "concurrency family hardly ran (%d conversions)" % nconc, ctx=ctx)
    require(events == nev, "events judged (%d) != events recorded (%d)" % (events, nev), ctx=ctx)
    coverage = {
        "evaluations": events,
        "distinct_nontrivial": len(distinct),
        "rule": "cases enumerated by TLC (DecimalGen): literals = integer-part length x fraction length x 6 digit patterns each "
                "(0..0, 9..9, 10..0, 49..9, 50..0, mixed) x sign x dot; amounts = length x 5 patterns x sign plus 2^255, 2^256-1, "
                "2^256; every amount x every token decimal count; plus seeded random amounts and literals. distinct_nontrivial: "
                "distinct literals with a non-zero fraction digit (values that are not exact in binary), distinct non-zero amounts "
                "per call kind, distinct (direction, decimals, amount) rescalings",
        "samples": samples,
        "exhaustive": True,
        "states": gen["distinct"],
        "transitions": gen["generated"],
        "traces_validated_against_impl": len(traces),
        "events_validated": events,
        "events_by_kind": by_event,
        "raw_string_classes": raw_cls,
        "executed_wrapped_transactions": {"%s/%s/%s" % (k[0], "p015" if k[1] else "pre015", "ok" if k[2] else "refused"): v for k, v in sorted(evm.items())},
        "concurrent_conversions": nconc,
        "events_by_source": srcs,
        "tlc_cases": kinds,
        "failed_judgements": tags,
        "action_coverage": gen["coverage"],
        "explanation": "Decimal.tla defines Format/Parse/rescaling purely on decimal digit sequences; DecimalGen proves "
                       "Parse(Format(n))=n at every scale exhaustively for small numbers (against TLC integer arithmetic) and on the "
                       "18-decimal lattice, and exports the lattice; harness/cmd/c18 runs StrToBigInt, BigIntToStr, "
                       "FormatDecimalForERC20/ForRocket and the ConvertTx value path on it; DecimalTrace converts the logged "
                       "big-endian bytes to digits (BigNat) and judges every result.",
    }
    finish(ctx, "exploration", coverage, [
        "the EVM end: wrapped Ethereum transactions (type 188, built by eth_tx.ConvertTx) are executed through core.VerifExecuteBlock (hook H4: BeforeExecute + Execute of the real executors) against a contract that stores CALLVALUE; Proposal015 is switched through LocalChainConfig.Proposal015Block; amounts are limited to 2e25 so that the funded dev account (1e27) can pay every case of a run",
        "the last step of the Ethereum value path replicates the two statements of executor.decodeContractData that touch the value (json.Unmarshal into types.ContractData, utility.StrToBigInt); the function itself is unexported",
        "exact text of BigIntToStr and exact digit shift at token decimals other than 18 are conformance judgements (exit 2 when they fail), the statement only fixes round trip, exact parsing and the identity at 18 decimals",
        "literals with an empty integer part or a trailing dot are offered but judged as conformance only",
    ])
