"""Helpers shared by the trie / account-state checks (C02, C03, C04)."""
import copy
import json
import os
import threading
from concurrent.futures import ThreadPoolExecutor

from common import Inconclusive

MAX_TLC = 3   # at most this many TLC JVMs side by side (shared machine)


def parse_hist(ctx, res, marker="HIST"):
    """JSON payloads of TLC's PrintT(<<marker, ToJson(x)>>) lines."""
    out = []
    for raw in ctx.tlc_lines(res, marker):
        s = raw.strip()[1:-1].replace('\\"', '"').replace("\\\\", "\\")
        out.append(json.loads(s))
    return out


def validate_parallel(ctx, module, traces, cfg=None, timeout=1800, jobs=None, stats=False):
    """ctx.validate_trace on several traces concurrently.  Each job works on a
    shallow copy of ctx with a private scratch sub-directory (ctx.tlc numbers its
    run directories with a counter that is not thread-safe); TLC run summaries
    are collected into ctx.tlc_runs.  Returns [(n_events, bad)] in order."""
    lock = threading.Lock()

    def one(i_path):
        i, path = i_path
        c = copy.copy(ctx)
        c.scratch = ctx.sub("val-%s-%03d" % (module, i))
        c.n_tlc = 0
        c.tlc_runs = []
        try:
            return validate_trace(c, module, path, cfg=cfg, timeout=timeout, stats=stats)
        finally:
            with lock:
                ctx.tlc_runs.extend(c.tlc_runs)

    with ThreadPoolExecutor(max_workers=jobs or MAX_TLC) as ex:
        return list(ex.map(one, list(enumerate(traces))))


def validate_trace(c, module, trace_path, cfg=None, timeout=1800, gc_threads=2, heap="3g", stats=False):
    """Like Ctx.validate_trace, but keeps each monitor JVM to a few GC threads (many monitors
    run side by side)."""
    import re
    res = c.tlc(module, cfg=cfg, files=[(trace_path, "trace.ndjson")], workers=1, timeout=timeout,
                jvm=("-XX:ParallelGCThreads=%d" % gc_threads,), heap=heap)
    got = None
    # TLC may wrap a long tuple over several lines
    m = re.search(r'<<\s*"VERDICT",\s*(\d+),\s*"(.*?)"\s*>>\s*$', res["out"], re.M | re.S)
    if m:
        s = m.group(2).replace('\\"', '"').replace("\\\\", "\\")
        got = (int(m.group(1)), json.loads(s))
    if got is None:
        print(res["out"][-3000:])
        raise Inconclusive("trace spec %s produced no VERDICT (trace not consumed to the end)" % module)
    n, bad = got
    if res["distinct"] != n + 1:
        raise Inconclusive("trace spec %s: %d states for %d events (expected a linear trace)" % (module, res["distinct"], n))
    if stats:
        m = re.search(r'<<\s*"STATS",\s*"(.*?)"\s*>>', res["out"], re.S)
        if not m:
            raise Inconclusive("trace spec %s printed no STATS" % module)
        return n, bad, json.loads(m.group(1).replace('\\"', '"'))
    return n, bad


def shard(items, n):
    return [items[k::n] for k in range(n) if items[k::n]]


def count_events(path):
    c = {}
    with open(path) as f:
        for line in f:
            k = json.loads(line)["event"]
            c[k] = c.get(k, 0) + 1
    return c


def require(cond, what):
    if not cond:
        raise Inconclusive(what)


def require_actions(res, names):
    """Vacuity: with coverage on, every named action of the base spec must have fired."""
    cov = res.get("coverage") or {}
    if not cov:
        return
    dead = [n for n in names if not cov.get(n)]
    if dead:
        raise Inconclusive("actions never taken in the exhaustive run of %s: %s" % (res["module"], ", ".join(dead)))
