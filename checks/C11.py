"""C11 - EVM execution is total and resource-bounded.

1. EvmGas.tla: an abstract machine of frames and gas (instruction cost >= 1, all-but-one-64th
   rule, depth limit, forfeiture on failure) model-checked exhaustively: gas is conserved and
   bounded, depth bounded, 2*gas+depth is a ranking function (termination).
2. harness/cmd/c11 runs arbitrary byte strings as code on the real EVM (random bytes, weighted
   opcode soup, truncated PUSH, undefined opcodes, self-recursive calls of every kind, CREATE /
   CREATE2 of arbitrary init code, every precompile, memory operands at the uint64 boundaries,
   stack loops, writes in static context), gas limits from 0 upward, three jump-table
   configurations; hook H6 records gas / stack / memory sizes of every step and frame.
3. EvmGasTrace.tla judges every recorded event: gas only decreases and stays within the frame's
   and the run's limit, stack <= 1024, depth <= 1024, memory growth is paid for, every
   non-halting instruction costs >= 1 (premise of 1, also checked on the real jump table),
   every fault is an ordinary error, no host panic, every frame that is entered exits.
"""
import json
import os
import threading
import time

from common import Inconclusive, add_violations_from_bad, finish, log


def threads(fns, limit=3):
    """Run callables concurrently, at most `limit` at a time (staggered starts); re-raise the first exception."""
    res, errs = [None] * len(fns), []
    sem = threading.Semaphore(limit)

    def wrap(i, f):
        with sem:
            try:
                res[i] = f()
            except BaseException as e:  # noqa
                errs.append(e)
    ts = []
    for i, f in enumerate(fns):
        t = threading.Thread(target=wrap, args=(i, f))
        t.start()
        ts.append(t)
        time.sleep(0.25)
    for t in ts:
        t.join()
    if errs:
        raise errs[0]
    return res


def parse_counts(outs):
    tot, hist = {}, {"KINDS": {}, "ENDS": {}, "FAULTS": {}}
    maxdepth = 0
    for o in outs:
        for line in o.splitlines():
            if line.startswith("c11:"):
                for kv in line.split()[1:]:
                    k, v = kv.split("=")
                    if k == "maxdepth":
                        maxdepth = max(maxdepth, int(v))
                    else:
                        tot[k] = tot.get(k, 0) + int(v)
            else:
                for h in hist:
                    if line.startswith(h + " "):
                        for kv in line.split()[1:]:
                            k, v = kv.rsplit(":", 1)
                            hist[h][k] = hist[h].get(k, 0) + int(v)
    return tot, hist, maxdepth


def wrap_campaign(ctx, drv, cases):
    """Run the 2^64-boundary cases in child processes under an address-space limit; a case that kills its process
    (a wrapped gas cost makes the interpreter allocate ~96 GiB) leaves its announcement without an end in the trace,
    and the driver is restarted behind it."""
    sp = os.path.join(ctx.scratch, "wrapcases.json")
    json.dump(cases, open(sp, "w"))
    tp = os.path.join(ctx.scratch, "wrap.ndjson")
    skip, deaths = 0, 0
    for _ in range(len(cases) + 2):
        p = ctx.run(["prlimit", "--as=8589934592", drv, "--config", "b", "--wrapcases", sp, "--out", tp, "--skip", str(skip),
                     "--scratch", os.path.join(ctx.scratch, "wst%d" % skip)], timeout=300, ok_codes=tuple(range(-64, 256)), quiet=True)
        last = None
        with open(tp) as f:
            for line in f:
                last = json.loads(line)
        if last is not None and last["event"] == "WrapDone":
            return tp, deaths
        if last is None or last["event"] != "WrapBegin":
            raise Inconclusive("wrap campaign: driver ended (code %s) without a pending case" % p.returncode)
        deaths += 1
        skip = last["index"] + 1
    raise Inconclusive("wrap campaign did not finish")


def run(ctx):
    quick = ctx.quick()
    mc = {}
    built = {}
    gens = {}
    jobs = [lambda: gens.setdefault("sstore", ctx.tlc("EvmGasState", cfg="EvmGasState.cfg" if quick else "EvmGasState_big.cfg", workers=2)),
            lambda: gens.setdefault("xcases", ctx.tlc("EvmGasState", cfg="EvmGasState_x.cfg", workers=2)),
            lambda: gens.setdefault("calls", ctx.tlc("EvmGasGen", cfg="EvmGasGen_calls.cfg", workers=2)),
            lambda: gens.setdefault("mem", ctx.tlc("EvmGasGen", cfg="EvmGasGen_mem.cfg", workers=2)),
            lambda: gens.setdefault("wrap", ctx.tlc("EvmGasWrap", cfg="EvmGasWrap.cfg", workers=2)),
            lambda: gens.setdefault("loop", ctx.tlc("EvmGasGen", cfg="EvmGasGen_loop.cfg", workers=2)),
            lambda: gens.setdefault("layout", ctx.tlc("EvmGasGen", cfg="EvmGasGen_layout.cfg" if quick else "EvmGasGen_layout_full.cfg", workers=2)),
            lambda: mc.setdefault("gas", ctx.tlc("EvmGas", cfg="EvmGas.cfg", workers=2, coverage=not quick)),
            lambda: built.setdefault("drv", ctx.build("c11"))]
    if not quick:
        jobs.append(lambda: mc.setdefault("gasbig", ctx.tlc("EvmGas", cfg="EvmGas_big.cfg", workers=4, coverage=True)))
    threads(jobs)
    drv = built["drv"]
    # TLC-generated inputs: sequences of two call instructions (kinds x gas-argument classes incl. 0 x value x callee
    # behaviour) and the cross product of memory operand classes for every instruction with a memory operand
    script = {"calls": [], "mem": [], "loops": [], "layouts": []}
    for raw in ctx.tlc_lines(gens["loop"], "CALLS"):
        script["loops"].append(json.loads(raw.strip()[1:-1].replace('\\"', '"')))
    for raw in ctx.tlc_lines(gens["layout"], "LAYOUT"):
        script["layouts"].append(json.loads(raw.strip()[1:-1].replace('\\"', '"')))
    for raw in ctx.tlc_lines(gens["calls"], "CALLS"):
        script["calls"].append(json.loads(raw.strip()[1:-1].replace('\\"', '"')))
    for raw in ctx.tlc_lines(gens["mem"], "MEM"):
        script["mem"].append(json.loads(raw.strip()[1:-1].replace('\\"', '"')))
    if not script["calls"] or not script["mem"] or not script["loops"] or not script["layouts"]:
        raise Inconclusive("EvmGasGen produced no inputs")
    if quick:
        # every pair with a zero gas argument, every third of the others
        zero = [c for c in script["calls"] if any(x["gas"] == "0" for x in c)]
        rest = [c for c in script["calls"] if not any(x["gas"] == "0" for x in c)]
        script["calls"] = zero + rest[ctx.seed % 3::3]
    log("EvmGasGen: %d call sequences, %d looped calls, %d memory operand cases, %d code layouts"
        % (len(script["calls"]), len(script["loops"]), len(script["mem"]), len(script["layouts"])))
    # the looped calls (value classes up to 2^256-1) also run under the x30 configuration
    sp_b = os.path.join(ctx.scratch, "script_b.json")
    json.dump({"calls": [], "mem": [], "layouts": [], "loops": script["loops"]}, open(sp_b, "w"))
    sp = os.path.join(ctx.scratch, "script.json")
    json.dump(script, open(sp, "w"))

    # extension (exact gas of the state-access instructions): the SSTORE write sequences over the value lattice and
    # the case lattices of account reads, call instructions and SELFDESTRUCT, as printed by EvmGasState
    sscript = {"sstore": [], "x": []}
    for raw in ctx.tlc_lines(gens["sstore"], "SSTORE"):
        sscript["sstore"].append(json.loads(raw.strip()[1:-1].replace('\\"', '"')))
    for raw in ctx.tlc_lines(gens["xcases"], "XCASE"):
        sscript["x"].append(json.loads(raw.strip()[1:-1].replace('\\"', '"')))
    if not sscript["sstore"] or not sscript["x"]:
        raise Inconclusive("EvmGasState produced no cases")
    ssp = os.path.join(ctx.scratch, "statescript.json")
    json.dump(sscript, open(ssp, "w"))
    state_cfgs = ["a"] if quick else ["a", "b"]

    # real runs: (config, runs, deep recursions, direct precompile calls per address)
    plan = [("a", 700, 4, 4), ("b", 300, 0, 1), ("c", 300, 0, 1)] if quick else \
           [("a", 8000, 8, 40), ("a", 8000, 4, 0), ("b", 7000, 4, 10), ("c", 7000, 4, 10)]
    argvs, traces, tables = [], [], []
    for k, (cfg, runs, deep, pre) in enumerate(plan):
        tp = os.path.join(ctx.scratch, "trace%d.ndjson" % k)
        jt = os.path.join(ctx.scratch, "jumptable%d.json" % k)
        traces.append(tp)
        tables.append(jt)
        argvs.append([drv, "--out", tp, "--scratch", os.path.join(ctx.scratch, "st%d" % k), "--runs", str(runs)] +
                     (["--script", sp] if k == 0 else (["--script", sp_b] if cfg == "b" and not any(sp_b in a for a in argvs) else [])) + [
                      "--salt", str(k), "--config", cfg, "--jumptable", jt, "--deep", str(deep),
                     "--precompiles", str(pre), "--maxsteps", "200" if quick else "300"])
    state_traces = []
    for cfg in state_cfgs:
        stp = os.path.join(ctx.scratch, "state_%s.ndjson" % cfg)
        state_traces.append(stp)
        argvs.append([drv, "--out", stp, "--scratch", os.path.join(ctx.scratch, "sts_%s" % cfg), "--config", cfg,
                      "--statescript", ssp])
    outs = ctx.run_parallel(argvs, timeout=1500)
    state_runs = sum(int(o.split("c11state: runs=")[1].split()[0]) for o in outs if "c11state: runs=" in o)
    tot, hist, maxdepth = parse_counts(outs)
    log("c11 drivers: %s maxdepth=%d" % (tot, maxdepth))
    log("c11 ends: %s" % hist["ENDS"])
    log("c11 faults: %s" % hist["FAULTS"])
    # vacuity: the situations the judgements are about must have occurred
    need_faults = ["oog", "opcode", "underflow", "overflow", "write", "gasoverflow"]
    miss = [f for f in need_faults if hist["FAULTS"].get(f, 0) == 0]
    if miss:
        raise Inconclusive("vacuity: fault classes never observed: %s" % miss)
    if maxdepth < 1025:
        raise Inconclusive("vacuity: the call depth limit was never reached (max depth %d)" % maxdepth)
    if hist["ENDS"].get("end-", 0) == 0 or tot.get("precompile_calls", 0) < 18:
        raise Inconclusive("vacuity: no successful run or precompiles not exercised")

    # 2^64-boundary cases of the magnified dynamic gas (Proposal026 configuration), child processes under an address-space limit
    wcases = [json.loads(raw.strip()[1:-1].replace('\\"', '"')) for raw in ctx.tlc_lines(gens["wrap"], "WRAP")]
    if len(wcases) < 21:
        raise Inconclusive("EvmGasWrap produced %d cases" % len(wcases))
    wtrace, wdeaths = wrap_campaign(ctx, drv, wcases)
    log("EvmGasWrap: %d boundary cases run, %d process deaths" % (len(wcases), wdeaths))
    traces.append(wtrace)
    tables.append(tables[0])
    results = threads([(lambda tp=tp, jt=jt: ctx.validate_trace("EvmGasTrace", tp, timeout=1500,
                                                                 extra_files=[(jt, "jumptable.json")]))
                       for tp, jt in zip(traces, tables)])
    total_events = 0
    for tp, (n, bad) in zip(traces, results):
        total_events += n
        add_violations_from_bad(ctx, bad, tp, reset_event="Begin")
    # the extension's traces: Inv.* restate C11's clauses, Ext.* are informational observations
    xresults = threads([(lambda tp=tp: ctx.validate_trace("EvmGasStateTrace", tp, timeout=1500)) for tp in state_traces])
    state_events, ext_counts = 0, {}
    for tp, (n, bad) in zip(state_traces, xresults):
        state_events += n
        for b in bad:
            ext_counts[b[2]] = ext_counts.get(b[2], 0) + 1
        add_violations_from_bad(ctx, bad, tp, reset_event="XBegin")
    if state_runs == 0 or state_events == 0:
        raise Inconclusive("the state-access extension recorded nothing")
    log("state-access extension: %d runs, %d events, observations %s" % (state_runs, state_events, ext_counts))
    samples = []
    with open(traces[0]) as f:
        want = ["Begin", "Enter", "Step", "Fault", "End"]
        for line in f:
            e = json.loads(line)
            if want and e["event"] == want[0]:
                samples.append(e)
                want.pop(0)
            if not want:
                break
    coverage = {
        "states": sum(r["distinct"] for r in list(mc.values()) + list(gens.values())),
        "transitions": sum(r["generated"] for r in list(mc.values()) + list(gens.values())),
        "tlc_generated_call_sequences": len(script["calls"]),
        "tlc_generated_memory_cases": len(script["mem"]),
        "tlc_generated_looped_calls": len(script["loops"]),
        "gas_boundary_cases_2_64": len(wcases),
        "gas_boundary_process_deaths": wdeaths,
        "tlc_generated_code_layouts": len(script["layouts"]),
        "extension_state_access": {
            "rule_set_active": "Istanbul-era constants (SLOAD 800, account reads 700, CALL family 700 + 9000 value + 25000 new account, "
                               "63/64 forwarding, 2300 stipend), SSTORE flat 20000 without net metering / refunds / sentry, EIP-2929 not "
                               "in the jump table, refund counter written only by SELFDESTRUCT and never redeemed; x30 under Proposal026",
            "sstore_write_sequences": len(sscript["sstore"]),
            "case_lattice_points": len(sscript["x"]),
            "configurations": state_cfgs,
            "runs_on_real_interpreter": state_runs,
            "events_recomputed": state_events,
            "observation_counts": ext_counts,
        },
        "traces_validated_against_impl": tot.get("runs", 0) + tot.get("precompile_calls", 0),
        "events_validated": total_events,
        "interpreter_steps_executed": tot.get("steps", 0),
        "interpreter_frames": tot.get("frames", 0),
        "max_depth_reached": maxdepth,
        "run_kinds": hist["KINDS"],
        "run_ends": hist["ENDS"],
        "fault_histogram": hist["FAULTS"],
        "configurations": [p[0] for p in plan],
        "action_coverage": mc["gas"]["coverage"],
        "samples": samples,
        "exhaustive": True,
        "explanation": "EvmGas.tla (frames, gas, 63/64 rule, depth limit) model-checked exhaustively for small limits "
                       "(conservation, bounds, ranking function); every recorded step / frame / run of the real EVM on "
                       "arbitrary code judged by EvmGasTrace against the bounds and against the real jump table. "
                       "At most the first 200-300 steps, 2200 frames and 1200 faults of a run are logged (all are executed).",
    }
    finish(ctx, "model_checking", coverage, [
        "three fixed jump-table configurations of the process-global common.LocalChainConfig at height 100: (a) dev with Proposal026 off (BootServices), (b) Proposal026 on (constant gas x30), (c) Proposals 014 and 022 off",
        "gas limits 0 .. 10^7 (2^44 for the runs that reach the depth limit); gas amounts are logged as base-256 digit sequences",
        "exact gas formulas are conformance judgements (Ref.*), not part of the verdict: the statement bounds gas, it does not price it; state-access opcodes are only bounded",
        "call depth is counted as in the code: the outermost frame has depth 1, CALL is refused when depth > 1024",
        "a host panic is observed by recover() in the driver around EVM.Call / Create / RunPrecompiledContract",
    ])
