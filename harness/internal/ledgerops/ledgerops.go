// Package ledgerops executes transactions of every value-moving kind (asset transfers with
// arbitrary amount strings, contract creation / calls that forward value,
// revert, self-destruct or create children, miner stake lock and refund,
// maturing refunds and block rewards) through the node's real executors, one
// per block, and records after every block ALL balance slots of the native
// token contract (so no address can be missed) for spec/LedgerTrace.tla, which
// evaluates the exact change of the total supply in big-number arithmetic.
package ledgerops

import (
	ethcrypto "com.tuntun.rangers/node/src/eth_crypto"
	"com.tuntun.rangers/node/src/middleware"
	"com.tuntun.rangers/node/src/service"
	"crypto/sha256"
	"encoding/hex"
	"encoding/json"
	"fmt"
	"math"
	"math/big"
	"sort"
	"strconv"

	"com.tuntun.rangers/node/src/common"
	"com.tuntun.rangers/node/src/middleware/types"
	"com.tuntun.rangers/node/src/storage/account"
	"com.tuntun.rangers/node/src/utility"
	"verif/harness/internal/execdrv"
	"verif/harness/internal/vutil"
)

type AbsOp struct {
	Op string `json:"op"`
	A  int    `json:"a"`
	B  int    `json:"b"`
	V  int    `json:"v"`
}

const refundGap = 36000

// universal contract runtime: word0 of the call data = target address, word1 = mode
//
//	0 forward CALLVALUE to target; 1 forward then REVERT; 2 SELFDESTRUCT(target); 3 CREATE child with CALLVALUE;
//	4 CALL target with value = word2; 5 CREATE child with value = word2; 6 CALLCODE target with value = word2;
//	7 UNSTAKE(self, word2); 8 STAKE(self, word2); 9 UNSTAKEALL(self); 10 AUTH + AUTHCALL(target, value = word2)
//
// (assembled by buildRuntime)
func BuildRuntime() []byte {
	// assembled with labels so that the jump targets are checked at start-up
	code := []byte{}
	patches := map[string][]int{}
	labels := map[string]int{}
	emit := func(b ...byte) { code = append(code, b...) }
	jumpi := func(l string) { emit(0x61, 0xff, 0xff, 0x57); patches[l] = append(patches[l], len(code)-3) }
	label := func(l string) { labels[l] = len(code); emit(0x5b) }
	emit(0x60, 0x20, 0x35) // mode
	for m, l := range []string{"", "", "sd", "cr", "cx", "crx", "ccx", "unst", "stk", "unall", "auth", "fwdrv", "fwd"} {
		if l != "" {
			emit(0x80, 0x60, byte(m), 0x14)
			jumpi(l)
		}
	}
	emit(0x60, 0x00, 0x60, 0x00, 0x60, 0x00, 0x60, 0x00, 0x34, 0x60, 0x00, 0x35, 0x5a, 0xf1, 0x50)
	emit(0x60, 0x01, 0x14)
	jumpi("rv")
	emit(0x00)
	label("rv")
	emit(0x60, 0x00, 0x60, 0x00, 0xfd)
	label("sd")
	emit(0x60, 0x00, 0x35, 0xff)
	label("cr")
	emit(0x60, 0x00, 0x60, 0x00, 0x34, 0xf0, 0x50, 0x00)
	// modes with an explicit value (word2 of the call data) instead of CALLVALUE
	label("cx") // CALL(gas, target, word2, 0, 0, 0, 0)
	emit(0x60, 0x00, 0x60, 0x00, 0x60, 0x00, 0x60, 0x00, 0x60, 0x40, 0x35, 0x60, 0x00, 0x35, 0x5a, 0xf1, 0x50, 0x00)
	label("crx") // CREATE(word2, 0, 0)
	emit(0x60, 0x00, 0x60, 0x00, 0x60, 0x40, 0x35, 0xf0, 0x50, 0x00)
	label("ccx") // CALLCODE(gas, target, word2, 0, 0, 0, 0)
	emit(0x60, 0x00, 0x60, 0x00, 0x60, 0x00, 0x60, 0x00, 0x60, 0x40, 0x35, 0x60, 0x00, 0x35, 0x5a, 0xf2, 0x50, 0x00)
	// the node's own stake opcodes, executed by a contract that is the account of a miner:
	// UNSTAKE / STAKE (address below the amount on the stack), UNSTAKEALL(address)
	label("unst")
	emit(0x30, 0x60, 0x40, 0x35, 0xef, 0x50, 0x00)
	label("stk")
	emit(0x30, 0x60, 0x40, 0x35, 0xee, 0x50, 0x00)
	label("unall")
	emit(0x30, 0xeb, 0x50, 0x00)
	// AUTH with a signature of an authority over (magic, chain id, this contract, commit) taken from
	// the call data (words 3..6 = v, r, s, commit; word 7 = authority; word 8 = its nonce), then
	// AUTHCALL(target = word0, value = word2): the value is paid by the transaction's origin
	label("auth")
	emit(0x60, 0x80, 0x60, 0x60, 0x60, 0x00, 0x37)                   // CALLDATACOPY(0, 0x60, 0x80)
	emit(0x60, 0x80, 0x60, 0x00, 0x60, 0xe0, 0x35, 0xf6, 0x50)       // AUTH(authority, 0, 128)
	emit(0x60, 0x00, 0x60, 0x00, 0x60, 0x00, 0x60, 0x00, 0x60, 0x00) // retLen retOff argsLen argsOff valueExt
	emit(0x60, 0x40, 0x35)                                           // value
	emit(0x60, 0x00, 0x35)                                           // addr
	emit(0x62, 0x00, 0xc3, 0x50)                                     // gas 50000
	emit(0x61, 0x01, 0x00, 0x35)                                     // authorized nonce = word 8
	emit(0xf7, 0x50, 0x00)
	// forward CALLVALUE to target with the rest of the call data (from word 2 on) as the inner
	// call's data, then REVERT (fwdrv) or STOP (fwd): the inner frame's effects are (not) kept
	for _, l := range []string{"fwdrv", "fwd"} {
		label(l)
		emit(0x60, 0x40, 0x36, 0x03)                   // CALLDATASIZE - 0x40
		emit(0x80, 0x60, 0x40, 0x60, 0x00, 0x37)       // DUP1; CALLDATACOPY(0, 0x40, len)
		emit(0x60, 0x00, 0x60, 0x00)                   // retLen retOff
		emit(0x82, 0x60, 0x00)                         // argsLen (DUP3) argsOff 0
		emit(0x34, 0x60, 0x00, 0x35, 0x5a, 0xf1, 0x50) // CALLVALUE target GAS CALL POP
		if l == "fwdrv" {
			emit(0x60, 0x00, 0x60, 0x00, 0xfd)
		} else {
			emit(0x00)
		}
	}
	for l, ps := range patches {
		at, ok := labels[l]
		if !ok || at > 0xffff {
			panic("ledgerops: bad label " + l)
		}
		for _, p := range ps {
			code[p], code[p+1] = byte(at>>8), byte(at)
		}
	}
	if len(code) > 0xffff {
		panic("ledgerops: runtime too long for initCode")
	}
	return code
}

func initCode(rt []byte) []byte {
	// PUSH2 len PUSH1 14 PUSH1 0 CODECOPY PUSH2 len PUSH1 0 RETURN <runtime>
	n := len(rt)
	return append([]byte{0x61, byte(n >> 8), byte(n), 0x60, 0x0e, 0x60, 0x00, 0x39, 0x61, byte(n >> 8), byte(n), 0x60, 0x00, 0xf3}, rt...)
}

func word(b []byte) []byte {
	w := make([]byte, 32)
	copy(w[32-len(b):], b)
	return w
}

var (
	Rt       []byte
	eoa      = []string{"", execdrv.Funded[0], execdrv.Funded[1], execdrv.Funded[2]}
	Amounts  = []string{"0", "0.25", "3"}
	Oddities = []string{"", "-1", "0.0000000000000000001", "1e30", "Inf", "NaN", "abc", "115792089237316195423570985008687907853269984665640564039457584007913129639936", " 1", "0x10", "1.", ".5", "1000000000", "999999999.9999"}
)

type World struct {
	St        *account.AccountDB
	height    uint64
	addr      map[int]string // abstract account -> current real address
	isCon     map[int]bool
	minerOf   map[int][]byte // source id -> miner id staked by it
	stakeOf   map[int]int
	RefundHts []uint64
	expect    map[uint64]*big.Int // refund height -> wei that left stake records for that height
	cMiner    map[int][]byte      // contract id -> miner it is the account of
	cStake    map[int]int
	allMiners [][]byte
	seq       uint64
	contract  common.Address // token contract
	n         int
}

func (w *World) Slots() [][]int {
	out := [][]int{}
	it := w.St.DataIterator(w.contract, nil)
	for it != nil && it.Next() {
		k := new(big.Int).SetBytes(it.Key)
		if k.BitLen() <= 8 { // name, symbol, decimals ...: not balances
			continue
		}
		out = append(out, execdrv.Digits(new(big.Int).SetBytes(it.Value)))
	}
	return out
}

func (w *World) escrowAt(h uint64) [][]int {
	out := [][]int{}
	ra := common.BytesToAddress(common.Sha256(utility.StrToBytes("refund" + strconv.FormatUint(h, 10))))
	it := w.St.DataIterator(ra, nil)
	for it != nil && it.Next() {
		if len(it.Value) > 0 {
			out = append(out, execdrv.Digits(new(big.Int).SetBytes(it.Value)))
		}
	}
	return out
}

func (w *World) Named() map[string]interface{} {
	m := map[string]interface{}{}
	for i := 1; i <= 3; i++ {
		m[fmt.Sprintf("a%d", i)] = execdrv.Digits(w.St.GetBalance(common.HexToAddress(w.addr[i])))
	}
	m["fee"] = execdrv.Digits(w.St.GetBalance(common.FeeAccount))
	return m
}

func contractData(value string, abi []byte, gas string) string {
	d, _ := json.Marshal(types.ContractData{GasLimit: gas, TransferValue: value, AbiData: "0x" + hex.EncodeToString(abi)})
	return string(d)
}

// step executes one abstract operation as one block and emits the event.
// Step executes one abstract operation as one block; with tr != nil the event is recorded.
// The executor's result is returned (nil when nothing was executed).
func (w *World) Step(tr *vutil.Trace, o AbsOp, amount string, gas string) *execdrv.Result {
	w.height++
	w.seq++
	salt := fmt.Sprintf("h%d-%d", w.n, w.seq)
	src := eoa[1+(o.A+2)%3]
	if !w.isCon[o.A] {
		src = w.addr[o.A]
	}
	// "=bal" / "=bal+": exactly the sender's balance / one wei more (formatted by the node's own formatter)
	if amount == "=bal" || amount == "=bal+" {
		b := new(big.Int).Set(w.St.GetBalance(common.HexToAddress(src)))
		if amount == "=bal+" {
			b.Add(b, big.NewInt(1))
		}
		amount = utility.BigIntToStr(b)
	}
	// "=max": the wallet "send max" pattern for contract-type transactions: value = balance minus
	// gasLimit*gasPrice for an explicit gas limit of 1,000,000 (gas price 1 gwei = 0.001 RPG). The
	// flat fee is charged first, so the funds check must refuse it.
	if amount == "=max" {
		b := new(big.Int).Set(w.St.GetBalance(common.HexToAddress(src)))
		b.Sub(b, new(big.Int).Mul(big.NewInt(1000000), big.NewInt(1000000000)))
		if b.Sign() < 0 {
			b.SetInt64(0)
		}
		amount = utility.BigIntToStr(b)
		gas = "1000000"
	}
	var tx *types.Transaction
	var tx2, tx3 *types.Transaction
	refundWant := -2 // tokens the Refund op asks for (-1: more than the stake, -2: not a refund)
	conStake, conOp := false, ""
	var conId []byte
	var conWei *big.Int
	lock := 0
	burn := []int{}
	kind := o.Op
	switch o.Op {
	case "Transfer":
		tgt := map[string]types.TransferData{w.addr[o.B]: {Balance: amount}}
		if o.V == 2 && o.A != o.B { // two targets, one of them the sender itself
			tgt[w.addr[o.A]] = types.TransferData{Balance: "0.5"}
		}
		if o.V == 3 || o.V == 4 { // the fee account among the targets: the flat fee has just been credited to
			// the same balance slot, before the executor's snapshot; the targets are served in sorted key
			// order, so for a target that sorts after the fee account a refused amount (V = 4: more than
			// any balance) comes after the credit to the fee account and must undo it
			tgt[common.FeeAccount.GetHexString()] = types.TransferData{Balance: "0.25"}
			if o.V == 4 {
				tgt[w.addr[o.B]] = types.TransferData{Balance: "1000000001"}
			}
		}
		d, _ := json.Marshal(tgt)
		tx = execdrv.NewTx(types.TransactionTypeOperatorEvent, src, "", "", string(d), w.seq, salt)
	case "Deploy":
		tx = execdrv.NewTx(types.TransactionTypeContract, src, "", contractData(amount, initCode(Rt), gas), "", w.seq, salt)
	case "CallExplicit":
		// the contract moves value it names itself (not CALLVALUE): what it holds after the call's own
		// value arrived (x = 0), one wei more (1), or 2^255 (2); by CALL, CREATE or CALLCODE (way);
		// to itself or to the usual target. V = amount index + 3*(x + 3*(way + 3*target)), as the
		// model's CallExplicit action writes it. Only x = 0 can move anything.
		callee := w.addr[o.B]
		target := w.addr[1+(o.B)%3]
		x, way, tsel := (o.V/3)%3, (o.V/9)%3, (o.V/27)%2
		if tsel == 0 {
			target = callee
		}
		have := new(big.Int).Set(w.St.GetBalance(common.HexToAddress(callee)))
		if v, _ := utility.StrToBigInt(amount); v != nil && v.Sign() > 0 {
			have.Add(have, v)
		}
		switch x {
		case 1:
			have.Add(have, big.NewInt(1))
		case 2:
			have.Lsh(big.NewInt(1), 255)
		}
		if have.BitLen() > 256 {
			have.Sub(new(big.Int).Lsh(big.NewInt(1), 256), big.NewInt(1))
		}
		abi := append(append(word(common.FromHex(target)), word([]byte{byte(4 + way)})...), word(have.Bytes())...)
		tx = execdrv.NewTx(types.TransactionTypeContract, src, callee, contractData(amount, abi, gas), "", w.seq, salt)
		kind = fmt.Sprintf("CallExplicit.%s.%s.%s", []string{"all", "over", "huge"}[x], []string{"call", "create", "callcode"}[way],
			[]string{"self", "other"}[tsel])
	case "CallForward", "CallRevert", "SelfDestruct", "SelfDestruct2", "CallCreate", "EthForward", "EthStale":
		if !w.isCon[o.B] && o.Op != "SelfDestruct" {
			// no contract under that id yet: call goes to a plain account (pure value transfer through the EVM)
		}
		callee := w.addr[o.B]
		target := w.addr[1+(o.B)%3]
		mode := map[string]int{"CallForward": 0, "CallRevert": 1, "SelfDestruct": 2, "CallCreate": 3, "EthForward": 0, "EthStale": 0, "SelfDestruct2": 2}[o.Op]
		if o.Op == "SelfDestruct" {
			if o.V == 1 {
				target = callee // names itself: the balance is burnt
				if w.isCon[o.B] {
					b := new(big.Int).Set(w.St.GetBalance(common.HexToAddress(callee)))
					v, _ := utility.StrToBigInt(amount)
					if v != nil && v.Sign() > 0 {
						b.Add(b, v)
					}
					burn = execdrv.Digits(b)
				}
			}
		}
		abi := append(word(common.FromHex(target)), word([]byte{byte(mode)})...)
		tx = execdrv.NewTx(types.TransactionTypeContract, src, callee, contractData(amount, abi, gas), "", w.seq, salt)
		if o.Op == "SelfDestruct2" {
			// a second transaction of the same block calls the (already self-destructed, still
			// callable until the end of the block) contract again with value and self-destructs it
			// once more: the value must reach the beneficiary exactly once
			w.seq++
			tx2 = execdrv.NewTx(types.TransactionTypeContract, src, callee, contractData("0.25", abi, gas), "", w.seq, salt+"b")
		}
		if o.Op == "EthForward" || o.Op == "EthStale" {
			// a wrapped Ethereum transaction (type 188) is nonce-checked: EthStale carries a nonce
			// ahead of the state nonce and must be evicted without any effect, not even the fee
			tx.Type = types.TransactionTypeETHTX
			tx.Nonce = w.St.GetNonce(common.HexToAddress(src))
			if o.Op == "EthStale" {
				tx.Nonce += 2
			}
			tx.Hash = tx.GenHash()
		}
	case "SelfDestructFunded":
		// a contract self-destructs (beneficiary: another account) and, later in the SAME block, its
		// address is credited by a plain transfer (no code runs): the credit sits in the token
		// contract's storage while the account object is deleted at the end of the block
		callee := w.addr[o.B]
		target := w.addr[1+(o.B)%3]
		abi := append(word(common.FromHex(target)), word([]byte{2})...)
		tx = execdrv.NewTx(types.TransactionTypeContract, src, callee, contractData(amount, abi, gas), "", w.seq, salt)
		w.seq++
		fund, _ := json.Marshal(map[string]types.TransferData{callee: {Balance: "0.75"}})
		tx2 = execdrv.NewTx(types.TransactionTypeOperatorEvent, eoa[1+(o.A)%3], "", "", string(fund), w.seq, salt+"b")
	case "PoorFee":
		// a fresh account is given very little (around the two fee tiers of the node: 0.0001 and,
		// from Proposal026 on, 0.001) and then sends a transaction itself: the fee account may only
		// gain what the sender loses
		p := fmt.Sprintf("0x%040x", 0x7700000+w.n*1000+int(w.seq))
		give := []string{"0.0001", "0.0005", "0.000999999999999999", "0.001", "0.0011", "0.00009"}[o.V%6]
		fund, _ := json.Marshal(map[string]types.TransferData{p: {Balance: give}})
		tx = execdrv.NewTx(types.TransactionTypeOperatorEvent, src, "", "", string(fund), w.seq, salt)
		w.seq++
		out, _ := json.Marshal(map[string]types.TransferData{w.addr[o.B]: {Balance: "0"}})
		tx2 = execdrv.NewTx(types.TransactionTypeOperatorEvent, p, "", "", string(out), w.seq, salt+"b")
		w.seq++
		cd, _ := json.Marshal(types.ContractData{GasLimit: "100000", TransferValue: "0", AbiData: "0x"})
		tx3 = execdrv.NewTx(types.TransactionTypeContract, p, w.addr[o.B], string(cd), "", w.seq, salt+"c")
		kind = fmt.Sprintf("PoorFee.%d", o.V%6)
	case "ResuicideRevert":
		// in ONE block: contract B self-destructs (beneficiary: another account), its address is funded
		// again by a plain transfer, then contract A calls it with value so that it self-destructs a
		// second time - and A reverts. The reverted frame must give everything back.
		callee := w.addr[o.B]
		outer := w.addr[o.A]
		target := w.addr[1+(o.B)%3]
		sd := append(word(common.FromHex(target)), word([]byte{2})...)
		tx = execdrv.NewTx(types.TransactionTypeContract, src, callee, contractData("0.25", sd, gas), "", w.seq, salt)
		w.seq++
		fund, _ := json.Marshal(map[string]types.TransferData{callee: {Balance: "0.75"}})
		tx2 = execdrv.NewTx(types.TransactionTypeOperatorEvent, eoa[1+(o.A)%3], "", "", string(fund), w.seq, salt+"b")
		w.seq++
		mode := byte(11 + o.V%2) // 11: the outer frame reverts, 12: it does not
		abi := append(append(word(common.FromHex(callee)), word([]byte{mode})...), sd...)
		tx3 = execdrv.NewTx(types.TransactionTypeContract, src, outer, contractData(amount, abi, gas), "", w.seq, salt+"c")
		kind = fmt.Sprintf("ResuicideRevert.%d", o.V%2)
	case "StaleGas":
		// three transactions in one block: fund a fresh account P with a little more than two flat
		// fees; a contract creation that burns 30M gas; a contract call from P whose gas limit is
		// below the intrinsic gas, so it fails before the EVM runs. The executor's per-block context
		// still holds the gas used by the previous transaction when the failed one is charged: P
		// can only pay what it has, the fee account must not receive more than P loses.
		p := fmt.Sprintf("0x%040x", 0x9900000+w.n*1000+int(w.seq))
		fund, _ := json.Marshal(map[string]types.TransferData{p: {Balance: "0.0102"}})
		tx = execdrv.NewTx(types.TransactionTypeOperatorEvent, src, "", "", string(fund), w.seq, salt)
		w.seq++
		burnData, _ := json.Marshal(types.ContractData{GasLimit: "30000000", TransferValue: "0", AbiData: "0x5b600056"})
		tx2 = execdrv.NewTx(types.TransactionTypeContract, src, "", string(burnData), "", w.seq, salt+"b")
		w.seq++
		poorData, _ := json.Marshal(types.ContractData{GasLimit: "100", TransferValue: "0", AbiData: "0x"})
		tx3 = execdrv.NewTx(types.TransactionTypeContract, p, w.addr[o.B], string(poorData), "", w.seq, salt+"c")
	case "Stake":
		id := sha256.Sum256([]byte(salt))
		typ, stake := 0, 400
		if o.V >= 2 {
			typ, stake = 1, 2000
		}
		if w.seq%2 == 0 { // above the minimum: a part can be refunded without aborting the miner
			stake += stake / 4
		}
		m := types.Miner{Id: id[:], PublicKey: make([]byte, 128), VrfPublicKey: make([]byte, 32), Type: byte(typ), Stake: uint64(stake),
			Account: common.FromHex(src)}
		m.PublicKey[0], m.VrfPublicKey[0] = 1, 1
		d, _ := json.Marshal(m)
		tx = execdrv.NewTx(types.TransactionTypeMinerApply, src, "", string(d), "", w.seq, salt)
		lock = stake
		w.minerOf[o.A] = id[:]
		w.stakeOf[o.A] = stake
		w.allMiners = append(w.allMiners, id[:])
	case "Refund":
		id, ok := w.minerOf[o.A]
		if !ok {
			id = make([]byte, 32)
		}
		// everything (the MaxUint64 sentinel), a part that keeps the miner above its minimum, or a
		// part that leaves less than the minimum (the miner is aborted, the rest stays locked and
		// can be refunded later)
		amt := "18446744073709551615"
		want := w.stakeOf[o.A]
		switch o.V % 3 {
		case 1:
			amt, want = "50", 50
		case 2:
			amt, want = "200", 200
		}
		if want > w.stakeOf[o.A] {
			want = -1 // more than the stake: must be refused
		}
		refundWant = want
		d, _ := json.Marshal(map[string]string{"Amount": amt, "MinerId": common.ToHex(id)})
		tx = execdrv.NewTx(types.TransactionTypeMinerRefund, src, "", string(d), "", w.seq, salt)
	case "AuthCall":
		// an authority (a key of the harness) authorises contract B; B then makes a call in the
		// authority's name that carries value: V%3 = what the authority holds (nothing / less than the
		// value / more), the value is "amount". In the same block, before it, the authority is funded
		// accordingly. Whoever pays: nothing is created.
		callee := w.addr[o.B]
		target := w.addr[1+(o.B)%3]
		val, _ := utility.StrToBigInt("0.75")
		if (o.V/3)%2 == 1 {
			// nearly everything the origin will have left after the flat fee: what remains does not
			// cover the gas fee that is charged after the execution
			val = new(big.Int).Set(w.St.GetBalance(common.HexToAddress(src)))
			keep, _ := utility.StrToBigInt("0.00012")
			val.Sub(val, keep)
			if val.Sign() < 0 {
				val.SetInt64(0)
			}
		}
		fundAmt := []string{"", "0.25", "3"}[o.V%3]
		auth := AuthorityAddr()
		if fundAmt != "" {
			fund, _ := json.Marshal(map[string]types.TransferData{auth.GetHexString(): {Balance: fundAmt}})
			tx = execdrv.NewTx(types.TransactionTypeOperatorEvent, eoa[1+(o.A)%3], "", "", string(fund), w.seq, salt+"f")
			w.seq++
		}
		commit := ethcrypto.Keccak256([]byte("verif-ledgerops-commit" + salt))
		msg := make([]byte, 97)
		msg[0] = 0x03
		chain := common.GetChainId(w.height).Bytes()
		copy(msg[33-len(chain):33], chain)
		copy(msg[33+12:65], common.FromHex(callee))
		copy(msg[65:], commit)
		sig, err := ethcrypto.Sign(ethcrypto.Keccak256(msg), authorityKey)
		if err != nil {
			vutil.Fatalf("sign: %v", err)
		}
		abi := append(word(common.FromHex(target)), word([]byte{10})...)
		abi = append(abi, word(val.Bytes())...)
		abi = append(abi, word([]byte{sig[64]})...)
		abi = append(abi, sig[0:32]...)
		abi = append(abi, sig[32:64]...)
		abi = append(abi, commit...)
		abi = append(abi, word(auth.Bytes())...)
		abi = append(abi, word(new(big.Int).SetUint64(w.St.GetNonce(auth)).Bytes())...)
		call := execdrv.NewTx(types.TransactionTypeContract, src, callee, contractData(amount, abi, gas), "", w.seq, salt)
		if tx == nil {
			tx = call
		} else {
			tx2 = call
		}
		kind = fmt.Sprintf("AuthCall.%d.%s", o.V%3, []string{"part", "nearly-all"}[(o.V/3)%2])
	case "ConStake":
		// a miner whose account is a contract (the apply names it explicitly): only the contract's
		// code can add to or take from that stake, through the node's STAKE / UNSTAKE opcodes
		id := sha256.Sum256([]byte("c" + salt))
		stake := 550
		m := types.Miner{Id: id[:], PublicKey: make([]byte, 128), VrfPublicKey: make([]byte, 32), Type: 0, Stake: uint64(stake),
			Account: common.FromHex(w.addr[o.B])}
		m.PublicKey[0], m.VrfPublicKey[0] = 1, 1
		d, _ := json.Marshal(m)
		tx = execdrv.NewTx(types.TransactionTypeMinerApply, src, "", string(d), "", w.seq, salt)
		lock = stake
		conStake = true
		conId = id[:]
		w.allMiners = append(w.allMiners, id[:])
	case "ConUnstake", "ConAddStake", "ConUnstakeAll":
		// V picks the amount in wei: half a token, one token, one and a half, 100 tokens, the whole stake
		callee := w.addr[o.B]
		have := w.cStake[o.B]
		wei := new(big.Int)
		switch o.V % 7 {
		case 5: // the "everything" sentinel of the refund interface, as whole tokens in wei
			wei.Mul(new(big.Int).SetUint64(math.MaxUint64), new(big.Int).Exp(big.NewInt(10), big.NewInt(18), nil))
		case 6: // the whole stake and a fraction
			wei.Mul(big.NewInt(int64(have)), new(big.Int).Exp(big.NewInt(10), big.NewInt(18), nil))
			wei.Add(wei, big.NewInt(999999999999999999))
		case 0:
			wei.SetString("500000000000000000", 10)
		case 1:
			wei.SetString("1000000000000000000", 10)
		case 2:
			wei.SetString("1500000000000000000", 10)
		case 3:
			wei.SetString("100000000000000000000", 10)
		case 4:
			wei.Mul(big.NewInt(int64(have)), new(big.Int).Exp(big.NewInt(10), big.NewInt(18), nil))
		}
		mode := map[string]byte{"ConUnstake": 7, "ConAddStake": 8, "ConUnstakeAll": 9}[o.Op]
		abi := append(append(word(common.FromHex(callee)), word([]byte{mode})...), word(wei.Bytes())...)
		tx = execdrv.NewTx(types.TransactionTypeContract, src, callee, contractData(amount, abi, gas), "", w.seq, salt)
		conOp, conWei = o.Op, wei
		kind = fmt.Sprintf("%s.%d", o.Op, o.V%7)
	case "Mature":
		// handled by the caller (block at a scheduled height)
	}
	matured := [][]int{}
	expectMatured := []int{}
	h := w.height
	if o.Op == "Mature" {
		if len(w.RefundHts) == 0 {
			w.height--
			return nil
		}
		h = w.RefundHts[0]
		w.RefundHts = w.RefundHts[1:]
		matured = w.escrowAt(h)
		if e := w.expect[h]; e != nil {
			expectMatured = execdrv.Digits(e)
		}
	}
	extraPlus, extraMinus := [][]int{}, [][]int{}
	if o.Op == "MatureRewards" {
		// Block 36000 credits the reward escrow of height 36000, which by then also holds the
		// reward of block 36000 itself (scheduled before the escrow is paid out). That last reward
		// is not observable before the block; it is taken to equal the reward the (equally empty)
		// block 35999 adds, measured as the growth of the escrow across that block.
		extraMinus = w.escrowAt(refundGap)
		execdrv.Execute(w.St, refundGap-1, nil)
		extraPlus = w.escrowAt(refundGap)
		h = refundGap
		matured = w.escrowAt(h)
	}
	var list []*types.Transaction
	if tx != nil {
		list = []*types.Transaction{tx}
		if tx2 != nil {
			list = append(list, tx2)
		}
		if tx3 != nil {
			list = append(list, tx3)
		}
	}
	stakeBefore := w.totalStake()
	res := execdrv.Execute(w.St, h, list)
	ok := tx == nil || res.Ok(tx.Hash)
	// what the registry records is what is locked: tokens that entered stake records in this block
	// must have left liquid balances, tokens that left them must be paid out - once - at the
	// refund height
	stakeAfter := w.totalStake()
	lock = 0
	if stakeAfter > stakeBefore {
		lock = int(stakeAfter - stakeBefore)
	} else if stakeAfter < stakeBefore {
		rh := h + refundGap
		if w.expect[rh] == nil {
			w.expect[rh] = new(big.Int)
			w.RefundHts = append(w.RefundHts, rh)
			sort.Slice(w.RefundHts, func(a, b int) bool { return w.RefundHts[a] < w.RefundHts[b] })
		}
		w.expect[rh].Add(w.expect[rh], new(big.Int).Mul(new(big.Int).SetUint64(stakeBefore-stakeAfter), new(big.Int).Exp(big.NewInt(10), big.NewInt(18), nil)))
	}
	_, _ = refundWant, conWei
	if (conOp != "" || o.Op == "Refund") && w.expect[h+refundGap] == nil {
		// whether or not a stake record changed: whatever is paid out at the refund height must be
		// what left the stake records (possibly nothing)
		rh := h + refundGap
		w.expect[rh] = new(big.Int)
		w.RefundHts = append(w.RefundHts, rh)
		sort.Slice(w.RefundHts, func(a, b int) bool { return w.RefundHts[a] < w.RefundHts[b] })
	}
	if conStake && ok {
		w.cMiner[o.B] = conId
	}
	for b, id := range w.cMiner {
		w.cStake[b] = int(w.registered(id))
	}
	for a, id := range w.minerOf {
		w.stakeOf[a] = int(w.registered(id))
		if w.stakeOf[a] == 0 {
			delete(w.minerOf, a)
		}
	}
	if !ok {
		burn = []int{}
		if o.Op == "Stake" {
			delete(w.minerOf, o.A)
		}
	}
	if ok && o.Op == "Deploy" && len(res.Receipts) == 1 {
		w.addr[o.B] = res.Receipts[0].ContractAddress.GetHexString()
		w.isCon[o.B] = true
	}
	// SelfDestruct2: the second transaction of the block destroys the contract on its own when the
	// first one was refused (e.g. for an ill-formed amount)
	ok2 := tx2 != nil && res.Ok(tx2.Hash)
	if ((ok && (o.Op == "SelfDestruct" || o.Op == "SelfDestruct2" || o.Op == "SelfDestructFunded" || o.Op == "ResuicideRevert")) || (ok2 && o.Op == "SelfDestruct2")) && w.isCon[o.B] {
		w.isCon[o.B] = false
		w.addr[o.B] = eoa[o.B]
	}
	// the next block runs on a fresh AccountDB opened at this block's root, as in the node (where a
	// block is executed on the state of its parent): account objects deleted at the end of a block
	// must not linger in the object cache of the following ones
	if root, err := w.St.Commit(true); err == nil {
		if st, err := middleware.AccountDBManagerInstance.GetAccountDBByHash(root); err == nil {
			w.St = st
		} else {
			vutil.Fatalf("reopen state at %s: %v", root.Hex(), err)
		}
	} else {
		vutil.Fatalf("commit state: %v", err)
	}
	msg := ""
	if len(res.Receipts) == 1 {
		msg = res.Receipts[0].Msg
		if len(msg) > 80 {
			msg = msg[:80]
		}
	}
	if tr == nil {
		return res
	}
	tr.Emit(map[string]interface{}{"event": "Block", "kind": kind, "ok": ok, "amount": amount, "height": int(h % 1000000), "lockTokens": lock,
		"burn": burn, "matured": matured, "expectMatured": expectMatured, "extraPlus": extraPlus, "extraMinus": extraMinus, "slots": w.Slots(), "named": w.Named(), "msg": msg})
	return res
}

// registered: the stake the registry records for a miner this world created (0 when it is gone)
func (w *World) registered(id []byte) uint64 {
	if m := service.MinerManagerImpl.GetMiner(id, w.St); m != nil {
		return m.Stake
	}
	return 0
}

// totalStake: sum of the registered stakes of every miner this world ever created
func (w *World) totalStake() uint64 {
	t := uint64(0)
	for _, id := range w.allMiners {
		t += w.registered(id)
	}
	return t
}

// the authority of the AUTH / AUTHCALL histories: a fixed key
var authorityKey = ethcrypto.ToECDSAUnsafe(ethcrypto.Keccak256([]byte("verif-ledgerops-authority")))

func AuthorityAddr() common.Address { return ethcrypto.PubkeyToAddress(authorityKey.PublicKey) }

func NewWorld(n int) *World {
	w := &World{St: execdrv.FreshState(), addr: map[int]string{}, isCon: map[int]bool{}, minerOf: map[int][]byte{}, stakeOf: map[int]int{}, n: n,
		expect: map[uint64]*big.Int{}, cMiner: map[int][]byte{}, cStake: map[int]int{}}
	for i := 1; i <= 3; i++ {
		w.addr[i] = eoa[i]
	}
	_, w.contract, _, _ = w.St.GetERC20Binding(common.BLANCE_NAME)
	return w
}
