// Package trieutil holds the independent primitives of the trie/state checks
// (C02, C03, C04): a minimal RLP encoder/splitter, keccak-256 from
// golang.org/x/crypto, hex-prefix coding, a decoder of stored trie nodes and a
// hasher of node structures.  Nothing here imports the repository's rlp, sha3
// or trie packages: these functions are the yardstick the real code is measured
// with, and SelfTest checks them against published Ethereum vectors.
package trieutil

import (
	"encoding/hex"
	"errors"
	"fmt"

	"golang.org/x/crypto/sha3"
)

// Keccak is keccak-256 (the pre-standard padding Ethereum uses).
func Keccak(b []byte) []byte {
	h := sha3.NewLegacyKeccak256()
	h.Write(b)
	return h.Sum(nil)
}

func Hex(b []byte) string { return hex.EncodeToString(b) }

func beLen(n int) []byte {
	var out []byte
	for n > 0 {
		out = append([]byte{byte(n & 0xff)}, out...)
		n >>= 8
	}
	return out
}

// EncStr is the RLP encoding of a byte string.
func EncStr(b []byte) []byte {
	if len(b) == 1 && b[0] < 0x80 {
		return []byte{b[0]}
	}
	if len(b) < 56 {
		return append([]byte{0x80 + byte(len(b))}, b...)
	}
	l := beLen(len(b))
	out := append([]byte{0xb7 + byte(len(l))}, l...)
	return append(out, b...)
}

// EncList is the RLP encoding of a list whose items are already encoded.
func EncList(items ...[]byte) []byte {
	var payload []byte
	for _, it := range items {
		payload = append(payload, it...)
	}
	if len(payload) < 56 {
		return append([]byte{0xc0 + byte(len(payload))}, payload...)
	}
	l := beLen(len(payload))
	out := append([]byte{0xf7 + byte(len(l))}, l...)
	return append(out, payload...)
}

// EncUint is the RLP encoding of an unsigned integer.
func EncUint(u uint64) []byte {
	if u == 0 {
		return []byte{0x80}
	}
	return EncStr(beLen(int(u)))
}

const (
	KindStr  = 0
	KindList = 1
)

var ErrRlp = errors.New("malformed rlp")

// Split splits the first RLP item off b: its kind, its content, and the rest.
// Non-canonical encodings are rejected.
func Split(b []byte) (kind int, content, rest []byte, err error) {
	if len(b) == 0 {
		return 0, nil, nil, ErrRlp
	}
	p := b[0]
	switch {
	case p < 0x80:
		return KindStr, b[:1], b[1:], nil
	case p < 0xb8:
		n := int(p - 0x80)
		if len(b) < 1+n {
			return 0, nil, nil, ErrRlp
		}
		if n == 1 && b[1] < 0x80 {
			return 0, nil, nil, ErrRlp
		}
		return KindStr, b[1 : 1+n], b[1+n:], nil
	case p < 0xc0:
		return splitLong(b, int(p-0xb7), KindStr)
	case p < 0xf8:
		n := int(p - 0xc0)
		if len(b) < 1+n {
			return 0, nil, nil, ErrRlp
		}
		return KindList, b[1 : 1+n], b[1+n:], nil
	default:
		return splitLong(b, int(p-0xf7), KindList)
	}
}

func splitLong(b []byte, ll int, kind int) (int, []byte, []byte, error) {
	if len(b) < 1+ll || ll > 4 || b[1] == 0 {
		return 0, nil, nil, ErrRlp
	}
	n := 0
	for _, c := range b[1 : 1+ll] {
		n = n<<8 | int(c)
	}
	if n < 56 || len(b) < 1+ll+n {
		return 0, nil, nil, ErrRlp
	}
	return kind, b[1+ll : 1+ll+n], b[1+ll+n:], nil
}

// Items splits the payload of a list into its raw (still encoded) items.
func Items(payload []byte) ([][]byte, error) {
	var out [][]byte
	for len(payload) > 0 {
		_, _, rest, err := Split(payload)
		if err != nil {
			return nil, err
		}
		out = append(out, payload[:len(payload)-len(rest)])
		payload = rest
	}
	return out, nil
}

// DecodeList decodes b as exactly one list and returns its raw items.
func DecodeList(b []byte) ([][]byte, error) {
	kind, content, rest, err := Split(b)
	if err != nil {
		return nil, err
	}
	if kind != KindList || len(rest) != 0 {
		return nil, fmt.Errorf("not a single list")
	}
	return Items(content)
}

// DecodeStr decodes one raw item as a string.
func DecodeStr(item []byte) ([]byte, error) {
	kind, content, rest, err := Split(item)
	if err != nil {
		return nil, err
	}
	if kind != KindStr || len(rest) != 0 {
		return nil, fmt.Errorf("not a single string")
	}
	return content, nil
}
