package trieutil

import (
	"bytes"
	"fmt"
)

// Node is a trie node as the specification spec/Mpt.tla sees it.
type Node struct {
	Kind  byte      // 'S' short, 'F' full, 'V' value; a nil *Node is the empty node
	Key   []byte    // 'S': nibbles, the last one 16 for a leaf
	Child *Node     // 'S'
	Ch    [17]*Node // 'F'
	Val   []byte    // 'V'
	// Filled in by the decoder / hasher:
	Hashed bool   // stored under its own hash (not embedded in the parent)
	Hash   []byte // that hash
}

const Term = 16

func KeyToHex(key []byte) []byte {
	out := make([]byte, 0, 2*len(key)+1)
	for _, b := range key {
		out = append(out, b>>4, b&15)
	}
	return append(out, Term)
}

func HasTerm(hexkey []byte) bool { return len(hexkey) > 0 && hexkey[len(hexkey)-1] == Term }

// HexToCompact is the hex-prefix encoding of the Yellow Paper (appendix C).
func HexToCompact(hexkey []byte) []byte {
	t := byte(0)
	if HasTerm(hexkey) {
		t = 2
		hexkey = hexkey[:len(hexkey)-1]
	}
	var out []byte
	if len(hexkey)%2 == 1 {
		out = append(out, (t+1)<<4|hexkey[0])
		hexkey = hexkey[1:]
	} else {
		out = append(out, t<<4)
	}
	for i := 0; i < len(hexkey); i += 2 {
		out = append(out, hexkey[i]<<4|hexkey[i+1])
	}
	return out
}

func CompactToHex(c []byte) ([]byte, error) {
	if len(c) == 0 {
		return nil, fmt.Errorf("empty compact key")
	}
	flag := c[0] >> 4
	if flag > 3 {
		return nil, fmt.Errorf("bad hex-prefix flag %d", flag)
	}
	var out []byte
	if flag&1 == 1 {
		out = append(out, c[0]&15)
	} else if c[0]&15 != 0 {
		return nil, fmt.Errorf("non-zero padding nibble")
	}
	for _, b := range c[1:] {
		out = append(out, b>>4, b&15)
	}
	if flag&2 == 2 {
		out = append(out, Term)
	}
	return out, nil
}

// Resolver returns the stored blob of a hash.
type Resolver func(hash []byte) ([]byte, bool)

// DecodeStored decodes the node stored under hash and, recursively, everything
// it references, checking on the way that every blob hashes to its key and
// that embedded nodes are shorter than 32 bytes and referenced ones are not.
func DecodeStored(hash []byte, get Resolver) (*Node, error) {
	blob, ok := get(hash)
	if !ok {
		return nil, fmt.Errorf("missing node %x", hash)
	}
	if !bytes.Equal(Keccak(blob), hash) {
		return nil, fmt.Errorf("blob stored under %x hashes to %x", hash, Keccak(blob))
	}
	n, err := decodeNode(blob, get)
	if err != nil {
		return nil, err
	}
	n.Hashed, n.Hash = true, append([]byte{}, hash...)
	return n, nil
}

func decodeNode(blob []byte, get Resolver) (*Node, error) {
	items, err := DecodeList(blob)
	if err != nil {
		return nil, fmt.Errorf("node %x: %v", blob, err)
	}
	switch len(items) {
	case 2:
		kb, err := DecodeStr(items[0])
		if err != nil {
			return nil, err
		}
		key, err := CompactToHex(kb)
		if err != nil {
			return nil, err
		}
		n := &Node{Kind: 'S', Key: key}
		if HasTerm(key) {
			v, err := DecodeStr(items[1])
			if err != nil {
				return nil, fmt.Errorf("leaf value: %v", err)
			}
			n.Child = &Node{Kind: 'V', Val: v}
			return n, nil
		}
		c, err := decodeRef(items[1], get)
		if err != nil {
			return nil, err
		}
		if c == nil {
			return nil, fmt.Errorf("extension node without child")
		}
		n.Child = c
		return n, nil
	case 17:
		n := &Node{Kind: 'F'}
		for i := 0; i < 16; i++ {
			c, err := decodeRef(items[i], get)
			if err != nil {
				return nil, err
			}
			n.Ch[i] = c
		}
		v, err := DecodeStr(items[16])
		if err != nil {
			return nil, fmt.Errorf("branch value: %v", err)
		}
		if len(v) > 0 {
			n.Ch[16] = &Node{Kind: 'V', Val: v}
		}
		return n, nil
	}
	return nil, fmt.Errorf("node with %d items", len(items))
}

func decodeRef(item []byte, get Resolver) (*Node, error) {
	kind, content, _, err := Split(item)
	if err != nil {
		return nil, err
	}
	if kind == KindList {
		if len(item) >= 32 {
			return nil, fmt.Errorf("embedded node of %d bytes", len(item))
		}
		return decodeNode(item, get)
	}
	switch len(content) {
	case 0:
		return nil, nil
	case 32:
		n, err := DecodeStored(content, get)
		if err != nil {
			return nil, err
		}
		if blob, _ := get(content); len(blob) < 32 {
			return nil, fmt.Errorf("node of %d bytes stored by reference", len(blob))
		}
		return n, nil
	}
	return nil, fmt.Errorf("reference of %d bytes", len(content))
}

// Encode is the RLP encoding of a node with its children embedded or hashed as
// the Yellow Paper prescribes (n(I,i) of appendix D): a child whose encoding
// is shorter than 32 bytes is included as is, any other by its keccak.
func Encode(n *Node) []byte {
	switch n.Kind {
	case 'S':
		if n.Child.Kind == 'V' {
			return EncList(EncStr(HexToCompact(n.Key)), EncStr(n.Child.Val))
		}
		return EncList(EncStr(HexToCompact(n.Key)), ref(n.Child))
	case 'F':
		items := make([][]byte, 17)
		for i := 0; i < 16; i++ {
			if n.Ch[i] == nil {
				items[i] = EncStr(nil)
			} else {
				items[i] = ref(n.Ch[i])
			}
		}
		if n.Ch[16] == nil {
			items[16] = EncStr(nil)
		} else {
			items[16] = EncStr(n.Ch[16].Val)
		}
		return EncList(items...)
	}
	panic("Encode: not a short or full node")
}

func ref(c *Node) []byte {
	enc := Encode(c)
	if len(enc) < 32 {
		return enc
	}
	return EncStr(Keccak(enc))
}

var EmptyRoot = Keccak(EncStr(nil))

// Root is the Merkle-Patricia root of a node structure (nil = empty trie).
func Root(n *Node) []byte {
	if n == nil {
		return EmptyRoot
	}
	if n.Kind == 'V' {
		panic("Root of a bare value")
	}
	return Keccak(Encode(n))
}

// SelfTest checks the primitives against published Ethereum trie vectors.
func SelfTest() error {
	if got := Hex(EmptyRoot); got != "56e81f171bcc55a6ff8345e692c0f86e5b48e01b996cadc001622fb5e363b421" {
		return fmt.Errorf("empty root %s", got)
	}
	if got := Hex(Keccak(nil)); got != "c5d2460186f7233c927e7db2dcc703c0e500b653ca82273b7bfad8045d85a470" {
		return fmt.Errorf("keccak('') %s", got)
	}
	leaf := func(hexkey []byte, v string) *Node {
		return &Node{Kind: 'S', Key: hexkey, Child: &Node{Kind: 'V', Val: []byte(v)}}
	}
	// {doe: reindeer, dog: puppy, dogglesworth: cat}
	inner := &Node{Kind: 'F'}
	inner.Ch[6] = leaf(KeyToHex([]byte("glesworth"))[1:], "cat")
	inner.Ch[16] = &Node{Kind: 'V', Val: []byte("puppy")}
	br := &Node{Kind: 'F'}
	br.Ch[5] = leaf([]byte{Term}, "reindeer")
	br.Ch[7] = inner
	root := &Node{Kind: 'S', Key: []byte{6, 4, 6, 15, 6}, Child: br}
	if got := Hex(Root(root)); got != "8aad789dff2f538bca5d8ea56e8abe10f4c7ba3a5dea95fea4cd6e7c3a1168d3" {
		return fmt.Errorf("doe/dog/dogglesworth root %s", got)
	}
	// {A: 50 x 'a'}
	a50 := bytes.Repeat([]byte("a"), 50)
	if got := Hex(Root(leaf(KeyToHex([]byte("A")), string(a50)))); got != "d23786fb4a010da3ce639d66d5e904a11dbc02746d1ce25029e53290cabf28ab" {
		return fmt.Errorf("single long leaf root %s", got)
	}
	// hex-prefix round trips and the Yellow Paper's examples
	for _, c := range []struct{ hex, compact []byte }{
		{[]byte{1, 2, 3, 4, 5}, []byte{0x11, 0x23, 0x45}},
		{[]byte{0, 1, 2, 3, 4, 5}, []byte{0x00, 0x01, 0x23, 0x45}},
		{[]byte{0, 15, 1, 12, 11, 8, 16}, []byte{0x20, 0x0f, 0x1c, 0xb8}},
		{[]byte{15, 1, 12, 11, 8, 16}, []byte{0x3f, 0x1c, 0xb8}},
		{[]byte{16}, []byte{0x20}},
	} {
		if !bytes.Equal(HexToCompact(c.hex), c.compact) {
			return fmt.Errorf("HexToCompact(%v) = %x", c.hex, HexToCompact(c.hex))
		}
		back, err := CompactToHex(c.compact)
		if err != nil || !bytes.Equal(back, c.hex) {
			return fmt.Errorf("CompactToHex(%x) = %v %v", c.compact, back, err)
		}
	}
	// RLP: canonical examples
	if !bytes.Equal(EncStr([]byte("dog")), []byte{0x83, 'd', 'o', 'g'}) || !bytes.Equal(EncUint(1024), []byte{0x82, 4, 0}) ||
		!bytes.Equal(EncList(EncStr([]byte("cat")), EncStr([]byte("dog"))), []byte{0xc8, 0x83, 'c', 'a', 't', 0x83, 'd', 'o', 'g'}) {
		return fmt.Errorf("rlp examples")
	}
	long := bytes.Repeat([]byte{7}, 60)
	k, content, rest, err := Split(EncStr(long))
	if err != nil || k != KindStr || !bytes.Equal(content, long) || len(rest) != 0 {
		return fmt.Errorf("rlp long string round trip")
	}
	// the decoder reads back what the encoder wrote
	store := map[string][]byte{}
	var put func(n *Node) []byte
	put = func(n *Node) []byte {
		enc := Encode(n)
		if n.Kind == 'S' && n.Child.Kind != 'V' {
			put(n.Child)
		}
		if n.Kind == 'F' {
			for i := 0; i < 16; i++ {
				if n.Ch[i] != nil {
					put(n.Ch[i])
				}
			}
		}
		store[string(Keccak(enc))] = enc
		return Keccak(enc)
	}
	h := put(root)
	back, err := DecodeStored(h, func(k []byte) ([]byte, bool) { b, ok := store[string(k)]; return b, ok })
	if err != nil || !bytes.Equal(Root(back), h) {
		return fmt.Errorf("decode of the encoded vector trie: %v", err)
	}
	return nil
}
