// Package codecutil holds helpers shared by the pure-function drivers
// (c07, c08, c09, c18): byte slices as JSON arrays of small ints, calls under
// recover, allocation metering, reading TLC-generated case files.
package codecutil

import (
	"encoding/json"
	"fmt"
	"os"
	"runtime"

	"verif/harness/internal/vutil"
)

// Ints renders a byte slice as a JSON array of small integers (never null).
func Ints(b []byte) []int {
	out := make([]int, len(b))
	for i, x := range b {
		out[i] = int(x)
	}
	return out
}

// FromInts is the inverse of Ints.
func FromInts(a []int) []byte {
	out := make([]byte, len(a))
	for i, x := range a {
		out[i] = byte(x)
	}
	return out
}

// Try runs f and reports whether it panicked (with the panic text).
func Try(f func()) (panicked bool, msg string) {
	defer func() {
		if r := recover(); r != nil {
			panicked = true
			msg = fmt.Sprint(r)
			if len(msg) > 200 {
				msg = msg[:200]
			}
		}
	}()
	f()
	return false, ""
}

// AllocMeter measures bytes allocated by the process between Start and Stop.
type AllocMeter struct{ m0, m1 runtime.MemStats }

func (a *AllocMeter) Start() { runtime.ReadMemStats(&a.m0) }

// Stop returns the bytes allocated since Start, capped below 2^31.
func (a *AllocMeter) Stop() int {
	runtime.ReadMemStats(&a.m1)
	d := a.m1.TotalAlloc - a.m0.TotalAlloc
	if d > 2000000000 {
		d = 2000000000
	}
	return int(d)
}

// ReadCases loads a JSON array of TLC-generated cases.
func ReadCases(path string, into interface{}) {
	if path == "" {
		return
	}
	b, err := os.ReadFile(path)
	if err != nil {
		vutil.Fatalf("read cases: %v", err)
	}
	if err := json.Unmarshal(b, into); err != nil {
		vutil.Fatalf("parse cases %s: %v", path, err)
	}
}
