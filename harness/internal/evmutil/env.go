package evmutil

import (
	"fmt"
	"math/big"

	"com.tuntun.rangers/node/src/common"
	"com.tuntun.rangers/node/src/middleware/db"
	"com.tuntun.rangers/node/src/storage/account"
	"com.tuntun.rangers/node/src/vm"
	"verif/harness/internal/vutil"
)

// Boot initialises the node services the EVM's custom opcodes and precompiles
// use (dev configuration, see vutil.BootServices) under dir.
func Boot(dir string) { vutil.BootServices(dir) }

// NewState returns an empty AccountDB over a private in-memory key/value store.
func NewState() *account.AccountDB {
	mem, err := db.NewMemDatabase()
	if err != nil {
		vutil.Fatalf("mem database: %v", err)
	}
	st, err := account.NewAccountDB(common.Hash{}, account.NewDatabase(mem))
	if err != nil {
		vutil.Fatalf("account db: %v", err)
	}
	return st
}

// Addr is the driver's id -> address mapping (ids are small integers >= 1;
// 0x1000+id keeps clear of the precompile range).
func Addr(id int) common.Address { return addrOf(uint64(0x1000 + id)) }

// addrOf is the 20-byte big-endian address of a small number (what a PUSH of
// that number denotes in the EVM). common.BytesToAddress left-aligns short
// inputs, so the array is filled explicitly.
func addrOf(x uint64) common.Address {
	var a common.Address
	for i := 0; i < 8; i++ {
		a[19-i] = byte(x >> (8 * uint(i)))
	}
	return a
}

// AddrID inverts Addr for addresses of the universe 1..n, else 0.
func AddrID(a common.Address, n int) int {
	for i := 1; i <= n; i++ {
		if Addr(i) == a {
			return i
		}
	}
	return 0
}

var Origin = addrOf(0xabcdef)

// NewEVM builds an EVM the way executor.contractExecutor does, for a block of
// the given height (the height selects the jump table through
// common.LocalChainConfig; IsProposalNNN() reads the process-global height).
func NewEVM(st *account.AccountDB, height uint64, gasLimit uint64) *vm.EVM {
	common.SetBlockHeight(height)
	ctx := vm.Context{
		CanTransfer: vm.CanTransfer,
		Transfer:    vm.Transfer,
		GetHash:     func(n uint64) common.Hash { return common.BytesToHash([]byte(fmt.Sprintf("block-%d", n))) },
		Origin:      Origin,
		GasPrice:    big.NewInt(1),
		Coinbase:    addrOf(0xc0ffee),
		GasLimit:    gasLimit,
		BlockNumber: new(big.Int).SetUint64(height),
		Time:        big.NewInt(1700000000),
		Difficulty:  big.NewInt(123),
	}
	return vm.NewEVMWithNFT(ctx, st, st)
}

// ErrClass maps an EVM error to a small closed vocabulary. Anything the
// vocabulary does not know is reported as "other:<text>".
func ErrClass(err error) string {
	if err == nil {
		return ""
	}
	switch err {
	case vm.ErrExecutionReverted:
		return "revert"
	case vm.ErrOutOfGas:
		return "oog"
	case vm.ErrCodeStoreOutOfGas:
		return "codestore"
	case vm.ErrDepth:
		return "depth"
	case vm.ErrInsufficientBalance:
		return "balance"
	case vm.ErrContractAddressCollision:
		return "collision"
	case vm.ErrMaxCodeSizeExceeded:
		return "codesize"
	case vm.ErrInvalidJump:
		return "jump"
	case vm.ErrWriteProtection:
		return "write"
	case vm.ErrReturnDataOutOfBounds:
		return "returndata"
	case vm.ErrGasUintOverflow:
		return "gasoverflow"
	}
	switch err.(type) {
	case *vm.ErrStackUnderflow:
		return "underflow"
	case *vm.ErrStackOverflow:
		return "overflow"
	case *vm.ErrInvalidOpCode:
		return "opcode"
	}
	return "other:" + err.Error()
}
