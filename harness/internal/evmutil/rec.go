package evmutil

import (
	"bytes"

	"com.tuntun.rangers/node/src/middleware/types"
	"com.tuntun.rangers/node/src/vm"
	"github.com/holiman/uint256"
	"golang.org/x/crypto/sha3"
	"verif/harness/internal/vutil"
)

// WordDigits encodes a 256-bit word the way spec/EvmWord.tla represents it:
// little-endian bytes without high-order zeros (zero = []).
func WordDigits(u *uint256.Int) []int {
	b := u.Bytes32()
	n := 32
	for n > 0 && b[32-n] == 0 {
		n--
	}
	out := make([]int, n)
	for i := 0; i < n; i++ {
		out[i] = int(b[31-i])
	}
	return out
}

// BytesDigits encodes a big-endian byte string as a word (same representation).
func BytesDigits(b []byte) []int {
	var u uint256.Int
	u.SetBytes(b)
	return WordDigits(&u)
}

// ByteInts encodes a byte string in memory order.
func ByteInts(b []byte) []int {
	out := make([]int, len(b))
	for i, x := range b {
		out[i] = int(x)
	}
	return out
}

// GasDigits encodes a gas amount as BigNat digits in base 256 (little-endian,
// canonical, zero = []): TLC's integers are 32-bit, gas is a uint64.
func GasDigits(g uint64) []int {
	out := []int{}
	for g > 0 {
		out = append(out, int(g&0xff))
		g >>= 8
	}
	return out
}

func Keccak(b []byte) []byte {
	h := sha3.NewLegacyKeccak256()
	h.Write(b)
	return h.Sum(nil)
}

// Options select what the recorder logs.
type Options struct {
	Values     bool // stack words, memory image, return data after every step (C10)
	Gas        bool // gas before / cost / after charge / after execution (C11)
	Frames     bool // Enter / Exit events for every interpreter frame
	MaxMem     int  // memory images larger than this are logged by length only
	MaxSteps   int  // stop logging Step events of a run after this many (Faults are always logged)
	MaxFrames  int  // stop logging Enter/Exit pairs of a run after this many frames
	MaxFaults  int  // stop logging Fault events of a run after this many
	StepBound  bool // emit one StepBound event when MaxSteps is reached (monitors that chain steps stop judging the run there)
	HardSteps  int  // executed steps of a run after which Cancel is called (runaway guard), 0 = none
	EnterExtra func(f *vm.VerifFrame) map[string]interface{}
	ExitExtra  func(f *vm.VerifFrame, err error, logs []*types.Log) map[string]interface{}
	StepFilter func(depth int, op byte) bool // when set, only steps it accepts are logged
}

type pending struct {
	pc, op           int
	g0, cost, g1, g2 uint64
	sl0, sl1         int
	ml0, ml1         int
	charged, done    bool
	ro               bool
	pg               uint64 // gas when the previous step of the frame ended
	err              error
	stack            [][]int
	memPre           []byte
	mem              []byte
	rdPre, rd        []byte
	aux              []int
	auxin            []byte
	operands         []uint256.Int
}

type frame struct {
	depth   int
	logged  bool
	static  bool // the frame or one of its ancestors was entered with the static argument
	p       *pending
	steps   int
	lastGas uint64 // gas when the previous step of this frame ended (entry gas before the first)
}

// Recorder implements vm.VerifObserver and writes one event per completed
// step ("Step"), per step that ended its frame with an error ("Fault") and,
// optionally, per frame entry and exit.
type Recorder struct {
	T            *vutil.Trace
	Opt          Options
	frames       []*frame
	Steps        int // steps seen in the current run (all depths)
	Logged       int
	FramesLogged int
	FaultsLogged int
	FramesSeen   int
	Truncated    bool // some step or frame of the current run was not logged
	PanicOp      int  // opcode whose execute did not return (a panic unwound the frame), else -1
	MaxMem       int  // largest memory length seen in the current run
	SkipSteps    int  // Values mode: do not log the first SkipSteps completed steps of the outermost frame of this run; the
	// SkipSteps-th is replaced by one Sync event carrying the complete observed state (set after BeginRun)
	skipped    int
	LastRetLen map[int]int // depth -> length of what the last frame that exited at that depth returned
	Cancel     func()      // aborts the running EVM (EVM.Cancel); called once when HardSteps is exceeded
	Cancelled  bool
	boundSaid  bool
	// statistics over the whole life of the recorder
	OpCount    map[int]int
	FaultCount map[string]int
	MaxDepth   int
	Run        int // id of the current run, copied into every event
	// stack (top first) and memory after the last completed step of the outermost frame (Values only)
	LastStack [][]int
	LastMem   []byte
}

func NewRecorder(t *vutil.Trace, opt Options) *Recorder {
	return &Recorder{T: t, Opt: opt, OpCount: map[int]int{}, FaultCount: map[string]int{}}
}

// Install makes the recorder the interpreter's observer.
func (r *Recorder) Install() { vm.VerifSetObserver(r) }

// BeginRun resets the per-run state (call before every EVM.Call/Create).
func (r *Recorder) BeginRun(id int) {
	r.frames = r.frames[:0]
	r.Steps, r.Logged, r.Run = 0, 0, id
	r.FramesLogged, r.FramesSeen, r.Truncated, r.FaultsLogged = 0, 0, false, 0
	r.PanicOp = -1
	r.Cancelled, r.boundSaid = false, false
	r.SkipSteps, r.skipped = 0, 0
	r.MaxMem = 0
	r.LastStack, r.LastMem = [][]int{}, nil
}

// InStatic tells whether the innermost open frame is in static context by the
// recorder's own bookkeeping (static argument of the frame or of an ancestor),
// independently of the interpreter's readOnly flag.
func (r *Recorder) InStatic() bool {
	if fr := r.top(); fr != nil {
		return fr.static
	}
	return false
}

// Depth is the current interpreter depth (0 outside any frame).
func (r *Recorder) Depth() int { return len(r.frames) }

func (r *Recorder) top() *frame {
	if len(r.frames) == 0 {
		return nil
	}
	return r.frames[len(r.frames)-1]
}

func (r *Recorder) FrameEnter(f *vm.VerifFrame) {
	r.frames = append(r.frames, &frame{depth: f.Depth, lastGas: f.Gas, static: f.StaticArg || r.InStatic()})
	if f.Depth > r.MaxDepth {
		r.MaxDepth = f.Depth
	}
	r.FramesSeen++
	if r.Opt.Frames && r.Opt.MaxFrames > 0 && r.FramesLogged >= r.Opt.MaxFrames {
		r.Truncated = true
	} else if r.Opt.Frames {
		r.FramesLogged++
		r.top().logged = true
		ev := map[string]interface{}{"event": "Enter", "run": r.Run, "depth": f.Depth, "static": f.StaticArg,
			"ro": r.top().static, "iro": f.ReadOnly, "gas": GasDigits(f.Gas), "codeLen": len(f.Code), "nframes": len(r.frames),
			"value0": f.Value == nil || f.Value.Sign() == 0, "pop": -1, "pg1": []int{}, "pg0": []int{}, "pcost": []int{}}
		if len(r.frames) >= 2 {
			if pp := r.frames[len(r.frames)-2].p; pp != nil && pp.charged {
				ev["pop"], ev["pg1"] = pp.op, GasDigits(pp.g1)
				ev["pg0"], ev["pcost"] = GasDigits(pp.g0), GasDigits(pp.cost)
			}
		}
		if r.Opt.EnterExtra != nil {
			for k, v := range r.Opt.EnterExtra(f) {
				ev[k] = v
			}
		}
		r.T.Emit(ev)
	}
}

func (r *Recorder) FrameExit(f *vm.VerifFrame, ret []byte, logs []*types.Log, err error) {
	fr := r.top()
	if r.LastRetLen == nil {
		r.LastRetLen = map[int]int{}
	}
	r.LastRetLen[f.Depth] = len(ret)
	if fr != nil && fr.p != nil {
		r.flush(fr, -1, err, ret, f.Gas)
	}
	if r.Opt.Frames && fr != nil && fr.logged {
		ev := map[string]interface{}{"event": "Exit", "run": r.Run, "depth": f.Depth, "static": f.StaticArg,
			"ro": fr.static, "iro": f.ReadOnly, "gas": GasDigits(f.Gas), "err": ErrClass(err), "retLen": len(ret), "nlogs": len(logs),
			"nframes": len(r.frames), "steps": 0}
		if fr != nil {
			ev["steps"] = fr.steps
		}
		if r.Opt.ExitExtra != nil {
			for k, v := range r.Opt.ExitExtra(f, err, logs) {
				ev[k] = v
			}
		}
		r.T.Emit(ev)
	}
	if len(r.frames) > 0 {
		r.frames = r.frames[:len(r.frames)-1]
	}
}

func (r *Recorder) StepFetched(s *vm.VerifStep) {
	fr := r.top()
	if fr == nil {
		return
	}
	if fr.p != nil {
		r.flush(fr, int(s.Pc), nil, nil, s.Gas)
	}
	r.Steps++
	fr.steps++
	if r.Opt.HardSteps > 0 && r.Steps > r.Opt.HardSteps && !r.Cancelled {
		r.Cancelled = true
		if r.Cancel != nil {
			r.Cancel()
		}
	}
	r.OpCount[int(s.Op)]++
	p := &pending{pc: int(s.Pc), op: int(s.Op), g0: s.Gas, sl0: len(s.Stack), ml0: len(s.Mem), ro: s.ReadOnly, pg: fr.lastGas}
	if r.Opt.Values {
		p.memPre = append([]byte(nil), s.Mem...)
		p.rdPre = append([]byte(nil), s.ReturnData...)
		n := len(s.Stack)
		if n > 4 {
			n = 4
		}
		p.operands = make([]uint256.Int, n) // top first
		for i := 0; i < n; i++ {
			p.operands[i] = s.Stack[len(s.Stack)-1-i]
		}
	}
	fr.p = p
}

func (r *Recorder) StepCharged(s *vm.VerifStep) {
	fr := r.top()
	if fr == nil || fr.p == nil {
		return
	}
	p := fr.p
	p.charged, p.cost, p.g1, p.ml1 = true, s.Cost, s.Gas, len(s.Mem)
	if len(s.Mem) > r.MaxMem {
		r.MaxMem = len(s.Mem)
	}
	if r.Opt.Values && p.op == SHA3 && len(p.operands) >= 2 {
		// digest of the slice of the (already expanded) memory selected by the
		// operands; KECCAK256 itself is out of TLA+'s reach
		off, size := p.operands[0].Uint64(), p.operands[1].Uint64()
		var data []byte
		if size > 0 && off+size <= uint64(len(s.Mem)) {
			data = s.Mem[off : off+size]
		}
		p.aux = BytesDigits(Keccak(data))
		p.auxin = append([]byte(nil), data...)
	}
}

func (r *Recorder) StepDone(s *vm.VerifStep, res []byte, err error) {
	fr := r.top()
	if fr == nil || fr.p == nil {
		return
	}
	p := fr.p
	p.done, p.err, p.g2, p.sl1, p.ml1 = true, err, s.Gas, len(s.Stack), len(s.Mem)
	if r.Opt.Values {
		p.stack = make([][]int, len(s.Stack))
		for i := range s.Stack {
			p.stack[i] = WordDigits(&s.Stack[len(s.Stack)-1-i])
		}
		p.mem = append([]byte(nil), s.Mem...)
		p.rd = append([]byte(nil), s.ReturnData...)
		if fr.depth == 1 {
			r.LastStack, r.LastMem = p.stack, p.mem
		}
	}
}

// flush emits the pending step of fr. npc is the pc of the next step of the
// same frame, or -1 when the frame ended after this step.
func (r *Recorder) flush(fr *frame, npc int, exitErr error, ret []byte, gasNow uint64) {
	p := fr.p
	fr.p = nil
	if p.done {
		fr.lastGas = p.g2
	} else {
		fr.lastGas = gasNow
	}
	if p.done && p.err == nil && r.Opt.Values && fr.depth == 1 && r.skipped < r.SkipSteps {
		// the prefix of the run that is not recorded step by step
		r.skipped++
		if r.skipped == r.SkipSteps {
			r.T.Emit(map[string]interface{}{"event": "Sync", "run": r.Run, "depth": 1, "skipped": r.skipped, "npc": npc,
				"stack": p.stack, "mem": ByteInts(p.mem), "rd": ByteInts(p.rd)})
		}
		return
	}
	if p.done && p.err == nil {
		// completed steps that will not be logged: decide before building the event
		if r.Opt.MaxSteps > 0 && r.Logged >= r.Opt.MaxSteps {
			r.Truncated = true
			if r.Opt.StepBound && !r.boundSaid {
				r.boundSaid = true
				r.T.Emit(map[string]interface{}{"event": "StepBound", "run": r.Run, "depth": fr.depth, "logged": r.Logged})
			}
			return
		}
		if r.Opt.StepFilter != nil && !r.Opt.StepFilter(fr.depth, byte(p.op)) {
			return
		}
	}
	prevGas := p.pg
	ev := map[string]interface{}{"run": r.Run, "depth": fr.depth, "pc": p.pc, "op": p.op, "npc": npc,
		"sl0": p.sl0, "ml0": p.ml0, "ro": p.ro}
	completed := p.done && p.err == nil
	if completed {
		ev["event"] = "Step"
		ev["sl1"], ev["ml1"] = p.sl1, p.ml1
		halt := ""
		if npc < 0 {
			if exitErr == nil {
				halt = "halt"
			} else if exitErr == vm.ErrExecutionReverted {
				halt = "revert"
			} else {
				halt = "other:" + ErrClass(exitErr)
			}
		}
		ev["halt"] = halt
		if r.Opt.Values {
			ev["ret"] = ByteInts(ret)
		} else {
			ev["retLen"] = len(ret)
		}
	} else {
		ev["event"] = "Fault"
		stage := "pre"
		if p.done {
			stage = "exec"
		} else if p.charged {
			stage = "charged" // execute did not return: a panic is unwinding the frame
			if r.PanicOp < 0 {
				r.PanicOp = p.op
			}
		}
		ev["stage"] = stage
		e := exitErr
		if p.done {
			e = p.err
		}
		c := ErrClass(e)
		ev["err"] = c
		r.FaultCount[c]++
	}
	if r.Opt.Gas {
		ev["pg"] = GasDigits(prevGas)
		ev["g0"] = GasDigits(p.g0)
		if p.charged {
			ev["cost"], ev["g1"] = GasDigits(p.cost), GasDigits(p.g1)
		} else {
			ev["cost"], ev["g1"] = []int{}, []int{}
		}
		if p.done {
			ev["g2"] = GasDigits(p.g2)
		} else {
			ev["g2"] = GasDigits(gasNow)
		}
		ev["charged"] = p.charged
	}
	if r.Opt.Values {
		if completed {
			ev["stack"] = p.stack
			memc := !bytes.Equal(p.memPre, p.mem)
			ev["memc"] = memc
			if memc && (r.Opt.MaxMem == 0 || len(p.mem) <= r.Opt.MaxMem) {
				ev["mem"] = ByteInts(p.mem)
			} else {
				ev["mem"] = []int{}
			}
			ev["memBig"] = memc && r.Opt.MaxMem > 0 && len(p.mem) > r.Opt.MaxMem
			rdc := !bytes.Equal(p.rdPre, p.rd)
			ev["rdc"] = rdc
			if rdc {
				ev["rd"] = ByteInts(p.rd)
			} else {
				ev["rd"] = []int{}
			}
			if p.aux != nil {
				ev["aux"] = p.aux
			} else {
				ev["aux"] = []int{}
			}
			ev["auxin"] = ByteInts(p.auxin)
		}
	}
	if completed && r.Opt.MaxSteps > 0 && r.Logged >= r.Opt.MaxSteps {
		r.Truncated = true
		return
	}
	if !completed {
		if r.Opt.MaxFaults > 0 && r.FaultsLogged >= r.Opt.MaxFaults {
			r.Truncated = true
			return
		}
		r.FaultsLogged++
	}
	if r.Opt.StepFilter != nil && completed && !r.Opt.StepFilter(fr.depth, byte(p.op)) {
		return
	}
	r.Logged++
	r.T.Emit(ev)
}
