// Package evmutil holds what the EVM conformance drivers (c10, c11, c12)
// share: a small assembler, the offline EVM environment on a real AccountDB,
// and the recorder that turns hook H6 reports into ndjson events.
package evmutil

import "fmt"

// Opcodes used by the drivers (byte values).
const (
	STOP, ADD, MUL, SUB, DIV, SDIV, MOD, SMOD, ADDMOD, MULMOD, EXP, SIGNEXTEND = 0x00, 0x01, 0x02, 0x03, 0x04, 0x05, 0x06, 0x07, 0x08, 0x09, 0x0a, 0x0b
	LT, GT, SLT, SGT, EQ, ISZERO, AND, OR, XOR, NOT, BYTE, SHL, SHR, SAR       = 0x10, 0x11, 0x12, 0x13, 0x14, 0x15, 0x16, 0x17, 0x18, 0x19, 0x1a, 0x1b, 0x1c, 0x1d
	SHA3                                                                       = 0x20
	ADDRESS, BALANCE, ORIGIN, CALLER, CALLVALUE                                = 0x30, 0x31, 0x32, 0x33, 0x34
	CALLDATALOAD, CALLDATASIZE, CALLDATACOPY, CODESIZE, CODECOPY               = 0x35, 0x36, 0x37, 0x38, 0x39
	GASPRICE, EXTCODESIZE, EXTCODECOPY, RETURNDATASIZE, RETURNDATACOPY         = 0x3a, 0x3b, 0x3c, 0x3d, 0x3e
	EXTCODEHASH, BLOCKHASH, SELFBALANCE                                        = 0x3f, 0x40, 0x47
	POP, MLOAD, MSTORE, MSTORE8, SLOAD, SSTORE, JUMP, JUMPI, PC, MSIZE, GAS    = 0x50, 0x51, 0x52, 0x53, 0x54, 0x55, 0x56, 0x57, 0x58, 0x59, 0x5a
	JUMPDEST, TLOAD, TSTORE, MCOPY, PUSH0, PUSH1, PUSH2, PUSH32                = 0x5b, 0x5c, 0x5d, 0x5e, 0x5f, 0x60, 0x61, 0x7f
	DUP1, SWAP1, LOG0, LOG1                                                    = 0x80, 0x90, 0xa0, 0xa1
	CREATE, CALL, CALLCODE, RETURN, DELEGATECALL, CREATE2, STATICCALL          = 0xf0, 0xf1, 0xf2, 0xf3, 0xf4, 0xf5, 0xfa
	REVERT, INVALID, SELFDESTRUCT                                              = 0xfd, 0xfe, 0xff
)

// Asm builds byte code. Labels are resolved to PUSH2 operands by Bytes.
type Asm struct {
	b      []byte
	labels map[string]int
	fixes  map[int]string
}

func NewAsm() *Asm { return &Asm{labels: map[string]int{}, fixes: map[int]string{}} }

func (a *Asm) Len() int { return len(a.b) }

// Op appends raw bytes (opcodes or data).
func (a *Asm) Op(ops ...byte) *Asm { a.b = append(a.b, ops...); return a }

// Push appends the shortest PUSHn (n >= 1) of the big-endian value v.
func (a *Asm) Push(v []byte) *Asm {
	for len(v) > 1 && v[0] == 0 {
		v = v[1:]
	}
	if len(v) == 0 {
		v = []byte{0}
	}
	if len(v) > 32 {
		panic("push wider than 32 bytes")
	}
	a.b = append(a.b, byte(PUSH1+len(v)-1))
	a.b = append(a.b, v...)
	return a
}

// PushN appends PUSHn with exactly n data bytes (v left-padded or truncated on the left).
func (a *Asm) PushN(n int, v []byte) *Asm {
	d := make([]byte, n)
	if len(v) > n {
		v = v[len(v)-n:]
	}
	copy(d[n-len(v):], v)
	a.b = append(a.b, byte(PUSH1+n-1))
	a.b = append(a.b, d...)
	return a
}

func (a *Asm) PushInt(x uint64) *Asm {
	var v []byte
	for ; x > 0; x >>= 8 {
		v = append([]byte{byte(x)}, v...)
	}
	return a.Push(v)
}

// Label places a JUMPDEST and names its offset.
func (a *Asm) Label(name string) *Asm {
	a.labels[name] = len(a.b)
	a.b = append(a.b, JUMPDEST)
	return a
}

// Mark names the current offset without emitting anything.
func (a *Asm) Mark(name string) *Asm { a.labels[name] = len(a.b); return a }

// PushLabel appends PUSH2 <offset of name>.
func (a *Asm) PushLabel(name string) *Asm {
	a.b = append(a.b, PUSH2, 0, 0)
	a.fixes[len(a.b)-2] = name
	return a
}

func (a *Asm) Bytes() []byte {
	out := append([]byte(nil), a.b...)
	for at, name := range a.fixes {
		off, ok := a.labels[name]
		if !ok {
			panic(fmt.Sprintf("undefined label %s", name))
		}
		out[at], out[at+1] = byte(off>>8), byte(off)
	}
	return out
}
