package vutil

import (
	"os"

	"com.tuntun.rangers/node/src/common"
	"com.tuntun.rangers/node/src/middleware/db"
	"com.tuntun.rangers/node/src/middleware/mysql"
	"com.tuntun.rangers/node/src/middleware/notify"
	"com.tuntun.rangers/node/src/middleware/types"
)

var minimalInit bool

// FreshStores points the process at a new, empty store directory: the shared
// LevelDB singleton and the sqlite index are closed and re-created under dir.
// Only what the group chain needs is initialised (config, serialization, bus,
// sqlite); callers that need the full node use BootChain in a new process.
func FreshStores(dir string) {
	if minimalInit {
		if d, err := db.NewDatabase("x"); err == nil {
			d.Close()
		}
		mysql.CloseMysql()
	}
	if err := os.MkdirAll(dir, 0755); err != nil {
		Fatalf("mkdir %s: %v", dir, err)
	}
	if err := os.Chdir(dir); err != nil {
		Fatalf("chdir %s: %v", dir, err)
	}
	if !minimalInit {
		common.Init(0, "x.ini", "dev")
		types.InitSerialzation()
		notify.BUS = notify.NewBus()
		minimalInit = true
	}
	mysql.InitMySql()
}
