package vutil

import (
	"errors"

	xdb "com.tuntun.rangers/node/src/middleware/db"
	"github.com/syndtr/goleveldb/leveldb/iterator"
)

// ReadOnlyDB adapts a read-only view of a store to the xdb.Database interface
// so that a *fresh* trie/account cache can be opened over the disk content of
// the running node (cold read: nothing cached in memory is visible).
type ReadOnlyDB struct {
	R interface {
		Get(key []byte) ([]byte, error)
		Has(key []byte) (bool, error)
	}
}

var errReadOnly = errors.New("verif: read-only store")

func (d *ReadOnlyDB) Put(key []byte, value []byte) error { return errReadOnly }
func (d *ReadOnlyDB) Get(key []byte) ([]byte, error)     { return d.R.Get(key) }
func (d *ReadOnlyDB) Has(key []byte) (bool, error)       { return d.R.Has(key) }
func (d *ReadOnlyDB) Delete(key []byte) error            { return errReadOnly }
func (d *ReadOnlyDB) Close()                             {}
func (d *ReadOnlyDB) NewBatch() xdb.Batch                { return &roBatch{} }
func (d *ReadOnlyDB) NewIterator() iterator.Iterator     { return iterator.NewEmptyIterator(nil) }
func (d *ReadOnlyDB) NewIteratorWithPrefix(prefix []byte) iterator.Iterator {
	return iterator.NewEmptyIterator(nil)
}

type roBatch struct{}

func (b *roBatch) Put(key, value []byte) error { return errReadOnly }
func (b *roBatch) Delete(key []byte) error     { return errReadOnly }
func (b *roBatch) Write() error                { return errReadOnly }
func (b *roBatch) ValueSize() int              { return 0 }
func (b *roBatch) Reset()                      {}
