// Package vutil holds what every conformance driver shares: the ndjson trace
// writer, seeded randomness, and the offline boot of the node's services.
package vutil

import (
	"bufio"
	"encoding/json"
	"fmt"
	"math/rand"
	"os"
	"strconv"
)

// Trace is an ndjson event log consumed by a TLA+ trace specification
// (Json!ndJsonDeserialize). One JSON object per line; every object carries
// "event". Values must be JSON numbers < 2^31, strings, arrays or objects.
type Trace struct {
	f *os.File
	w *bufio.Writer
	N int
	// AutoFlush writes every event through to the file at once (for drivers whose
	// process may die inside the code under test).
	AutoFlush bool
}

func NewTrace(path string) *Trace {
	f, err := os.Create(path)
	if err != nil {
		Fatalf("create trace: %v", err)
	}
	return &Trace{f: f, w: bufio.NewWriterSize(f, 1<<20)}
}

func (t *Trace) Emit(ev map[string]interface{}) {
	b, err := json.Marshal(ev)
	if err != nil {
		Fatalf("marshal event: %v", err)
	}
	t.w.Write(b)
	t.w.WriteByte('\n')
	t.N++
	if t.AutoFlush {
		t.w.Flush()
	}
}

func (t *Trace) Close() {
	t.w.Flush()
	t.f.Close()
}

// Fatalf reports a harness failure (never a property violation): exit code 2.
func Fatalf(format string, a ...interface{}) {
	fmt.Fprintf(os.Stderr, "HARNESS-ERROR: "+format+"\n", a...)
	os.Exit(2)
}

func Seed() int64 {
	s := os.Getenv("VERIF_SEED")
	if s == "" {
		return 1
	}
	n, err := strconv.ParseInt(s, 10, 64)
	if err != nil {
		return 1
	}
	return n
}

func Rng(salt int64) *rand.Rand {
	return rand.New(rand.NewSource(Seed()*1000003 + salt))
}

// WriteJSON writes v as indented JSON.
func WriteJSON(path string, v interface{}) {
	b, err := json.MarshalIndent(v, "", " ")
	if err != nil {
		Fatalf("marshal %s: %v", path, err)
	}
	if err := os.WriteFile(path, b, 0644); err != nil {
		Fatalf("write %s: %v", path, err)
	}
}
