package vutil

import (
	"math/big"
	"os"

	"com.tuntun.rangers/node/src/common"
	"com.tuntun.rangers/node/src/consensus/logical/group_create"
	"com.tuntun.rangers/node/src/core"
	"com.tuntun.rangers/node/src/middleware"
	"com.tuntun.rangers/node/src/middleware/types"
	"com.tuntun.rangers/node/src/service"
	"com.tuntun.rangers/node/src/vm"
)

// StubHelper is the ConsensusHelper the harness boots the chain with: the
// node's real dev genesis group, and consensus checks that accept everything
// (block/group signatures are the subject of C13-C16, not of the store
// properties).
type StubHelper struct {
	// CheckGroupFn, when set, decides CheckGroup.
	CheckGroupFn func(g *types.Group) (bool, error)
}

func (h *StubHelper) GenerateGenesisInfo() []*types.GenesisInfo { return group_create.GetGenesisInfo() }
func (h *StubHelper) VRFProve2Value(prove *big.Int) *big.Int {
	if prove == nil {
		return big.NewInt(0)
	}
	return new(big.Int).Set(prove)
}
func (h *StubHelper) ProposalBonus() *big.Int                       { return big.NewInt(0) }
func (h *StubHelper) PackBonus() *big.Int                           { return big.NewInt(0) }
func (h *StubHelper) VerifyHash(b *types.Block) common.Hash         { return b.Header.Hash }
func (h *StubHelper) CheckProveRoot(*types.BlockHeader) (bool, error) { return true, nil }
func (h *StubHelper) VerifyNewBlock(bh *types.BlockHeader, pre *types.BlockHeader) (bool, error) {
	return true, nil
}
func (h *StubHelper) VerifyBlockHeader(bh *types.BlockHeader) (bool, error) { return true, nil }
func (h *StubHelper) VerifyGroupSign(pk []byte, hash common.Hash, sign []byte) (bool, error) {
	return true, nil
}
func (h *StubHelper) CheckGroup(g *types.Group) (bool, error) {
	if h.CheckGroupFn != nil {
		return h.CheckGroupFn(g)
	}
	return true, nil
}
func (h *StubHelper) VerifyMemberInfo(bh *types.BlockHeader, pre *types.BlockHeader) (bool, error) {
	return true, nil
}
func (h *StubHelper) VerifyGroupForFork(g, pre, parent *types.Group, base *types.Block) (bool, error) {
	return true, nil
}

// BootServices changes into dir (created if needed) and initialises config,
// middleware, services and the EVM the way the node's main does, in the dev
// configuration. All stores live under dir/storage0.
func BootServices(dir string) {
	if err := os.MkdirAll(dir, 0755); err != nil {
		Fatalf("mkdir %s: %v", dir, err)
	}
	if err := os.Chdir(dir); err != nil {
		Fatalf("chdir %s: %v", dir, err)
	}
	common.Init(0, "x.ini", "dev")
	// With Proposal026Block = 0 the dev genesis itself cannot be created
	// (createGenesisContract runs out of gas once gas is multiplied); the
	// harness keeps P026 inactive unless a check lowers it after boot.
	common.LocalChainConfig.Proposal026Block = 1000000000
	middleware.InitMiddleware()
	service.InitService()
	vm.InitVM()
}

// BootChain = BootServices + block chain + group chain + executors.
func BootChain(dir string, helper types.ConsensusHelper) {
	BootServices(dir)
	if helper == nil {
		helper = &StubHelper{}
	}
	if err := core.VerifInitChain(helper); err != nil {
		Fatalf("init chain: %v", err)
	}
}
